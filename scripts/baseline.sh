#!/bin/sh
# Runs the repository's own test suite (both modules of the go.work workspace)
# with no build tags, i.e. with the verif guard OFF.  Usage: baseline.sh [repo]
set -e
REPO="${1:-/repo}"
export GOPROXY=off GOSUMDB=off GOTOOLCHAIN=local
unset GOFLAGS
rc=0
for m in . ./internal/dnsserver; do
	(cd "$REPO/$m" && go test -vet=off -count=1 -timeout 25m ./...) || rc=1
done
exit $rc
