#!/bin/sh
# usage: allchecks.sh -- runs every property's quick check on /repo and prints the ones that do not pass
bad=0
for p in $(/verif/bin/adgverif list); do
  out=$(/verif/bin/adgverif check -prop $p 2>&1); rc=$?
  if [ $rc -ne 0 ]; then bad=1; echo "$out" | grep -v KNOWN | tail -4 | cut -c1-400; fi
done
[ $bad -eq 0 ] && echo "all 20 quick checks pass"
exit $bad
