#!/bin/sh
# usage: allthorough.sh -- runs every property's thorough check on /repo (three build configurations each); slow (~25 min)
rc=0
for p in $(/verif/bin/adgverif list); do
  out=$(/verif/bin/adgverif check -prop $p -tier thorough 2>&1)
  echo "$out" | grep -a "tier=" | tail -1
  if echo "$out" | grep -aq "^VIOLATION"; then echo "$out" | grep -a -A1 "^VIOLATION" | cut -c1-400; rc=1; fi
done
[ $rc = 0 ] && echo "all thorough checks pass"
exit $rc
