#!/bin/sh
# usage: round_own.sh <round> -- with the live binary: the round's seeds that their own property's check does not fire on
N="$1"
for P in $(/verif/bin/adgverif list); do for x in a b; do
  f=/tmp/seed_out$N/$P/$x/patch.diff; [ -f $f ] || continue
  r=$(/verif/bin/adgverif mutant $P /repo $f | tail -1 | python3 -c "import json,sys; d=json.loads(sys.stdin.read()); print(d['status'], [y.split(' ')[0] for y in (d.get('fired') or [])][:2], d.get('why','')[:60])")
  case "$r" in fired*) ;; *) echo "$P-$x $r";; esac
done; done
