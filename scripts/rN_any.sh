#!/bin/sh
# usage: rN_any.sh <round> -- for every round-N seed not caught by its own property at first encounter
# (see ROUND<N>_first_encounter.log), report which other properties' checks catch it (appended to the log)
N="$1"
LOG=/verif/seeded/ROUND${N}_first_encounter.log
echo "# any-property view, checker=$(echo ${ADGVERIF_REV:-$(git -C /verif rev-parse --short HEAD)}):" >> $LOG
grep " silent " $LOG | awk '{print $1}' | sort -u | while read id; do
  P=${id%-*}; x=${id#*-}
  f=/tmp/seed_out$N/$P/$x/patch.diff
  [ -f "$f" ] || continue
  r=$(/verif/scripts/allprops.sh $f | tr '\n' ' ' | cut -c1-300)
  echo "#   $id also: ${r:-nothing}" | tee -a $LOG
done
