#!/bin/sh
# usage: rN.sh <round> Cnn -- first-encounter detection of the round-N seeds of property Cnn
# (appends to /verif/seeded/ROUND<N>_first_encounter.log; known findings of the unchanged tree do not count)
N="$1"; P="$2"
for x in a b; do
  f=/tmp/seed_out$N/$P/$x/patch.diff
  [ -f "$f" ] || continue
  r=$(${ADGVERIF:-/verif/bin/adgverif} mutant $P ${ADGREPO:-/repo} $f | tail -1)
  st=$(echo "$r" | python3 -c "import json,sys; d=json.loads(sys.stdin.read()); print(d.get('status'), [x.split(' ')[0] for x in (d.get('fired') or [])][:3], d.get('why',''))")
  echo "$P-$x checker=${ADGVERIF_REV:-$(git -C /verif rev-parse --short HEAD)} $st" | tee -a /verif/seeded/ROUND${N}_first_encounter.log
done
