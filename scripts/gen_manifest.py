#!/usr/bin/env python3
"""Regenerates /verif/MANIFEST.json from the table below and the list of
properties implemented by the checker binary (adgverif list)."""
import json, subprocess, sys

props = [json.loads(l) for l in open('/verif/properties.jsonl')]
implemented = subprocess.run(['/verif/bin/adgverif', 'list'], capture_output=True, text=True).stdout.split()

info = json.loads(subprocess.run(['/verif/bin/adgverif', 'list', '-json'], capture_output=True, text=True).stdout)
TABLE = {}
for pid, d in info.items():
    if not d['technique'] or d['text'] == 'wip':
        continue
    TABLE[pid] = (d['technique'],
                  'Structural clauses decided on every path of the current source (necessary conditions of the property, not the behavioural statement itself): ' + d['text'] + ' NOT covered: ' + d['not_covered'],
                  'Trusts go/types and go/ssa (x/tools v0.29.0) and the library primitives listed in DESIGN.md section 4. ' + ' '.join('Assumes ' + a + '.' for a in (d['assumptions'] or [])))
NA_REASON = {}

m = {
 'version': 1,
 'setup_cmd': 'cd /verif/checker && env -u GOWORK GOFLAGS=-mod=mod GOPROXY=off GOSUMDB=off GOTOOLCHAIN=local go build -o /verif/bin/adgverif .',
 'hooks': {'guard': 'verif', 'enable': 'none needed: the checks analyse the source of /repo as it is (default build configuration; thorough adds GOOS=darwin and GOOS=freebsd); no hook code exists in /repo',
           'baseline_off_cmd': '/verif/scripts/baseline.sh /repo', 'source_commits': [], 'add_only': True},
 'engines': [{'name': 'adgverif', 'path': '/verif/checker', 'serves_properties': sorted(set(implemented) & set(TABLE)),
              'kind_free_text': 'custom static analyser over go/packages + go/ssa: path/dominance rules, value-provenance dataflow, lock-held analysis, decision-table extraction, coverage rules'}],
 'checks': [], 'notes': 'Static analysis only; every claim is at level other (structural necessary conditions). See DESIGN.md sections 6-8.', 'not_applicable': [],
}
for p in props:
    pid = p['id']
    if pid in TABLE and pid in implemented:
        tech, text, note = TABLE[pid]
        m['checks'].append({
            'property_id': pid,
            'quick_cmd': '/verif/bin/adgverif check -prop %s -tier quick' % pid,
            'thorough_cmd': '/verif/bin/adgverif check -prop %s -tier thorough' % pid,
            'evidence_file': '/verif/evidence/%s.json' % pid,
            'replay_cmd_template': '/verif/bin/adgverif replay {path}',
            'engine': 'adgverif',
            'level_claimed': {'category': 'other', 'text': text, 'design_ref': 'DESIGN.md section 6, ' + pid},
            'level_note': note,
            'technique': tech,
        })
    else:
        m['not_applicable'].append({'property_id': pid, 'reason': NA_REASON.get(pid, 'rules of DESIGN.md section 6 for this property are not implemented yet (build in progress); nothing is claimed')})
json.dump(m, open('/verif/MANIFEST.json', 'w'), indent=1)
print('checks:', [c['property_id'] for c in m['checks']])
