#!/usr/bin/env python3
"""Imports confirmed sub-agent seeds into /verif/seeded.
usage: import_seeds.py <src root with Cnn/{a,b}> <confirmation dir with Cnn-x.json> <round> <first-encounter log> a:c b:d"""
import json, os, re, shutil, subprocess, sys
src, conf, rnd, felog = sys.argv[1:5]
ren = dict(x.split(':') for x in sys.argv[5:])
props = {json.loads(l)['id']: json.loads(l) for l in open('/verif/properties.jsonl')}
first = {}
for l in open(felog):
    m = re.match(r'(C\d\d)-([ab]) checker=(\S+) (\w+) (.*)', l.strip())
    if m:
        first[(m.group(1), m.group(2))] = {'checker': m.group(3), 'status': m.group(4), 'detail': m.group(5)}
base = subprocess.check_output(['git', '-C', '/repo', 'rev-parse', '--short', 'HEAD'], text=True).strip()
for P in sorted(props):
    for x, y in ren.items():
        d = os.path.join(src, P, x)
        cj = os.path.join(conf, f'{P}-{x}.json')
        if not (os.path.exists(os.path.join(d, 'patch.diff')) and os.path.exists(cj)):
            continue
        c = json.load(open(cj))
        if not c.get('confirmed'):
            print('NOT CONFIRMED', P, x)
            continue
        dst = f'/verif/seeded/{P}-{y}'
        if os.path.exists(dst):
            shutil.rmtree(dst)
        os.makedirs(dst)
        shutil.copy(os.path.join(d, 'patch.diff'), dst)
        if os.path.exists(os.path.join(d, 'NOTES.md')):
            shutil.copy(os.path.join(d, 'NOTES.md'), dst)
        shutil.copytree(os.path.join(d, 'demo'), os.path.join(dst, 'demo'))
        notes = open(os.path.join(d, 'NOTES.md')).read() if os.path.exists(os.path.join(d, 'NOTES.md')) else ''
        m = re.search(r'(?is)#+\s*what it needs[^\n]*\n(.*?)(?=\n#+\s|\Z)', notes)
        needs = m.group(1).strip() if m else ''
        out = subprocess.check_output(['/verif/bin/adgverif', 'mutant', P, '/repo', os.path.join(dst, 'patch.diff')], text=True).strip().splitlines()[-1]
        det = json.loads(out)
        fe = first.get((P, x), {})
        meta = {
            'id': f'{P}-{y}', 'property': P, 'property_title': props[P].get('title', ''), 'round': int(rnd),
            'origin': 'independent sub-agent given only the property text and a scratch worktree of /repo (and the functions earlier seeds had touched, to avoid repeats)',
            'base_commit': base,
            'what_it_needs_to_manifest': needs[:3000],
            'demo_paths': c.get('demo_paths'),
            'confirmed_by_me': {
                'how': 'scripts/confirm_seed.py: scratch git worktree of /repo; demo run without the patch (must pass); git apply patch.diff; go build of both modules; full existing suite of both modules (go test ./...); demo run with the patch (must fail as a test failure)',
                'builds': c['summary']['builds'], 'existing_suite_passes_with_patch': c['summary']['suite_passes_with'],
                'demo_passes_without_patch': c['summary']['demo_passes_without'], 'demo_fails_with_patch': c['summary']['demo_fails_with'],
                'confirmed': True},
            'first_encounter': {'note': 'verdict of the checker as it was before this change was seen (known findings of the unchanged tree do not count)',
                                'checker_commit': fe.get('checker'), 'status': fe.get('status'), 'detail': fe.get('detail')},
            'detection': {'checked_with': f'/verif/bin/adgverif mutant {P} /repo patch.diff (patch applied through the loader overlay; nothing written to /repo)',
                          'status': det.get('status'), 'rule_instances': det.get('fired')},
        }
        json.dump(meta, open(os.path.join(dst, 'meta.json'), 'w'), indent=1)
        print(P, y, det.get('status'), 'first:', fe.get('status'))
