#!/bin/sh
# usage: round_first.sh <round> -- first-encounter measurement (frozen binary /tmp/r<round>/bin/adgverif) for every
# delivered seed of the round that is not yet in the log
N="$1"; LOG=/verif/seeded/ROUND${N}_first_encounter.log; touch $LOG
export ADGVERIF=/tmp/r$N/bin/adgverif ADGVERIF_REV=$(cat /tmp/r$N/rev)
for P in $(/verif/bin/adgverif list); do
  [ -f /tmp/seed_out$N/$P/b/patch.diff ] && [ -f /tmp/seed_out$N/$P/a/patch.diff ] || continue
  grep -q "^$P-a " $LOG && continue
  /verif/scripts/rN.sh $N $P
done
