#!/usr/bin/env python3
"""Confirms one seeded change in a scratch git worktree of /repo:
   1. the patch applies and both modules build,
   2. the existing test suite of both modules passes with the patch,
   3. the demonstration fails with the patch and passes without it.
Usage: confirm_seed.py <seed dir with patch.diff, demo/, NOTES.md> <out meta.json> [--skip-suite]
The scratch worktree is removed afterwards."""
import json, os, re, shutil, subprocess, sys, tempfile

seed, out = sys.argv[1], sys.argv[2]
skip_suite = '--skip-suite' in sys.argv
env = dict(os.environ, GOPROXY='off', GOSUMDB='off', GOTOOLCHAIN='local')
env.pop('GOFLAGS', None)

def run(cmd, cwd, timeout=1500):
    p = subprocess.run(cmd, cwd=cwd, env=env, shell=True, capture_output=True, timeout=timeout)
    return p.returncode, (p.stdout + p.stderr).decode('utf-8', 'replace')[-3000:]

wt = tempfile.mkdtemp(prefix='seedwt_', dir='/tmp')
os.rmdir(wt)
meta = {'seed': seed, 'steps': {}}
try:
    rc, o = run(f'git -C /repo worktree add -q --detach {wt} HEAD', '/')
    assert rc == 0, o
    notes = open(os.path.join(seed, 'NOTES.md')).read() if os.path.exists(os.path.join(seed, 'NOTES.md')) else ''
    demos = sorted(os.listdir(os.path.join(seed, 'demo')))
    # intended path of each demo file: look for "internal/.../<file>" in the notes
    placed = {}
    for d in demos:
        m = re.findall(r'(internal/[A-Za-z0-9_/.-]*?)/?' + re.escape(d), notes)
        cands = [x for x in m if x]
        if not cands:
            m2 = re.findall(r'(internal/[A-Za-z0-9_/-]+)/?`?\s*\(package', notes)
            cands = m2
        placed[d] = cands[0].rstrip('/') if cands else None
    meta['demo_paths'] = placed

    def demo(label):
        res = {}
        for d, path in placed.items():
            if path is None:
                res[d] = 'no path'
                continue
            dst = os.path.join(wt, path, d)
            shutil.copy(os.path.join(seed, 'demo', d), dst)
            mod = os.path.join(wt, 'internal/dnsserver') if path.startswith('internal/dnsserver') else wt
            rel = './' + os.path.relpath(os.path.join(wt, path), mod)
            # run only the tests defined in the demo file
            names = re.findall(r'^func (Test\w+)\(', open(dst).read(), re.M)
            rc, o = run(f"go test -vet=off -count=1 -run '^({'|'.join(names)})$' {rel}", mod, 900)
            res[d] = {'rc': rc, 'tail': o[-600:]}
            os.remove(dst)
        meta['steps'][label] = res
        return res

    # without the patch
    r0 = demo('demo_without_patch')
    rc, o = run(f'git apply {os.path.join(seed, "patch.diff")}', wt)
    meta['steps']['apply'] = rc
    assert rc == 0, o
    rc1, o1 = run('go build ./... && go vet ./internal/... >/dev/null 2>&1; go build ./...', wt)
    rc2, o2 = run('go build ./...', os.path.join(wt, 'internal/dnsserver'))
    meta['steps']['build'] = {'root': rc1, 'dnsserver': rc2}
    if not skip_suite:
        rcs = {}
        for mod in ['.', 'internal/dnsserver']:
            for attempt in range(2):  # fixed-port tests flake when something else listens; retry once
                rc, o = run('go test -vet=off -count=1 -timeout 20m ./...', os.path.join(wt, mod))
                if rc == 0:
                    break
            rcs[mod] = {'rc': rc, 'fail': [l for l in o.splitlines() if l.startswith('FAIL') or l.startswith('--- FAIL')][:6]}
        meta['steps']['suite_with_patch'] = rcs
    r1 = demo('demo_with_patch')
    ok_without = all(isinstance(v, dict) and v['rc'] == 0 for v in r0.values())
    fail_with = any(isinstance(v, dict) and v['rc'] != 0 and 'FAIL' in v['tail'] and '[build failed]' not in v['tail'] for v in r1.values())
    suite_ok = skip_suite or all(v['rc'] == 0 for v in meta['steps']['suite_with_patch'].values())
    meta['confirmed'] = bool(ok_without and fail_with and suite_ok and rc1 == 0 and rc2 == 0)
    meta['summary'] = {'demo_passes_without': ok_without, 'demo_fails_with': fail_with, 'suite_passes_with': suite_ok, 'builds': rc1 == 0 and rc2 == 0}
except Exception as e:
    meta['error'] = str(e)[-800:]
    meta['confirmed'] = False
finally:
    subprocess.run(f'git -C /repo worktree remove --force {wt}', shell=True, capture_output=True)
    subprocess.run('git -C /repo worktree prune', shell=True, capture_output=True)
json.dump(meta, open(out, 'w'), indent=1)
print(seed, 'confirmed' if meta['confirmed'] else 'NOT CONFIRMED', meta.get('summary', meta.get('error')))
