#!/usr/bin/env python3
"""Prepares a round of seeding by independent sub-agents: one scratch git worktree of /repo per
property under /tmp/wt<round>/Cnn, one output directory /tmp/seed_out<round>/Cnn with PROPERTY.txt
and PROMPT.txt.  The prompt contains only the property text, the sandbox instructions and the
list of places earlier seeds already touched (file and function names, so that the round explores
something new); nothing about the checks.  usage: prep_seed_round.py <round>"""
import json, os, re, subprocess, sys, glob
rnd = sys.argv[1]
wt, out = f'/tmp/wt{rnd}', f'/tmp/seed_out{rnd}'
os.makedirs(wt, exist_ok=True); os.makedirs(out, exist_ok=True)
t = open('/verif/scripts/seed_prompt.tmpl').read()
t = t.replace('/tmp/wt/__ID__', wt + '/__ID__').replace('/tmp/seed_out/__ID__', out + '/__ID__').replace('/tmp/wt or /tmp/seed_out', f'{wt} or {out}')
extra = """
IMPORTANT ADDITIONS FOR THIS ROUND:
- Several changes for this property were already produced by other people; do NOT repeat them or trivial variants of them. They were:
__TAKEN__
  Choose different functions and different mechanisms behind the property. Read more widely than the most obvious file: the property usually rests on several cooperating pieces (helpers, constructors, callers in other packages, configuration conversion, refresh/cleanup paths, the code that builds or wires the components together), and the best seeded regressions sit in the less obvious ones.
- Other people may be running the test suite on this machine at the same time; a few tests listen on fixed ports, so an occasional "address already in use" failure is a flake: re-run that package once before concluding anything.
"""
for l in open('/verif/properties.jsonl'):
    d = json.loads(l)
    pid = d['id']
    prop = ('%s — %s\n\n%s\n\nQuantified over: %s' % (pid, d.get('title', ''), d.get('statement', ''), (d.get('quantifier') or {}).get('text', ''))).strip()
    taken = []
    for sd in sorted(glob.glob(f'/verif/seeded/{pid}-*')):
        try:
            diff = open(os.path.join(sd, 'patch.diff')).read()
        except OSError:
            continue
        files = sorted(set(re.findall(r'^\+\+\+ b/(.*)$', diff, re.M)))
        # the function that encloses each changed line: the hunk header names the function
        # *preceding* the hunk's first line, so a func declaration inside the hunk wins
        funcs, cur = set(), None
        for dl in diff.splitlines():
            m = re.match(r'^@@.*@@ func (?:\([^)]*\) )?(\w+)', dl)
            if m:
                cur = m.group(1); continue
            if dl.startswith('@@'):
                cur = None; continue
            m = re.match(r'^[ +-]func (?:\([^)]*\) )?(\w+)', dl)
            if m:
                cur = m.group(1)
            if (dl.startswith('+') or dl.startswith('-')) and not dl.startswith(('+++', '---')) and cur:
                funcs.add(cur)
        funcs = sorted(funcs)
        taken.append('  - a change in %s (around %s)' % (', '.join(files), ', '.join(funcs) or 'top of file'))
    if not os.path.exists(f'{wt}/{pid}'):
        subprocess.run(['git', '-C', '/repo', 'worktree', 'add', '-q', '--detach', f'{wt}/{pid}', 'HEAD'], check=True)
    os.makedirs(f'{out}/{pid}', exist_ok=True)
    p = t.replace('__ID__', pid).replace('__PROPERTY__', prop)
    p = p.replace('Deliverables, for each x in {a, b}', extra.replace('__TAKEN__', '\n'.join(taken)) + '\nDeliverables, for each x in {a, b}')
    open(f'{out}/{pid}/PROPERTY.txt', 'w').write(prop + '\n')
    open(f'{out}/{pid}/PROMPT.txt', 'w').write(p)
print('prepared', wt, out)
