#!/bin/sh
# usage: allprops.sh <patch.diff> -- runs every property's rules on /repo + patch (overlay) and prints the ones that fire
for P in $(${ADGVERIF:-/verif/bin/adgverif} list); do
  ${ADGVERIF:-/verif/bin/adgverif} mutant $P ${ADGREPO:-/repo} "$1" | python3 -c "
import json,sys
d=json.loads(sys.stdin.read().strip().splitlines()[-1])
f=[x for x in (d.get('fired') or []) if not (x.startswith('C12-R3 filter/hashprefix.(*Filter).refresh atomicity') or x.startswith('C12-R4 filter/hashprefix.(*Filter).setInCache'))]
if f: print('  $P', [x[:90] for x in f][:2])
elif d.get('status') not in ('silent','fired'): print('  $P', d.get('status'), d.get('why','')[:100])
" &
done; wait
