#!/bin/sh
# usage: mut.sh <prop> <file-relative-to-repo> <python-expr old> <new>   -- applies a textual mutation in a scratch copy and runs the check
# Scratch copy: /tmp/mutrepo (refreshed from /repo each time).
set -e
PROP="$1"; FILE="$2"; OLD="$3"; NEW="$4"
rm -rf /tmp/mutrepo && rsync -a --exclude .git /repo/ /tmp/mutrepo/
python3 - "$FILE" "$OLD" "$NEW" <<'PY'
import sys
f,old,new=sys.argv[1:4]
p='/tmp/mutrepo/'+f
s=open(p).read()
assert s.count(old)>=1, "anchor not found"
open(p,'w').write(s.replace(old,new,1))
PY
(cd /tmp/mutrepo && GOFLAGS= GOPROXY=off go build ./... && cd internal/dnsserver && GOFLAGS= GOPROXY=off go build ./...) || { echo "MUTANT DOES NOT COMPILE"; exit 3; }
/verif/bin/adgverif check -prop "$PROP" -repo /tmp/mutrepo -verif /tmp/mutverif | cut -c1-700
