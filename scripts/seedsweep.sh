#!/bin/sh
# usage: seedsweep.sh <seed root> [props...] -- for every <root>/Cnn/{a,b}/patch.diff (or <root>/<id>/patch.diff) applies the patch to a scratch copy and runs the
# property's own quick check (plus any extra props given); prints one line per seed.
ROOT="$1"; shift
EXTRA="$*"
for d in $(ls -d $ROOT/C*/[ab] $ROOT/C*-* 2>/dev/null | sort); do
  [ -f "$d/patch.diff" ] || continue
  id=$(echo "$d" | sed -E 's|.*/(C[0-9]+)[/-]([a-z0-9]+)$|\1-\2|')
  prop=$(echo "$id" | cut -d- -f1)
  rm -rf /tmp/mutrepo && rsync -a --exclude .git /repo/ /tmp/mutrepo/
  (cd /tmp/mutrepo && patch -p1 -s < "$d/patch.diff") || { echo "$id PATCH-FAILED"; continue; }
  mkdir -p /tmp/mutverif; cp /verif/known_findings.json /tmp/mutverif/ 2>/dev/null
  res=""
  for P in $prop $EXTRA; do
    if /verif/bin/adgverif list | grep -qx "$P"; then
      out=$(/verif/bin/adgverif check -prop "$P" -repo /tmp/mutrepo -verif /tmp/mutverif 2>&1)
      if echo "$out" | grep -q "^VIOLATION"; then
        rule=$(echo "$out" | grep -A1 "^VIOLATION" | sed -n 2p | awk '{print $2, $NF}' | cut -c1-60)
        res="$res $P:CAUGHT($(echo "$out" | grep -A1 '^VIOLATION' | sed -n 2p | awk '{print $2}'))"
      else
        res="$res $P:missed"
      fi
    else
      res="$res $P:not-implemented"
    fi
  done
  echo "$id $res"
done
