#!/bin/sh
# usage: seedtest.sh <patch.diff> <prop> [<prop>...] -- applies the patch to a scratch copy of /repo and runs the quick checks there
PATCH="$1"; shift
rm -rf /tmp/mutrepo && rsync -a --exclude .git /repo/ /tmp/mutrepo/
(cd /tmp/mutrepo && patch -p1 -s < "$PATCH") || { echo "PATCH FAILED"; exit 3; }
mkdir -p /tmp/mutverif; cp /verif/known_findings.json /tmp/mutverif/ 2>/dev/null
for P in "$@"; do /verif/bin/adgverif check -prop "$P" -repo /tmp/mutrepo -verif /tmp/mutverif | cut -c1-900; done
