#!/bin/sh
# usage: allseeds.sh -- applies every stored seed (overlay) and reports the ones its own property's check does NOT fire on
cd /verif/seeded || exit 2
ls -d */ | sed 's#/##' | xargs -P 8 -I{} sh -c '
  P=$(python3 -c "import json;print(json.load(open(\"{}/meta.json\"))[\"property\"])")
  r=$(/verif/bin/adgverif mutant $P /repo {}/patch.diff | tail -1 | python3 -c "import json,sys; d=json.loads(sys.stdin.read()); print(d.get(\"status\"), d.get(\"why\",\"\")[:80])")
  case "$r" in fired*) ;; *) echo "NOT FIRED {} ($P): $r";; esac'
echo "allseeds done: $(ls -d */ | wc -l) seeds"
