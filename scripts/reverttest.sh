#!/bin/sh
# usage: reverttest.sh <commit> <prop>... -- reverts a fix commit in a scratch copy and runs the checks there
C="$1"; shift
rm -rf /tmp/mutrepo && rsync -a --exclude .git /repo/ /tmp/mutrepo/
(cd /repo && git show "$C" --format= ) | (cd /tmp/mutrepo && patch -R -p1 -s) || { echo "REVERT FAILED"; exit 3; }
mkdir -p /tmp/mutverif; cp /verif/known_findings.json /tmp/mutverif/ 2>/dev/null
for P in "$@"; do /verif/bin/adgverif check -prop "$P" -repo /tmp/mutrepo -verif /tmp/mutverif | cut -c1-700; done
