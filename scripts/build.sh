#!/bin/sh
# usage: build.sh -- rebuilds the checker binary /verif/bin/adgverif
cd /verif/checker && env -u GOWORK GOFLAGS=-mod=mod GOPROXY=off GOSUMDB=off GOTOOLCHAIN=local go build -o /verif/bin/adgverif . 
