#!/usr/bin/env python3
"""Lists, per package, the source functions (>= 12 SSA instructions, no tests / generated code) that no
rule's evidence names as analysed.  usage: coverage.py [pkg-prefix ...]  (run scripts/allchecks.sh first)"""
import json, glob, collections, subprocess, sys
an = set()
for f in glob.glob('/verif/evidence/C*.json'):
    def walk(x):
        if isinstance(x, dict):
            for k, v in x.items():
                if k in ('functions', 'functions_analysed', 'analysed_functions') and isinstance(v, list):
                    an.update(y for y in v if isinstance(y, str))
                walk(v)
        elif isinstance(x, list):
            for v in x: walk(v)
    walk(json.load(open(f)))
out = subprocess.run(['/verif/bin/adgverif', 'fns', '/repo'], capture_output=True, text=True).stdout
by = collections.defaultdict(lambda: [0, 0, []])
for l in out.splitlines():
    name, pos, n = l.split('\t')
    if '_test.go' in pos or '.pb.go' in pos or name.endswith('.init') or '[' in name: continue
    n = int(n)
    if n < 12: continue
    pkg = name.split('.(')[0] if '.(' in name else name.rsplit('.', 1)[0]
    if sys.argv[1:] and not any(pkg.startswith(p) for p in sys.argv[1:]): continue
    cov = name in an or name.split('$')[0] in an
    by[pkg][0] += 1
    if cov: by[pkg][1] += 1
    else: by[pkg][2].append((n, name))
for pkg, (t, c, miss) in sorted(by.items()):
    print(f'{pkg:42s} {c:3d}/{t:3d}', ' '.join(f'{nm.split(".",1)[1] if pkg and nm.startswith(pkg) else nm}:{n}' for n, nm in sorted(miss, reverse=True)[:12]))
