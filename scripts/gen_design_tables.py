#!/usr/bin/env python3
"""Regenerates the tables of DESIGN.md section 10.5/10.6 between the markers from
the checker's registry (adgverif list -json) and /verif/seeded/*/meta.json."""
import json, os, subprocess, re
info = json.loads(subprocess.run(['/verif/bin/adgverif', 'list', '-json'], capture_output=True, text=True).stdout)
out = ['### 10.5 Rule inventory (generated from the checker registry)\n']
for pid in sorted(info):
    d = info[pid]
    out.append(f'**{pid}** — technique: {d["technique"]}.\n')
    out.append(d['text'] + '\n')
    out.append('*Not covered:* ' + d['not_covered'] + '\n')
    out.append('| rule | decides |\n|---|---|')
    for r in sorted(d['rules']):
        out.append(f'| {r} | {d["rules"][r]} |')
    out.append('')
out.append('### 10.6 Seeded changes and the checks that catch them (generated from /verif/seeded)\n')
out.append('Every change below compiles and passes the whole existing test suite; each comes with a demonstration that fails with the '
           'change and passes without it (confirmed with `scripts/confirm_seed.py` in a scratch worktree; the reverts of the repair '
           'commits re-introduce the defects of section 5). "Round" 1 changes were produced by independent sub-agents that saw only the '
           'property text; the rules marked *added* in 10.3 were written after a round-1 change was missed. Round 2 changes were produced '
           'afterwards, again independently, to measure how the rules generalise.\n')
out.append('| seeded change | property | files | needs, to manifest | caught by |\n|---|---|---|---|---|')
for sid in sorted(os.listdir('/verif/seeded')):
    mp = f'/verif/seeded/{sid}/meta.json'
    if not os.path.exists(mp):
        continue
    m = json.load(open(mp))
    diff = open(f'/verif/seeded/{sid}/patch.diff').read()
    files = sorted(set(x.split('/')[-1] for x in re.findall(r'^\+\+\+ b/(.*)$', diff, re.M)))
    det = m.get('detection', {})
    rules = sorted(set(x.split(' ')[0] for x in det.get('rule_instances', [])))
    caught = ', '.join(rules) if rules else ('**missed**' if det.get('status') == 'silent' else str(det.get('status')))
    extra = m.get('caught_by_other_properties')
    if extra:
        caught += ' (also ' + ', '.join(extra) + ')'
    needs = re.sub(r'\s+', ' ', m.get('what_it_needs_to_manifest', ''))[:160]
    out.append(f'| {sid} | {m["property"]} | {", ".join(files)} | {needs} | {caught} |')
out.append('')
s = open('/verif/DESIGN.md').read()
a = s.index('<!-- BEGIN GENERATED TABLES -->') + len('<!-- BEGIN GENERATED TABLES -->')
b = s.index('<!-- END GENERATED TABLES -->')
s = s[:a] + '\n' + '\n'.join(out) + '\n' + s[b:]
open('/verif/DESIGN.md', 'w').write(s)
print('tables regenerated:', len(info), 'properties')
