package main

import "adgverif/rules"

// selfTest runs the registered mutants of a property (thorough tier).  Filled
// in by mutants.go.
func selfTest(pr *rules.Property, repo, verif string) map[string]any {
	return runMutants(pr, repo, verif)
}
