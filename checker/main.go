// Command adgverif decides the structural clauses of the AdGuard DNS
// properties by static analysis of /repo's current source.
package main

import (
	"encoding/json"
	"flag"
	"fmt"
	"golang.org/x/tools/go/ssa"
	"os"
	"path/filepath"
	"runtime/debug"
	"strconv"
	"time"

	"adgverif/an"
	"adgverif/rules"
)

func main() {
	if len(os.Args) < 2 {
		usage()
	}
	switch os.Args[1] {
	case "check":
		os.Exit(check(os.Args[2:]))
	case "replay":
		os.Exit(replay(os.Args[2:]))
	case "mutant":
		os.Exit(mutantCmd(os.Args[2:]))
	case "explore":
		explore(os.Args[2:])
	case "fieldmaps":
		// development aid: every store of a config-literal field in functions matching the prefix, with its source path
		p, err := an.Load("/repo", an.BuildConfig{}, nil)
		if err != nil {
			fmt.Println(err)
			os.Exit(2)
		}
		for _, fn := range p.FnsMatching(os.Args[2]) {
			if fn.Blocks == nil || p.IsTestFile(fn.Pos()) {
				continue
			}
			an.Instrs(fn, func(in ssa.Instruction) {
				st, ok := in.(*ssa.Store)
				if !ok {
					return
				}
				typ, f, _, ok := an.FieldOf(st.Addr)
				if !ok || typ == "" {
					return
				}
				src := "?" + st.Val.Name()
				if ap, ok := an.AccessPath(st.Val); ok {
					src = ap
				} else if k, ok := st.Val.(*ssa.Const); ok {
					src = "const " + k.String()
				}
				fmt.Printf("%s\t%s.%s\t<- %s\n", an.FnKey(fn), typ, f, src)
			})
		}
	case "fns":
		// development aid: every repository function with its file and size
		p, err := an.Load("/repo", an.BuildConfig{}, nil)
		if err != nil {
			fmt.Println(err)
			os.Exit(2)
		}
		for _, fn := range p.AllFns {
			if fn.Blocks == nil || p.IsTestFile(fn.Pos()) {
				continue
			}
			n := 0
			for _, b := range fn.Blocks {
				n += len(b.Instrs)
			}
			fmt.Printf("%s\t%s\t%d\n", an.FnKey(fn), p.Pos(fn.Pos()), n)
		}
	case "list":
		if len(os.Args) > 2 && os.Args[2] == "-json" {
			out := map[string]any{}
			for _, id := range rules.IDs() {
				pr := rules.Get(id)
				out[id] = map[string]any{"technique": pr.Technique, "text": pr.Explain.Text, "not_covered": pr.Explain.NotCovered,
					"assumptions": pr.Explain.Assumptions, "rules": pr.Explain.Rules}
			}
			b, _ := json.MarshalIndent(out, "", " ")
			fmt.Println(string(b))
			return
		}
		for _, id := range rules.IDs() {
			fmt.Println(id)
		}
	default:
		usage()
	}
}

func usage() {
	fmt.Fprintln(os.Stderr, "usage: adgverif check -prop Cnn [-tier quick|thorough] [-repo /repo] [-verif /verif]\n       adgverif replay <violation.json>\n       adgverif list")
	os.Exit(2)
}

func check(args []string) (code int) {
	fs := flag.NewFlagSet("check", flag.ExitOnError)
	prop := fs.String("prop", "", "property id")
	tier := fs.String("tier", "quick", "quick or thorough")
	repo := fs.String("repo", "/repo", "repository root")
	verif := fs.String("verif", "/verif", "verification directory")
	_ = fs.Parse(args)
	if t := os.Getenv("VERIF_TIER"); t != "" && !flagSet(fs, "tier") {
		*tier = t
	}
	seed, _ := strconv.Atoi(os.Getenv("VERIF_SEED"))

	t0 := time.Now()
	pr := rules.Get(*prop)
	if pr == nil {
		fmt.Fprintf(os.Stderr, "unknown property %q\n", *prop)
		return 2
	}
	known, err := an.LoadKnown(filepath.Join(*verif, "known_findings.json"))
	out := &an.Outcome{Property: *prop, Tier: *tier}
	if err != nil {
		out.Fatal = append(out.Fatal, "reading known_findings.json: "+err.Error())
	}

	configs := []an.BuildConfig{{}}
	if *tier == "thorough" {
		configs = append(configs, an.BuildConfig{GOOS: "darwin"}, an.BuildConfig{GOOS: "freebsd"})
	}
	for _, bc := range configs {
		runConfig(out, pr, *repo, *tier, bc)
	}
	if *tier == "thorough" {
		out.SelfTest = selfTest(pr, *repo, *verif)
	}

	return out.Report(*verif, known, pr.Explain, seed, t0)
}

func flagSet(fs *flag.FlagSet, name string) (ok bool) {
	fs.Visit(func(f *flag.Flag) {
		if f.Name == name {
			ok = true
		}
	})
	return ok
}

func runConfig(out *an.Outcome, pr *rules.Property, repo, tier string, bc an.BuildConfig) {
	defer func() {
		if r := recover(); r != nil {
			out.Fatal = append(out.Fatal, fmt.Sprintf("engine panic (%s): %v\n%s", bc, r, debug.Stack()))
		}
	}()
	p, err := an.Load(repo, bc, nil)
	if err != nil {
		out.Fatal = append(out.Fatal, fmt.Sprintf("load (%s): %v", bc, err))
		return
	}
	c := an.NewCtx(p, pr.ID, tier)
	pr.Run(c)
	c.Finish()
	out.Merge(c)
}

func replay(args []string) int {
	if len(args) != 1 {
		usage()
	}
	b, err := os.ReadFile(args[0])
	if err != nil {
		fmt.Fprintln(os.Stderr, err)
		return 2
	}
	var v struct {
		Property string `json:"property"`
		Rule     string `json:"rule"`
		Key      string `json:"key"`
	}
	if err = json.Unmarshal(b, &v); err != nil {
		fmt.Fprintln(os.Stderr, err)
		return 2
	}
	fmt.Printf("replaying %s %s %s: re-running the property's rules on /repo\n", v.Property, v.Rule, v.Key)
	return check([]string{"-prop", v.Property, "-tier", "quick"})
}

// explore prints what engine A sees in a function under the empty valuation
// (development aid: shows the feature keys the code branches on).
func explore(args []string) {
	p, err := an.Load("/repo", an.BuildConfig{}, nil)
	if err != nil {
		fmt.Println(err)
		os.Exit(2)
	}
	for _, k := range args {
		fn := p.Fn(k)
		if fn == nil {
			fmt.Println("no such function:", k)
			for _, f := range p.FnsMatching(k) {
				fmt.Println("  candidate:", an.FnKey(f))
			}
			continue
		}
		it := &an.Interp{P: p, Env: an.Env{}}
		o := it.Run(fn, nil)
		fmt.Printf("%s: exit=%s ret=[%s] und=%s\n", k, o.Exit, o.RetString(), o.Und)
		for _, e := range o.Effects {
			fmt.Println("   ", e.String())
		}
	}
}
