package main

import (
	"encoding/json"
	"fmt"
	"os"
	"os/exec"
	"path/filepath"
	"regexp"
	"sort"
	"strconv"
	"strings"

	"adgverif/an"
	"adgverif/rules"
)

// applyUnifiedDiff applies a unified diff (git format) to the files under
// repo and returns the new contents keyed by absolute file name.
func applyUnifiedDiff(repo string, diff string) (overlay map[string][]byte, err error) {
	overlay = map[string][]byte{}
	lines := strings.Split(diff, "\n")
	hunkRe := regexp.MustCompile(`^@@ -(\d+)(?:,(\d+))? \+(\d+)(?:,(\d+))? @@`)
	var file string
	var src []string
	var out []string
	pos := 0 // next unread line of src (0-based)
	flush := func() {
		if file == "" {
			return
		}
		out = append(out, src[pos:]...)
		overlay[filepath.Join(repo, file)] = []byte(strings.Join(out, "\n"))
	}
	for i := 0; i < len(lines); i++ {
		l := lines[i]
		switch {
		case strings.HasPrefix(l, "--- "):
			// next line is +++ b/<file>
			if i+1 < len(lines) && strings.HasPrefix(lines[i+1], "+++ ") {
				flush()
				file = strings.TrimPrefix(strings.TrimPrefix(lines[i+1], "+++ "), "b/")
				if file == "/dev/null" {
					return nil, fmt.Errorf("file deletion not supported")
				}
				b, rerr := os.ReadFile(filepath.Join(repo, file))
				if rerr != nil {
					return nil, rerr
				}
				src = strings.Split(string(b), "\n")
				out, pos = nil, 0
				i++
			}
		case hunkRe.MatchString(l):
			m := hunkRe.FindStringSubmatch(l)
			start, _ := strconv.Atoi(m[1])
			if start > 0 {
				start--
			}
			// collect the hunk
			var hunk []string
			for i+1 < len(lines) {
				h := lines[i+1]
				if strings.HasPrefix(h, "@@") || strings.HasPrefix(h, "diff ") || strings.HasPrefix(h, "--- ") {
					break
				}
				i++
				hunk = append(hunk, h)
			}
			for len(hunk) > 0 && hunk[len(hunk)-1] == "" {
				hunk = hunk[:len(hunk)-1]
			}
			var oldLines []string
			for _, h := range hunk {
				if strings.HasPrefix(h, "\\") || strings.HasPrefix(h, "+") {
					continue
				}
				if h == "" {
					oldLines = append(oldLines, "")
				} else {
					oldLines = append(oldLines, h[1:])
				}
			}
			matchAt := func(at int) bool {
				if at < pos || at+len(oldLines) > len(src) {
					return false
				}
				for k, ol := range oldLines {
					if src[at+k] != ol {
						return false
					}
				}
				return true
			}
			at := -1
			for delta := 0; delta < len(src) && at < 0; delta++ {
				if matchAt(start + delta) {
					at = start + delta
				} else if matchAt(start - delta) {
					at = start - delta
				}
			}
			if at < 0 {
				return nil, fmt.Errorf("patch does not apply to %s near line %d", file, start+1)
			}
			out = append(out, src[pos:at]...)
			pos = at
			for _, h := range hunk {
				switch {
				case strings.HasPrefix(h, "\\"):
				case strings.HasPrefix(h, "+"):
					out = append(out, h[1:])
				case strings.HasPrefix(h, "-"):
					pos++
				default:
					out = append(out, src[pos])
					pos++
				}
			}
		}
	}
	flush()
	if len(overlay) == 0 {
		return nil, fmt.Errorf("no file changes in the diff")
	}
	return overlay, nil
}

// mutantCmd runs one property's rules on /repo with a patch applied through
// the loader's overlay (nothing is written to the repository) and prints a
// JSON verdict.
func mutantCmd(args []string) int {
	if len(args) != 3 {
		usage()
	}
	prop, repo, patch := args[0], args[1], args[2]
	res := map[string]any{"patch": patch, "property": prop}
	defer func() {
		b, _ := json.Marshal(res)
		fmt.Println(string(b))
	}()
	pr := rules.Get(prop)
	if pr == nil {
		res["status"] = "unknown property"
		return 2
	}
	diff, err := os.ReadFile(patch)
	if err != nil {
		res["status"] = "unreadable"
		return 2
	}
	overlay, err := applyUnifiedDiff(repo, string(diff))
	if err != nil {
		res["status"] = "not-applicable"
		res["why"] = err.Error()
		return 0
	}
	p, err := an.Load(repo, an.BuildConfig{}, overlay)
	if err != nil {
		res["status"] = "does-not-build"
		res["why"] = err.Error()
		return 0
	}
	c := an.NewCtx(p, prop, "mutant")
	func() {
		defer func() {
			if r := recover(); r != nil {
				c.Und("engine", "panic", 0, "%v", r)
			}
		}()
		pr.Run(c)
		c.Finish()
	}()
	var fired []string
	seen := map[string]bool{}
	// known findings also "fire" on the unchanged tree: they do not count
	verifDir := "/verif"
	if self, err := os.Executable(); err == nil {
		verifDir = filepath.Dir(filepath.Dir(self))
	}
	known, _ := an.LoadKnown(filepath.Join(verifDir, "known_findings.json"))
	for _, o := range c.Obls {
		if o.Status == an.Violation || o.Status == an.Undecided {
			k := o.Rule + " " + o.Key
			isKnown := false
			for _, kf := range known {
				if kf.Status == "known" && kf.Property == prop && kf.Rule == o.Rule && kf.Key == o.Key && o.Status == an.Violation {
					isKnown = true
				}
			}
			if isKnown {
				continue
			}
			if !seen[k] {
				seen[k] = true
				fired = append(fired, k+" ["+string(o.Status)+"]")
			}
		}
	}
	sort.Strings(fired)
	res["fired"] = fired
	if len(fired) > 0 {
		res["status"] = "fired"
	} else {
		res["status"] = "silent"
	}
	return 0
}

// runMutants applies every seeded change registered for the property under
// /verif/seeded and reports which rules fire (thorough tier self-test; it does
// not influence the verdict on /repo).
func runMutants(pr *rules.Property, repo, verif string) map[string]any {
	dirs, _ := filepath.Glob(filepath.Join(verif, "seeded", "*"))
	sort.Strings(dirs)
	self, _ := os.Executable()
	var results []map[string]any
	counts := map[string]int{}
	known, _ := an.LoadKnown(filepath.Join(verif, "known_findings.json"))
	for _, d := range dirs {
		mb, err := os.ReadFile(filepath.Join(d, "meta.json"))
		if err != nil {
			continue
		}
		var meta struct {
			Property string   `json:"property"`
			AlsoRun  []string `json:"also_run"`
		}
		if json.Unmarshal(mb, &meta) != nil {
			continue
		}
		match := meta.Property == pr.ID
		for _, a := range meta.AlsoRun {
			if a == pr.ID {
				match = true
			}
		}
		if !match {
			continue
		}
		cmd := exec.Command(self, "mutant", pr.ID, repo, filepath.Join(d, "patch.diff"))
		out, err := cmd.Output()
		r := map[string]any{"seed": filepath.Base(d)}
		if err != nil {
			r["status"] = "error: " + err.Error()
		} else {
			var v map[string]any
			if json.Unmarshal(lastLine(out), &v) == nil {
				r["status"] = v["status"]
				if f, ok := v["fired"].([]any); ok {
					// drop known findings, which also "fire" on the unchanged tree
					var fs []string
					for _, x := range f {
						s, _ := x.(string)
						isKnown := false
						for _, k := range known {
							if k.Status == "known" && k.Property == pr.ID && strings.HasPrefix(s, k.Rule+" "+k.Key) {
								isKnown = true
							}
						}
						if !isKnown {
							fs = append(fs, s)
						}
					}
					r["fired"] = fs
					if len(fs) == 0 && v["status"] == "fired" {
						r["status"] = "silent"
					}
				}
				if w, ok := v["why"]; ok {
					r["why"] = w
				}
			}
		}
		counts[fmt.Sprint(r["status"])]++
		results = append(results, r)
	}
	return map[string]any{"seeded_changes": results, "counts": counts,
		"note": "each seeded change of /verif/seeded for this property is applied through the loader's overlay in a child process; 'fired' lists the rule instances that report it; this self-test does not affect the exit code"}
}

func lastLine(b []byte) []byte {
	s := strings.TrimSpace(string(b))
	if i := strings.LastIndex(s, "\n"); i >= 0 {
		s = s[i+1:]
	}
	return []byte(s)
}
