package main

import "adgverif/rules"

func runMutants(pr *rules.Property, repo, verif string) map[string]any {
	return map[string]any{"mutants": "not built yet"}
}
