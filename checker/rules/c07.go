package rules

import (
	"fmt"
	"go/token"
	"go/types"
	"sort"
	"strings"

	"adgverif/an"

	"golang.org/x/tools/go/ssa"
)

func init() {
	register(&Property{ID: "C07", Technique: "definite-assignment path analysis for pooled objects (every field re-initialised on every path from Pool.Get to the exit, or constructor-only); use-after-release path rule for every Put/Dispose; shallow-copy lint and clone/dispose table agreement for the message cloner; clone-in / clone-out provenance for the caches; who-may-write rule for the request information",
		Run: runC07, Explain: an.Explanation{
			Text: "Decides the ownership discipline that keeps concurrent requests apart. R1: for every struct obtained from a pool " +
				"(request info, filtering context, filter request/response, cache request, log entry buffer, and the records and " +
				"options built by dnsmsg's constructors) every field is assigned, reset or re-sliced on every control-flow path from " +
				"Pool.Get to the function's exit, or is written by the pool's constructor only; the record header of dnsmsg's " +
				"constructors is the documented duty of their callers. R2: after a non-deferred Pool.Put / Cloner.Dispose of an " +
				"object no path uses that object again, and an object handed to an asynchronous closure is not released by the " +
				"creator. R3: ServerBase.dispose releases the response only for the UDP and TCP writers; the DoQ and DoH glue " +
				"dispose after the wire write; the main middleware disposes the upstream answer only when a different message was " +
				"written, after the write and the bookkeeping. R4: the ECS cache and the hash-prefix result cache store clones and " +
				"hand out clones; the simple cache stores a copy. R5: in the message cloner no reference (slice, pointer, map) stored " +
				"into a clone is read from the original, and the per-type clone and release switches name the same types. R6: " +
				"the fields of the pooled request information are written only by the rate-limit middleware that owns it.",
			NotCovered: "equivalence of concurrent and sequential executions over all schedules (the property's quantifier); sync.Pool's own semantics.",
			Rules: map[string]string{"C07-R25": "no function of the message, cache, filter and request-pipeline packages (init aside) stores through a package-level variable: there is no record template or other object shared by all requests that is filled in per request", "C07-R24": "the simple cache hands out copies: every record that fromCacheItem puts into a served message is a dns.Copy of the cached record on every path (the server disposes of served messages into the cloner's pools, where they are overwritten by other clients' answers)", "C07-R23": "every server's rate-limit / request-info middleware is built from a configuration object of its own (shared with C15-R6): a constructor that keeps its configuration sees this server's group, filtering group and device finder, not the last server's", "C07-R21": "the rule list compiled from a profile's custom rules has no result cache (rulelist.ResultCacheEmpty): the cache key has neither the device name nor the address, which $client rules look at, so one device's verdict would be served to the profile's other devices", "C07-R22": "address objects obtained from a connection (LocalAddr, RemoteAddr) are shared by every session of that connection and are never written: every store into a field of a net.UDPAddr / net.TCPAddr in netext and bindtodevice goes to an object allocated in the same function", "C07-R20": "the plain forwarder unpacks exactly the bytes of this read (buf[:n]), never the rest of a pooled buffer that still holds an earlier response (shared with C17-R4)", "C07-R19": "rule lists that are shared by all profiles are asked without the requester's device name; only the profile's own custom list gets it (shared with C02-R3)", "C07-R17": "the clone functions of dnsmsg put no object of the source into the clone and return none of the source's objects to the pools", "C07-R18": "every rule list is built with a result cache of its own (shared with C12-R8)", "C07-R16": "UpstreamPlain.Exchange returns a UDP reply only when it passed validation; a failed TCP leg does not revive it (table shared with C17-R4)", "C07-R15": "ecscache.locFromReq builds a fresh location and never returns the GeoIP cache's shared one (shared with C05-R1)", "C07-R14": "slices of a cached urlfilter result are never aliased by a per-request accumulator (shared with C12-R13)", "C07-RC": "class rules (error chains, shadowed results, character classes, crossed arguments, pool constructors, array pools, loop completeness, loop-carried buffers, replacing setters, complete clones, Grow arithmetic, pooled-buffer escape, sorted searches, fresh decode targets, per-iteration objects, whole-message copies, codec guards) over the packages this property rests on", "C07-R13": "ECS cache key is an injective packing (flags in separate bits); filterResponse restores ID and question of the client's own request (shared with C02-R11)", "C07-R12": "a slice converted to an array pointer is pooled only under an exact capacity test (cap == N): windows into a larger buffer would overlap", "C07-R10": "pool constructors (syncutil.NewPool, sync.Pool.New) build every object and buffer anew; nothing captured or global is shared between pooled objects", "C07-R11": "same-typed arguments are not crossed at calls of repository functions (argument names vs parameter names)", "C07-R9": "a pooled upstream connection is closed after any failed exchange (table shared with C17-R4)", "C07-R1": "pooled objects fully re-initialised", "C07-R2": "no use after release", "C07-R3": "dispose gates and order",
				"C07-R4": "caches clone in and out", "C07-R5": "deep-copy discipline; clone/dispose tables agree", "C07-R6": "who writes RequestInfo",
				"C07-R8": "pooled receive buffers: no use after Put, no Put by the creator after hand-over to a worker, no Put while a returned object keeps a slice of the buffer (shared with C06-R2)"},
		}})
}

// poolGetStruct returns the struct type T if call is Pool[T].Get() of a struct.
func poolGetStruct(call ssa.CallInstruction) (named *types.Named, st *types.Struct) {
	if !isPoolGet(call) {
		return nil, nil
	}
	v, ok := call.(*ssa.Call)
	if !ok {
		return nil, nil
	}
	n := an.NamedOf(v.Type())
	if n == nil {
		return nil, nil
	}
	s, ok := n.Underlying().(*types.Struct)
	if !ok {
		return nil, nil
	}
	return n, s
}

// fieldInit classifies how the fields of the object obtained at get are
// initialised in fn before fn returns.
func fieldInit(c *an.Ctx, fn *ssa.Function, get *ssa.Call, st *types.Struct) map[string]string {
	// aliases of the object: the get result through phi nodes and local cells
	al := map[ssa.Value]bool{get: true}
	cells := map[ssa.Value]bool{}
	for changed := true; changed; {
		changed = false
		an.Instrs(fn, func(in ssa.Instruction) {
			switch x := in.(type) {
			case *ssa.Phi:
				if !al[x] {
					for _, e := range x.Edges {
						if al[e] {
							al[x] = true
							changed = true
						}
					}
				}
			case *ssa.Store:
				if al[x.Val] && !cells[x.Addr] {
					if _, isAlloc := x.Addr.(*ssa.Alloc); isAlloc {
						cells[x.Addr] = true
						changed = true
					}
				}
			case *ssa.UnOp:
				if x.Op == token.MUL && cells[x.X] && !al[x] {
					al[x] = true
					changed = true
				}
			}
		})
	}
	// a store of a whole new value through the object pointer re-initialises every field
	var whole []ssa.Instruction
	an.Instrs(fn, func(in ssa.Instruction) {
		if st, ok := in.(*ssa.Store); ok && al[st.Addr] {
			whole = append(whole, st)
		}
	})
	res := map[string]string{}
	var visit func(prefix string, s *types.Struct, bases map[ssa.Value]bool, depth int)
	visit = func(prefix string, s *types.Struct, bases map[ssa.Value]bool, depth int) {
		for i := 0; i < s.NumFields(); i++ {
			f := s.Field(i)
			name := prefix + f.Name()
			// FieldAddrs of this field on any base
			fas := map[ssa.Value]bool{}
			an.Instrs(fn, func(in ssa.Instruction) {
				if fa, ok := in.(*ssa.FieldAddr); ok && bases[fa.X] && fa.Field == i {
					fas[fa] = true
				}
			})
			var stores []ssa.Instruction
			an.Instrs(fn, func(in ssa.Instruction) {
				switch x := in.(type) {
				case *ssa.Store:
					if fas[x.Addr] {
						stores = append(stores, x)
					}
				case ssa.CallInstruction:
					// methods on the field's address or value that reset/set it: x.f.Reset(), x.SetUDPSize()
					for _, a := range x.Common().Args {
						if fas[a] {
							stores = append(stores, x)
						}
						if ld, ok := a.(*ssa.UnOp); ok && ld.Op == token.MUL && fas[ld.X] {
							n := an.CalleeName(x)
							if strings.HasSuffix(n, ".Reset") || strings.HasSuffix(n, ".Truncate") {
								stores = append(stores, x)
							}
						}
					}
				}
			})
			// a whole-value store through the field's pointer (*x.f = T{…}) re-initialises the pointee
			an.Instrs(fn, func(in ssa.Instruction) {
				if st, ok := in.(*ssa.Store); ok {
					if ld, ok := st.Addr.(*ssa.UnOp); ok && ld.Op == token.MUL && fas[ld.X] {
						stores = append(stores, st)
					}
				}
			})
			stores = append(stores, whole...)
			state := "never"
			if len(stores) > 0 {
				state = "conditional"
				isStore := map[ssa.Instruction]bool{}
				for _, s := range stores {
					isStore[s] = true
				}
				blk, i := an.After(get)
				exit, reaches := an.ReachesExitAvoiding(blk, i, func(in ssa.Instruction) bool { return isStore[in] }, false)
				if reaches && fn.Recover != nil && exit.Block() == fn.Recover {
					reaches = false
				}
				if !reaches {
					state = "always"
				}
			}
			if ns, ok := f.Type().Underlying().(*types.Struct); ok && state != "always" && depth < 2 {
				visit(name+".", ns, fas, depth+1)
				continue
			}
			res[name] = state
		}
	}
	visit("", st, al, 0)
	// whole-object stores / method calls that set header fields are handled by callers' exception table
	return res
}

// c07Hdr lists the fields left to the callers by contract.
func c07CallerSets(typ, field string) (string, bool) {
	if strings.HasPrefix(field, "Hdr.") || strings.HasPrefix(field, "SVCB.Hdr.") {
		return "the record header is set by the callers of the dnsmsg constructors and clone helpers (documented: 'callers must set rr.Hdr')", true
	}
	return "", false
}

func runC07(c *an.Ctx) {
	c.Floor("C07-R25", 1)
	if n := sharedNoGlobalMutation(c, "C07-R25", "dnsmsg.", "ecscache.", "dnssvc", "filter/", "agd."); n < 100 {
		c.Und("C07-R25", "functions scanned", 0, "%d functions scanned, at least 100 expected", n)
	}
	// ---- R24: simple-cache hits are built from copies
	c.Floor("C07-R24", 1)
	c07CacheHitCopies(c, "C07-R24")
	// ---- R23: per-server middleware configurations are separate objects (shared with C15-R6)
	c.Floor("C07-R23", 1)
	c.Borrow("C07-R23", runC15, func(o an.Obligation) bool {
		return o.Rule == "C15-R6" && strings.Contains(o.Key, "newHandlersForServers")
	})
	// ---- R21: custom rule lists are not result-cached; R22: shared address objects are not written
	c.Floor("C07-R21", 1)
	c07CustomListUncached(c, "C07-R21")
	if n := c07AddrObjectsFresh(c, "C07-R22"); n < 1 && (c.Config.GOOS == "" || c.Config.GOOS == "linux") {
		c.Und("C07-R22", "stores into address objects", token.NoPos, "no store into a net.UDPAddr / net.TCPAddr field found in netext or bindtodevice")
	}
	// ---- R19: shared rule lists are asked without the device name (shared with C02-R3); R20: the forwarder decodes
	// exactly the bytes it has read (shared with C17-R4)
	c.Floor("C07-R19", 1)
	c.Borrow("C07-R19", runC02, func(o an.Obligation) bool {
		return o.Rule == "C02-R3" && strings.Contains(o.Key, "filterReqWithRuleLists")
	})
	c.Floor("C07-R20", 1)
	c.Borrow("C07-R20", runC17, func(o an.Obligation) bool { return o.Rule == "C17-R4" && strings.Contains(o.Key, "readMsg") })
	classSweep(c, "C07")
	// ---- R17: a clone function neither keeps nor recycles objects of its source (shared with C12-R17);
	// R18: rule lists do not share a result cache (shared with C12-R8)
	if n := sharedCloneOwnsItsParts(c, "C07-R17", func(k string) bool {
		return strings.HasPrefix(k, "dnsmsg.(*") && (strings.Contains(k, "Cloner).clone") || strings.Contains(k, "Cloner).Clone"))
	}); n < 3 {
		c.Und("C07-R17", "clone functions of dnsmsg", token.NoPos, "only %d reference values stored by clone functions found", n)
	}
	c.Floor("C07-R18", 2)
	c.Borrow("C07-R18", runC12, func(o an.Obligation) bool { return o.Rule == "C12-R8" })
	// ---- R16: an upstream reply that failed validation is never handed on, whatever happens on the TCP leg (shared with C17-R4)
	c.Floor("C07-R16", 1)
	c.Borrow("C07-R16", runC17, func(o an.Obligation) bool { return o.Rule == "C17-R4" && strings.Contains(o.Key, ").Exchange") })
	// ---- R15: the location used for the cache key is a fresh object; the GeoIP cache's shared location of a whole
	// network is never handed to code that fills in the subnet's ASN (shared with C05-R1)
	c.Floor("C07-R15", 1)
	c.Borrow("C07-R15", runC05, func(o an.Obligation) bool { return o.Rule == "C05-R1" && strings.Contains(o.Key, "locFromReq") })
	// ---- R10: every pool constructor builds fresh objects (no object or buffer shared between pooled objects)
	if n := sharedPoolNewFresh(c, "C07-R10"); n < 10 {
		c.Und("C07-R10", "pool constructors", token.NoPos, "only %d pool constructors found", n)
	}
	c.Inf("C07-R8", "pooled scratch buffers", token.NoPos, "%d Get/Put pairs of byte buffers examined in the whole repository", sharedPooledBufferEscape(c, "C07-R8", ""))
	// ---- R13: cache keys keep every component apart; the response to a rewritten request gets the client's own ID back
	c.Floor("C07-R13", 2)
	sharedKeyPacking(c, "C07-R13", "ecscache.(*Middleware).toCacheKey", 1)
	mainmwFilterSteps(c, "C07-R13")
	c.Floor("C07-R14", 3)
	c12NoAliasCached(c, "C07-R14")
	// ---- R12: arrays put into an array pool never overlap
	if n := sharedArrayPoolPut(c, "C07-R12"); n < 1 {
		c.Und("C07-R12", "array pools fed from slices", token.NoPos, "no Put of a converted slice found (anchor: httpsCloner.putIPs)")
	}
	// ---- R11: arguments of the same type are not crossed on their way through the repository's own functions
	c.Inf("C07-R11", "crossed arguments", token.NoPos, "%d call sites with two same-typed named arguments examined", sharedSwappedArgs(c, "C07-R11", ""))
	// ---- R9: an upstream connection on which an exchange failed is closed, not pooled: a late reply left in its
	// buffer would be read as the answer to another client's query (shared with C17-R4)
	c.Floor("C07-R9", 1)
	c.Borrow("C07-R9", runC17, func(o an.Obligation) bool { return o.Rule == "C17-R4" && strings.Contains(o.Key, "processConn") })
	dnssvcWiring(c, "C07-R6", func(dst, src string) bool {
		n := normName(dst) + " " + normName(src)
		return strings.Contains(n, "cloner") || strings.Contains(n, "disposer")
	}, 3)
	// the ECS cache stores the response before any per-client adjustment (shared with C04-R5)
	ecsStoreOrder(c, "C07-R4")
	c.Inf("C07-R6", "shared-configuration sweep", token.NoPos, "%d stores into shared server-group / profile data found on the request path (each is reported)",
		sharedConfigImmutable(c, "C07-R6", "dnssvc", "filter/", "ecscache.", "dnsmsg."))
	c04ClonerPools(c, "C07-R1")
	c.Floor("C07-R8", 4)
	c06BufferLifetime(c, "C07-R8")
	c.Inf("C07-R5", "whole-struct copies", token.NoPos, "%d whole-struct copies in package dnsmsg examined", sharedNoShallowCopy(c, "C07-R5", "dnsmsg."))
	c.Inf("C07-R1", "pooled buffers", token.NoPos, "%d Pool.Get sites of byte buffers / string builders in the whole repository checked for Reset-before-use",
		sharedPoolBufferReset(c, "C07-R1", ""))
	c.Floor("C07-R1", 60)
	c.Floor("C07-R2", 10)
	c.Floor("C07-R3", 4)
	c.Floor("C07-R4", 4)
	c.Floor("C07-R5", 20)
	c.Floor("C07-R6", 10)

	// pool constructor closures
	ctor := map[*ssa.Function]bool{}
	for _, fn := range c.AllFns {
		for _, call := range an.Calls(fn) {
			if strings.HasPrefix(an.CalleeName(call), "github.com/AdguardTeam/golibs/syncutil.NewPool") {
				switch a := call.Common().Args[0].(type) {
				case *ssa.MakeClosure:
					if f, ok := a.Fn.(*ssa.Function); ok {
						ctor[f] = true
					}
				case *ssa.Function:
					ctor[a] = true
				}
			}
		}
	}

	// ---- R1
	for _, fn := range c.AllFns {
		if c.IsTestFile(fn.Pos()) {
			continue
		}
		k := an.FnKey(fn)
		// the cloners' clone functions are covered by R5; plain buffers have no fields to reset
		if strings.HasPrefix(k, "dnsmsg.(*") {
			continue
		}
		for _, call := range an.Calls(fn) {
			n, st := poolGetStruct(call)
			if n == nil || an.TypeName(n) == "bytes.Buffer" {
				continue
			}
			c.Analysed(k)
			get := call.(*ssa.Call)
			fi := fieldInit(c, fn, get, st)
			var names []string
			for f := range fi {
				names = append(names, f)
			}
			sort.Strings(names)
			for _, f := range names {
				key := fmt.Sprintf("%s %s.%s", k, an.TypeName(n), f)
				switch fi[f] {
				case "always":
					c.Ok("C07-R1", key, call.Pos(), "assigned on every path from Pool.Get to the exit")
				default:
					if why, ok := c07CallerSets(an.TypeName(n), f); ok {
						c.Ok("C07-R1", key, call.Pos(), "exception: %s", why)
						continue
					}
					// constructor-only fields
					top := strings.SplitN(f, ".", 2)[0]
					outside := 0
					for _, fs := range c.FieldStores(an.TypeName(n), top) {
						if !ctor[fs.In] && !c.IsTestFile(fs.Store.Pos()) {
							pk := an.FnPkg(fs.In)
							if pk != nil && strings.HasSuffix(pk.Path(), "test") {
								continue
							}
							outside++
						}
					}
					if outside == 0 && fi[f] == "never" {
						c.Ok("C07-R1", key, call.Pos(), "written by the pool's constructor only (constant for the pool's lifetime)")
					} else {
						c.Bad("C07-R1", key, call.Pos(), "the field of the recycled object is not re-initialised on every path (%s; %d writes elsewhere): the next request sees the previous request's value", fi[f], outside)
					}
				}
			}
		}
	}
	c.Except("C07-R1", "dns.RR_Header of dnsmsg constructors", "callers must set rr.Hdr (documented contract of newA … newOPT)")

	// ---- R2 use after release
	for _, fn := range c.AllFns {
		if c.IsTestFile(fn.Pos()) {
			continue
		}
		if pk := an.FnPkg(fn); pk != nil && strings.HasSuffix(pk.Path(), "test") {
			continue
		}
		for _, call := range an.Calls(fn) {
			n := an.Short(an.CalleeName(call))
			isPut := isPoolPut(call)
			isDispose := n == "(*dnsmsg.Cloner).Dispose" || n == "(dnsserver.Disposer).Dispose"
			if !isPut && !isDispose {
				continue
			}
			args := call.Common().Args
			x := args[len(args)-1]
			if isByteSlicePtr(x.Type()) {
				continue // receive/response buffers: C06-R2
			}
			if strings.HasPrefix(an.FnKey(fn), "dnsmsg.") && isPut {
				continue // the cloner's own put* functions release what they were given
			}
			c.Analysed(an.FnKey(fn))
			key := fmt.Sprintf("%s %s(%s)", an.FnKey(fn), map[bool]string{true: "Put", false: "Dispose"}[isPut], strings.TrimPrefix(an.TypeName(x.Type()), "github.com/miekg/"))
			_, isDefer := call.(*ssa.Defer)
			if mc := escapingCapture(fn, x); mc != nil && (isDefer || an.CanReach(mc, call)) {
				c.Bad("C07-R2", key, call.Pos(), "the object is captured by an asynchronous closure but released by the creating function")
				continue
			}
			if isDefer {
				c.Ok("C07-R2", key, call.Pos(), "released by a defer, after every use in the function")
				continue
			}
			if use := useAfter(c, call, x); use != nil {
				c.Bad("C07-R2", key, call.Pos(), "the released object is used again at %s: another request may already own it", c.Pos(use.Pos()))
			} else {
				c.Ok("C07-R2", key, call.Pos(), "no use after release on any path")
			}
		}
	}

	c07Dispose(c)
	c07Caches(c, "C07-R4")
	sharedReplyInit(c, "C07-R4")
	c07Cloner(c, "C07-R5")

	// ---- R6 who writes RequestInfo
	if t := c.TypeByString("agd.RequestInfo"); t != nil {
		st := t.Underlying().(*types.Struct)
		for i := 0; i < st.NumFields(); i++ {
			f := st.Field(i).Name()
			var bad []string
			for _, fs := range c.FieldStores("agd.RequestInfo", f) {
				if c.IsTestFile(fs.Store.Pos()) {
					continue
				}
				k := an.FnKey(fs.In)
				if pk := an.FnPkg(fs.In); pk != nil && strings.HasSuffix(pk.Path(), "test") {
					continue
				}
				if strings.HasPrefix(k, "dnssvc/internal/ratelimitmw.") {
					continue
				}
				// fresh copies built field by field in a composite literal are fine
				if fa, ok := fs.Store.Addr.(*ssa.FieldAddr); ok {
					if _, isAlloc := fa.X.(*ssa.Alloc); isAlloc {
						continue
					}
				}
				bad = append(bad, k+" ("+c.Pos(fs.Store.Pos())+")")
			}
			key := "agd.RequestInfo." + f + " writers"
			if len(bad) > 0 {
				c.Bad("C07-R6", key, st.Field(i).Pos(), "the shared request information is modified outside the middleware that owns it: %s", strings.Join(bad, ", "))
			} else {
				c.Ok("C07-R6", key, st.Field(i).Pos(), "written only by the rate-limit middleware (its producer) or in fresh copies")
			}
		}
	}
}

// c07Dispose checks who disposes responses and when.
func c07Dispose(c *an.Ctx) {
	decide(c, "C07-R3", "dnsserver.(*ServerBase).dispose", an.DecideCfg{
		Dom: an.Domain{"type(p1)": an.Strs("*dnsserver.tcpResponseWriter", "*dnsserver.udpResponseWriter", "*dnsserver.NonWriterResponseWriter", "*dnsserver.RecorderResponseWriter")},
		Expect: func(f an.Features, o an.AOutcome) string {
			t := f.S("type(p1)")
			want := t == "*dnsserver.tcpResponseWriter" || t == "*dnsserver.udpResponseWriter"
			if want == o.HasCall("p0.disposer.Dispose") {
				return ""
			}
			return fmt.Sprintf("dispose=%v for %s (only the UDP and TCP writers are done with the message at this point)", want, t)
		},
	})
	// glue: dispose after the wire write
	for _, it := range []struct{ fn, write string }{
		{"dnsserver.(*ServerQUIC).serveQUICStream", "Write"},
		{"dnsserver.(*httpHandler).serveDoH", "writeResponse"},
	} {
		fn := c.Fn(it.fn)
		if fn == nil {
			c.Und("C07-R3", it.fn, token.NoPos, "anchor not found")
			continue
		}
		var wr, dis ssa.CallInstruction
		for _, call := range an.Calls(fn) {
			n := an.Short(an.CalleeName(call))
			if strings.HasSuffix(n, "."+it.write) {
				wr = call
			}
			if strings.HasSuffix(n, "Disposer).Dispose") {
				dis = call
			}
		}
		c.Check(wr != nil && dis != nil && an.Dominates(wr, dis), "C07-R3", it.fn+" dispose after write", fn.Pos(),
			"the response is released only after it was written to the wire", "the response is released before (or without) the wire write: a recycled message can be serialised")
	}
	// mainmw
	if fn := c.Fn("dnssvc/internal/mainmw.(*Middleware).Wrap$1"); fn == nil {
		c.Und("C07-R3", "dnssvc/internal/mainmw.(*Middleware).Wrap$1", token.NoPos, "anchor not found")
	} else {
		var wr, rec ssa.CallInstruction
		var dis []ssa.CallInstruction
		for _, call := range an.Calls(fn) {
			n := an.Short(an.CalleeName(call))
			cc := call.Common()
			switch {
			case cc.IsInvoke() && cc.Method.Name() == "WriteMsg":
				wr = call
			case strings.HasSuffix(n, ").recordQueryInfo"):
				rec = call
			case n == "(*dnsmsg.Cloner).Dispose":
				dis = append(dis, call)
			}
		}
		ok := wr != nil && rec != nil && len(dis) == 1
		why := "exactly one disposal after the write and the bookkeeping"
		if ok {
			d := dis[0]
			if !an.Dominates(wr, d) || !an.Dominates(rec, d) {
				ok = false
				why = "the upstream answer is released before the response is written or recorded"
			}
			gated := false
			for _, e := range an.DominatingConds(d.Block()) {
				if b, isBin := e.If.Cond.(*ssa.BinOp); isBin && b.Op == token.NEQ && e.Branch {
					x, okx := an.AccessPath(b.X)
					y, oky := an.AccessPath(b.Y)
					if okx && oky && strings.HasSuffix(x, ".filteredResponse") && strings.HasSuffix(y, ".originalResponse") {
						gated = true
					}
				}
			}
			if !gated {
				ok = false
				why = "the upstream answer is released although it may be the very message that was written"
			}
			if ap, okp := an.AccessPath(d.Common().Args[1]); !okp || !strings.HasSuffix(ap, ".originalResponse") {
				ok = false
				why = "something other than the upstream answer is released"
			}
		}
		c.Check(ok, "C07-R3", "mainmw Wrap dispose", fn.Pos(),
			"the upstream answer is released only when a different message was written, after the write and the bookkeeping", why)
	}
}

// c07Caches checks clone-in / clone-out.
func c07Caches(c *an.Ctx, rule string) {
	isCloneCall := func(v ssa.Value) bool {
		v = an.Unwrap(v)
		call, ok := v.(*ssa.Call)
		if !ok {
			return false
		}
		n := an.Short(an.CalleeName(call))
		return n == "(*dnsmsg.Cloner).Clone" || n == "(*github.com/miekg/dns.Msg).Copy" ||
			strings.HasSuffix(n, ").Clone") && strings.HasPrefix(n, "(*filter/internal.Result") ||
			strings.HasSuffix(n, ").CloneForReq")
	}
	// ecscache.set stores a clone
	if fn := c.Fn("ecscache.(*Middleware).set"); fn == nil {
		c.Und(rule, "ecscache.(*Middleware).set", token.NoPos, "anchor not found")
	} else {
		ok := false
		for _, call := range an.CallsTo(fn, "ecscache.toCacheItem") {
			if isCloneCall(call.Common().Args[0]) {
				ok = true
			}
		}
		c.Check(ok, rule, "ecscache.(*Middleware).set stores a clone", fn.Pos(), "the cached message is a clone of the response",
			"the ECS cache stores the response object itself: the writer that later disposes or adjusts it corrupts the cache")
	}
	if fn := c.Fn("dnsserver/cache.(*Middleware).toCacheItem"); fn == nil {
		c.Und(rule, "dnsserver/cache.(*Middleware).toCacheItem", token.NoPos, "anchor not found")
	} else {
		ok := false
		for _, fs := range c.FieldStores("dnsserver/cache.cacheItem", "msg") {
			if fs.In == fn && isCloneCall(fs.Val) {
				ok = true
			}
		}
		c.Check(ok, rule, "dnsserver/cache.(*Middleware).toCacheItem stores a copy", fn.Pos(), "the cached message is a copy", "the simple cache stores the response object itself")
	}
	if fn := c.Fn("filter/hashprefix.(*Filter).setInCache"); fn == nil {
		c.Und(rule, "filter/hashprefix.(*Filter).setInCache", token.NoPos, "anchor not found")
	} else {
		n, bad := 0, 0
		for _, fs := range c.FieldStores("filter/hashprefix.cacheItem", "res") {
			if fs.In != fn {
				continue
			}
			if an.IsNilConst(an.Unwrap(fs.Val)) {
				continue
			}
			n++
			if !isCloneCall(fs.Val) {
				bad++
			}
		}
		c.Check(n > 0 && bad == 0, rule, "filter/hashprefix.(*Filter).setInCache stores clones", fn.Pos(), "every cached result is a clone",
			"the hash-prefix cache stores the result object handed to the requester")
	}
	if fn := c.Fn("filter/hashprefix.(*Filter).clonedResult"); fn == nil {
		c.Und(rule, "filter/hashprefix.(*Filter).clonedResult", token.NoPos, "anchor not found")
	} else {
		ok := true
		n := 0
		for _, r := range an.Returns(fn) {
			v := an.Unwrap(r.Results[0])
			if an.IsNilConst(v) {
				continue
			}
			n++
			if !isCloneCall(v) {
				ok = false
			}
		}
		c.Check(ok && n >= 2, rule, "filter/hashprefix.(*Filter).clonedResult hands out clones", fn.Pos(), "cached results are cloned for every requester",
			"a cached result object is handed to a requester that may modify or dispose it")
	}
}

// c07Cloner checks the deep-copy discipline of the dnsmsg cloners.
func c07Cloner(c *an.Ctx, rule string) {
	refLikeT := func(t types.Type) bool {
		switch u := t.Underlying().(type) {
		case *types.Slice, *types.Pointer, *types.Map:
			return true
		case *types.Interface:
			_ = u
			return true
		}
		return false
	}
	// every dnsmsg function that builds (part of) a clone: reachable from Cloner.Clone, plus the record constructors
	var roots []*ssa.Function
	if r := c.Fn("dnsmsg.(*Cloner).Clone"); r != nil {
		roots = append(roots, r)
	}
	for _, fn := range c.FnsMatching("dnsmsg.new") {
		roots = append(roots, fn)
	}
	reach := c.ReachableFrom(roots, nil)
	var fns []*ssa.Function
	for fn := range reach {
		if strings.HasPrefix(an.FnKey(fn), "dnsmsg.") && !c.IsTestFile(fn.Pos()) {
			fns = append(fns, fn)
		}
	}
	sort.Slice(fns, func(i, j int) bool { return an.FnKey(fns[i]) < an.FnKey(fns[j]) })
	for _, fn := range fns {
		k := an.FnKey(fn)
		c.Analysed(k)
		an.Instrs(fn, func(in ssa.Instruction) {
			st, ok := in.(*ssa.Store)
			if !ok || !refLikeT(st.Val.Type()) {
				return
			}
			typ, field, base, ok := an.FieldOf(st.Addr)
			if !ok {
				return
			}
			// only stores into clone objects (not into the cloner's own state)
			if strings.HasPrefix(typ, "dnsmsg.") {
				return
			}
			_ = base
			key := fmt.Sprintf("%s stores %s.%s", k, strings.TrimPrefix(typ, "github.com/miekg/"), field)
			v := an.Unwrap(st.Val)
			shallow := ""
			switch x := v.(type) {
			case *ssa.Parameter:
				if _, isSlice := x.Type().Underlying().(*types.Slice); isSlice {
					shallow = "the caller's slice itself (parameter " + x.Name() + ")"
				}
			case *ssa.UnOp:
				if x.Op == token.MUL {
					if _, isFA := x.X.(*ssa.FieldAddr); isFA {
						shallow = "a reference loaded from another object's field"
					}
					if _, isIA := x.X.(*ssa.IndexAddr); isIA {
						shallow = "a reference loaded from another object's slice"
					}
				}
			case *ssa.Slice:
				// reslicing the clone's own field (x.f = x.f[:0]) is fine; reslicing the original is not
				if ld, ok := x.X.(*ssa.UnOp); ok && ld.Op == token.MUL {
					if fa, ok := ld.X.(*ssa.FieldAddr); ok {
						p1, ok1 := an.AccessPath(fa)
						p2, ok2 := an.AccessPath(st.Addr)
						if !ok1 || !ok2 || p1 != p2 {
							shallow = "a re-slice of another object's backing array"
						}
					}
				}
			}
			if shallow != "" {
				c.Bad(rule, key, st.Pos(), "the clone receives %s: clone and original share memory, so releasing or modifying one corrupts the other", shallow)
			} else {
				c.Ok(rule, key, st.Pos(), "fresh, appended, pooled or cloned value")
			}
		})
	}
	// clone / dispose tables agree
	typesAsserted := func(fnKey string) (map[string]bool, *ssa.Function) {
		fn := c.Fn(fnKey)
		if fn == nil {
			return nil, nil
		}
		m := map[string]bool{}
		an.Instrs(fn, func(in ssa.Instruction) {
			if ta, ok := in.(*ssa.TypeAssert); ok {
				m[an.Short(types.TypeString(ta.AssertedType, nil))] = true
			}
		})
		return m, fn
	}
	for _, pair := range [][2]string{
		{"dnsmsg.(*Cloner).cloneAnswerRR", "dnsmsg.(*Cloner).putAnswers"},
		{"dnsmsg.(*httpsCloner).cloneKV+dnsmsg.(*httpsCloner).cloneIfHint", "dnsmsg.(*httpsCloner).putKV"},
		{"dnsmsg.(*optCloner).clone", "dnsmsg.(*optCloner).put"},
	} {
		var a map[string]bool
		var fa *ssa.Function
		for _, k := range strings.Split(pair[0], "+") {
			m, f := typesAsserted(k)
			if m == nil {
				a = nil
				break
			}
			if a == nil {
				a, fa = map[string]bool{}, f
			}
			for t := range m {
				a[t] = true
			}
		}
		b, _ := typesAsserted(pair[1])
		// the container types asserted on the dns.Copy fallback are not pool members
		for _, t := range []string{"*github.com/miekg/dns.OPT", "*github.com/miekg/dns.HTTPS"} {
			delete(a, t)
			delete(b, t)
		}
		key := pair[0] + " vs " + pair[1]
		if a == nil || b == nil {
			c.Und(rule, key, token.NoPos, "anchor not found")
			continue
		}
		var diff []string
		for t := range a {
			if !b[t] {
				diff = append(diff, t+" cloned but never released")
			}
		}
		for t := range b {
			if !a[t] {
				diff = append(diff, t+" released but never cloned from the pool")
			}
		}
		sort.Strings(diff)
		c.Check(len(diff) == 0, rule, key, fa.Pos(), fmt.Sprintf("both switches name the same %d types", len(a)),
			"the clone and release switches disagree: "+strings.Join(diff, "; "))
	}
}

// c07CustomListUncached: rulelist.ResultCache keys a verdict by host, type and
// direction only.  A profile's custom rules may carry $client modifiers, which
// make the verdict depend on the device name and address; a cached verdict of
// one device would then answer the others.  custom.(*Filters).Get compiles the
// list with rulelist.ResultCacheEmpty.
func c07CustomListUncached(c *an.Ctx, rule string) {
	k := "filter/internal/custom.(*Filters).Get"
	fn := c.Prog.Fn(k)
	key := k + " compiles the custom rules without a result cache"
	if fn == nil {
		c.Und(rule, key, token.NoPos, "anchor not found")
		return
	}
	c.Analysed(k)
	n := 0
	for _, call := range an.Calls(fn) {
		if !strings.HasSuffix(an.CalleeName(call), "rulelist.NewImmutable") {
			continue
		}
		n++
		args := call.Common().Args
		last := args[len(args)-1]
		typ := ""
		if mi, ok := last.(*ssa.MakeInterface); ok {
			typ = mi.X.Type().String()
		} else {
			typ = last.Type().String()
		}
		c.Check(strings.HasSuffix(typ, "rulelist.ResultCacheEmpty"), rule, key, call.Pos(), "the cache argument is rulelist.ResultCacheEmpty",
			"the custom rule list is compiled with a result cache of type "+typ+": its key leaves out the device name and address that $client rules depend on, so the first device of a profile to ask decides the verdict for the others")
	}
	if n == 0 {
		c.Und(rule, key, fn.Pos(), "no rulelist.NewImmutable call")
	}
}

// c07AddrObjectsFresh: net.Conn.LocalAddr and RemoteAddr return the connection's
// own address object, the same one for every caller.  A session that needs an
// address with another IP makes a new object; writing the field of the shared
// one changes the local address of every request in flight on that socket
// (dedicated-IP lookups, access checks, the debug record).  Returns the number
// of stores examined.
func c07AddrObjectsFresh(c *an.Ctx, rule string) (examined int) {
	for _, fn := range c.AllFns {
		k := an.FnKey(fn)
		if fn.Blocks == nil || c.IsTestFile(fn.Pos()) || !(strings.HasPrefix(k, "dnsserver/netext.") || strings.HasPrefix(k, "bindtodevice.")) {
			continue
		}
		inFn := 0
		an.Instrs(fn, func(in ssa.Instruction) {
			st, ok := in.(*ssa.Store)
			if !ok {
				return
			}
			fa, ok := st.Addr.(*ssa.FieldAddr)
			if !ok {
				return
			}
			t, f, _, ok := an.FieldOf(fa)
			if !ok || t != "net.UDPAddr" && t != "net.TCPAddr" {
				return
			}
			examined++
			inFn++
			c.Analysed(k)
			_, fresh := fa.X.(*ssa.Alloc)
			c.Check(fresh, rule, fmt.Sprintf("%s: store %d into %s.%s goes to an object of its own", k, inFn, t, f), st.Pos(),
				"the object is allocated in this function",
				fmt.Sprintf("the field %s.%s is written at %s through a pointer that was not allocated here (%s): if it is the connection's own address object, every session of the socket sees the change", t, f, c.Pos(st.Pos()), fa.X.String()))
		})
	}
	return examined
}

// c07CacheHitCopies: in dnsserver/cache.(*Middleware).fromCacheItem every value
// appended to a section of the served message is, followed through helper
// functions of the package and phis, the result of a dns.Copy call.
func c07CacheHitCopies(c *an.Ctx, rule string) {
	k := "dnsserver/cache.(*Middleware).fromCacheItem"
	fn := c.Prog.Fn(k)
	key := k + " serves copies of the cached records"
	if fn == nil {
		c.Und(rule, key, token.NoPos, "anchor not found")
		return
	}
	c.Analysed(k)
	var isCopy func(v ssa.Value, d int) bool
	isCopy = func(v ssa.Value, d int) bool {
		if d > 5 {
			return false
		}
		switch x := v.(type) {
		case *ssa.Phi:
			for _, e := range x.Edges {
				if !isCopy(e, d+1) {
					return false
				}
			}
			return len(x.Edges) > 0
		case *ssa.MakeInterface:
			return isCopy(x.X, d+1)
		case *ssa.Call:
			if an.CalleeName(x) == "github.com/miekg/dns.Copy" {
				return true
			}
			if callee := an.StaticCallee(x); callee != nil && c.InRepo(callee) && callee.Blocks != nil {
				rets := an.Returns(callee)
				if len(rets) == 0 {
					return false
				}
				for _, r := range rets {
					if len(r.Results) != 1 || !isCopy(r.Results[0], d+1) {
						return false
					}
				}
				return true
			}
		}
		return false
	}
	n, bad := 0, ""
	for _, call := range an.Calls(fn) {
		b, ok := call.Common().Value.(*ssa.Builtin)
		if !ok || b.Name() != "append" || len(call.Common().Args) != 2 {
			continue
		}
		sl, ok := call.Common().Args[1].(*ssa.Slice)
		if !ok {
			continue
		}
		al, ok := sl.X.(*ssa.Alloc)
		if !ok {
			continue
		}
		for _, r := range *al.Referrers() {
			ia, ok := r.(*ssa.IndexAddr)
			if !ok {
				continue
			}
			for _, st := range an.Stores(ia) {
				if !strings.HasSuffix(st.Val.Type().String(), "dns.RR") {
					continue
				}
				n++
				if !isCopy(st.Val, 0) {
					bad = "the record appended at " + c.Pos(call.Pos()) + " is not (on every path) a dns.Copy of the cached one"
				}
			}
		}
	}
	if n == 0 {
		c.Und(rule, key, fn.Pos(), "no appended record found")
		return
	}
	c.Check(bad == "", rule, key, fn.Pos(), fmt.Sprintf("%d appended records, all dns.Copy results", n),
		bad+": the served message shares record objects with the cache; once the server has disposed of it, another client's answer is written into them and every later hit serves that")
}
