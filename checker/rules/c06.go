package rules

import (
	"fmt"
	"go/token"
	"go/types"
	"sort"
	"strings"

	"adgverif/an"

	"golang.org/x/tools/go/ssa"
)

func init() {
	register(&Property{
		ID: "C06", Technique: "interprocedural length-provenance dataflow over go/ssa for every decoder input; use-after-Put and hand-over path rules",
		Run: runC06,
		Explain: an.Explanation{
			Text: "Decides the structural clause of C06: every byte slice that reaches the DNS decoder " +
				"((*dns.Msg).Unpack) has, on every def-use path, a length bounded by the bytes of the message " +
				"just read. The argument of each Unpack call is walked backwards through parameters (all static " +
				"call sites), closure captures, pooled-pointer loads (stores through the same pointer), function " +
				"results and phi nodes; each leaf must be Bounded (slice whose high bound derives only from a " +
				"read count), FullyRead (io.ReadFull on the same buffer succeeded on every path to the hand-over) " +
				"or Fresh (io.ReadAll, base64 decode, Pack, make). A pooled buffer reached without one of these is " +
				"a violation. R2: no receive buffer is used, or handed to a worker, after it was returned to its " +
				"pool. R3 (sweep): the same length walk for every []byte passed to a Read-like call from a pool, " +
				"reported as information.",
			NotCovered: "that (*dns.Msg).Unpack is a function of its argument only (trusted); semantics of the " +
				"third-party DNSCrypt and HTTP libraries' own buffers.",
			Rules: map[string]string{"C06-R23": "the three functions that rebuild a stored message for another request (both caches' fromCacheItem, CloneForReq) leave the question section to SetReply / SetRcode: the answer never carries the question as an earlier client spelled it", "C06-R22": "a cache stores a clone, never the message that is then finished for the client and disposed of into the pools (shared with C07-R4)", "C06-R21": "every field of a record taken from the cloner's pools is assigned on every path (shared with C07-R1): a recycled record does not keep parts of the message it was used for before", "C06-R19": "the forwarding handler writes only a response that came without an error (table shared with C17-R1): a reply that failed validation (another query's ID or question) is never passed on; R20: the cloner fills the sections of a pooled message by appending to their zero-length prefix, never by re-slicing them to the source's length (a pooled message may have no room: the FORMERR reply to a query without a question was disposed with a nil Question)", "C06-R18": "the bind-to-device writer arms the socket with the deadline of every queued response before it writes it, unconditionally: a response whose deadline has passed (its sender has already given up and reused the buffer) fails instead of going out with another response's bytes", "C06-R17": "an OPT record taken from the cloner's pool starts without options (shared with C08-R6): a constructed answer carries no EDNS option of the message the record served before", "C06-R15": "packWithPrefix returns the bytes that PackBuffer returned: every returned slice got the packed message copied in behind the two-byte prefix (PackBuffer may allocate a new array although the result would have fitted, so the caller's buffer is not the message)", "C06-R16": "the plain-DNS server keeps separate pools for UDP and TCP request buffers (the TCP path shrinks pooled slices to the message length, the UDP path reads into the slice as it is)", "C06-R14": "pooled per-request state is fully re-initialised before use (ecscache cacheRequest; shared with C07-R1)", "C06-R13": "hashprefix.setInCache stores clones: the message handed to the first requester is disposed of after the write and must not be the cached one (shared with C07-R4)", "C06-R11": "ecscache.writeUpstreamResponse stores the answer before it adds this requester's client-subnet option (shared with C07-R4)", "C06-R12": "request-path code does not write into record templates shared by all requests of a server group (shared with C07-R6)", "C06-R10": "the simple cache keeps its own copy of a response; the written message goes back to the pools and is overwritten by later answers (shared with C07-R4)", "C06-R9": "a pooled buffer that is held in a field of an object outliving the call is returned by test-and-clear (one Put per object, however often the function runs for it)", "C06-R8": "cached answers are re-initialised from the current request (shared with C12-R11)", "C06-RC": "class rules (error chains, shadowed results, character classes, crossed arguments, pool constructors, array pools, loop completeness, loop-carried buffers, replacing setters, complete clones, Grow arithmetic, pooled-buffer escape, sorted searches, fresh decode targets, per-iteration objects, whole-message copies, codec guards) over the packages this property rests on", "C06-R7": "deep-copy discipline of the record constructors and the cloner (shared with C07-R5)", "C06-R6": "pooled per-request objects (filtering context, request info) are fully re-initialised when taken from the pool", "C06-R5": "a response goes back to the message pools only from writers after which nothing reads it (dispose gates, shared with C07-R3)",
				"C06-R1": "length provenance of every (*dns.Msg).Unpack argument: Bounded | FullyRead | Fresh on all paths",
				"C06-R3": "buffer-pool wiring: a pool field of a reader / writer is set from the server's pool field of the same name (request buffers and response buffers never share a pool)",
				"C06-R2": "no use of a pooled receive buffer after Pool.Put on any path; Put after hand-over to a worker only inside the worker",
			},
			Assumptions: []string{
				"(*dns.Msg).Unpack reads only the slice it is given",
				"Read-like calls (Read, ReadFrom, ReadFull, ReadFromSession, ReadMsgUDP*) return the number of bytes they wrote at the start of the buffer",
			},
		},
	})
}

const unpackName = "(*github.com/miekg/dns.Msg).Unpack"

// readCountFuncs are the base names of calls whose first integer result is the
// number of bytes written to the start of the buffer argument.
var readCountFuncs = map[string]bool{
	"Read": true, "ReadFrom": true, "ReadFull": true, "ReadAtLeast": true,
	"ReadFromSession": true, "ReadMsgUDP": true, "ReadMsgUDPAddrPort": true,
	"ReadFromUDP": true, "ReadFromUDPAddrPort": true,
}

// freshFuncs produce a new slice holding exactly the produced bytes.
var freshFuncs = map[string]bool{
	"io.ReadAll": true,
	"(*encoding/base64.Encoding).DecodeString": true,
	"(*github.com/miekg/dns.Msg).Pack":         true,
	"(*github.com/miekg/dns.Msg).PackBuffer":   true,
	"bytes.Clone":                              true,
	"slices.Clone":                             true,
	"(*bytes.Buffer).Bytes":                    true,
}

type c06leaf struct {
	class string // bounded, fullyread, fresh, pooled, unknown
	pos   token.Pos
	desc  string
}

type c06 struct {
	c     *an.Ctx
	seen  map[ssa.Value]bool
	depth int
	// filled is set while walking the contents of a buffer on which io.ReadFull
	// is known to have succeeded: a slice whose length is the announced
	// message length is then completely overwritten with the message's bytes.
	filled bool
}

// announced reports whether integer v derives only from a length prefix read
// from the wire (binary.Read into a local, binary.BigEndian.Uint16).
func (a *c06) announced(v ssa.Value) bool {
	ok, bad := false, false
	w := &an.Walker{P: a.c.Prog}
	w.Visit = func(v ssa.Value) bool {
		switch x := v.(type) {
		case *ssa.UnOp:
			if al, isAlloc := x.X.(*ssa.Alloc); isAlloc && x.Op == token.MUL {
				for _, r := range *al.Referrers() {
					if c, isCall := r.(ssa.CallInstruction); isCall && an.IsCall(c, "encoding/binary.Read") {
						ok = true
						return true
					}
					if mi, isMI := r.(*ssa.MakeInterface); isMI {
						for _, r2 := range *mi.Referrers() {
							if c, isCall := r2.(ssa.CallInstruction); isCall && an.IsCall(c, "encoding/binary.Read") {
								ok = true
								return true
							}
						}
					}
				}
			}
		case *ssa.Call:
			if an.IsCall(x, "(encoding/binary.bigEndian).Uint16") {
				ok = true
				return true
			}
		case *ssa.BinOp:
			bad = true
			return true
		}
		return false
	}
	w.Leaf = func(v ssa.Value, why string) { bad = true }
	w.Walk(v)
	return ok && !bad
}

func baseName(full string) string {
	if i := strings.LastIndex(full, "."); i >= 0 {
		return full[i+1:]
	}
	return full
}

func isPoolGet(c ssa.CallInstruction) bool {
	n := an.CalleeName(c)
	return strings.HasPrefix(n, "(*github.com/AdguardTeam/golibs/syncutil.Pool") && strings.HasSuffix(n, ".Get") ||
		n == "(*sync.Pool).Get"
}

func isPoolPut(c ssa.CallInstruction) bool {
	n := an.CalleeName(c)
	return strings.HasPrefix(n, "(*github.com/AdguardTeam/golibs/syncutil.Pool") && strings.HasSuffix(n, ".Put") ||
		n == "(*sync.Pool).Put"
}

// countOK reports whether integer value v derives only from read counts and
// constants (through +, φ, conversions, repository function results,
// parameters and captured variables), with at least one read count.
func (a *c06) countOK(v ssa.Value) (ok bool, why string) {
	hasRead := false
	bad := ""
	w := &an.Walker{P: a.c.Prog}
	w.Visit = func(v ssa.Value) bool {
		switch x := v.(type) {
		case *ssa.BinOp:
			// n += read is fine; n + k (k > 0) would admit k stale bytes
			switch x.Op {
			case token.ADD:
				for _, op := range []ssa.Value{x.X, x.Y} {
					if k, isConst := an.ConstInt(op); isConst && k != 0 {
						bad = "adds a non-zero constant at " + a.c.Pos(x.Pos())
						return true
					}
				}
			case token.SUB:
				if k, isConst := an.ConstInt(x.Y); !isConst || k < 0 {
					bad = "subtracts a non-constant at " + a.c.Pos(x.Pos())
					return true
				}
			default:
				bad = "arithmetic " + x.Op.String() + " at " + a.c.Pos(x.Pos())
				return true
			}
		case *ssa.Extract:
			if c, isCall := x.Tuple.(*ssa.Call); isCall && x.Index == 0 {
				if f := an.StaticCallee(c); f == nil || !a.c.InRepo(f) || f.Blocks == nil {
					if readCountFuncs[baseName(an.CalleeName(c))] {
						hasRead = true
						return true
					}
				}
			}
		case *ssa.Call:
			if f := an.StaticCallee(x); f == nil || !a.c.InRepo(f) || f.Blocks == nil {
				if readCountFuncs[baseName(an.CalleeName(x))] {
					hasRead = true
					return true
				}
				if an.CalleeName(x) == "builtin.len" || an.CalleeName(x) == "builtin.min" {
					// len(buf) of the destination is an upper bound on what was
					// read only together with a read count; treat as non-read.
					bad = "len()/min() at " + a.c.Pos(x.Pos())
					return true
				}
			}
		}
		return false
	}
	w.Leaf = func(v ssa.Value, why string) {
		if _, isConst := v.(*ssa.Const); isConst {
			return
		}
		if bad == "" {
			bad = fmt.Sprintf("%s (%s) at %s", why, v.Name(), a.c.Pos(v.Pos()))
		}
	}
	w.Walk(v)
	if bad != "" {
		return false, bad
	}
	if !hasRead {
		return false, "no read count among the sources"
	}
	return true, ""
}

// fullyRead reports whether, in the function of `at`, a successful
// io.ReadFull into the slice loaded through ptr (or into slice value sl)
// dominates `at`.
func (a *c06) fullyRead(ptr ssa.Value, sl ssa.Value, at ssa.Instruction) bool {
	fn := at.Parent()
	for _, call := range an.CallsTo(fn, "io.ReadFull") {
		args := call.Common().Args
		if len(args) != 2 {
			continue
		}
		buf := args[1]
		match := false
		if sl != nil && buf == sl {
			match = true
		}
		if ptr != nil {
			if ld, ok := buf.(*ssa.UnOp); ok && ld.Op == token.MUL && ld.X == ptr {
				match = true
			}
		}
		if !match {
			continue
		}
		// err result of the call must be nil on the way to `at`
		cv, _ := call.(*ssa.Call)
		if cv == nil {
			continue
		}
		for _, e := range an.DominatingConds(at.Block()) {
			if errIsNilEdge(e, cv, 1) {
				return true
			}
		}
	}
	return false
}

// errIsNilEdge reports whether edge e is the "result #idx of call == nil" edge.
func errIsNilEdge(e an.CondEdge, call *ssa.Call, idx int) bool {
	b, ok := e.If.Cond.(*ssa.BinOp)
	if !ok || (b.Op != token.EQL && b.Op != token.NEQ) {
		return false
	}
	var other ssa.Value
	switch {
	case an.IsNilConst(b.Y):
		other = b.X
	case an.IsNilConst(b.X):
		other = b.Y
	default:
		return false
	}
	if !valueIsResult(other, call, idx) {
		return false
	}
	// EQL nil: true branch is nil; NEQ nil: false branch is nil
	return (b.Op == token.EQL) == e.Branch
}

// valueIsResult reports whether v is result #idx of call (directly, or through
// a local cell that is only stored from it before being read).
func valueIsResult(v ssa.Value, call *ssa.Call, idx int) bool {
	switch x := v.(type) {
	case *ssa.Extract:
		return x.Tuple == call && x.Index == idx
	case *ssa.Call:
		return x == call && idx == 0 && call.Common().Signature().Results().Len() == 1
	case *ssa.UnOp:
		if x.Op == token.MUL {
			if al, ok := x.X.(*ssa.Alloc); ok {
				// the last store before the load in the same block, or a single store
				blk := x.Block()
				var last *ssa.Store
				for _, in := range blk.Instrs {
					if in == x {
						break
					}
					if st, ok := in.(*ssa.Store); ok && st.Addr == al {
						last = st
					}
				}
				if last != nil {
					return valueIsResult(last.Val, call, idx)
				}
			}
		}
	case *ssa.Phi:
		for _, e := range x.Edges {
			if !valueIsResult(e, call, idx) {
				return false
			}
		}
		return len(x.Edges) > 0
	}
	return false
}

// slice classifies slice value v; `at` is the instruction where it is used.
func (a *c06) slice(v ssa.Value, at ssa.Instruction, out *[]c06leaf) {
	if a.seen[v] {
		return
	}
	a.seen[v] = true
	a.depth++
	defer func() { a.depth-- }()
	if a.depth > 50 {
		*out = append(*out, c06leaf{"unknown", v.Pos(), "depth bound"})
		return
	}
	add := func(cl string, pos token.Pos, d string) { *out = append(*out, c06leaf{cl, pos, d}) }

	switch x := v.(type) {
	case *ssa.Slice:
		if x.High != nil {
			if ok, why := a.countOK(x.High); ok {
				add("bounded", x.Pos(), "high bound derives from a read count")
				return
			} else if _, isConst := x.High.(*ssa.Const); !isConst {
				// not a read count: perhaps filled completely later
				_ = why
				if (a.filled || a.fullyRead(nil, x, at)) && a.announced(x.High) {
					add("fullyread", x.Pos(), "slice of the announced message length, completely filled by a successful io.ReadFull")
					return
				}
			}
		}
		a.sliceBase(x.X, x, out)
	case *ssa.Phi:
		for _, e := range x.Edges {
			a.slice(e, at, out)
		}
	case *ssa.ChangeType:
		a.slice(x.X, at, out)
	case *ssa.Convert:
		a.slice(x.X, at, out)
	case *ssa.Const:
		if x.Value == nil {
			return // nil slice: nothing decoded
		}
		add("fresh", x.Pos(), "constant")
	case *ssa.MakeSlice:
		add("fresh", x.Pos(), "make")
	case *ssa.Call:
		a.callResult(x, 0, out)
	case *ssa.Extract:
		if c, ok := x.Tuple.(*ssa.Call); ok {
			a.callResult(c, x.Index, out)
		} else {
			add("unknown", x.Pos(), "tuple element")
		}
	case *ssa.Parameter:
		fn := x.Parent()
		sites, escapes := a.c.ArgSites(fn, an.ParamIndex(x))
		for _, s := range sites {
			a.slice(s.Val, s.Call, out)
		}
		if len(sites) == 0 || escapes {
			add("unknown", x.Pos(), "parameter "+x.Name()+" of "+an.FnKey(fn)+" has callers the index cannot see")
		}
	case *ssa.UnOp:
		if x.Op != token.MUL {
			add("unknown", x.Pos(), "unary op")
			return
		}
		a.loaded(x, x.X, out)
	default:
		add("unknown", v.Pos(), fmt.Sprintf("unhandled %T", v))
	}
}

// sliceBase handles the operand of a slice expression without a read-count
// bound.
func (a *c06) sliceBase(base ssa.Value, at *ssa.Slice, out *[]c06leaf) {
	switch b := base.(type) {
	case *ssa.Alloc:
		// slicing a local array
		*out = append(*out, c06leaf{"fresh", b.Pos(), "local array"})
	default:
		if _, isPtr := base.Type().Underlying().(*types.Pointer); isPtr {
			// pointer to array
			*out = append(*out, c06leaf{"unknown", base.Pos(), "slice of array pointer"})
			return
		}
		a.slice(base, at, out)
	}
}

// loaded classifies the slice read by `ld` through address addr.
func (a *c06) loaded(ld *ssa.UnOp, addr ssa.Value, out *[]c06leaf) {
	add := func(cl string, pos token.Pos, d string) { *out = append(*out, c06leaf{cl, pos, d}) }
	switch ad := addr.(type) {
	case *ssa.Alloc:
		sts := a.c.StoresToCell(ad)
		if len(sts) == 0 {
			return // zero value: nil slice
		}
		for _, st := range sts {
			a.slice(st.Val, st, out)
		}
	case *ssa.FieldAddr:
		typ, field, _, ok := an.FieldOf(ad)
		if !ok {
			add("unknown", ld.Pos(), "field of unknown struct")
			return
		}
		fss := a.c.FieldStores(typ, field)
		if len(fss) == 0 {
			add("unknown", ld.Pos(), "field "+typ+"."+field+" never stored")
		}
		for _, fs := range fss {
			a.slice(fs.Val, fs.Store, out)
		}
	default:
		// *ptr where ptr is a *[]byte value
		a.ptr(addr, ld, out)
	}
}

// ptr classifies the slice that pointer value p points to at instruction at.
func (a *c06) ptr(p ssa.Value, at ssa.Instruction, out *[]c06leaf) {
	add := func(cl string, pos token.Pos, d string) { *out = append(*out, c06leaf{cl, pos, d}) }
	// a store through the same pointer that dominates `at` decides the contents
	if at.Parent() == parentOf(p) {
		var dom *ssa.Store
		for _, st := range an.Stores(p) {
			if an.Dominates(st, at) {
				if dom == nil || an.Dominates(dom, st) {
					dom = st
				}
			}
		}
		filled := a.fullyRead(p, nil, at)
		if dom != nil || filled {
			saved := a.filled
			a.filled = a.filled || filled
			defer func() { a.filled = saved }()
		}
		if dom != nil {
			a.slice(dom.Val, dom, out)
			return
		}
	}
	if a.seen[p] {
		return
	}
	a.seen[p] = true

	switch x := p.(type) {
	case *ssa.Call:
		if isPoolGet(x) {
			add("pooled", x.Pos(), "whole pooled buffer from "+an.Short(an.CalleeName(x)))
			return
		}
		a.ptrResult(x, 0, out)
	case *ssa.Extract:
		if c, ok := x.Tuple.(*ssa.Call); ok {
			a.ptrResult(c, x.Index, out)
		} else {
			add("unknown", x.Pos(), "tuple element")
		}
	case *ssa.Phi:
		for _, e := range x.Edges {
			a.ptr(e, at, out)
		}
	case *ssa.Parameter:
		fn := x.Parent()
		sites, escapes := a.c.ArgSites(fn, an.ParamIndex(x))
		for _, s := range sites {
			a.ptr(s.Val, s.Call, out)
		}
		if len(sites) == 0 || escapes {
			add("unknown", x.Pos(), "pointer parameter with callers the index cannot see")
		}
	case *ssa.UnOp:
		// load of a cell holding the pointer (captured variable or local)
		if x.Op == token.MUL {
			switch cell := x.X.(type) {
			case *ssa.Alloc:
				for _, st := range a.c.StoresToCell(cell) {
					a.ptr(st.Val, st, out)
				}
				return
			case *ssa.FreeVar:
				fn := cell.Parent()
				i := an.FreeVarIndex(cell)
				n := 0
				for _, s := range a.c.Callers(fn) {
					if s.Closure == nil || i >= len(s.Closure.Bindings) {
						continue
					}
					if al, ok := s.Closure.Bindings[i].(*ssa.Alloc); ok {
						for _, st := range a.c.StoresToCell(al) {
							n++
							a.ptr(st.Val, s.Closure, out)
						}
					}
				}
				if n == 0 {
					add("unknown", x.Pos(), "captured pointer without stores")
				}
				return
			}
		}
		add("unknown", x.Pos(), "pointer loaded from memory")
	case *ssa.FreeVar:
		fn := x.Parent()
		i := an.FreeVarIndex(x)
		n := 0
		for _, s := range a.c.Callers(fn) {
			if s.Closure != nil && i < len(s.Closure.Bindings) {
				n++
				a.ptr(s.Closure.Bindings[i], s.Closure, out)
			}
		}
		if n == 0 {
			add("unknown", x.Pos(), "captured pointer without closure site")
		}
	case *ssa.Alloc:
		// new([]byte) local
		sts := a.c.StoresToCell(x)
		for _, st := range sts {
			a.slice(st.Val, st, out)
		}
	default:
		add("unknown", p.Pos(), fmt.Sprintf("pointer of kind %T", p))
	}
}

func parentOf(v ssa.Value) *ssa.Function {
	if in, ok := v.(ssa.Instruction); ok {
		return in.Parent()
	}
	return v.Parent()
}

// ptrResult follows pointer result #i of call c into the callee.
func (a *c06) ptrResult(c *ssa.Call, i int, out *[]c06leaf) {
	callee := an.StaticCallee(c)
	if callee == nil || callee.Blocks == nil || !a.c.InRepo(callee) {
		*out = append(*out, c06leaf{"unknown", c.Pos(), "pointer from " + an.Short(an.CalleeName(c))})
		return
	}
	for _, r := range an.Returns(callee) {
		if i >= len(r.Results) {
			continue
		}
		v := r.Results[i]
		if an.IsNilConst(v) {
			continue
		}
		a.ptr(v, r, out)
	}
}

func (a *c06) callResult(c *ssa.Call, i int, out *[]c06leaf) {
	add := func(cl string, pos token.Pos, d string) { *out = append(*out, c06leaf{cl, pos, d}) }
	name := an.CalleeName(c)
	callee := an.StaticCallee(c)
	if callee != nil && callee.Blocks != nil && a.c.InRepo(callee) {
		for _, r := range an.Returns(callee) {
			if i < len(r.Results) {
				a.slice(r.Results[i], r, out)
			}
		}
		return
	}
	switch {
	case freshFuncs[name]:
		add("fresh", c.Pos(), an.Short(name))
	case name == "builtin.append":
		// append(dst, src...): length = len(dst)+len(src); both must be fine
		for _, arg := range c.Call.Args {
			a.slice(arg, c, out)
		}
	case name == "slices.Grow":
		a.slice(c.Call.Args[0], c, out)
	default:
		add("unknown", c.Pos(), "result of "+an.Short(name))
	}
}

func runC06(c *an.Ctx) {
	c.Floor("C06-R23", 3)
	if n := c06QuestionFromRequest(c, "C06-R23"); n < 3 {
		c.Und("C06-R23", "rebuild functions", 0, "%d of 3 functions found", n)
	}
	c.Floor("C06-R22", 2)
	c.Borrow("C06-R22", runC07, func(o an.Obligation) bool { return o.Rule == "C07-R4" })
	c.Floor("C06-R21", 10)
	c.Borrow("C06-R21", runC07, func(o an.Obligation) bool { return o.Rule == "C07-R1" })
	// ---- R19: only validated replies are written (shared with C17-R1); R20: pooled sections are appended to, not re-sliced
	c.Floor("C06-R19", 1)
	c.Borrow("C06-R19", runC17, func(o an.Obligation) bool { return o.Rule == "C17-R1" && strings.Contains(o.Key, "Handler).ServeDNS") })
	c.Floor("C06-R20", 1)
	c06CloneAppends(c, "C06-R20")
	// ---- R18: the deadline of a queued response always reaches the socket (Linux-only code)
	if c.Config.GOOS == "" || c.Config.GOOS == "linux" {
		c.Floor("C06-R18", 1)
		c06QueuedDeadlineArmed(c, "C06-R18")
	}
	// ---- R17: pooled OPT records start empty (shared with C08-R6)
	c.Floor("C06-R17", 1)
	c.Borrow("C06-R17", runC08, func(o an.Obligation) bool { return o.Rule == "C08-R6" && strings.Contains(o.Key, "newOPT") })
	// ---- R15: the prefixed message is the packed one; R16: one pool per network
	c.Floor("C06-R15", 1)
	c06PrefixedIsPacked(c, "C06-R15")
	c.Floor("C06-R16", 1)
	c06SeparatePools(c, "C06-R16")
	// ---- R14: pooled request state of the ECS cache is fully re-initialised (shared with C07-R1)
	c.Floor("C06-R14", 1)
	c.Borrow("C06-R14", runC07, func(o an.Obligation) bool { return o.Rule == "C07-R1" && strings.Contains(o.Key, "ecscache.") })
	classSweep(c, "C06")
	// ---- R13: what the hash-prefix cache keeps is its own copy (shared with C07-R4)
	c.Floor("C06-R13", 1)
	c.Borrow("C06-R13", runC07, func(o an.Obligation) bool { return o.Rule == "C07-R4" && strings.Contains(o.Key, "setInCache") })
	// ---- R11: the client-subnet option of this requester is added after the answer has been stored, so the cached
	// copy holds nobody's option (shared with C07-R4); R12: shared record templates are copied before they are
	// filled in for one request (shared with C07-R6)
	c.Floor("C06-R11", 1)
	c.Borrow("C06-R11", runC07, func(o an.Obligation) bool {
		return o.Rule == "C07-R4" && strings.Contains(o.Key, "writeUpstreamResponse")
	})
	c.Inf("C06-R12", "shared-configuration sweep", token.NoPos, "%d stores into shared server-group / profile data found on the request path (each is reported)",
		sharedConfigImmutable(c, "C06-R12", "dnssvc", "ecscache.", "dnsmsg."))
	// ---- R10: the simple cache stores a copy of the response, not the message that is disposed of after the write (shared with C07-R4)
	c.Floor("C06-R10", 1)
	c.Borrow("C06-R10", runC07, func(o an.Obligation) bool { return o.Rule == "C07-R4" && strings.Contains(o.Key, "toCacheItem") })
	// ---- R9: a receive buffer held in a session goes back to its pool once per session, however often the session is written to
	// (the only instance is in the bind-to-device listener, which exists on Linux only)
	if n := sharedPutOfOwnedField(c, "C06-R9", ""); n < 1 && (c.Config.GOOS == "" || c.Config.GOOS == "linux") {
		c.Und("C06-R9", "pool returns of values held in longer-lived objects", token.NoPos, "none found (anchor: bindtodevice writeToUDPConn)")
	}
	// ---- R4: an upstream reply is accepted only when it matches this query (shared with C17-R4)
	c.Floor("C06-R4", 2)
	c.Borrow("C06-R4", runC17, func(o an.Obligation) bool {
		return o.Rule == "C17-R4" && (strings.Contains(o.Key, ").Exchange") || strings.Contains(o.Key, "readValidMsg") || strings.Contains(o.Key, "validatePlainResponse") ||
			strings.Contains(o.Key, "processConn") || strings.Contains(o.Key, ").readMsg"))
	})
	// ---- R6: the decoded query and what was derived from it do not survive in pooled per-request objects
	c.Floor("C06-R6", 5)
	sharedPoolInitSweep(c, "C06-R6", "dnssvc/internal/mainmw.filteringContext", "filter/internal.Request", "filter/internal.Response", "agd.RequestInfo", "dnsserver.RequestInfo")
	// ---- R7: records built by the cloner own their address bytes (no alias of the source message's bytes that a
	// later constructed answer overwrites in place; shared with C07-R5)
	c.Floor("C06-R7", 10)
	c07Cloner(c, "C06-R7")
	// ---- R8: an answer served from a cache gets ID and question of the request it answers
	c.Floor("C06-R8", 1)
	sharedReplyInit(c, "C06-R8")
	// ---- R5: a response is handed back to the message pools only by the writers after which nothing reads it
	// (a message recycled while a DoH/DoQ/DNSCrypt writer still packs it is another client's answer); shared with C07-R3
	c.Floor("C06-R5", 2)
	c.Borrow("C06-R5", runC07, func(o an.Obligation) bool { return o.Rule == "C07-R3" })
	sharedCodecNames(c, "C06-R3", func(fn *ssa.Function) bool {
		k := an.FnKey(fn)
		return strings.HasPrefix(k, "dnsserver.") || strings.HasPrefix(k, "dnsserver/forward.") || strings.HasPrefix(k, "bindtodevice.")
	}, func(dst, src string) bool {
		// buffer-pool wiring: each writer and reader gets the pool meant for it
		return strings.Contains(strings.ToLower(dst), "pool") || strings.Contains(strings.ToLower(src), "pool")
	}, map[string]string{}, 2)
	c.Floor("C06-R1", 3)
	c.Floor("C06-R2", 4)

	// R1
	for _, fn := range c.AllFns {
		if c.IsTestFile(fn.Pos()) {
			continue
		}
		for _, call := range an.CallsTo(fn, unpackName) {
			c.Analysed(an.FnKey(fn))
			c.CallSites++
			a := &c06{c: c, seen: map[ssa.Value]bool{}}
			var leaves []c06leaf
			arg := call.Common().Args[1]
			a.slice(arg, call, &leaves)
			key := an.FnKey(fn) + " -> Unpack"
			var bad []string
			counts := map[string]int{}
			for _, l := range leaves {
				counts[l.class]++
				if l.class == "pooled" || l.class == "unknown" {
					bad = append(bad, fmt.Sprintf("%s: %s (%s)", l.class, l.desc, c.Pos(l.pos)))
				}
			}
			sort.Strings(bad)
			summary := fmt.Sprintf("leaves: %v", counts)
			switch {
			case len(leaves) == 0:
				c.Und("C06-R1", key, call.Pos(), "no provenance leaves found for the decoder input")
			case len(bad) > 0:
				isUnknownOnly := counts["pooled"] == 0
				if isUnknownOnly {
					c.Und("C06-R1", key, call.Pos(), "decoder input has a source the walk cannot classify: %s", strings.Join(bad, "; "))
				} else {
					c.Bad("C06-R1", key, call.Pos(), "decoder input can be a whole pooled buffer, not bounded by the bytes read: %s", strings.Join(bad, "; "))
				}
			default:
				c.Ok("C06-R1", key, call.Pos(), "%s", summary)
			}
		}
	}

	c06BufferLifetime(c, "C06-R2")
}

// c06BufferLifetime is the use-after-Put / hand-over rule for pooled receive buffers.
func c06BufferLifetime(c *an.Ctx, rule string) {
	c06ReturnedAlias(c, rule)
	c06Retained(c, rule)
	c06SinglePut(c, rule)
	// R2: no use of a pooled []byte pointer after Put; a buffer captured by a
	// submitted closure is only Put inside that closure or before the submit.
	for _, fn := range c.AllFns {
		if c.IsTestFile(fn.Pos()) {
			continue
		}
		pkg := an.FnPkg(fn)
		if pkg == nil {
			continue
		}
		pp := an.Short(pkg.Path())
		if !(strings.HasPrefix(pp, "dnsserver") || strings.HasPrefix(pp, "bindtodevice")) {
			continue
		}
		for _, call := range an.Calls(fn) {
			if !isPoolPut(call) {
				continue
			}
			args := call.Common().Args
			x := args[len(args)-1]
			if !isByteSlicePtr(x.Type()) {
				continue
			}
			c.Analysed(an.FnKey(fn))
			_, isDefer := call.(*ssa.Defer)
			if mc := escapingCapture(fn, x); mc != nil && (isDefer || an.CanReach(mc, call)) {
				c.Bad(rule, an.FnKey(fn)+" Put after hand-over", call.Pos(),
					"receive buffer captured by the asynchronous closure created at %s is returned to the pool by the creating function", c.Pos(mc.Pos()))
				continue
			}
			if isDefer {
				c.Ok(rule, an.FnKey(fn)+" defer Put", call.Pos(), "deferred Put runs after every use in the function; the buffer is not handed to an asynchronous closure")
				continue
			}
			key := an.FnKey(fn) + " Put(" + x.Name() + ")"
			if use := useAfter(c, call, x); use != nil {
				c.Bad(rule, key, call.Pos(), "receive buffer used at %s after being returned to the pool", c.Pos(use.Pos()))
			} else {
				c.Ok(rule, key, call.Pos(), "no use of the buffer is reachable after Put")
			}
		}
	}
}

func isByteSlicePtr(t types.Type) bool {
	p, ok := t.Underlying().(*types.Pointer)
	if !ok {
		return false
	}
	s, ok := p.Elem().Underlying().(*types.Slice)
	if !ok {
		return false
	}
	b, ok := s.Elem().Underlying().(*types.Basic)
	return ok && b.Kind() == types.Uint8
}

// useAfter returns an instruction reachable after `put` that uses value x (or
// the cell x was loaded from), or nil.
func useAfter(c *an.Ctx, put ssa.CallInstruction, x ssa.Value) ssa.Instruction {
	// aliases: x itself; if x is a load of a cell, any other load of that cell;
	// plus every slice/pointer value computed from an alias (views of the same
	// memory).
	aliases := map[ssa.Value]bool{x: true}
	var cell ssa.Value
	if ld, ok := x.(*ssa.UnOp); ok && ld.Op == token.MUL {
		cell = ld.X
		for _, r := range *cell.Referrers() {
			if l2, ok := r.(*ssa.UnOp); ok && l2.Op == token.MUL && l2.X == cell {
				aliases[l2] = true
			}
		}
	}
	for changed := true; changed; {
		changed = false
		an.Instrs(put.Parent(), func(in ssa.Instruction) {
			v, isVal := in.(ssa.Value)
			if !isVal || aliases[v] {
				return
			}
			switch d := in.(type) {
			case *ssa.UnOp, *ssa.Slice, *ssa.ChangeType, *ssa.Convert, *ssa.Phi, *ssa.IndexAddr, *ssa.FieldAddr:
				_ = d
				if !refLike(v.Type()) {
					return
				}
				for _, op := range in.Operands(nil) {
					if *op != nil && aliases[*op] {
						aliases[v] = true
						changed = true
						return
					}
				}
			}
		})
	}
	var found ssa.Instruction
	blk, i := an.After(put)
	an.ReachesExitAvoiding(blk, i, func(in ssa.Instruction) bool {
		if found != nil {
			return true
		}
		if v, isVal := in.(ssa.Value); isVal && aliases[v] {
			// computing a view is not yet a use; using it is
			if _, isCall := in.(ssa.CallInstruction); !isCall {
				return false
			}
		}
		for _, op := range in.Operands(nil) {
			if *op != nil && aliases[*op] {
				if _, isPut := in.(ssa.CallInstruction); isPut && in == put {
					continue
				}
				if _, dbg := in.(*ssa.DebugRef); dbg {
					continue
				}
				found = in
				return true
			}
		}
		return false
	}, true)
	return found
}

func refLike(t types.Type) bool {
	switch t.Underlying().(type) {
	case *types.Pointer, *types.Slice:
		return true
	}
	return false
}

// escapingCapture returns a closure creation in fn that captures x (or the
// variable x was loaded from) and is handed to another function or started
// with go, i.e. may run after fn has returned.
func escapingCapture(fn *ssa.Function, x ssa.Value) *ssa.MakeClosure {
	var cell ssa.Value
	if ld, ok := x.(*ssa.UnOp); ok && ld.Op == token.MUL {
		cell = ld.X
	}
	var res *ssa.MakeClosure
	an.Instrs(fn, func(in ssa.Instruction) {
		mc, ok := in.(*ssa.MakeClosure)
		if !ok || res != nil {
			return
		}
		captures := false
		for _, b := range mc.Bindings {
			if b == x || (cell != nil && b == cell) {
				captures = true
			}
		}
		if !captures {
			return
		}
		for _, r := range *mc.Referrers() {
			switch u := r.(type) {
			case *ssa.Go:
				res = mc
			case *ssa.Defer:
				// runs before fn returns
			case *ssa.Call:
				if u.Call.Value != mc { // passed as an argument
					res = mc
				}
			default:
				if _, isDbg := r.(*ssa.DebugRef); !isDbg {
					res = mc // stored somewhere
				}
			}
		}
	})
	return res
}

// sliceDerivedFrom reports whether v is root or a reslice / conversion of it.
func sliceDerivedFrom(v, root ssa.Value, depth int) bool {
	if v == root {
		return true
	}
	if depth > 8 {
		return false
	}
	switch x := v.(type) {
	case *ssa.Slice:
		return sliceDerivedFrom(x.X, root, depth+1)
	case *ssa.Phi:
		for _, e := range x.Edges {
			if sliceDerivedFrom(e, root, depth+1) {
				return true
			}
		}
	case *ssa.ChangeType:
		return sliceDerivedFrom(x.X, root, depth+1)
	}
	return false
}

// c06Retained is the rule for receive buffers that outlive the reading function
// inside an object: when a callee stores (a reslice of) the buffer into an
// object it returns, the buffer may be given back to the pool by the reader only
// on the callee's error path; the owner of the object returns it later.  It also
// checks that no capacity-truncating (three-index) reslice is stored into a
// field whose address is later handed to Pool.Put: the pool would hand out a
// buffer that can no longer hold a full datagram.
func c06Retained(c *an.Ctx, rule string) {
	// callee summaries: slice parameters stored (resliced) into heap objects
	retains := map[*ssa.Function]map[int]bool{}
	for _, fn := range c.AllFns {
		if fn.Blocks == nil || c.IsTestFile(fn.Pos()) {
			continue
		}
		for i, pa := range fn.Params {
			if _, isSlice := pa.Type().Underlying().(*types.Slice); !isSlice {
				continue
			}
			an.Instrs(fn, func(in ssa.Instruction) {
				st, ok := in.(*ssa.Store)
				if !ok || !sliceDerivedFrom(st.Val, pa, 0) {
					return
				}
				if fa, isField := st.Addr.(*ssa.FieldAddr); isField {
					if al, isAlloc := fa.X.(*ssa.Alloc); !isAlloc || al.Heap {
						if retains[fn] == nil {
							retains[fn] = map[int]bool{}
						}
						retains[fn][i] = true
					}
				}
			})
		}
	}
	n := 0
	for _, fn := range c.AllFns {
		if fn.Blocks == nil || c.IsTestFile(fn.Pos()) || fn.Parent() != nil {
			continue
		}
		pkg := an.FnPkg(fn)
		if pkg == nil {
			continue
		}
		pp := an.Short(pkg.Path())
		if !(strings.HasPrefix(pp, "dnsserver") || strings.HasPrefix(pp, "bindtodevice")) {
			continue
		}
		for _, get := range an.Calls(fn) {
			gc, ok := get.(*ssa.Call)
			if !ok || !isPoolGet(get) || !isByteSlicePtr(gc.Type()) {
				continue
			}
			// the pointer values: the Get result, or loads of the local cell it is
			// spilled into when a closure captures the variable
			ptrs := map[ssa.Value]bool{gc: true}
			var cell *ssa.Alloc
			if gc.Referrers() != nil {
				for _, r := range *gc.Referrers() {
					if st, ok := r.(*ssa.Store); ok && st.Val == ssa.Value(gc) {
						if al, ok := st.Addr.(*ssa.Alloc); ok {
							cell = al
							for _, rr := range *al.Referrers() {
								if ld, ok := rr.(*ssa.UnOp); ok && ld.Op == token.MUL {
									ptrs[ld] = true
								}
							}
						}
					}
				}
			}
			// the buffer: loads of *ptr in this function
			var bufs []ssa.Value
			for p := range ptrs {
				if p.Referrers() == nil {
					continue
				}
				for _, r := range *p.Referrers() {
					if ld, ok := r.(*ssa.UnOp); ok && ld.Op == token.MUL {
						bufs = append(bufs, ld)
					}
				}
			}
			// calls that retain it
			for _, ci := range an.Calls(fn) {
				call, ok := ci.(*ssa.Call)
				if !ok {
					continue
				}
				callee := an.StaticCallee(call)
				if callee == nil || retains[callee] == nil {
					continue
				}
				retained := false
				for i := range retains[callee] {
					if i < len(call.Call.Args) {
						for _, b := range bufs {
							if sliceDerivedFrom(call.Call.Args[i], b, 0) {
								retained = true
							}
						}
					}
				}
				if !retained {
					continue
				}
				n++
				c.Analysed(an.FnKey(fn))
				key := fmt.Sprintf("%s buffer kept by the result of %s", an.FnKey(fn), an.FnKey(callee))
				// every Put of ptr in fn or its closures must be on the callee's error path
				bad := ""
				check := func(f *ssa.Function, isPtr func(ssa.Value) bool) {
					for _, pc := range an.Calls(f) {
						if !isPoolPut(pc) {
							continue
						}
						args := pc.Common().Args
						if !isPtr(args[len(args)-1]) {
							continue
						}
						onErr := false
						for _, e := range an.DominatingConds(pc.Block()) {
							b, isBin := e.If.Cond.(*ssa.BinOp)
							if !isBin || (b.Op != token.NEQ && b.Op != token.EQL) || (b.Op == token.NEQ) != e.Branch {
								continue
							}
							var other ssa.Value
							if an.IsNilConst(b.Y) {
								other = b.X
							} else if an.IsNilConst(b.X) {
								other = b.Y
							}
							if other != nil && isErrorType(other.Type()) {
								onErr = true
							}
						}
						if !onErr {
							bad = c.Pos(pc.Pos())
						}
					}
				}
				check(fn, func(v ssa.Value) bool { return ptrs[v] })
				for _, cl := range fn.AnonFuncs {
					// the closure sees the pointer (or its cell) as a free variable bound at its creation
					for _, site := range c.Callers(cl) {
						if site.Closure == nil {
							continue
						}
						for bi, b := range site.Closure.Bindings {
							if bi >= len(cl.FreeVars) {
								continue
							}
							fv := cl.FreeVars[bi]
							switch {
							case b == ssa.Value(gc):
								check(cl, func(v ssa.Value) bool { return v == ssa.Value(fv) })
							case cell != nil && b == ssa.Value(cell):
								check(cl, func(v ssa.Value) bool {
									ld, ok := v.(*ssa.UnOp)
									return ok && ld.Op == token.MUL && ld.X == ssa.Value(fv)
								})
							}
						}
					}
				}
				if bad != "" {
					c.Bad(rule, key, call.Pos(), "the object returned by the callee keeps a slice of the pooled buffer, and the reader returns the buffer to the pool at %s also when the callee succeeded: the next datagram overwrites a message that has not been served yet", bad)
				} else {
					c.Ok(rule, key, call.Pos(), "the reader returns the buffer to the pool only on the callee's error path")
				}
			}
		}
	}
	if n == 0 && (c.Config.GOOS == "" || c.Config.GOOS == "linux") {
		// the bind-to-device listener exists on Linux only
		c.Und(rule, "retained receive buffers", token.NoPos, "no receive buffer kept by a callee's result was found: the anchor (bindtodevice readUDP / readPacketSession) no longer resolves")
	}
	// three-index reslices stored into fields that are later Put
	putFields := map[string]bool{}
	for _, fn := range c.AllFns {
		if fn.Blocks == nil || c.IsTestFile(fn.Pos()) {
			continue
		}
		for _, pc := range an.Calls(fn) {
			if !isPoolPut(pc) {
				continue
			}
			args := pc.Common().Args
			if fa := putSourceField(args[len(args)-1]); fa != nil {
				if t, f, _, ok := an.FieldOf(fa); ok {
					putFields[t+"."+f] = true
				}
			}
		}
	}
	for tf := range putFields {
		i := strings.LastIndex(tf, ".")
		for _, fs := range c.FieldStores(tf[:i], tf[i+1:]) {
			if c.IsTestFile(fs.Store.Pos()) {
				continue
			}
			key := fmt.Sprintf("%s stores %s", an.FnKey(fs.In), tf)
			if sl, ok := fs.Val.(*ssa.Slice); ok && sl.Max != nil {
				c.Bad(rule, key, fs.Store.Pos(), "a capacity-truncating reslice of the receive buffer is stored in a field that is later returned to the pool: the pool hands out a buffer that cannot hold a longer datagram, which is then silently cut")
			} else {
				c.Ok(rule, key, fs.Store.Pos(), "the stored slice keeps the buffer's capacity")
			}
		}
	}
}

// c06SinglePut is the rule that a pooled receive buffer is returned to its pool
// at most once on any path (a deferred Put counts from the point where it is
// registered): a buffer put twice is handed to two concurrent users.
func c06SinglePut(c *an.Ctx, rule string) {
	// wrappers: functions that return a pooled pointer, functions that put a parameter
	getters := map[*ssa.Function]bool{}
	putters := map[*ssa.Function]map[int]bool{}
	for _, fn := range c.AllFns {
		if fn.Blocks == nil || c.IsTestFile(fn.Pos()) {
			continue
		}
		for _, r := range an.Returns(fn) {
			for _, res := range r.Results {
				vals := []ssa.Value{res}
				if phi, ok := res.(*ssa.Phi); ok {
					vals = phi.Edges
				}
				for _, v := range vals {
					if call, ok := v.(*ssa.Call); ok && isPoolGet(call) && isByteSlicePtr(call.Type()) {
						getters[fn] = true
					}
				}
			}
		}
		for _, pc := range an.Calls(fn) {
			if !isPoolPut(pc) {
				continue
			}
			args := pc.Common().Args
			if pa, ok := args[len(args)-1].(*ssa.Parameter); ok && pa.Parent() == fn {
				if putters[fn] == nil {
					putters[fn] = map[int]bool{}
				}
				putters[fn][an.ParamIndex(pa)] = true
			}
		}
	}
	n := 0
	for _, fn := range c.AllFns {
		if fn.Blocks == nil || c.IsTestFile(fn.Pos()) {
			continue
		}
		pkg := an.FnPkg(fn)
		if pkg == nil {
			continue
		}
		pp := an.Short(pkg.Path())
		if !(strings.HasPrefix(pp, "dnsserver") || strings.HasPrefix(pp, "bindtodevice")) {
			continue
		}
		for _, gi := range an.Calls(fn) {
			gc, ok := gi.(*ssa.Call)
			if !ok || !isByteSlicePtr(gc.Type()) {
				continue
			}
			if cal := an.StaticCallee(gc); !(isPoolGet(gc) || (cal != nil && getters[cal])) {
				continue
			}
			// aliases of the pointer: the value and loads of the cell it is spilled into
			ptrs := map[ssa.Value]bool{gc: true}
			if gc.Referrers() != nil {
				for _, r := range *gc.Referrers() {
					if st, ok := r.(*ssa.Store); ok && st.Val == ssa.Value(gc) {
						if al, ok := st.Addr.(*ssa.Alloc); ok {
							for _, rr := range *al.Referrers() {
								if ld, ok := rr.(*ssa.UnOp); ok && ld.Op == token.MUL {
									ptrs[ld] = true
								}
							}
						}
					}
				}
			}
			events := map[ssa.Instruction]bool{}
			for _, pc := range an.Calls(fn) {
				args := pc.Common().Args
				if len(args) == 0 {
					continue
				}
				if isPoolPut(pc) && ptrs[args[len(args)-1]] {
					events[pc] = true
					continue
				}
				if cal := an.StaticCallee(pc); cal != nil && putters[cal] != nil {
					for i := range putters[cal] {
						if i < len(args) && ptrs[args[i]] {
							events[pc] = true
						}
					}
				}
			}
			if len(events) == 0 {
				continue
			}
			n++
			c.Analysed(an.FnKey(fn))
			key := fmt.Sprintf("%s returns the buffer from %s to its pool at most once", an.FnKey(fn), an.Short(an.CalleeName(gc)))
			if w := an.PathEvents(fn, events, 1, nil); w != nil {
				var where []string
				for _, in := range w {
					where = append(where, c.Pos(in.Pos()))
				}
				c.Bad(rule, key, w[len(w)-1].Pos(), "the buffer is returned to the pool twice on one path (%s; a deferred Put runs in addition to an explicit one): two later users get the same buffer and one decodes the other's bytes", strings.Join(where, ", "))
			} else {
				c.Ok(rule, key, gc.Pos(), "%d Put sites, at most one on any path", len(events))
			}
		}
	}
	if n == 0 {
		c.Und(rule, "single Put", token.NoPos, "no pooled receive buffer with a Put in the same function was found")
	}
}

// c06ReturnedAlias is the rule that a function which returns its pooled receive
// buffer to the pool does not hand a slice of that buffer to its caller: the
// caller would decode bytes that the next user of the buffer is overwriting.
func c06ReturnedAlias(c *an.Ctx, rule string) {
	for _, fn := range c.AllFns {
		if fn.Blocks == nil || c.IsTestFile(fn.Pos()) || fn.Parent() != nil {
			continue
		}
		pkg := an.FnPkg(fn)
		if pkg == nil {
			continue
		}
		pp := an.Short(pkg.Path())
		if !(strings.HasPrefix(pp, "dnsserver") || strings.HasPrefix(pp, "bindtodevice")) {
			continue
		}
		for _, gi := range an.Calls(fn) {
			gc, ok := gi.(*ssa.Call)
			if !ok || !isPoolGet(gi) || !isByteSlicePtr(gc.Type()) {
				continue
			}
			// is the pointer put back by this function (directly or deferred)?
			put := false
			for _, pc := range an.Calls(fn) {
				if isPoolPut(pc) {
					args := pc.Common().Args
					if args[len(args)-1] == ssa.Value(gc) {
						put = true
					}
				}
			}
			if !put || gc.Referrers() == nil {
				continue
			}
			var bufs []ssa.Value
			for _, r := range *gc.Referrers() {
				if ld, ok := r.(*ssa.UnOp); ok && ld.Op == token.MUL {
					bufs = append(bufs, ld)
				}
			}
			key := an.FnKey(fn) + " returns no slice of the buffer it puts back"
			bad := false
			for _, ret := range an.Returns(fn) {
				for _, res := range ret.Results {
					// a named result spilled because of a defer: look at what is stored into it
					cands := []ssa.Value{res}
					if ld, ok := res.(*ssa.UnOp); ok && ld.Op == token.MUL {
						if al, ok := ld.X.(*ssa.Alloc); ok {
							for _, st := range an.Stores(al) {
								cands = append(cands, st.Val)
							}
						}
					}
					for _, cand := range cands {
						for _, b := range bufs {
							if sliceDerivedFrom(cand, b, 0) {
								bad = true
							}
						}
					}
				}
			}
			c.Analysed(an.FnKey(fn))
			if bad {
				c.Bad(rule, key, gc.Pos(), "the function returns a slice of a pooled buffer that it also returns to the pool: the caller decodes the message while the next request is read into the same memory")
			} else {
				c.Ok(rule, key, gc.Pos(), "no result aliases the pooled buffer")
			}
		}
	}
}

// c06PrefixedIsPacked: dns.Msg.PackBuffer packs into the buffer it is given only
// when the buffer is at least as long as the uncompressed estimate; otherwise
// it returns a new array, also when the compressed result would have fitted.
// What packWithPrefix hands to the stream writers must therefore be built from
// PackBuffer's result, not from the buffer that was passed in: every return of
// a non-nil slice is dominated by a copy whose source is the PackBuffer result
// and whose destination is (a slice of) the returned value.
func c06PrefixedIsPacked(c *an.Ctx, rule string) {
	k := "dnsserver.packWithPrefix"
	fn := c.Prog.Fn(k)
	key := k + " returns the packed bytes behind the prefix"
	if fn == nil {
		c.Und(rule, key, token.NoPos, "anchor not found")
		return
	}
	c.Analysed(k)
	var pack *ssa.Call
	for _, call := range an.Calls(fn) {
		if cl, ok := call.(*ssa.Call); ok && an.CalleeName(call) == "(*github.com/miekg/dns.Msg).PackBuffer" {
			pack = cl
		}
	}
	if pack == nil {
		c.Und(rule, key, fn.Pos(), "no PackBuffer call")
		return
	}
	fromPack := func(v ssa.Value) bool {
		ok := false
		w := &an.Walker{P: c.Prog, NoFieldJoin: true,
			Visit: func(x ssa.Value) bool {
				if ex, isEx := x.(*ssa.Extract); isEx && ex.Tuple == ssa.Value(pack) && ex.Index == 0 {
					ok = true
					return true
				}
				return false
			},
			Leaf: func(ssa.Value, string) {},
		}
		w.Walk(v)
		return ok
	}
	// base of a slice expression chain
	base := func(v ssa.Value) ssa.Value {
		for {
			if sl, ok := v.(*ssa.Slice); ok {
				v = sl.X
				continue
			}
			return v
		}
	}
	bad := ""
	nret := 0
	for _, r := range an.Returns(fn) {
		if len(r.Results) != 2 || an.IsNilConst(r.Results[0]) {
			continue
		}
		// follow phis of the returned slice: each incoming value needs its own copy
		var vals []ssa.Value
		var expand func(v ssa.Value, d int)
		expand = func(v ssa.Value, d int) {
			v = base(v)
			if ph, ok := v.(*ssa.Phi); ok && d < 4 {
				for _, e := range ph.Edges {
					expand(e, d+1)
				}
				return
			}
			vals = append(vals, v)
		}
		expand(r.Results[0], 0)
		for _, v := range vals {
			if an.IsNilConst(v) {
				continue
			}
			nret++
			copied := false
			for _, call := range an.Calls(fn) {
				b, ok := call.Common().Value.(*ssa.Builtin)
				if !ok || b.Name() != "copy" || len(call.Common().Args) != 2 {
					continue
				}
				if base(call.Common().Args[0]) == base(v) && fromPack(call.Common().Args[1]) {
					copied = true
				}
			}
			if !copied {
				bad = "the slice returned at " + c.Pos(r.Pos()) + " (" + v.String() + ") never receives a copy of PackBuffer's result"
			}
		}
	}
	if nret == 0 {
		c.Und(rule, key, fn.Pos(), "no non-nil result found")
		return
	}
	c.Check(bad == "", rule, key, pack.Pos(), fmt.Sprintf("%d returned value(s), each filled from PackBuffer's result", nret),
		bad+": when PackBuffer allocates (it sizes by the uncompressed estimate), the caller's buffer still holds the previous message, and that is what goes out behind the new length prefix")
}

// c06SeparatePools: readTCPMsg shrinks the pooled request slice to the announced
// length and grows it again on its next use; the UDP path reads into the slice
// as it comes from the pool.  With one pool for both, a UDP datagram read into
// a slice last used for a short TCP message is cut to that length.  The values
// stored into ServerDNS.udpPool and ServerDNS.tcpPool are results of different
// constructor calls.
func c06SeparatePools(c *an.Ctx, rule string) {
	key := "dnsserver.ServerDNS: udpPool and tcpPool are different pools"
	u := c.Prog.FieldStores("dnsserver.ServerDNS", "udpPool")
	t := c.Prog.FieldStores("dnsserver.ServerDNS", "tcpPool")
	var us, ts []an.FieldStore
	for _, x := range u {
		if !c.IsTestFile(x.Store.Parent().Pos()) {
			us = append(us, x)
		}
	}
	for _, x := range t {
		if !c.IsTestFile(x.Store.Parent().Pos()) {
			ts = append(ts, x)
		}
	}
	if len(us) == 0 || len(ts) == 0 {
		c.Und(rule, key, token.NoPos, "stores into ServerDNS.udpPool / tcpPool not found")
		return
	}
	same := ""
	for _, a := range us {
		c.Analysed(an.FnKey(a.Store.Parent()))
		for _, b := range ts {
			if a.Store.Val == b.Store.Val {
				same = c.Pos(a.Store.Pos())
			}
		}
	}
	c.Check(same == "", rule, key, us[0].Store.Pos(), "the two fields get the results of different constructor calls",
		"one pool is stored into both fields at "+same+": a request slice that the TCP path shrank to a short message is handed to the UDP path, which reads the next datagram into it and loses the rest")
}

// c06QueuedDeadlineArmed: a response written through a bind-to-device packet
// connection waits in a queue; its sender waits for the result only until the
// write deadline and then gives the buffer back to the pool.  The writer
// (interfaceListener.writeUDP) therefore sets that deadline on the socket before
// every write, also when it has already passed, which makes the write fail:
// a SetWriteDeadline with the request's deadline dominates the write.
func c06QueuedDeadlineArmed(c *an.Ctx, rule string) {
	k := "bindtodevice.(*interfaceListener).writeUDP"
	fn := c.Prog.Fn(k)
	key := k + " sets the request's deadline before every write"
	if fn == nil {
		c.Und(rule, key, token.NoPos, "anchor not found")
		return
	}
	c.Analysed(k)
	var write ssa.CallInstruction
	var arms []ssa.CallInstruction
	for _, call := range an.Calls(fn) {
		n := an.CalleeName(call)
		switch {
		case strings.HasSuffix(n, "interfaceListener).writeToUDPConn"):
			write = call
		case strings.HasSuffix(n, ").SetWriteDeadline") && len(call.Common().Args) == 2:
			if ld, ok := call.Common().Args[1].(*ssa.UnOp); ok && ld.Op == token.MUL {
				if _, f, _, ok := an.FieldOf(ld.X); ok && f == "deadline" {
					arms = append(arms, call)
				}
			}
		}
	}
	if write == nil {
		c.Und(rule, key, fn.Pos(), "the write step (writeToUDPConn) was not found")
		return
	}
	ok := false
	for _, a := range arms {
		if an.Dominates(a, write) {
			ok = true
		}
	}
	c.Check(ok, rule, key, write.Pos(), "SetWriteDeadline(req.deadline) dominates the write",
		"the write at "+c.Pos(write.Pos())+" can be reached without the request's deadline having been set on the socket: a queued response whose sender has timed out and returned the buffer to the pool is written with whatever the buffer holds by then, another client's response")
}

// c06CloneAppends: the messages of the cloner's pool come back through Dispose in
// whatever shape the server last wrote them; their slices may be nil.  Clone
// therefore re-uses a section as x[:0] and appends.  A slice expression on a
// section of the pooled message with any other upper bound assumes a capacity
// that is not there.
func c06CloneAppends(c *an.Ctx, rule string) {
	k := "dnsmsg.(*Cloner).Clone"
	fn := c.Prog.Fn(k)
	key := k + " re-uses the pooled sections as zero-length prefixes"
	if fn == nil {
		c.Und(rule, key, token.NoPos, "anchor not found")
		return
	}
	c.Analysed(k)
	n, bad := 0, ""
	an.Instrs(fn, func(in ssa.Instruction) {
		sl, ok := in.(*ssa.Slice)
		if !ok {
			return
		}
		ld, ok := sl.X.(*ssa.UnOp)
		if !ok || ld.Op != token.MUL {
			return
		}
		t, f, _, ok := an.FieldOf(ld.X)
		if !ok || t != "github.com/miekg/dns.Msg" {
			return
		}
		n++
		zero := false
		if kc, isK := sl.High.(*ssa.Const); isK && kc.Int64() == 0 {
			zero = true
		}
		if !zero {
			bad = fmt.Sprintf("the section %s is re-sliced at %s with an upper bound other than 0", f, c.Pos(sl.Pos()))
		}
	})
	if n == 0 {
		c.Und(rule, key, fn.Pos(), "no slice expression on a section of a message found")
		return
	}
	c.Check(bad == "", rule, key, fn.Pos(), fmt.Sprintf("%d section re-uses, all as x[:0]", n),
		bad+": a pooled message disposed with a shorter (or nil) section makes the clone panic, and the query that happened to take that object is dropped")
}
