package rules

import (
	"fmt"
	"go/token"
	"sort"
	"strings"
	"time"

	"adgverif/an"

	"golang.org/x/tools/go/ssa"
)

// decide runs a decision-table check (engine A) and records the verdict.
func decide(c *an.Ctx, rule, fnKey string, cfg an.DecideCfg) {
	fn := c.Fn(fnKey)
	if fn == nil {
		c.Und(rule, fnKey, token.NoPos, "anchor function not found")
		return
	}
	c.Analysed(fnKey)
	t0 := time.Now()
	res := c.Decide(fn, cfg)
	for k := range res.Inlined {
		c.Analysed(k)
	}
	if d := time.Since(t0); d > 2*time.Second {
		c.Notes = append(c.Notes, fmt.Sprintf("slow decision-tree extraction: %s took %s (%d runs)", fnKey, d.Round(time.Millisecond), res.Runs))
	}
	switch {
	case res.Und != "":
		c.Und(rule, fnKey, fn.Pos(), "decision table cannot be extracted: %s", res.Und)
	case res.Mismatch != "":
		extra := ""
		if len(res.Free) > 0 {
			extra = " (conditions outside the reference model were explored in both directions: " + strings.Join(uniq(res.Free), "; ") + ")"
		}
		c.Bad(rule, fnKey, fn.Pos(), "decision table differs from the reference: %s%s", res.Mismatch, extra)
	default:
		rows := res.Rows
		if len(rows) > 4 {
			rows = rows[:4]
		}
		c.Ok(rule, fnKey, fn.Pos(), "all %d leaves of the decision tree equal the reference table; e.g. %s", res.Runs, strings.Join(rows, " | "))
	}
}

// inlinePkgs returns an Inline predicate accepting repository functions whose
// key starts with one of the prefixes, except the listed keys.
func inlinePkgs(prefixes []string, except ...string) func(*ssa.Function) bool {
	ex := map[string]bool{}
	for _, e := range except {
		ex[e] = true
	}
	return func(f *ssa.Function) bool {
		k := an.FnKey(f)
		if ex[k] {
			return false
		}
		for _, p := range prefixes {
			if strings.HasPrefix(k, p) {
				return true
			}
		}
		return false
	}
}

func uniq(ss []string) (out []string) {
	seen := map[string]bool{}
	for _, s := range ss {
		if !seen[s] {
			seen[s] = true
			out = append(out, s)
		}
	}
	return out
}

// checkFieldMap checks that fn stores into each listed field of targetType a
// value whose access path ends with the given suffix (writer/reader agreement
// of conversions).  The check is made per constructed object: when fn builds
// several values of targetType (one per protocol, say), each of them must set
// every listed field.
func checkFieldMap(c *an.Ctx, rule, fnKey, targetType string, want map[string]string) {
	fn := c.Fn(fnKey)
	if fn == nil {
		c.Und(rule, fnKey+" field map", token.NoPos, "anchor not found")
		return
	}
	c.Analysed(fnKey)
	type obj struct {
		pos token.Pos
		got map[string][]string
	}
	objs := map[ssa.Value]*obj{}
	var order []ssa.Value
	an.Instrs(fn, func(in ssa.Instruction) {
		st, ok := in.(*ssa.Store)
		if !ok {
			return
		}
		typ, field, base, ok := an.FieldOf(st.Addr)
		if !ok || typ != targetType {
			return
		}
		o := objs[base]
		if o == nil {
			o = &obj{pos: st.Pos(), got: map[string][]string{}}
			objs[base] = o
			order = append(order, base)
		}
		v := st.Val
		for {
			if cv, ok := v.(*ssa.Convert); ok {
				v = cv.X
				continue
			}
			if ct, ok := v.(*ssa.ChangeType); ok {
				v = ct.X
				continue
			}
			// a getter on the value itself (datasize.ByteSize.Bytes), or a
			// one-argument converter of the repository (toUpstreamConfigs)
			if call, ok := v.(*ssa.Call); ok && len(call.Call.Args) == 1 && !call.Call.IsInvoke() {
				if cal := an.StaticCallee(call); call.Call.Signature().Recv() != nil || (cal != nil && c.InRepo(cal)) {
					v = call.Call.Args[0]
					continue
				}
			}
			break
		}
		if ap, ok := an.AccessPath(v); ok {
			o.got[field] = append(o.got[field], ap)
		} else {
			o.got[field] = append(o.got[field], "?"+v.Name())
		}
	})
	var names []string
	for f := range want {
		names = append(names, f)
	}
	sort.Strings(names)
	if len(order) == 0 {
		for _, f := range names {
			c.Bad(rule, fmt.Sprintf("%s %s.%s", fnKey, targetType, f), fn.Pos(), "the conversion never sets this field")
		}
		return
	}
	for _, f := range names {
		key := fmt.Sprintf("%s %s.%s", fnKey, targetType, f)
		var all []string
		problem := ""
		for _, b := range order {
			o := objs[b]
			gs, ok := o.got[f]
			if !ok {
				problem = fmt.Sprintf("the %s built at %s never sets this field: the setting is silently zero for what that object configures", targetType, c.Pos(o.pos))
				continue
			}
			for _, g := range gs {
				all = append(all, g)
				if !strings.HasSuffix(g, want[f]) {
					problem = fmt.Sprintf("the field is set from %s instead of …%s: a setting of another kind or address family takes effect here", g, want[f])
				}
			}
		}
		if problem != "" {
			c.Bad(rule, key, fn.Pos(), "%s", problem)
		} else {
			c.Ok(rule, key, fn.Pos(), "set from %s in each of the %d objects built", strings.Join(uniq(all), ", "), len(order))
		}
	}
}
