package rules

import (
	"fmt"
	"go/token"
	"go/types"
	"strings"

	"adgverif/an"

	"golang.org/x/tools/go/ssa"
)

func init() {
	register(&Property{ID: "C03", Technique: "abstract interpretation of the device finder over a finite feature abstraction (exact decision-tree extraction) compared with reference tables; who-may-construct and type-level coverage rules", Run: runC03, Explain: an.Explanation{
		Text: "Decides the decision structure behind device recognition. R1: the complete decision tree of " +
			"devicefinder.(*Default).Find (with findDevice, deviceFromDB, deviceByAddrs, deviceByLocalAddr, " +
			"newDeviceResult, authenticatedResult, authenticate and supportsDeviceID interpreted abstractly, the " +
			"profile database, identifier extraction and password hash as opaque features) is extracted leaf by leaf " +
			"and compared with the reference table: which lookup channel is consulted in which order, that a deleted " +
			"profile yields no result on every channel, and that every OK result passes the authentication table " +
			"(Enabled / DoH / DoHAuthOnly / userinfo / password set / hash matches). R2: supportsDeviceID is true " +
			"exactly for DNS, DoH, DoQ, DoT. R3: *agd.DeviceResultOK is constructed only in the device finder. " +
			"R6: deviceData takes the identifier only from the channel valid for the transport. R4: only RequestInfo.DeviceData exposes a profile out of a DeviceResult and handleDeviceResult stops " +
			"on error / unknown-dedicated results.",
		NotCovered: "parsing of identifiers from TLS server names, URL paths, userinfo and EDNS options (string work); " +
			"the profile database's own lookups (C14); the password-hash comparison itself.",
		Rules: map[string]string{"C03-R25": "the profile database's sync point is written only after a successful fetch and when a file cache is loaded (frozen writer table): a failed full sync does not lose it, so the next partial sync does not skip the profiles deleted meanwhile", "C03-R24": "a restart from the file cache keeps the cache's own sync point as the time of the last full synchronisation (table shared with C14-R8), and a file of another layout version is not loaded (shared with C14-R5): a deleted profile or a changed authentication policy is not served from an outdated snapshot for a whole full-sync interval", "C03-R23": "dnssvc.newDeviceFinder: a server of a group with profiles switched off gets the empty device finder, whatever else is configured (no device is recognised there); a group with profiles gets the default finder built with that server, the profile database and the device domains", "C03-R22": "the identifier validators: ValidateInclusion rejects exactly the lengths outside [min, max]; NewDeviceID accepts a string only after the length check against (MaxDeviceIDLen, MinDeviceIDLen) and the host-name-label check, and returns that very string", "C03-R21": "an identifier taken from a request (EDNS option, DoH path, TLS server name) reaches its validator as it was received: not cut to size by a copy into a fixed-size buffer, and not case-folded first (Unicode folding maps U+212A KELVIN SIGN onto k), either of which makes a string that is not the identifier pass as it", "C03-R19": "every Unpack on the receive paths is bounded by the bytes read for this message (shared with C06-R1)", "C03-R20": "backendpb.dohPasswordToInternal: AllowAuthenticator only for an absent hash; a present hash, even an empty one, becomes a bcrypt authenticator", "C03-R18": "Default.Refresh stores the backend's sync time with the file cache; a restart then fetches every deletion and detachment made since (table shared with C14-R8)", "C03-R17": "every backend update that converts reaches the profile database, so deletions and detached devices take effect (shared with C14-R16)", "C03-R16": "CreateAutoDevice asks the storage only for an existing profile with automatic devices enabled", "C03-RC": "class rules (error chains, shadowed results, character classes, crossed arguments, pool constructors, array pools, loop completeness, loop-carried buffers, replacing setters, complete clones, Grow arithmetic, pooled-buffer escape, sorted searches, fresh decode targets, per-iteration objects, whole-message copies, codec guards) over the packages this property rests on", "C03-R15": "matchDomain: lower-cased name, the library's immediate-subdomain test against every device domain, first match wins", "C03-R14": "auth settings are dropped by the file-cache codec only when absent or disabled; setProfiles stores deleted profiles over the live record (shared rules)", "C03-R13": "per-element objects built in conversion loops (server groups, devices) take no slice accumulated over earlier elements",
			"C03-R1":  "decision tree of Find equals the reference (channel precedence, deleted profile, authentication table)",
			"C03-R2":  "supportsDeviceID table",
			"C03-R3":  "who may construct *agd.DeviceResultOK",
			"C03-R4":  "only DeviceResultOK carries a profile/device; handleDeviceResult table",
			"C03-R5":  "deviceByExtID: create an automatic device only for an existing profile without that device",
			"C03-R7":  "authentication settings survive the backend conversion and the profile file cache (enabled iff present; DoH-only flag and hash copied whenever present)",
			"C03-R10": "every field of a request-information object taken from a pool (the credentials, server name and device result it carries identify the client) is re-initialised on every path",
			"C03-R11": "identifier extraction helpers: DoH takes the user name of the credentials before the URL path; the server name is used only as an immediate subdomain of a configured device domain; the EDNS scan stops at the first CPE-ID option; invalid identifiers are errors, not anonymous requests",
			"C03-R12": "each server's middleware gets a device finder built for that very server",
			"C03-R9":  "profile database lookups by linked IP, dedicated IP, human ID and device ID re-check the current data (shared with C14-R4)",
			"C03-R8":  "a password authenticates only when the hash comparison returns no error",
			"C03-R6":  "identifier channel by transport (DoH: user info > URL path > server name; DoT/DoQ: server name; plain DNS: EDNS option)",
		},
		Assumptions: []string{"features read twice in a decision function are not modified in between"},
	}})
}

const dfPkg = "dnssvc/internal/devicefinder."

func runC03(c *an.Ctx) {
	c.Floor("C03-R25", 2)
	c03SyncTimeWriters(c, "C03-R25")
	// ---- R24: the file cache is trusted only as far as it goes (shared with C14-R8 and C14-R5)
	c.Floor("C03-R24", 2)
	c.Borrow("C03-R24", runC14, func(o an.Obligation) bool {
		return o.Rule == "C14-R8" && strings.Contains(o.Key, "loadFileCache") || o.Rule == "C14-R5" && strings.Contains(o.Key, "version gate")
	})
	// ---- R23: which servers recognise devices at all
	c.Floor("C03-R23", 1)
	decide(c, "C03-R23", "dnssvc.newDeviceFinder", an.DecideCfg{
		Dom: an.Domain{"p1.ProfilesEnabled": an.Bools, "p0.ProfileDB": an.NilOrNot},
		OnCall: func(it *an.Interp, name string, args []an.AV) (an.AV, bool) {
			switch {
			case strings.HasSuffix(name, "devicefinder.NewDefault"):
				return an.NonNil("defaultFinder(" + args[0].String() + ")"), true
			case strings.HasSuffix(name, "slog.Logger).With"):
				return an.NonNil("logger"), true
			}
			return an.AV{}, false
		},
		Expect: func(f an.Features, o an.AOutcome) string {
			if len(o.Ret) != 1 {
				return "a device finder"
			}
			got := o.Ret[0].String()
			if !f.B("p1.ProfilesEnabled") {
				if strings.Contains(got, "EmptyDeviceFinder") {
					return ""
				}
				return "the empty device finder for a group without profiles (whether or not a profile database is configured); got " + got
			}
			if strings.Contains(got, "defaultFinder(") {
				return ""
			}
			return "the default device finder for a group with profiles; got " + got
		},
	})
	// ---- R22: tables of the identifier validators
	c.Floor("C03-R22", 2)
	decide(c, "C03-R22", "agd.ValidateInclusion", an.DecideCfg{
		Dom: an.Domain{"p0": an.Ints(0, 1, 4, 8, 9), "p1": an.Ints(8), "p2": an.Ints(1)},
		OnCall: func(it *an.Interp, name string, args []an.AV) (an.AV, bool) {
			if name == "fmt.Errorf" {
				return an.NonNil("rangeErr"), true
			}
			return an.AV{}, false
		},
		Expect: func(f an.Features, o an.AOutcome) string {
			n, max, min := f.I("p0"), f.I("p1"), f.I("p2")
			bad := n > max || n < min
			if len(o.Ret) == 1 && (o.Ret[0].Kind != an.KNil) == bad {
				return ""
			}
			return fmt.Sprintf("error=%v for length %d in [%d, %d]", bad, n, min, max)
		},
	})
	decide(c, "C03-R22", "agd.NewDeviceID", an.DecideCfg{
		Dom:    an.Domain{"lenerr": an.Bools, "labelerr": an.Bools},
		Inline: func(f *ssa.Function) bool { return strings.HasPrefix(an.FnKey(f), "agd.NewDeviceID$") },
		OnCall: func(it *an.Interp, name string, args []an.AV) (an.AV, bool) {
			switch {
			case name == "agd.ValidateInclusion":
				maxLen, minLen := fmt.Sprint(agdInt(c, "MaxDeviceIDLen")), fmt.Sprint(agdInt(c, "MinDeviceIDLen"))
				if len(args) != 4 || args[0].String() != "len(p0)" || args[1].String() != maxLen || args[2].String() != minLen {
					return an.Sym("length check with other bounds"), true
				}
				if it.Feature("lenerr").IsTrue() {
					return an.NonNil("lenErr"), true
				}
				return an.Nil(), true
			case strings.HasSuffix(name, "netutil.ValidateHostnameLabel"):
				if len(args) != 1 || args[0].String() != "p0" {
					return an.Sym("label check of another string"), true
				}
				if it.Feature("labelerr").IsTrue() {
					return an.NonNil("labelErr"), true
				}
				return an.Nil(), true
			case strings.HasSuffix(name, "errors.Unwrap"), name == "fmt.Errorf":
				return an.NonNil("wrapped"), true
			}
			return an.AV{}, false
		},
		Expect: func(f an.Features, o an.AOutcome) string {
			if len(o.Ret) != 2 {
				return "an identifier and an error"
			}
			bad := f.B("lenerr") || !f.B("lenerr") && f.B("labelerr")
			if bad {
				if o.Ret[1].Kind != an.KNil {
					return ""
				}
				return "an error for a string of the wrong length or one that is not a host-name label"
			}
			if o.Ret[1].Kind == an.KNil && strings.Contains(o.Ret[0].String(), "p0") {
				return ""
			}
			return "the string itself as the identifier and no error; got " + o.RetString()
		},
	})
	// ---- R21: identifiers are validated whole
	if n := c03ValidatedWhole(c, "C03-R21"); n < 3 {
		c.Und("C03-R21", "identifier validators of the device finder", token.NoPos, "only %d validator calls found in package devicefinder", n)
	}
	c03CreateAutoDevice(c)
	classSweep(c, "C03")
	// ---- R19: a query is decoded from the bytes of its own datagram only, so no identifier (EDNS CPE-ID) of an
	// earlier client is picked up from the stale tail of a pooled buffer (shared with C06-R1); R20: a device keeps
	// the password the backend sent, however short (table of dohPasswordToInternal)
	c.Floor("C03-R19", 3)
	c.Borrow("C03-R19", runC06, func(o an.Obligation) bool { return o.Rule == "C06-R1" })
	c.Floor("C03-R20", 1)
	c03AllowOnlyAbsent(c, "C03-R20")
	// ---- R17: an update that deletes a profile or detaches a device is not filtered out on its way to the database (shared with C14-R16)
	c.Floor("C03-R17", 1)
	c.Borrow("C03-R17", runC14, func(o an.Obligation) bool { return o.Rule == "C14-R16" })
	// ---- R18: the file cache is stamped with the backend's sync point, so that a restarted process asks for every
	// change since that snapshot (shared with the Refresh table of C14-R8)
	c.Floor("C03-R18", 1)
	c.Borrow("C03-R18", runC14, func(o an.Obligation) bool {
		return o.Rule == "C14-R8" && strings.Contains(o.Key, "profiledb.(*Default).Refresh")
	})
	c03MatchDomain(c)
	// ---- R14: authentication settings survive the file cache (nil only when absent or disabled); a deleted profile
	// replaces the live record (shared with C10-R10 / C14-R8)
	c.Floor("C03-R14", 2)
	if n := sharedNilOnlyAbsent(c, "C03-R14", nilWhenDisabled, "profiledb/internal/filecachepb.", "backendpb."); n >= 3 {
		c.Ok("C03-R14", "optional sub-messages are nil only when absent", token.NoPos, "%d nil returns examined", n)
	} else {
		c.Und("C03-R14", "optional sub-messages are nil only when absent", token.NoPos, "only %d nil returns found", n)
	}
	c.Borrow("C03-R14", runC14, func(o an.Obligation) bool { return o.Rule == "C14-R8" && strings.Contains(o.Key, "setProfiles") })
	if n := sharedCodecGuards(c, "C03-R14", nil, "backendpb.", "profiledb/internal/filecachepb."); n < 5 {
		c.Und("C03-R14", "early returns of the profile codecs", token.NoPos, "only %d early returns found", n)
	}
	// ---- R13: what is configured for one server group (its device-ID domains) is not carried over to the next
	if n := sharedNoLoopCarried(c, "C03-R13", "cmd.", "backendpb.", "profiledb", "dnssvc."); n >= 0 {
		c.Ok("C03-R13", "per-element objects of the configuration and profile conversions take no cross-iteration accumulator", token.NoPos, "%d loops with a slice accumulator examined", n)
	}
	dnssvcWiring(c, "C03-R12", func(dst, src string) bool {
		n := normName(dst) + " " + normName(src)
		return strings.Contains(n, "profiledb") || strings.Contains(n, "devicedomains") || strings.Contains(n, "humanidparser") || strings.Contains(n, "devicefinder")
	}, 3)
	c03FinderWiring(c)
	c03Extraction(c)
	// ---- R10: recycled request-information objects never carry the previous request's identity data
	c.Floor("C03-R10", 5)
	if n := sharedPoolInitSweep(c, "C03-R10", "agd.RequestInfo", "dnsserver.RequestInfo"); n == 0 {
		c.Und("C03-R10", "pooled request information", token.NoPos, "no pooled request-information object found")
	}
	c.Floor("C03-R9", 4)
	c14Lookups(c, "C03-R9")
	c.Floor("C03-R1", 1)
	c.Floor("C03-R2", 1)
	c.Floor("C03-R3", 2)
	c.Floor("C03-R4", 5)
	c.Floor("C03-R5", 1)
	c.Floor("C03-R6", 1)
	c.Floor("C03-R7", 2)
	c.Floor("C03-R8", 1)

	proto := func(name string) int64 {
		v, ok := c.ConstInt("dnsserver", name)
		if !ok {
			c.Und("C03-R1", "const "+name, token.NoPos, "protocol constant not found")
		}
		return v
	}
	pDNS, pDoH, pDoQ, pDoT, pCrypt := proto("ProtoDNS"), proto("ProtoDoH"), proto("ProtoDoQ"), proto("ProtoDoT"), proto("ProtoDNSCrypt")

	// ---- R2
	decide(c, "C03-R2", dfPkg+"supportsDeviceID", an.DecideCfg{
		Dom: an.Domain{"p0": an.Ints(0, pDNS, pDoH, pDoQ, pDoT, pCrypt, 1, 2, 6, 7, 10)},
		Expect: func(f an.Features, o an.AOutcome) string {
			p := f.I("p0")
			want := p == pDNS || p == pDoH || p == pDoQ || p == pDoT
			if o.Exit == "return" && o.RetString() == fmt.Sprint(want) {
				return ""
			}
			return fmt.Sprintf("%v for protocol %d", want, p)
		},
	})

	// ---- R1: the whole of Find
	// lookup result features: "<chan>.res" in {ok, noprof, notfound, err}
	lookups := an.Strs("ok", "noprof", "notfound", "err")
	dom := an.Domain{
		"p0.srv.Protocol":        an.Ints(pDNS, pDoH, pDoQ, pDoT, pCrypt, 0),
		"dd.err":                 an.Bools, // deviceData returned an error
		"dd.id":                  an.Bools, // device ID present
		"dd.ext":                 an.Bools, // extended human ID present
		"byid.res":               lookups,
		"byext.res":              lookups,
		"bylinked.res":           lookups,
		"byded.res":              an.Strs("ok", "notfound", "err"),
		"p0.srv.LinkedIPEnabled": an.Bools,
		"binds":                  an.Bools,
		"hasaddr":                an.Bools,
		"deleted":                an.Bools,
		"auth.enabled":           an.Bools,
		"auth.dohonly":           an.Bools,
		"userinfo":               an.Bools, // userinfo present
		"pwset":                  an.Bools,
		"pwok":                   an.Bools,
	}
	lookupResult := func(it *an.Interp, ch string) an.AV {
		switch it.Feature(ch + ".res").String() {
		case `"ok"`:
			return an.AV{Kind: an.KTuple, Tup: []an.AV{an.NonNil("prof:" + ch), an.NonNil("dev:" + ch), an.Nil()}}
		case `"noprof"`:
			return an.AV{Kind: an.KTuple, Tup: []an.AV{an.Nil(), an.Nil(), an.Nil()}}
		case `"notfound"`:
			return an.AV{Kind: an.KTuple, Tup: []an.AV{an.Nil(), an.Nil(), an.NonNil("err:notfound:" + ch)}}
		default:
			return an.AV{Kind: an.KTuple, Tup: []an.AV{an.Nil(), an.Nil(), an.NonNil("err:other:" + ch)}}
		}
	}
	onCall := func(it *an.Interp, name string, args []an.AV) (an.AV, bool) {
		switch {
		case strings.HasSuffix(name, ".deviceData"):
			if it.Feature("dd.err").IsTrue() {
				return an.AV{Kind: an.KTuple, Tup: []an.AV{an.CStr(""), an.Nil(), an.NonNil("err:devicedata")}}, true
			}
			id := an.CStr("")
			if it.Feature("dd.id").IsTrue() {
				id = an.CStr("dev1234")
			}
			ext := an.Nil()
			if it.Feature("dd.ext").IsTrue() {
				ext = an.NonNil("extid")
			}
			return an.AV{Kind: an.KTuple, Tup: []an.AV{id, ext, an.Nil()}}, true
		case name == "p0.db.ProfileByDeviceID":
			return lookupResult(it, "byid"), true
		case strings.HasSuffix(name, ".deviceByExtID"):
			return lookupResult(it, "byext"), true
		case name == "p0.db.ProfileByLinkedIP":
			return lookupResult(it, "bylinked"), true
		case name == "p0.db.ProfileByDedicatedIP":
			return lookupResult(it, "byded"), true
		case strings.HasSuffix(name, "isProfileDBNotFound"):
			return an.CBool(strings.HasPrefix(args[0].Key, "err:notfound")), true
		case strings.HasSuffix(name, ".BindsToInterfaces"):
			return it.Feature("binds"), true
		case strings.HasSuffix(name, ".HasAddr"):
			return it.Feature("hasaddr"), true
		case strings.HasSuffix(name, "MustRequestInfoFromContext"):
			return an.NonNil("sri"), true
		case strings.HasSuffix(name, "(*net/url.Userinfo).Password"):
			return an.AV{Kind: an.KTuple, Tup: []an.AV{an.Sym("password"), it.Feature("pwset")}}, true
		case strings.HasSuffix(name, ".Authenticate"):
			return it.Feature("pwok"), true
		}
		return an.AV{}, false
	}
	// opaque features reached through loads
	// p.Deleted for the found profile, dev.Auth.* for the found device, srvReqInfo.Userinfo
	featureAlias := func(env an.Env) an.Env { return env }
	_ = featureAlias

	inline := inlinePkgs([]string{dfPkg},
		dfPkg+"(*Default).deviceData", dfPkg+"(*Default).deviceByExtID", dfPkg+"isProfileDBNotFound")

	expect := func(f an.Features, o an.AOutcome) string {
		want := c03Expected(f, pDNS, pDoH, pDoQ, pDoT)
		got := c03Classify(o)
		if got == want {
			return ""
		}
		return want + " (code: " + got + ")"
	}

	fn := c.Fn(dfPkg + "(*Default).Find")
	if fn == nil {
		c.Und("C03-R1", dfPkg+"(*Default).Find", token.NoPos, "anchor function not found")
	} else {
		// The loads of Deleted / Auth / Userinfo produce keys that depend on
		// the channel; map them onto the channel-independent features.
		cfg := an.DecideCfg{Dom: dom, Inline: inline, OnCall: onCall, Expect: expect}
		cfg.Dom = c03ExpandDomain(dom)
		decide(c, "C03-R1", dfPkg+"(*Default).Find", cfg)
	}

	// ---- R5: deviceByExtID: an automatic device is created only when the
	// profile exists and the device does not; not-found profiles yield nothing.
	errProf, ok1 := c.ConstStr("profiledb", "ErrProfileNotFound")
	errDev, ok2 := c.ConstStr("profiledb", "ErrDeviceNotFound")
	if !ok1 || !ok2 {
		c.Und("C03-R5", "profiledb not-found errors", token.NoPos, "constants not found")
	}
	errAV := func(kind string) an.AV {
		if kind == "nil" {
			return an.Nil()
		}
		return an.NonNil("err:" + kind)
	}
	decide(c, "C03-R5", dfPkg+"(*Default).deviceByExtID", an.DecideCfg{
		Dom: an.Domain{
			"human.err":  an.Strs("nil", "profnotfound", "devnotfound", "other"),
			"create.err": an.Strs("nil", "profnotfound", "devnotfound", "other"),
		},
		Inline: func(*ssa.Function) bool { return false },
		OnCall: func(it *an.Interp, name string, args []an.AV) (an.AV, bool) {
			switch {
			case name == "p0.db.ProfileByHumanID":
				e := it.Feature("human.err")
				k := strings.Trim(e.String(), `"`)
				if k == "nil" {
					return an.AV{Kind: an.KTuple, Tup: []an.AV{an.NonNil("prof:human"), an.NonNil("dev:human"), an.Nil()}}, true
				}
				return an.AV{Kind: an.KTuple, Tup: []an.AV{an.Nil(), an.Nil(), errAV(k)}}, true
			case name == "p0.db.CreateAutoDevice":
				e := it.Feature("create.err")
				k := strings.Trim(e.String(), `"`)
				if k == "nil" {
					return an.AV{Kind: an.KTuple, Tup: []an.AV{an.NonNil("prof:create"), an.NonNil("dev:create"), an.Nil()}}, true
				}
				return an.AV{Kind: an.KTuple, Tup: []an.AV{an.Nil(), an.Nil(), errAV(k)}}, true
			case strings.HasSuffix(name, "errorIsOpt"):
				target := args[1].Key
				switch target {
				case fmt.Sprintf("%q", errProf):
					return an.CBool(args[0].Key == "err:profnotfound"), true
				case fmt.Sprintf("%q", errDev):
					return an.CBool(args[0].Key == "err:devnotfound"), true
				}
			case strings.HasSuffix(name, "fmt.Errorf"):
				return an.NonNil("err:wrapped"), true
			}
			return an.AV{}, false
		},
		Expect: func(f an.Features, o an.AOutcome) string {
			got := o.RetString()
			created := o.HasCall("p0.db.CreateAutoDevice")
			want, wantCreate := "", false
			switch f.S("human.err") {
			case "nil":
				want = "nonnil:prof:human, nonnil:dev:human, nil"
			case "profnotfound":
				want = "nil, nil, nil"
			case "other":
				want = "nil, nil, nonnil:err:wrapped"
			default:
				wantCreate = true
				switch f.S("create.err") {
				case "nil":
					want = "nonnil:prof:create, nonnil:dev:create, nil"
				case "profnotfound":
					want = "nil, nil, nil"
				default:
					want = "nil, nil, nonnil:err:wrapped"
				}
			}
			if got == want && created == wantCreate {
				return ""
			}
			return fmt.Sprintf("[%s] with auto-device creation=%v", want, wantCreate)
		},
	})

	// ---- R6: which channel may carry the identifier on which transport
	idRes := an.Strs("none", "id", "ext", "err")
	chanResult := func(it *an.Interp, k string) an.AV {
		switch it.Feature(k).String() {
		case `"id"`:
			return an.AV{Kind: an.KTuple, Tup: []an.AV{an.CStr("id:" + k), an.Nil(), an.Nil()}}
		case `"ext"`:
			return an.AV{Kind: an.KTuple, Tup: []an.AV{an.CStr(""), an.NonNil("ext:" + k), an.Nil()}}
		case `"err"`:
			return an.AV{Kind: an.KTuple, Tup: []an.AV{an.CStr(""), an.Nil(), an.NonNil("err:" + k)}}
		}
		return an.AV{Kind: an.KTuple, Tup: []an.AV{an.CStr(""), an.Nil(), an.Nil()}}
	}
	decide(c, "C03-R6", dfPkg+"(*Default).deviceData", an.DecideCfg{
		Dom: an.Domain{"p0.srv.Protocol": an.Ints(pDNS, pDoH, pDoQ, pDoT, pCrypt), "p3.Userinfo": an.NilOrNot, "user": an.Strs("id", "err"),
			"url": idRes, "sni": idRes, "edns": an.Strs("none", "id", "err"), "len(p0.deviceDomains)": an.Ints(0, 1)},
		Inline: inlinePkgs([]string{dfPkg + "(*Default).deviceData", "dnsserver.(Protocol).IsStdEncrypted"},
			dfPkg+"(*Default).deviceDataFromDoHURL", dfPkg+"(*Default).deviceDataFromCliSrvName"),
		OnCall: func(it *an.Interp, name string, args []an.AV) (an.AV, bool) {
			switch {
			case strings.HasSuffix(name, "agd.NewDeviceID"):
				if it.Feature("user").String() == `"err"` {
					return an.AV{Kind: an.KTuple, Tup: []an.AV{an.CStr(""), an.NonNil("err:user")}}, true
				}
				return an.AV{Kind: an.KTuple, Tup: []an.AV{an.CStr("id:user"), an.Nil()}}, true
			case strings.HasSuffix(name, ").deviceDataFromDoHURL"):
				if args[1].String() != "p3.URL" {
					return an.Sym("another URL"), true
				}
				return chanResult(it, "url"), true
			case strings.HasSuffix(name, ").deviceDataFromCliSrvName"):
				if args[2].String() != "p3.TLSServerName" {
					return an.Sym("another server name"), true
				}
				return chanResult(it, "sni"), true
			case strings.HasSuffix(name, "devicefinder.deviceIDFromEDNS"):
				switch it.Feature("edns").String() {
				case `"id"`:
					return an.AV{Kind: an.KTuple, Tup: []an.AV{an.CStr("id:edns"), an.Nil()}}, true
				case `"err"`:
					return an.AV{Kind: an.KTuple, Tup: []an.AV{an.CStr(""), an.NonNil("err:edns")}}, true
				}
				return an.AV{Kind: an.KTuple, Tup: []an.AV{an.CStr(""), an.Nil()}}, true
			case strings.HasSuffix(name, "devicefinder.newDeviceDataError"):
				return an.NonNil("wrapped:" + args[0].Key), true
			}
			return an.AV{}, false
		},
		Expect: func(f an.Features, o an.AOutcome) string {
			p := f.I("p0.srv.Protocol")
			res := func(kind, ch string) string {
				switch kind {
				case "id":
					return fmt.Sprintf("%q, nil, nil", "id:"+ch)
				case "ext":
					return `"", nonnil:ext:` + ch + ", nil"
				case "err":
					return `"", nil, nonnil:wrapped:err:` + ch
				}
				return `"", nil, nil`
			}
			sni := func() string {
				if f.I("len(p0.deviceDomains)") == 0 {
					return `"", nil, nil`
				}
				return res(f.S("sni"), "sni")
			}
			want := ""
			used := func(n string) bool {
				for _, cn := range o.Calls() {
					if strings.HasSuffix(cn, n) {
						return true
					}
				}
				return false
			}
			switch p {
			case pDoH:
				if !f.IsNil("p3.Userinfo") {
					if f.S("user") == "err" {
						want = `"", nil, nonnil:wrapped:err:user`
					} else {
						want = `"id:user", nil, nil`
					}
					if used("deviceDataFromDoHURL") {
						return "the URL path is not consulted when basic-auth user info is present"
					}
				} else if f.S("url") != "none" {
					want = res(f.S("url"), "url")
				} else {
					want = sni()
				}
				if used("deviceIDFromEDNS") {
					return "EDNS device IDs are not honoured on encrypted transports"
				}
			case pDoT, pDoQ:
				want = sni()
				if used("deviceDataFromDoHURL") || used("agd.NewDeviceID") || used("deviceIDFromEDNS") {
					return "only the TLS server name may carry the identifier on DoT / DoQ"
				}
			default:
				switch f.S("edns") {
				case "id":
					want = `"id:edns", nil, nil`
				case "err":
					want = `"", nil, nonnil:err:edns`
				default:
					want = `"", nil, nil`
				}
				if used("deviceDataFromCliSrvName") || used("deviceDataFromDoHURL") {
					return "only the EDNS option may carry the identifier on plain DNS"
				}
			}
			got := o.RetString()
			if got == want || strings.ReplaceAll(got, "nonnil:wrapped:", "nonnil:") == strings.ReplaceAll(want, "nonnil:wrapped:", "nonnil:") {
				return ""
			}
			return want + " (identifier channel by transport: DoH user info, then URL path, then server name; DoT/DoQ server name; plain DNS EDNS option); got " + got
		},
	})

	// ---- R7: the authentication settings survive the file cache: enabled exactly when the message is present
	for _, pk := range []string{"profiledb/internal/filecachepb", "backendpb"} {
		decide(c, "C03-R7", pk+".(*AuthenticationSettings).toInternal", an.DecideCfg{
			Dom: an.Domain{"p0": an.NilOrNot, "pwerr": an.Bools},
			OnCall: func(it *an.Interp, name string, args []an.AV) (an.AV, bool) {
				switch {
				case strings.HasSuffix(name, ".dohPasswordToInternal"):
					if it.Feature("pwerr").IsTrue() {
						return an.AV{Kind: an.KTuple, Tup: []an.AV{an.Nil(), an.NonNil("pwErr")}}, true
					}
					return an.AV{Kind: an.KTuple, Tup: []an.AV{an.Sym("hash(" + args[0].String() + ")"), an.Nil()}}, true
				case name == "fmt.Errorf":
					return an.NonNil("wrapped"), true
				}
				return an.AV{}, false
			},
			Expect: func(f an.Features, o an.AOutcome) string {
				if o.Exit != "return" || len(o.Ret) != 2 {
					return "a (settings, err) result"
				}
				k := strings.TrimPrefix(o.Ret[0].String(), "&")
				if f.IsNil("p0") {
					if o.Ret[1].Kind == an.KNil && o.Mem[k+".Enabled"].String() == "false" {
						return ""
					}
					return "disabled settings for an absent message"
				}
				if f.B("pwerr") {
					if o.Ret[1].Kind != an.KNil {
						return ""
					}
					return "an error for an undecodable password hash"
				}
				if o.Mem[k+".Enabled"].String() == "true" && o.Mem[k+".DoHAuthOnly"].String() == "p0.DohAuthOnly" && o.Mem[k+".PasswordHash"].String() == "hash(p0.DohPasswordHash)" {
					return ""
				}
				return "enabled settings carrying the stored DoH-only flag and password hash whenever the message is present (also without a password hash); got Enabled=" +
					o.Mem[k+".Enabled"].String() + " DoHAuthOnly=" + o.Mem[k+".DoHAuthOnly"].String()
			},
		})
	}
	// ---- R8: a password authenticates only when the hash comparison succeeds
	decide(c, "C03-R8", "agdpasswd.(*PasswordHashBcrypt).Authenticate", an.DecideCfg{
		Dom: an.Domain{"cmp": an.NilOrNot},
		OnCall: func(it *an.Interp, name string, args []an.AV) (an.AV, bool) {
			if strings.HasSuffix(name, "bcrypt.CompareHashAndPassword") {
				if len(args) != 2 || args[0].String() != "p0.bytes" || args[1].String() != "p2" {
					return an.Sym("comparison of other data"), true
				}
				v := it.Feature("cmp")
				if v.Kind == an.KNonNil {
					v.Key = "cmpErr"
				}
				return v, true
			}
			return an.AV{}, false
		},
		Expect: func(f an.Features, o an.AOutcome) string {
			want := f.IsNil("cmp")
			if o.RetString() == fmt.Sprint(want) {
				return ""
			}
			return fmt.Sprintf("%v (only a nil result of the hash comparison authenticates; any error - mismatch, malformed or unsupported hash - refuses)", want)
		},
	})
	decide(c, "C03-R8", "agdpasswd.(AllowAuthenticator).Authenticate", an.DecideCfg{
		Dom:    an.Domain{},
		Expect: func(f an.Features, o an.AOutcome) string { return "" },
	})

	// ---- R3: who may construct *agd.DeviceResultOK
	allowed := map[string]bool{
		dfPkg + "(*Default).newDeviceResult":   true,
		dfPkg + "(*Default).deviceByLocalAddr": true,
	}
	for _, fn := range c.AllFns {
		if c.IsTestFile(fn.Pos()) {
			continue
		}
		an.Instrs(fn, func(in ssa.Instruction) {
			al, ok := in.(*ssa.Alloc)
			if !ok || an.TypeName(al.Type()) != "agd.DeviceResultOK" {
				return
			}
			key := an.FnKey(fn) + " constructs DeviceResultOK"
			if allowed[an.FnKey(fn)] {
				c.Ok("C03-R3", key, al.Pos(), "constructor inside the device finder (its results pass findDevice and authenticatedResult, see R1)")
			} else {
				c.Bad("C03-R3", key, al.Pos(), "agd.DeviceResultOK constructed outside the device finder's two constructors: a recognised device that bypasses the deleted-profile and authentication checks")
			}
		})
	}

	// ---- R4: profile exposure
	runC03R4(c)
}

// c03ExpandDomain adds the concrete keys under which the interpreter meets the
// channel-independent features.
func c03ExpandDomain(d an.Domain) an.Domain {
	out := an.Domain{}
	for k, v := range d {
		out[k] = v
	}
	for _, ch := range []string{"byid", "byext", "bylinked", "byded"} {
		out["prof:"+ch+".Deleted"] = an.Bools
		out["dev:"+ch+".Auth.Enabled"] = an.Bools
		out["dev:"+ch+".Auth.DoHAuthOnly"] = an.Bools
	}
	out["sri.Userinfo"] = an.NilOrNot
	delete(out, "deleted")
	delete(out, "auth.enabled")
	delete(out, "auth.dohonly")
	delete(out, "userinfo")
	return out
}

// c03Classify maps an abstract outcome of Find to a result class.
func c03Classify(o an.AOutcome) string {
	if o.Exit != "return" || len(o.Ret) != 1 {
		return o.Exit
	}
	r := o.Ret[0]
	switch {
	case r.Kind == an.KNil:
		return "none"
	case r.Dyn == "*agd.DeviceResultOK":
		// which profile and device does the result carry?
		prof := o.Mem[r.Key+".Profile"].Key
		dev := o.Mem[r.Key+".Device"].Key
		ch := strings.TrimPrefix(prof, "prof:")
		if dev != "dev:"+ch {
			return "ok with profile " + prof + " but device " + dev
		}
		return "ok:" + ch
	case r.Dyn == "*agd.DeviceResultAuthenticationFailure":
		return "authfail"
	case r.Dyn == "*agd.DeviceResultError":
		return "error"
	case r.Dyn == "*agd.DeviceResultUnknownDedicated":
		return "unknown-dedicated"
	}
	return "other:" + r.String() + "/" + r.Dyn
}

// c03Expected is the reference table of Find.
func c03Expected(f an.Features, pDNS, pDoH, pDoQ, pDoT int64) string {
	p := f.I("p0.srv.Protocol")
	if !(p == pDNS || p == pDoH || p == pDoQ || p == pDoT) {
		return "none" // DNSCrypt and anything else is anonymous
	}
	if f.B("dd.err") {
		return "error"
	}
	ch := ""
	switch {
	case f.B("dd.id"):
		ch = "byid"
	case f.B("dd.ext"):
		ch = "byext"
	case p == pDNS:
		if f.B("binds") && !f.B("hasaddr") {
			ch = "byded"
		} else if f.B("p0.srv.LinkedIPEnabled") {
			ch = "bylinked"
		} else {
			return "none"
		}
	default:
		return "none"
	}
	switch f.S(ch + ".res") {
	case "noprof":
		return "none"
	case "notfound":
		if ch == "byded" {
			return "unknown-dedicated"
		}
		return "none"
	case "err":
		return "error"
	}
	if f.B("prof:" + ch + ".Deleted") {
		return "none"
	}
	// authentication table
	ok := "ok:" + ch
	if !f.B("dev:" + ch + ".Auth.Enabled") {
		return ok
	}
	only := f.B("dev:" + ch + ".Auth.DoHAuthOnly")
	if p != pDoH {
		if only {
			return "authfail"
		}
		return ok
	}
	if f.IsNil("sri.Userinfo") {
		if only {
			return "authfail"
		}
		return ok
	}
	if !f.B("pwset") || !f.B("pwok") {
		return "authfail"
	}
	return ok
}

func runC03R4(c *an.Ctx) {
	// (a) among the implementations of agd.DeviceResult only DeviceResultOK
	// carries a profile or a device, so no other result can expose one.
	agd := c.Pkg("agd")
	if agd == nil {
		c.Und("C03-R4", "package agd", token.NoPos, "package not loaded")
		return
	}
	ifaceObj := agd.Types.Scope().Lookup("DeviceResult")
	if ifaceObj == nil {
		c.Und("C03-R4", "agd.DeviceResult", token.NoPos, "type not found")
		return
	}
	iface, _ := ifaceObj.Type().Underlying().(*types.Interface)
	var impls []string
	for _, name := range agd.Types.Scope().Names() {
		tn, ok := agd.Types.Scope().Lookup(name).(*types.TypeName)
		if !ok || iface == nil {
			continue
		}
		pt := types.NewPointer(tn.Type())
		if !types.Implements(pt, iface) && !types.Implements(tn.Type(), iface) {
			continue
		}
		st, ok := tn.Type().Underlying().(*types.Struct)
		if !ok {
			continue
		}
		impls = append(impls, name)
		carries := false
		for i := 0; i < st.NumFields(); i++ {
			ft := an.TypeName(st.Field(i).Type())
			if ft == "agd.Profile" || ft == "agd.Device" {
				carries = true
			}
		}
		key := "agd." + name + " fields"
		switch {
		case name == "DeviceResultOK" && carries:
			c.Ok("C03-R4", key, tn.Pos(), "the successful result carries the profile and the device")
		case name != "DeviceResultOK" && !carries:
			c.Ok("C03-R4", key, tn.Pos(), "non-OK result type carries no profile or device")
		default:
			c.Bad("C03-R4", key, tn.Pos(), "a DeviceResult other than DeviceResultOK carries a profile or device (or DeviceResultOK does not)")
		}
	}

	// (b) handleDeviceResult: stop on unknown-dedicated and on error, continue otherwise
	decide(c, "C03-R4", "dnssvc/internal/ratelimitmw.(*Middleware).handleDeviceResult", an.DecideCfg{
		Dom: an.Domain{"type(p2)": append(an.Strs(
			"*agd.DeviceResultUnknownDedicated", "*agd.DeviceResultError", "*agd.DeviceResultOK",
			"*agd.DeviceResultAuthenticationFailure"), an.Nil())},
		Expect: func(f an.Features, o an.AOutcome) string {
			t := ""
			if !f.IsNil("type(p2)") {
				t = f.S("type(p2)")
			}
			if o.Exit != "return" || len(o.Ret) != 2 {
				return "a (cont, err) result"
			}
			cont, err := o.Ret[0], o.Ret[1]
			switch t {
			case "*agd.DeviceResultUnknownDedicated":
				if cont.IsFalse() && err.Kind == an.KNil {
					return ""
				}
				return "(false, nil): an unknown dedicated address is dropped"
			case "*agd.DeviceResultError":
				if cont.IsFalse() && err.Kind != an.KNil {
					return ""
				}
				return "(false, res.Err)"
			default:
				if cont.IsTrue() && err.Kind == an.KNil {
					return ""
				}
				return "(true, nil)"
			}
		},
	})
}

// c03Extraction holds the tables of the helpers that extract the device
// identifier from each channel.
func c03Extraction(c *an.Ctx) {
	c.Floor("C03-R11", 5)
	const df = "dnssvc/internal/devicefinder."
	decide(c, "C03-R11", df+"(*Default).deviceDataForDoH", an.DecideCfg{
		Dom: an.Domain{"p1.Userinfo": {an.Nil(), an.NonNil("ui")}, "iderr": an.Bools, "urlerr": an.Bools},
		OnCall: func(it *an.Interp, name string, args []an.AV) (an.AV, bool) {
			switch {
			case name == "(*net/url.Userinfo).Username":
				return an.Sym("username(" + args[0].String() + ")"), true
			case strings.HasSuffix(name, "agd.NewDeviceID"):
				if it.Feature("iderr").IsTrue() {
					return an.AV{Kind: an.KTuple, Tup: []an.AV{an.CStr(""), an.NonNil("idErr")}}, true
				}
				return an.AV{Kind: an.KTuple, Tup: []an.AV{an.Sym("id(" + args[0].String() + ")"), an.Nil()}}, true
			case strings.HasSuffix(name, ").deviceDataFromDoHURL"):
				if it.Feature("urlerr").IsTrue() {
					return an.AV{Kind: an.KTuple, Tup: []an.AV{an.CStr(""), an.Nil(), an.NonNil("urlErr")}}, true
				}
				return an.AV{Kind: an.KTuple, Tup: []an.AV{an.Sym("urlid(" + args[1].String() + ")"), an.Sym("urlext"), an.Nil()}}, true
			case strings.HasSuffix(name, "devicefinder.newDeviceDataError"):
				return an.NonNil("dataErr(" + args[1].String() + ")"), true
			}
			return an.AV{}, false
		},
		Expect: func(f an.Features, o an.AOutcome) string {
			if len(o.Ret) != 3 {
				return "an (id, extID, err) result"
			}
			if !f.IsNil("p1.Userinfo") {
				if o.HasCall("(*dnssvc/internal/devicefinder.Default).deviceDataFromDoHURL") {
					return "the URL path not consulted when credentials are present"
				}
				if f.B("iderr") {
					if o.Ret[2].Kind != an.KNil && o.Ret[0].String() == `""` {
						return ""
					}
					return "an error (not an anonymous request) for an invalid identifier in the credentials; got " + o.RetString()
				}
				if o.RetString() == "id(username(nonnil:ui)), nil, nil" {
					return ""
				}
				return "the device ID from the user name of the credentials, no human-readable ID; got " + o.RetString()
			}
			if f.B("urlerr") {
				if o.Ret[2].Kind != an.KNil {
					return ""
				}
				return "an error for an invalid URL path"
			}
			if o.RetString() == "urlid(p1.URL), urlext, nil" {
				return ""
			}
			return "the identifier from this request's URL path; got " + o.RetString()
		},
	})
	doh, _ := c.ConstInt("agd", "ProtoDoH")
	dot, _ := c.ConstInt("agd", "ProtoDoT")
	decide(c, "C03-R11", df+"(*Default).deviceDataFromSrvReqInfo", an.DecideCfg{
		Dom: an.Domain{"p0.srv.Protocol": an.Ints(doh, dot), "doh": an.Strs("id", "ext", "err", "none"), "len(p0.deviceDomains)": an.Ints(0, 2), "snierr": an.Bools},
		OnCall: func(it *an.Interp, name string, args []an.AV) (an.AV, bool) {
			switch {
			case strings.HasSuffix(name, ").deviceDataForDoH"):
				switch avStr(it.Feature("doh")) {
				case "id":
					return an.AV{Kind: an.KTuple, Tup: []an.AV{an.CStr("dohid"), an.Nil(), an.Nil()}}, true
				case "ext":
					return an.AV{Kind: an.KTuple, Tup: []an.AV{an.CStr(""), an.NonNil("dohext"), an.Nil()}}, true
				case "err":
					return an.AV{Kind: an.KTuple, Tup: []an.AV{an.CStr(""), an.Nil(), an.NonNil("dohErr")}}, true
				}
				return an.AV{Kind: an.KTuple, Tup: []an.AV{an.CStr(""), an.Nil(), an.Nil()}}, true
			case strings.HasSuffix(name, ").deviceDataFromCliSrvName"):
				if args[2].String() != "p2.TLSServerName" {
					return an.Sym("server name of something else"), true
				}
				if it.Feature("snierr").IsTrue() {
					return an.AV{Kind: an.KTuple, Tup: []an.AV{an.CStr(""), an.Nil(), an.NonNil("sniErr")}}, true
				}
				return an.AV{Kind: an.KTuple, Tup: []an.AV{an.Sym("sniid"), an.Sym("sniext"), an.Nil()}}, true
			case strings.HasSuffix(name, "devicefinder.newDeviceDataError"):
				return an.NonNil("dataErr"), true
			}
			return an.AV{}, false
		},
		Expect: func(f an.Features, o an.AOutcome) string {
			isDoH := f.I("p0.srv.Protocol") == doh
			if isDoH {
				switch f.S("doh") {
				case "id":
					if o.RetString() == `"dohid", nil, nil` {
						return ""
					}
					return "the DoH identifier wins over the server name; got " + o.RetString()
				case "ext":
					if o.RetString() == `"", nonnil:dohext, nil` {
						return ""
					}
					return "the DoH human-readable identifier wins over the server name; got " + o.RetString()
				case "err":
					if len(o.Ret) == 3 && o.Ret[2].Kind != an.KNil {
						return ""
					}
					return "the DoH extraction error reported; got " + o.RetString()
				}
			} else if o.HasCall("(*dnssvc/internal/devicefinder.Default).deviceDataForDoH") {
				return "DoH channels consulted only for DoH servers"
			}
			if f.I("len(p0.deviceDomains)") == 0 {
				if o.RetString() == `"", nil, nil` {
					return ""
				}
				return "no identifier without configured device domains; got " + o.RetString()
			}
			if f.B("snierr") {
				if len(o.Ret) == 3 && o.Ret[2].Kind != an.KNil {
					return ""
				}
				return "the server-name extraction error reported"
			}
			if o.RetString() == "sniid, sniext, nil" {
				return ""
			}
			return "the identifier from the TLS server name; got " + o.RetString()
		},
	})
	decide(c, "C03-R11", df+"(*Default).deviceDataFromCliSrvName", an.DecideCfg{
		Dom: an.Domain{`(p2 == "")`: an.Bools, `(dom == "")`: an.Bools},
		OnCall: func(it *an.Interp, name string, args []an.AV) (an.AV, bool) {
			switch {
			case strings.HasSuffix(name, "devicefinder.matchDomain"):
				if args[0].String() != "p2" || args[1].String() != "p0.deviceDomains" {
					return an.Sym("match of other data"), true
				}
				return an.Sym("dom"), true
			case strings.HasSuffix(name, "optslog.Debug2"):
				return an.Nil(), true
			case strings.HasSuffix(name, ").parseDeviceData"):
				return an.AV{Kind: an.KTuple, Tup: []an.AV{an.Sym("pid"), an.Sym("pext"), an.Sym("perr")}}, true
			}
			return an.AV{}, false
		},
		Expect: func(f an.Features, o an.AOutcome) string {
			if f.B(`(p2 == "")`) || f.B(`(dom == "")`) {
				if o.RetString() == `"", nil, nil` && !o.HasCall("(*dnssvc/internal/devicefinder.Default).parseDeviceData") {
					return ""
				}
				return "no identifier when there is no server name or it is not under a configured device domain; got " + o.RetString()
			}
			if o.RetString() == "pid, pext, perr" {
				return ""
			}
			return "the label in front of the matched device domain parsed as the identifier; got " + o.RetString()
		},
	})
	decide(c, "C03-R11", df+"deviceIDFromEDNS", an.DecideCfg{
		Dom: an.Domain{"opt": an.NilOrNot, "len(opt.Option)": an.Ints(0, 2), "r0": an.Strs("id", "err", "none"), "r1": an.Strs("id", "none")},
		OnCall: func(it *an.Interp, name string, args []an.AV) (an.AV, bool) {
			switch {
			case strings.HasSuffix(name, "dns.Msg).IsEdns0"):
				v := it.Feature("opt")
				if v.Kind == an.KNonNil {
					v.Key = "opt"
				}
				return v, true
			case strings.HasSuffix(name, "devicefinder.deviceIDFromENDSOPT"):
				i := "0"
				if strings.Contains(args[0].String(), "[1]") {
					i = "1"
				}
				switch avStr(it.Feature("r" + i)) {
				case "id":
					return an.AV{Kind: an.KTuple, Tup: []an.AV{an.CStr("id" + i), an.Nil()}}, true
				case "err":
					return an.AV{Kind: an.KTuple, Tup: []an.AV{an.CStr(""), an.NonNil("err" + i)}}, true
				}
				return an.AV{Kind: an.KTuple, Tup: []an.AV{an.CStr(""), an.Nil()}}, true
			}
			return an.AV{}, false
		},
		Expect: func(f an.Features, o an.AOutcome) string {
			want := `"", nil`
			if !f.IsNil("opt") && f.I("len(opt.Option)") == 2 {
				switch f.S("r0") {
				case "id":
					want = `"id0", nil`
				case "err":
					want = `"", nonnil:err0`
				default:
					if f.S("r1") == "id" {
						want = `"id1", nil`
					}
				}
			}
			if o.RetString() != want {
				return want + " (the first option that yields an identifier or an error decides; later options are still examined when earlier ones are unrelated); got " + o.RetString()
			}
			return ""
		},
	})
	cpe, _ := c.ConstInt("dnssvc/internal/devicefinder", "DnsmasqCPEIDOption")
	decide(c, "C03-R11", df+"deviceIDFromENDSOPT", an.DecideCfg{
		Dom: an.Domain{"code": an.Ints(cpe, 8), "type(p0)": an.Strs("*github.com/miekg/dns.EDNS0_LOCAL", "*github.com/miekg/dns.EDNS0_SUBNET"), "iderr": an.Bools},
		OnCall: func(it *an.Interp, name string, args []an.AV) (an.AV, bool) {
			switch {
			case name == "p0.Option":
				return it.Feature("code"), true
			case strings.HasSuffix(name, "agd.NewDeviceID"):
				if it.Feature("iderr").IsTrue() {
					return an.AV{Kind: an.KTuple, Tup: []an.AV{an.CStr(""), an.NonNil("idErr")}}, true
				}
				return an.AV{Kind: an.KTuple, Tup: []an.AV{an.Sym("devid"), an.Nil()}}, true
			case strings.HasSuffix(name, "devicefinder.newDeviceDataError"):
				return an.NonNil("dataErr"), true
			}
			return an.AV{}, false
		},
		Expect: func(f an.Features, o an.AOutcome) string {
			want := `"", nil`
			if f.I("code") == cpe && f.S("type(p0)") == "*github.com/miekg/dns.EDNS0_LOCAL" {
				want = "devid, nil"
				if f.B("iderr") {
					want = `"", nonnil:dataErr`
				}
			}
			if o.RetString() != want {
				return want + " (only the CPE-ID option carries an identifier; an invalid one is an error); got " + o.RetString()
			}
			return ""
		},
	})
}

// c03FinderWiring checks that every server's rate-limit middleware gets a device
// finder built for that very server (the finder reads the server's linked-IP and
// bind-to-interface settings): the DeviceFinder field of each
// ratelimitmw.Config literal is a direct call of newDeviceFinder whose server
// argument is the value stored into the same literal's Server field.
func c03FinderWiring(c *an.Ctx) {
	c.Floor("C03-R12", 1)
	const k = "dnssvc.newHandlersForServers"
	fn := c.Fn(k)
	if fn == nil {
		c.Und("C03-R12", k, token.NoPos, "anchor not found")
		return
	}
	c.Analysed(k)
	type lit struct{ server, finder ssa.Value }
	lits := map[ssa.Value]*lit{}
	an.Instrs(fn, func(in ssa.Instruction) {
		st, ok := in.(*ssa.Store)
		if !ok {
			return
		}
		typ, f, base, ok := an.FieldOf(st.Addr)
		if !ok || typ != "dnssvc/internal/ratelimitmw.Config" {
			return
		}
		if lits[base] == nil {
			lits[base] = &lit{}
		}
		switch f {
		case "Server":
			lits[base].server = st.Val
		case "DeviceFinder":
			lits[base].finder = st.Val
		}
	})
	n := 0
	for _, l := range lits {
		n++
		ok := false
		if call, isCall := an.Unwrap(l.finder).(*ssa.Call); isCall && an.IsCall(call, "dnssvc.newDeviceFinder") && len(call.Call.Args) == 3 {
			ok = l.server != nil && call.Call.Args[2] == l.server
		}
		c.Check(ok, "C03-R12", k+" finder per server", fn.Pos(), "each server's middleware gets a device finder built for that server",
			"a server's middleware gets a device finder that was not built for it (shared or cached between servers): linked-IP and dedicated-IP recognition follows another server's settings")
	}
	if n == 0 {
		c.Und("C03-R12", k+" config", fn.Pos(), "no ratelimitmw.Config literal found")
	}
}

// c03MatchDomain holds the table of the device-domain match: the server name
// is compared, lower-cased, with every configured device domain through
// netutil.IsImmediateSubdomain (exactly one more label, separated by a dot),
// and the first domain that matches is returned.
func c03MatchDomain(c *an.Ctx) {
	c.Floor("C03-R15", 1)
	decide(c, "C03-R15", dfPkg+"matchDomain", an.DecideCfg{
		Dom: an.Domain{"len(p1)": an.Ints(0, 1, 2), "imm:0": an.Bools, "imm:1": an.Bools},
		OnCall: func(it *an.Interp, name string, args []an.AV) (an.AV, bool) {
			switch {
			case name == "strings.ToLower":
				return an.Sym("lower(" + args[0].String() + ")"), true
			case strings.HasSuffix(name, "netutil.IsImmediateSubdomain"):
				for i := 0; i < 2; i++ {
					if args[0].String() == "lower(p0)" && args[1].String() == fmt.Sprintf("p1[%d]", i) {
						return it.Feature(fmt.Sprintf("imm:%d", i)), true
					}
				}
				return an.Sym("subdomain test of " + args[0].String() + " against " + args[1].String()), true
			}
			return an.AV{}, false
		},
		Expect: func(f an.Features, o an.AOutcome) string {
			want := `""`
			for i := int64(0); i < f.I("len(p1)"); i++ {
				if f.B(fmt.Sprintf("imm:%d", i)) {
					want = fmt.Sprintf("p1[%d]", i)
					break
				}
			}
			if o.RetString() != want {
				return want + " (the first device domain of which the lower-cased name is an immediate subdomain, by the library's label-aware test); got " + o.RetString()
			}
			return ""
		},
	})
}

// c03CreateAutoDevice: an automatic device is created (the storage is asked)
// only for a profile that exists and has the feature enabled.
func c03CreateAutoDevice(c *an.Ctx) {
	c.Floor("C03-R16", 1)
	decide(c, "C03-R16", "profiledb.(*Default).CreateAutoDevice", an.DecideCfg{
		Dom:    an.Domain{"p0.profiles[p2]#ok": an.Bools, "p0.profiles[p2]": {an.NonNil("prof")}, "prof.AutoDevicesEnabled": an.Bools, "storerr": an.Bools},
		Inline: func(f *ssa.Function) bool { return strings.Contains(an.FnKey(f), "CreateAutoDevice$") },
		OnCall: func(it *an.Interp, name string, args []an.AV) (an.AV, bool) {
			switch {
			case name == "p0.storage.CreateAutoDevice":
				if it.Feature("storerr").IsTrue() {
					return an.AV{Kind: an.KTuple, Tup: []an.AV{an.Nil(), an.NonNil("storErr")}}, true
				}
				return an.AV{Kind: an.KTuple, Tup: []an.AV{an.NonNil("resp"), an.Nil()}}, true
			case strings.HasSuffix(name, ").setDevices"):
				return an.Nil(), true
			}
			return an.AV{}, false
		},
		Expect: func(f an.Features, o an.AOutcome) string {
			asked := o.HasCall("p0.storage.CreateAutoDevice")
			allowed := f.B("p0.profiles[p2]#ok") && f.B("prof.AutoDevicesEnabled")
			if asked != allowed {
				return fmt.Sprintf("storage asked=%v (only for an existing profile with automatic devices enabled)", allowed)
			}
			ok := allowed && !f.B("storerr")
			if len(o.Ret) != 3 || ok != (o.Ret[2].Kind == an.KNil) {
				return fmt.Sprintf("success=%v; got %s", ok, o.RetString())
			}
			return ""
		},
	})
}

// c03AllowOnlyAbsent: the backend decoder gives a device "no password"
// (AllowAuthenticator) only when the message has no password hash at all.  A
// hash that is present, whatever it contains, becomes a bcrypt authenticator
// (an empty hash rejects every password).  Every return of AllowAuthenticator
// in dohPasswordToInternal must lie outside the cases of the type switch that
// have matched a concrete hash type.
func c03AllowOnlyAbsent(c *an.Ctx, rule string) {
	const k = "backendpb.dohPasswordToInternal"
	fn := c.Fn(k)
	key := k + " returns AllowAuthenticator only for an absent hash"
	if fn == nil {
		c.Und(rule, key, token.NoPos, "anchor not found")
		return
	}
	c.Analysed(k)
	n := 0
	bad := ""
	for _, r := range an.Returns(fn) {
		if len(r.Results) == 0 {
			continue
		}
		mi, ok := r.Results[0].(*ssa.MakeInterface)
		if !ok || !strings.HasSuffix(an.TypeName(mi.X.Type()), "agdpasswd.AllowAuthenticator") {
			continue
		}
		n++
		for _, e := range an.DominatingConds(r.Block()) {
			ex, ok := e.If.Cond.(*ssa.Extract)
			if !ok || ex.Index != 1 || !e.Branch {
				continue
			}
			if ta, ok := ex.Tuple.(*ssa.TypeAssert); ok {
				bad = fmt.Sprintf("AllowAuthenticator is returned at %s inside the case for %s", c.Pos(r.Pos()), an.TypeName(an.Deref(ta.AssertedType)))
			}
		}
	}
	c.Check(n > 0 && bad == "", rule, key, fn.Pos(), fmt.Sprintf("%d returns of AllowAuthenticator, none inside a case that matched a hash type", n),
		bad+": a device whose hash is present (but, say, empty) is recognised with any password")
}

// c03ValidatedWhole: agd.NewDeviceID, NewHumanID and NewProfileID reject values
// that are too long.  A value that was cut to the maximum length on its way
// to the validator passes it, and a request that names "dev12345-someone-else"
// is attributed to device "dev12345".  The argument of every validator call in
// the device finder is walked back: it must not pass through a slice of a local
// fixed-size array (the target of a truncating copy).
func c03ValidatedWhole(c *an.Ctx, rule string) (sites int) {
	for _, fn := range c.AllFns {
		k := an.FnKey(fn)
		if fn.Blocks == nil || c.IsTestFile(fn.Pos()) || !strings.HasPrefix(k, "dnssvc/internal/devicefinder.") {
			continue
		}
		perCallee := map[string]int{}
		for _, call := range an.Calls(fn) {
			name := an.CalleeName(call)
			if !strings.Contains(name, "internal/agd.New") || !strings.HasSuffix(name, "ID") || len(call.Common().Args) != 1 {
				continue
			}
			sites++
			c.Analysed(k)
			perCallee[name]++
			bad := ""
			w := &an.Walker{P: c.Prog, NoFieldJoin: true,
				Visit: func(v ssa.Value) bool {
					if sl, ok := v.(*ssa.Slice); ok {
						if al, ok := sl.X.(*ssa.Alloc); ok {
							if _, isArr := al.Type().Underlying().(*types.Pointer).Elem().Underlying().(*types.Array); isArr {
								bad = "a slice of the fixed-size local array declared at " + c.Pos(al.Pos())
								return true
							}
						}
					}
					// Unicode case folding maps letters outside ASCII onto ASCII ones (U+212A KELVIN SIGN -> k): folded
					// before validation, a string that is not the identifier becomes it
					if call, ok := v.(*ssa.Call); ok {
						switch an.CalleeName(call) {
						case "strings.ToLower", "strings.ToUpper", "strings.ToTitle", "strings.ToValidUTF8":
							bad = "the result of " + an.CalleeName(call) + " at " + c.Pos(call.Pos()) + " (case folding before validation)"
							return true
						}
					}
					return false
				},
				Leaf: func(ssa.Value, string) {},
				ThroughCalls: func(cl *ssa.Call) ([]ssa.Value, bool) {
					return cl.Call.Args, true
				},
			}
			w.Walk(call.Common().Args[0])
			c.Check(bad == "", rule, fmt.Sprintf("%s: %s call %d validates the whole identifier", k, an.Short(name), perCallee[name]), call.Pos(),
				"the argument is the identifier as it was received",
				"the argument comes from "+bad+": the validator sees another string than the request carried (cut to size, or folded onto ASCII), and a request that does not carry a device's identifier is attributed to that device")
		}
	}
	return sites
}

// agdInt returns the value of an integer constant of package agd (-1 if absent).
func agdInt(c *an.Ctx, name string) int64 {
	if pkg := c.Prog.SSA.ImportedPackage("github.com/AdguardTeam/AdGuardDNS/internal/agd"); pkg != nil {
		if k, ok := pkg.Members[name].(*ssa.NamedConst); ok {
			return k.Value.Int64()
		}
	}
	return -1
}
