package rules

import (
	"fmt"
	"go/token"
	"sort"
	"strings"

	"adgverif/an"

	"golang.org/x/tools/go/ssa"
)

func init() {
	register(&Property{ID: "C04", Technique: "value-provenance dataflow for served TTLs (every phi edge aged or zero); forward-taint key completeness with injective packing; decision-tree extraction of the cacheability, store and lowest-TTL functions over representative values; ordering (dominance) rules around the cache store",
		Run: runC04, Explain: an.Explanation{
			Text: "R1: in both response caches, every value stored into a record's TTL on the hit path is, on every phi edge, the " +
				"constant 0 or data-dependent on time.Since(item.when): no path serves the un-aged TTL. R2: the simple cache's key " +
				"depends on the DO bit, question type, class and name; the ECS cache's key on host, type, class, DO, address family, " +
				"and on the subnet address and length for ECS-dependent entries / the opt-out flag otherwise; inputs are packed into " +
				"disjoint byte ranges. R3: isCacheable in both caches equals the reference table (truncated or not exactly one " +
				"question: no; NOERROR: isCacheableNOERROR; NXDOMAIN, SERVFAIL: yes; else no), and set stores only when the lowest " +
				"TTL is non-zero and the message is cacheable, with an expiry derived from that TTL (raised to the configured " +
				"minimum only when overriding is on and the answer is not SERVFAIL). R4: getTTLIfLower (both copies) over " +
				"representative orderings: OPT records are ignored, an SOA contributes min(header TTL, MINIMUM if set), every " +
				"other record its header TTL; the result never exceeds the record's header TTL. R5: the simple cache's hit path " +
				"rebuilds rcode, AD, RA and the three sections from the cached item; the ECS cache stores its clone before any " +
				"request-specific adjustment (AD bit, ECS echo) and after hop-by-hop data is removed, and re-applies those " +
				"adjustments on the hit path.",
			NotCovered: "the rounding amount of the served TTL, LRU eviction, that the cache library honours the expiry (trusted).",
			Rules: map[string]string{"C04-R27": "ecscache.roundDiv is the quotient rounded to nearest (half away from zero) for every sign combination (table over sample values): a served TTL is never rounded up past the remaining lifetime", "C04-R25": "SetMinTTL stores max(the record's own TTL, the minimum parameter) into each answer record: no record's TTL is raised to that of a record before it", "C04-R26": "ecscache get passes the request's DO/AD wish to fromCacheItem on both lookups (table shared with C05-R3): a hit in the ECS-aware cache does not hand the stored AD bit to a client that asked for neither", "C04-R24": "the cache constructors take the TTL-override switch and the minimum TTL from the configuration as they are (a plain load of OverrideTTL / MinTTL into overrideTTL / cacheMinTTL): a configured minimum does not switch the override on by itself", "C04-R23": "the simple cache files an answer under the key of the request it answers: the message handed to toCacheKey on the store path is the handler's request, the same value as on the lookup path, not the upstream's response (whose OPT record, and with it the DO bit of the key, is the upstream's choice)", "C04-R22": "respIsECSDependent: an answer with a non-zero scope for a name outside the fake-ECS list goes to the subnet-keyed cache (table shared with C05-R16)", "C04-R21": "dnsmsg.IsDO looks the OPT record up wherever it stands in the additional section (Msg.IsEdns0) and reports its DO bit: a request with a record after the OPT record (TSIG, SIG(0)) is keyed under its real DO setting", "C04-R20": "ecscache.itemFromCache returns a miss when the stored item belongs to another host (64-bit key collision; shared with C12-R6)", "C04-R19": "ecscache ServeDNS: between the GeoIP subnet lookup and the cache lookup, the flag that separates the cache key of zero-prefix requests (isECSDeclined) is set from the length of the looked-up subnet: the answer an ECS-aware upstream gives to a /0 (scope 0, generic) is not stored under the key that located clients look up first", "C04-R18": "isCacheableNOERROR (both caches): the authority section qualifies a NODATA answer only through an SOA record", "C04-R16": "the main middleware disposes of the original response only when a different one was written (a response that is written, cached and disposed twice aliases pooled records; shared with C07-R3)", "C04-R17": "the initial middleware sets AD unconditionally in the request handed to the pipeline, so cached answers carry the upstream's AD for every requester (table shared with C01-R21)", "C04-R15": "ecscache ServeDNS: the upstream request carries the subnet the cache is keyed by (table shared with C05-R1)", "C04-R14": "TTL stores on records that may come from an additional section are guarded by a not-OPT test (the OPT TTL field is extended rcode / version / DO)", "C04-RC": "class rules (error chains, shadowed results, character classes, crossed arguments, pool constructors, array pools, loop completeness, loop-carried buffers, replacing setters, complete clones, Grow arithmetic, pooled-buffer escape, sorted searches, fresh decode targets, per-iteration objects, whole-message copies, codec guards) over the packages this property rests on", "C04-R13": "setECS leaves exactly one subnet option, in requests and responses alike (table shared with C05-R4)", "C04-R12": "cache wrappers (agdcache, ecscache, dnsserver/cache) use every parameter: key, value and expiration reach the wrapped cache", "C04-R1": "served TTL aged on every path", "C04-R2": "cache key completeness", "C04-R3": "cacheability and store tables",
				"C04-R4": "lowest-TTL helper table", "C04-R5": "hit-path coverage and store ordering", "C04-R6": "cached items are private deep copies"},
		}})
}

func runC04(c *an.Ctx) {
	c.Floor("C04-R27", 1)
	c04RoundDiv(c, "C04-R27")
	c.Floor("C04-R25", 1)
	c04MinTTLPerRecord(c, "C04-R25")
	c.Floor("C04-R26", 1)
	c.Borrow("C04-R26", runC05, func(o an.Obligation) bool { return o.Rule == "C05-R3" && strings.Contains(o.Key, "ecscache.(*Middleware).get") })
	// ---- R24: the TTL override is switched on by its own setting only
	c.Floor("C04-R24", 4)
	c04OverrideVerbatim(c, "C04-R24")
	// ---- R23: store key and lookup key come from the same message
	c.Floor("C04-R23", 1)
	c04StoreKeyFromRequest(c, "C04-R23")
	// ---- R22: which cache an upstream answer goes to (shared with C05-R16)
	c.Floor("C04-R22", 1)
	c.Borrow("C04-R22", runC05, func(o an.Obligation) bool { return o.Rule == "C05-R16" })
	// ---- R21: the DO bit of a request is read from its OPT record wherever that stands
	c.Floor("C04-R21", 1)
	decide(c, "C04-R21", "dnsmsg.IsDO", an.DecideCfg{
		Dom: an.Domain{"opt": an.Bools, "do": an.Bools},
		OnCall: func(it *an.Interp, name string, args []an.AV) (an.AV, bool) {
			switch name {
			case "(*github.com/miekg/dns.Msg).IsEdns0":
				if len(args) != 1 || args[0].String() != "p0" {
					return an.Sym("OPT of another message"), true
				}
				if it.Feature("opt").IsTrue() {
					return an.NonNil("opt"), true
				}
				return an.Nil(), true
			case "(*github.com/miekg/dns.OPT).Do":
				if len(args) != 1 || args[0].String() != "nonnil:opt" {
					return an.Sym("DO of another record"), true
				}
				return it.Feature("do"), true
			}
			return an.AV{}, false
		},
		Expect: func(f an.Features, o an.AOutcome) string {
			if !o.HasCall("(*github.com/miekg/dns.Msg).IsEdns0") {
				return "the OPT record looked up with Msg.IsEdns0 (anywhere in the additional section)"
			}
			want := f.B("opt") && f.B("do")
			if o.RetString() == fmt.Sprint(want) {
				return ""
			}
			return fmt.Sprint(want)
		},
	})
	// ---- R20: the collision guard of the ECS cache (shared with C12-R6)
	c.Floor("C04-R20", 1)
	c.Borrow("C04-R20", runC12, func(o an.Obligation) bool { return o.Rule == "C12-R6" && strings.Contains(o.Key, "ecscache.") })
	// ---- R19: a request forwarded with a zero-length subnet because its location has none is keyed apart
	c.Floor("C04-R19", 1)
	c04ZeroSubnetKeyedApart(c, "C04-R19")
	classSweep(c, "C04")
	// ---- R18: NODATA answers are cacheable only with the zone's SOA record
	c.Floor("C04-R18", 2)
	c04NodataNeedsSOA(c, "C04-R18")
	// ---- R16: the original response is handed back to the pools only when another one was written (shared with C07-R3);
	// R17: the pipeline always sees AD set, so a cached answer's AD bit does not depend on who asked first (shared with C01-R21)
	c.Floor("C04-R16", 1)
	c.Borrow("C04-R16", runC07, func(o an.Obligation) bool { return o.Rule == "C07-R3" && strings.Contains(o.Key, "mainmw") })
	c.Floor("C04-R17", 1)
	c.Borrow("C04-R17", runC01, func(o an.Obligation) bool { return o.Rule == "C01-R21" })
	dnssvcWiring(c, "C04-R11", func(dst, src string) bool {
		n := normName(dst) + " " + normName(src)
		return strings.Contains(n, "count") || strings.Contains(n, "ttl")
	}, 4)
	// ---- R11: the TTL-override switch and the cache sizes of the configuration reach the caches
	c.Floor("C04-R11", 3)
	c.Borrow("C04-R11", runC20, func(o an.Obligation) bool { return o.Rule == "C20-R5" && strings.Contains(o.Key, "cacheConfig") })
	// ---- R10: a record taken from the cloner's pools is fully re-initialised (a cached clone never inherits another message's fields)
	// ---- R12: the cache wrappers forward every argument (key, value, expiration) to the wrapped cache
	if n := sharedParamsUsed(c, "C04-R12", map[string]string{"agdcache.(Empty": "the no-op cache ignores everything by design", "agdcache.(EmptyManager": "no-op"},
		"agdcache.", "ecscache.", "dnsserver/cache."); n >= 20 {
		c.Ok("C04-R12", "cache wrappers use every parameter", token.NoPos, "%d parameters examined", n)
	} else {
		c.Und("C04-R12", "cache wrappers use every parameter", token.NoPos, "only %d parameters found", n)
	}
	// ---- R13: the request that goes upstream carries exactly one ECS option, the location's (shared with C05-R4)
	c.Floor("C04-R13", 1)
	c.Borrow("C04-R13", runC05, func(o an.Obligation) bool { return o.Rule == "C05-R4" && strings.Contains(o.Key, "setECS") })
	// ---- R14: ageing the records of a cached answer leaves the OPT pseudo-record alone
	if n := sharedTTLStoreSkipsOPT(c, "C04-R14", "ecscache.", "dnsserver/cache.", "dnsmsg."); n < 2 {
		c.Und("C04-R14", "TTL stores on additional-section records", token.NoPos, "only %d found (expected the two caches' fromCacheItem)", n)
	}
	// ---- R15: what goes upstream and what keys the cache are the same subnet (shared with C05-R1)
	c.Floor("C04-R15", 1)
	c.Borrow("C04-R15", runC05, func(o an.Obligation) bool { return o.Rule == "C05-R1" && strings.Contains(o.Key, "ServeDNS") })
	c.Floor("C04-R10", 10)
	c04ClonerPools(c, "C04-R10")
	c.Floor("C04-R9", 3)
	ecsHopToHop(c, "C04-R9")
	if n := sharedLoopCompleteness(c, "C04-R8", "dnsmsg.", "ecscache.", "dnsserver/cache."); n > 0 {
		c.Ok("C04-R8", "element-wise loops", token.NoPos, "%d range loops of the cache and message helpers examined: no element ends a scan early", n)
	}
	c.Floor("C04-R1", 2)
	c.Floor("C04-R2", 10)
	c.Floor("C04-R3", 4)
	c.Floor("C04-R4", 2)
	c.Floor("C04-R5", 3)

	// ---- R1
	for _, k := range []string{"dnsserver/cache.(*Middleware).fromCacheItem", "ecscache.fromCacheItem"} {
		fn := c.Fn(k)
		if fn == nil {
			c.Und("C04-R1", k+" ttl", token.NoPos, "anchor not found")
			continue
		}
		c.Analysed(k)
		n := 0
		var bad []string
		an.Instrs(fn, func(in ssa.Instruction) {
			st, ok := in.(*ssa.Store)
			if !ok {
				return
			}
			typ, field, _, ok := an.FieldOf(st.Addr)
			if !ok || typ != "github.com/miekg/dns.RR_Header" || field != "Ttl" {
				return
			}
			n++
			var check func(v ssa.Value, depth int)
			check = func(v ssa.Value, depth int) {
				switch x := v.(type) {
				case *ssa.Phi:
					if depth < 6 {
						for _, e := range x.Edges {
							check(e, depth+1)
						}
						return
					}
				case *ssa.Const:
					if k, ok := an.ConstInt(x); ok && k == 0 {
						return
					}
					bad = append(bad, "non-zero constant")
					return
				case *ssa.Convert:
					check(x.X, depth)
					return
				}
				// must depend on time.Since / time.Now
				aged := false
				// local data dependence only: callee results depend on their
				// arguments, field loads are leaves
				w := &an.Walker{P: c.Prog, IndexDeps: true, NoFieldJoin: true, Opaque: func(*ssa.Function) bool { return true }}
				w.Visit = func(u ssa.Value) bool {
					if call, ok := u.(*ssa.Call); ok {
						switch an.CalleeName(call) {
						case "time.Since", "time.Now", "(time.Time).Sub", "time.Until":
							aged = true
							return true
						}
					}
					return false
				}
				w.ThroughCalls = func(call *ssa.Call) ([]ssa.Value, bool) { return call.Call.Args, true }
				w.Walk(v)
				if !aged {
					bad = append(bad, fmt.Sprintf("%s at %s does not depend on the time spent in the cache", v.Name(), c.Pos(v.Pos())))
				}
			}
			check(st.Val, 0)
		})
		key := k + " ttl"
		switch {
		case n == 0:
			c.Und("C04-R1", key, fn.Pos(), "no TTL store found on the hit path")
		case len(bad) > 0:
			c.Bad("C04-R1", key, fn.Pos(), "a served TTL is not aged on some path: %s", strings.Join(uniq(bad), "; "))
		default:
			c.Ok("C04-R1", key, fn.Pos(), "%d TTL stores, each 0 or derived from time.Since on every phi edge", n)
		}
	}

	// ---- R2 keys
	keyDeps(c, "C04-R2", "dnsserver/cache.toCacheKey", map[string]func(ssa.Instruction) ssa.Value{
		"the DO bit":    callTo("(*github.com/miekg/dns.OPT).Do"),
		"question type": fieldLoad("github.com/miekg/dns.Question", "Qtype"), "question class": fieldLoad("github.com/miekg/dns.Question", "Qclass"),
		"question name": fieldLoad("github.com/miekg/dns.Question", "Name"),
	})
	ecsKeyDeps(c, "C04-R2")

	// ---- R3 isCacheable
	rc := func(n string) int64 { v, _ := c.ConstInt("github.com/miekg/dns", n); return v }
	for _, it := range []struct{ fn, noerr string }{
		{"dnsserver/cache.isCacheable", "dnsserver/cache.isCacheableNOERROR"}, {"ecscache.isCacheable", "ecscache.isCacheableNOERROR"},
	} {
		it := it
		decide(c, "C04-R3", it.fn, an.DecideCfg{
			Dom: an.Domain{"p0.MsgHdr.Truncated": an.Bools, "len(p0.Question)": an.Ints(0, 1, 2),
				"p0.MsgHdr.Rcode": an.Ints(rc("RcodeSuccess"), rc("RcodeNameError"), rc("RcodeServerFailure"), rc("RcodeRefused"), rc("RcodeFormatError"), rc("RcodeNotImplemented"), 9),
				"noerr":           an.Bools},
			OnCall: func(in *an.Interp, name string, args []an.AV) (an.AV, bool) {
				if name == it.noerr {
					return in.Feature("noerr"), true
				}
				return an.AV{}, false
			},
			Expect: func(f an.Features, o an.AOutcome) string {
				want := false
				if !f.B("p0.MsgHdr.Truncated") && f.I("len(p0.Question)") == 1 {
					switch f.I("p0.MsgHdr.Rcode") {
					case rc("RcodeSuccess"):
						want = f.B("noerr")
					case rc("RcodeNameError"), rc("RcodeServerFailure"):
						want = true
					}
				}
				if o.RetString() == fmt.Sprint(want) {
					return ""
				}
				return fmt.Sprintf("%v (only complete NOERROR/NODATA, NXDOMAIN and SERVFAIL answers are cacheable)", want)
			},
		})
	}
	// set
	servfail := rc("RcodeServerFailure")
	setTable := func(fnKey, ttlFn, cacheableFn, overrideKey, rcodeKey, minKey string, expArg int) {
		decide(c, "C04-R3", fnKey, an.DecideCfg{
			Dom: an.Domain{"ttl": an.Ints(0, 5), "cacheable": an.Bools, overrideKey: an.Bools, rcodeKey: an.Ints(0, servfail), "p0": {an.NonNil("p0")}, "ecsdep": an.Bools},
			OnCall: func(in *an.Interp, name string, args []an.AV) (an.AV, bool) {
				switch {
				case name == ttlFn:
					return in.Feature("ttl"), true
				case name == cacheableFn:
					return in.Feature("cacheable"), true
				case strings.HasSuffix(name, ".SetWithExpire"):
					return an.Nil(), true
				}
				return an.AV{}, false
			},
			Args: func(in *an.Interp) []an.AV {
				if fnKey == "ecscache.(*Middleware).set" {
					return []an.AV{an.NonNil("p0"), an.NonNil("p1"), an.NonNil("p2"), in.Feature("ecsdep")}
				}
				if fnKey == "dnsserver/cache.(*Middleware).set" {
					return []an.AV{an.NonNil("p0"), an.NonNil("p1"), an.NonNil("p2")}
				}
				return []an.AV{an.NonNil("p0"), an.NonNil("p1")}
			},
			Expect: func(f an.Features, o an.AOutcome) string {
				var sets []an.Effect
				for _, e := range o.Effects {
					if e.Kind == "call" && strings.HasSuffix(e.Name, ".SetWithExpire") {
						sets = append(sets, e)
					}
				}
				if f.I("ttl") == 0 || !f.B("cacheable") {
					if len(sets) == 0 {
						return ""
					}
					return "nothing stored for a zero TTL or a non-cacheable message"
				}
				if len(sets) != 1 {
					return "exactly one store"
				}
				exp := sets[0].Args[len(sets[0].Args)-1]
				base := "5000000000"
				want := base
				if f.B(overrideKey) && f.I(rcodeKey) != servfail {
					want = "builtin.max(" + base + ", " + minKey + ")"
				}
				if exp != want {
					return "expiry " + want + " (lowest TTL, raised to the minimum only when overriding a non-SERVFAIL answer); got " + exp
				}
				if fnKey == "ecscache.(*Middleware).set" {
					cache := "p0.cache"
					if f.B("ecsdep") {
						cache = "p0.ecsCache"
					}
					if !strings.HasPrefix(sets[0].Name, cache+".") {
						return "store into " + cache + "; got " + sets[0].Name
					}
				}
				return ""
			},
		})
	}
	// the simple cache's set takes the request (for the key, C04-R23) and the response
	setTable("dnsserver/cache.(*Middleware).set", "dnsserver/cache.findLowestTTL", "dnsserver/cache.isCacheable", "p0.overrideTTL", "p2.MsgHdr.Rcode", "p0.cacheMinTTL", 2)
	setTable("ecscache.(*Middleware).set", "dnsmsg.FindLowestTTL", "ecscache.isCacheable", "p0.overrideTTL", "p1.MsgHdr.Rcode", "p0.cacheMinTTL", 2)

	// ---- R4 getTTLIfLower
	for _, k := range []string{"dnsmsg.getTTLIfLower", "dnsserver/cache.getTTLIfLower"} {
		decide(c, "C04-R4", k, an.DecideCfg{
			Dom: an.Domain{"type(p0)": an.Strs("*github.com/miekg/dns.OPT", "*github.com/miekg/dns.SOA", "*github.com/miekg/dns.A"),
				"p1": an.Ints(100), "p0.Minttl": an.Ints(0, 50, 200), "hdrptr.Ttl": an.Ints(10, 150, 300)},
			OnCall: func(in *an.Interp, name string, args []an.AV) (an.AV, bool) {
				if strings.HasSuffix(name, ".Header") {
					return an.NonNil("hdrptr"), true
				}
				return an.AV{}, false
			},
			Expect: func(f an.Features, o an.AOutcome) string {
				ttl := f.I("p1")
				var want int64
				switch f.S("type(p0)") {
				case "*github.com/miekg/dns.OPT":
					want = ttl
				case "*github.com/miekg/dns.SOA":
					if m := f.I("p0.Minttl"); m > 0 && m < ttl {
						ttl = m
					}
					want = min(f.I("hdrptr.Ttl"), ttl)
				default:
					want = min(f.I("hdrptr.Ttl"), ttl)
				}
				if o.RetString() == fmt.Sprint(want) {
					return ""
				}
				return fmt.Sprintf("%d (never above the record's own header TTL, SOA also bounded by MINIMUM)", want)
			},
		})
	}

	c04LowestTTL(c, "dnsserver/cache.findLowestTTL", "cache.getTTLIfLower")
	c04LowestTTL(c, "dnsmsg.FindLowestTTL", "dnsmsg.getTTLIfLower")
	// ---- R7 the simple cache's handler and lookup
	c.Floor("C04-R7", 2)
	c04SimpleCache(c)

	// ---- R5a simple cache hit path rebuilds the message from the item
	if fn := c.Fn("dnsserver/cache.(*Middleware).fromCacheItem"); fn == nil {
		c.Und("C04-R5", "dnsserver/cache.(*Middleware).fromCacheItem", token.NoPos, "anchor not found")
	} else {
		c.Analysed(an.FnKey(fn))
		copied := map[string]bool{}
		an.Instrs(fn, func(in ssa.Instruction) {
			st, ok := in.(*ssa.Store)
			if !ok {
				return
			}
			_, field, _, ok := an.FieldOf(st.Addr)
			if !ok {
				return
			}
			if ap, okp := an.AccessPath(st.Val); okp && (strings.HasPrefix(ap, "p1.msg.") || strings.HasPrefix(ap, "local:item.msg.")) && strings.HasSuffix(ap, "."+field) {
				copied[field] = true
			}
		})
		// sections: appended from loops over item.msg.X
		for _, sec := range []string{"Answer", "Ns", "Extra"} {
			an.Instrs(fn, func(in ssa.Instruction) {
				if fa, ok := in.(*ssa.FieldAddr); ok {
					if ap, okp := an.AccessPath(fa); okp && (ap == "p1.msg."+sec || ap == "local:item.msg."+sec) {
						copied[sec] = true
					}
				}
			})
		}
		var missing []string
		// every header flag that SetReply does not derive from the request (QR, opcode, RD, CD) comes from the
		// stored message: AA, RA, Z, AD (a truncated answer is never stored)
		for _, f := range []string{"Rcode", "Authoritative", "AuthenticatedData", "RecursionAvailable", "Zero", "Answer", "Ns", "Extra"} {
			if !copied[f] {
				missing = append(missing, f)
			}
		}
		c.Check(len(missing) == 0, "C04-R5", "dnsserver/cache.(*Middleware).fromCacheItem coverage", fn.Pos(),
			"rcode, AA, AD, RA, Z and the three sections are rebuilt from the cached item",
			"the hit path does not rebuild "+strings.Join(missing, ", ")+" from the cached item: a cached answer differs from a fresh one")
	}
	// ---- R5b ecscache hit path: clone + SetRcode(item rcode) + setRespAD from this request
	if fn := c.Fn("ecscache.fromCacheItem"); fn == nil {
		c.Und("C04-R5", "ecscache.fromCacheItem", token.NoPos, "anchor not found")
	} else {
		c.Analysed(an.FnKey(fn))
		var clone, setRcode, setAD bool
		for _, call := range an.Calls(fn) {
			args := call.Common().Args
			switch an.Short(an.CalleeName(call)) {
			case "(*dnsmsg.Cloner).Clone":
				if ap, ok := an.AccessPath(args[1]); ok && ap == "p0.msg" {
					clone = true
				}
			case "(*github.com/miekg/dns.Msg).SetRcode":
				if ap, ok := an.AccessPath(args[2]); ok && strings.HasPrefix(ap, "p0.msg.") && strings.HasSuffix(ap, "Rcode") {
					setRcode = true
				}
				if cv, ok := args[2].(*ssa.Convert); ok {
					if ap, ok := an.AccessPath(cv.X); ok && strings.HasSuffix(ap, "Rcode") {
						setRcode = true
					}
				}
			case "ecscache.setRespAD":
				if ap, ok := an.AccessPath(args[1]); ok && ap == "p2.MsgHdr.AuthenticatedData" {
					if _, isParam := args[2].(*ssa.Parameter); isParam {
						setAD = true
					}
				}
			}
		}
		c.Check(clone && setRcode && setAD, "C04-R5", "ecscache.fromCacheItem coverage", fn.Pos(),
			"the served message is a clone of the item with the item's rcode and the AD bit recomputed for this request",
			fmt.Sprintf("the hit path must clone the item (%v), restore its rcode (%v) and recompute AD from this request (%v)", clone, setRcode, setAD))
		// the aged TTL is written to the records of all three sections
		secs := map[string]bool{}
		an.Instrs(fn, func(in ssa.Instruction) {
			st, ok := in.(*ssa.Store)
			if !ok {
				return
			}
			if _, toElem := st.Addr.(*ssa.IndexAddr); !toElem {
				return
			}
			if ld, ok := st.Val.(*ssa.UnOp); ok && ld.Op == token.MUL {
				if typ, f, _, ok := an.FieldOf(ld.X); ok && typ == "github.com/miekg/dns.Msg" {
					secs[f] = true
				}
			}
		})
		ttlStore := false
		an.Instrs(fn, func(in ssa.Instruction) {
			if st, ok := in.(*ssa.Store); ok {
				if typ, f, _, ok := an.FieldOf(st.Addr); ok && typ == "github.com/miekg/dns.RR_Header" && f == "Ttl" {
					ttlStore = true
				}
			}
		})
		var missing []string
		for _, sec := range []string{"Answer", "Ns", "Extra"} {
			if !secs[sec] {
				missing = append(missing, sec)
			}
		}
		c.Check(ttlStore && len(missing) == 0, "C04-R5", "ecscache.fromCacheItem ages every section", fn.Pos(),
			"the aged TTL is written to the records of the answer, authority and additional sections",
			"the aged TTL is not written to the records of "+strings.Join(missing, ", ")+": those records are served with their full original TTL at any cache age")
	}
	ecsStoreOrder(c, "C04-R5")

	// ---- R6: cached items are private deep copies: stored as clones, served as clones, and the cloner shares no memory
	c.Floor("C04-R6", 20)
	c07Caches(c, "C04-R6")
	c07Cloner(c, "C04-R6")
}

// ecsStoreOrder checks that the ECS cache stores the upstream answer after
// hop-by-hop clean-up and before any request-specific adjustment.
// c04SimpleCache holds the tables of the plain cache middleware's handler and get.
func c04SimpleCache(c *an.Ctx) {
	const cm = "dnsserver/cache.(*Middleware)."
	decide(c, "C04-R7", cm+"Wrap$1", an.DecideCfg{
		Dom:    an.Domain{"hit": an.Bools, "nexterr": an.Bools, "resp": an.NilOrNot, "seterr": an.Bools, "writeerr": an.Bools},
		Inline: func(f *ssa.Function) bool { return strings.HasPrefix(an.FnKey(f), cm+"Wrap$1$") },
		OnCall: func(it *an.Interp, name string, args []an.AV) (an.AV, bool) {
			errOr := func(k, e string) an.AV {
				if it.Feature(k).IsTrue() {
					return an.NonNil(e)
				}
				return an.Nil()
			}
			switch {
			case strings.HasSuffix(name, "cache.Middleware).get"):
				if args[1].String() != "p2" {
					return an.Sym("lookup for another message"), true
				}
				return an.AV{Kind: an.KTuple, Tup: []an.AV{an.NonNil("cached"), it.Feature("hit")}}, true
			case strings.Contains(name, ".metrics.On"):
				return an.Nil(), true
			case name == "p1.WriteMsg":
				return errOr("writeerr", "writeErr"), true
			case name == "p1.LocalAddr", name == "p1.RemoteAddr":
				return an.Sym(name), true
			case strings.HasSuffix(name, "dnsserver.NewNonWriterResponseWriter"):
				return an.NonNil("nrw"), true
			case strings.HasSuffix(name, "handler.ServeDNS"):
				return errOr("nexterr", "nextErr"), true
			case strings.HasSuffix(name, "NonWriterResponseWriter).Msg"):
				v := it.Feature("resp")
				if v.Kind == an.KNonNil {
					v.Key = "fresh"
				}
				return v, true
			case strings.HasSuffix(name, "cache.Middleware).set"):
				return errOr("seterr", "setErr"), true
			case strings.HasSuffix(name, ".cache.Len"):
				return an.Sym("len"), true
			case strings.HasSuffix(name, "errors.Annotate"):
				return args[0], true
			case name == "fmt.Errorf":
				return an.NonNil("wrapped"), true
			}
			return an.AV{}, false
		},
		Expect: func(f an.Features, o an.AOutcome) string {
			if o.Exit != "return" || len(o.Ret) != 1 {
				return "an error result"
			}
			var writes, sets, nexts []string
			for _, e := range o.Effects {
				if e.Kind != "call" {
					continue
				}
				switch {
				case e.Name == "p1.WriteMsg":
					writes = append(writes, strings.Join(e.Args, ","))
				case strings.HasSuffix(e.Name, "cache.Middleware).set"):
					// set(m, request, response): the request is what the key is computed from (C04-R23)
					if len(e.Args) == 3 && e.Args[1] == "p2" {
						sets = append(sets, e.Args[2])
					} else {
						sets = append(sets, strings.Join(e.Args[1:], " "))
					}
				case strings.HasSuffix(e.Name, "handler.ServeDNS"):
					nexts = append(nexts, strings.Join(e.Args, ","))
				}
			}
			if f.B("hit") {
				if len(nexts) == 0 && len(sets) == 0 && len(writes) == 1 && writes[0] == "p0,p2,nonnil:cached" && f.B("writeerr") == (o.Ret[0].Kind != an.KNil) {
					return ""
				}
				return "the cached answer written once for this request, without querying the next stage; got writes " + strings.Join(writes, " / ")
			}
			if len(nexts) != 1 || nexts[0] != "p0,nonnil:nrw,p2" {
				return "the next stage queried once with a non-writer on a miss; got " + strings.Join(nexts, " / ")
			}
			switch {
			case f.B("nexterr"):
				if len(writes)+len(sets) == 0 && o.Ret[0].Kind != an.KNil {
					return ""
				}
				return "the next stage's error returned, nothing stored or written"
			case f.IsNil("resp"):
				if len(writes)+len(sets) == 0 && o.Ret[0].Kind == an.KNil {
					return ""
				}
				return "nothing stored or written when the next stage produced no answer"
			}
			if len(sets) != 1 || sets[0] != "nonnil:fresh" {
				return "the fresh answer offered to the cache once; got " + strings.Join(sets, " / ")
			}
			if f.B("seterr") {
				if len(writes) == 0 && o.Ret[0].Kind != an.KNil {
					return ""
				}
				return "the store error returned"
			}
			if len(writes) != 1 || writes[0] != "p0,p2,nonnil:fresh" || f.B("writeerr") != (o.Ret[0].Kind != an.KNil) {
				return "the fresh answer written once for this request; got " + strings.Join(writes, " / ")
			}
			return ""
		},
	})
	decide(c, "C04-R7", cm+"get", an.DecideCfg{
		Dom: an.Domain{"geterr": an.Bools, "oktype": an.Bools},
		OnCall: func(it *an.Interp, name string, args []an.AV) (an.AV, bool) {
			switch {
			case strings.HasSuffix(name, "cache.toCacheKey"):
				return an.NonNil("key(" + args[0].String() + ")"), true
			case name == "p0.cache.Get":
				if it.Feature("geterr").IsTrue() {
					return an.AV{Kind: an.KTuple, Tup: []an.AV{an.Nil(), an.NonNil("getErr")}}, true
				}
				v := an.NonNil("val(" + args[0].String() + ")")
				if it.Feature("oktype").IsTrue() {
					v.Dyn = "dnsserver/cache.cacheItem"
				} else {
					v.Dyn = "string"
				}
				return an.AV{Kind: an.KTuple, Tup: []an.AV{v, an.Nil()}}, true
			case strings.HasSuffix(name, "errors.Is"):
				return an.CBool(true), true
			case strings.HasSuffix(name, "log.Error"):
				return an.Nil(), true
			case strings.HasSuffix(name, "cache.Middleware).fromCacheItem"):
				return an.NonNil("rebuilt(" + args[1].String() + "," + args[2].String() + ")"), true
			}
			return an.AV{}, false
		},
		Expect: func(f an.Features, o an.AOutcome) string {
			for _, e := range o.Effects {
				if e.Kind == "call" && e.Name == "p0.cache.Get" && e.Args[0] != "nonnil:key(p1)" {
					return "the cache consulted with the key of this request; got " + e.Args[0]
				}
			}
			if f.B("geterr") || !f.B("oktype") {
				if o.RetString() == "nil, false" {
					return ""
				}
				return "a miss when the cache has no (usable) item; got " + o.RetString()
			}
			if len(o.Ret) == 2 && strings.HasPrefix(o.Ret[0].String(), "nonnil:rebuilt(") && strings.HasSuffix(o.Ret[0].String(), ",p1)") && o.Ret[1].String() == "true" {
				return ""
			}
			return "the answer rebuilt from the cached item for this request; got " + o.RetString()
		},
	})
}

// c04LowestTTL is the table of the two lowest-TTL helpers: the minimum over
// all records of the three sections, 0 without records, SERVFAIL capped.
func c04LowestTTL(c *an.Ctx, fnKey, helper string) {
	servfail, _ := c.ConstInt("github.com/miekg/dns", "RcodeServerFailure")
	secs := []string{"Answer", "Ns", "Extra"}
	dom := an.Domain{"p0.MsgHdr.Rcode": an.Ints(0, servfail), "len(p0.Answer)": an.Ints(0, 2), "len(p0.Ns)": an.Ints(0, 1), "len(p0.Extra)": an.Ints(0, 1)}
	var rrs []string
	for _, sec := range secs {
		for i := 0; i < 2; i++ {
			k := fmt.Sprintf("p0.%s[%d]", sec, i)
			rrs = append(rrs, k)
			dom["ttl:"+k] = an.Ints(0, 20, 100)
		}
	}
	decide(c, "C04-R4", fnKey, an.DecideCfg{
		Dom: dom,
		OnCall: func(it *an.Interp, name string, args []an.AV) (an.AV, bool) {
			if strings.HasSuffix(name, helper) {
				cur := avInt(args[1])
				t := avInt(it.Feature("ttl:" + args[0].String()))
				if t < cur {
					return an.CInt(t), true
				}
				return args[1], true
			}
			return an.AV{}, false
		},
		MaxRuns: 6000,
		Expect: func(f an.Features, o an.AOutcome) string {
			lens := map[string]int64{"Answer": f.I("len(p0.Answer)"), "Ns": f.I("len(p0.Ns)"), "Extra": f.I("len(p0.Extra)")}
			want := int64(-1)
			for _, sec := range secs {
				for i := int64(0); i < lens[sec]; i++ {
					t := f.I(fmt.Sprintf("ttl:p0.%s[%d]", sec, i))
					if want < 0 || t < want {
						want = t
					}
					if want == 0 {
						break
					}
				}
				if want == 0 {
					break
				}
			}
			// a SERVFAIL without records (the usual shape) is cacheable for the capped time
			if f.I("p0.MsgHdr.Rcode") == servfail && (want > 30 || want < 0) {
				want = 30
			}
			if want < 0 {
				want = 0
			}
			if o.RetString() != fmt.Sprint(want) {
				return fmt.Sprintf("%d (the lowest TTL over all sections; 0 without records; SERVFAIL: at most 30, and 30 without records); got %s", want, o.RetString())
			}
			return ""
		},
	})
}

func ecsStoreOrder(c *an.Ctx, rule string) {
	fn := c.Fn("ecscache.(*Middleware).writeUpstreamResponse")
	if fn == nil {
		c.Und(rule, "ecscache.(*Middleware).writeUpstreamResponse", token.NoPos, "anchor not found")
		return
	}
	c.Analysed(an.FnKey(fn))
	var set, rm ssa.CallInstruction
	var after []ssa.CallInstruction
	for _, call := range an.Calls(fn) {
		switch an.Short(an.CalleeName(call)) {
		case "(*ecscache.Middleware).set":
			set = call
		case "ecscache.rmHopToHopData":
			rm = call
		case "ecscache.setRespAD", "ecscache.setECS":
			after = append(after, call)
		}
	}
	if set == nil || rm == nil {
		c.Bad(rule, "writeUpstreamResponse store order", fn.Pos(), "the upstream answer is no longer stored after hop-by-hop clean-up")
		return
	}
	ok := an.Dominates(rm, set)
	bad := ""
	if !ok {
		bad = "hop-by-hop data is removed after the answer was stored"
	}
	for _, a := range after {
		if !an.Dominates(set, a) {
			ok = false
			bad = an.Short(an.CalleeName(a)) + " adjusts the response for this request before it is stored: the cached copy carries one client's AD bit or ECS option and is served to other clients"
		}
	}
	c.Check(ok && len(after) >= 2, rule, "writeUpstreamResponse store order", set.Pos(),
		"stored after hop-by-hop clean-up and before the request-specific AD / ECS adjustments", bad)
}

func keyDeps(c *an.Ctx, rule, fnKey string, sources map[string]func(in ssa.Instruction) ssa.Value) {
	fn := c.Fn(fnKey)
	if fn == nil {
		c.Und(rule, fnKey, token.NoPos, "anchor not found")
		return
	}
	c.Analysed(fnKey)
	for name, match := range sources {
		var srcs []ssa.Value
		an.Instrs(fn, func(in ssa.Instruction) {
			if v := match(in); v != nil {
				srcs = append(srcs, v)
			}
		})
		key := fnKey + " depends on " + name
		if len(srcs) == 0 {
			c.Bad(rule, key, fn.Pos(), "the cache key never reads %s: entries that differ only in it collide", name)
			continue
		}
		reaches := false
		for _, s := range srcs {
			t := forwardTaint(fn, s)
			for _, r := range an.Returns(fn) {
				for _, res := range r.Results {
					if t[res] {
						reaches = true
					}
				}
			}
		}
		c.Check(reaches, rule, key, fn.Pos(), "flows into the key", "is read but does not flow into the key: entries that differ only in "+name+" collide")
	}
	if bad := keyPackingProblems(c, fn); len(bad) > 0 {
		c.Bad(rule, fnKey+" packing", fn.Pos(), "key inputs overlap: %s", strings.Join(bad, "; "))
	} else {
		c.Ok(rule, fnKey+" packing", fn.Pos(), "inputs are written to disjoint ranges of sufficient width")
	}
	sharedKeyPacking(c, rule, fnKey, 1)
}

func fieldLoad(typ, field string) func(in ssa.Instruction) ssa.Value {
	return func(in ssa.Instruction) ssa.Value {
		switch x := in.(type) {
		case *ssa.FieldAddr:
			if t, f, _, ok := an.FieldOf(x); ok && t == typ && f == field {
				return x
			}
		case *ssa.Field:
			if t, f, _, ok := an.FieldOf(x); ok && t == typ && f == field {
				return x
			}
		}
		return nil
	}
}
func callTo(name string) func(in ssa.Instruction) ssa.Value {
	return func(in ssa.Instruction) ssa.Value {
		if call, ok := in.(*ssa.Call); ok && an.Short(an.CalleeName(call)) == name {
			return call
		}
		return nil
	}
}

// ecsKeyDeps checks the ECS cache key.
func ecsKeyDeps(c *an.Ctx, rule string) {
	keyDeps(c, rule, "ecscache.(*Middleware).toCacheKey", map[string]func(ssa.Instruction) ssa.Value{
		"host": fieldLoad("ecscache.cacheRequest", "host"), "question type": fieldLoad("ecscache.cacheRequest", "qType"),
		"question class": fieldLoad("ecscache.cacheRequest", "qClass"), "the DO bit": fieldLoad("ecscache.cacheRequest", "reqDO"),
		"the subnet": fieldLoad("ecscache.cacheRequest", "subnet"), "the ECS opt-out flag": fieldLoad("ecscache.cacheRequest", "isECSDeclined"),
		"subnet length": callTo("(net/netip.Prefix).Bits"), "address family": callTo("(net/netip.Addr).Is6"),
	})
	// in the ECS key the subnet bytes are written exactly on the ECS-dependent branch and the opt-out flag on the other
	if fn := c.Fn("ecscache.(*Middleware).toCacheKey"); fn != nil {
		var asSlice, declined ssa.Instruction
		an.Instrs(fn, func(in ssa.Instruction) {
			if call, ok := in.(*ssa.Call); ok && an.CalleeName(call) == "(net/netip.Addr).AsSlice" {
				asSlice = call
			}
			if fa, ok := in.(*ssa.FieldAddr); ok {
				if t, f, _, ok := an.FieldOf(fa); ok && t == "ecscache.cacheRequest" && f == "isECSDeclined" {
					declined = fa
				}
			}
		})
		onParam := func(in ssa.Instruction, want bool) bool {
			if in == nil {
				return false
			}
			for _, e := range an.DominatingConds(in.Block()) {
				if pa, ok := e.If.Cond.(*ssa.Parameter); ok && an.ParamIndex(pa) == 2 && e.Branch == want {
					return true
				}
			}
			return false
		}
		c.Check(onParam(asSlice, true) && onParam(declined, false), rule, "ecscache.(*Middleware).toCacheKey branches", fn.Pos(),
			"subnet address and length enter the key exactly for ECS-dependent entries, the opt-out flag otherwise",
			"the ECS-dependent / independent parts of the key are not selected by the respIsECSDependent argument")
	}

}

// c04ClonerPools runs the pooled-object re-initialisation rule over every
// function of package dnsmsg that takes a record from a pool.
func c04ClonerPools(c *an.Ctx, rule string) {
	var keys []string
	for _, fn := range c.FnsMatching("dnsmsg.") {
		if fn.Blocks == nil || c.IsTestFile(fn.Pos()) {
			continue
		}
		for _, call := range an.Calls(fn) {
			if n, _ := poolGetStruct(call); n != nil {
				keys = append(keys, an.FnKey(fn))
				break
			}
		}
	}
	sort.Strings(keys)
	sharedPoolInit(c, rule, keys...)
}

// c04NodataNeedsSOA: a NOERROR answer without a record of the requested type is
// a cacheable NODATA answer only if its authority section holds the zone's SOA
// (RFC 2308, 2.2 and 5: the negative TTL comes from it).  An NS record there
// marks a referral or an unfollowed alias chain, an incomplete answer that
// must not be stored.  The authority-section test of isCacheableNOERROR, in
// both caches, asserts exactly one record type, *dns.SOA.
func c04NodataNeedsSOA(c *an.Ctx, rule string) {
	for _, k := range []string{"dnsserver/cache.isCacheableNOERROR", "ecscache.isCacheableNOERROR"} {
		fn := c.Fn(k)
		key := k + " accepts a NODATA answer only with an SOA record"
		if fn == nil {
			c.Und(rule, key, token.NoPos, "anchor not found")
			continue
		}
		c.Analysed(k)
		var asserted []string
		an.Instrs(fn, func(in ssa.Instruction) {
			if ta, ok := in.(*ssa.TypeAssert); ok {
				asserted = append(asserted, an.TypeName(an.Deref(ta.AssertedType)))
			}
		})
		asserted = uniq(asserted)
		sort.Strings(asserted)
		c.Check(len(asserted) == 1 && strings.HasSuffix(asserted[0], "dns.SOA"), rule, key, fn.Pos(),
			"the only record type looked for in the authority section is SOA",
			"the record types looked for are ["+strings.Join(asserted, ", ")+"]: an answer with NS records only (a referral, an unfollowed CNAME chain) is stored and served in place of the real answer")
	}
}

// c04ZeroSubnetKeyedApart: SubnetByLocation gives the zero prefix for a location
// without data.  The request then goes upstream with a /0 client subnet, which
// an ECS-aware upstream must answer with scope 0 and its generic answer; that
// answer goes to the cache for names without ECS support.  Its key differs from
// the key of located clients only in the isECSDeclined byte, so the flag has
// to be set for such a request too: after the SubnetByLocation call and before
// the cache lookup there is a store into cacheRequest.isECSDeclined whose value
// depends on Bits() of the looked-up subnet.
func c04ZeroSubnetKeyedApart(c *an.Ctx, rule string) {
	k := "ecscache.(*mwHandler).ServeDNS"
	fn := c.Prog.Fn(k)
	key := k + ": a location without a subnet is keyed like an opt-out"
	if fn == nil {
		c.Und(rule, key, token.NoPos, "anchor not found")
		return
	}
	c.Analysed(k)
	var geo, get ssa.CallInstruction
	for _, call := range an.Calls(fn) {
		switch n := an.CalleeName(call); {
		case call.Common().IsInvoke() && call.Common().Method.Name() == "SubnetByLocation":
			geo = call
		case strings.HasSuffix(n, "ecscache.Middleware).get"):
			get = call
		}
	}
	if geo == nil || get == nil {
		c.Und(rule, key, fn.Pos(), "SubnetByLocation call or cache lookup not found")
		return
	}
	found := ""
	an.Instrs(fn, func(in ssa.Instruction) {
		st, ok := in.(*ssa.Store)
		if !ok {
			return
		}
		typ, field, _, ok := an.FieldOf(st.Addr)
		if !ok || !strings.HasSuffix(typ, "ecscache.cacheRequest") || field != "isECSDeclined" {
			return
		}
		if !an.CanReach(geo, st) || !an.CanReach(st, get) {
			return
		}
		// the stored value (or a condition that dominates the store) depends on Bits() of the looked-up subnet
		dep := false
		w := &an.Walker{P: c.Prog, NoFieldJoin: true,
			Visit: func(v ssa.Value) bool {
				if call, ok := v.(*ssa.Call); ok && an.CalleeName(call) == "(net/netip.Prefix).Bits" {
					dep = true
					return true
				}
				return false
			},
			Leaf: func(ssa.Value, string) {},
		}
		w.Walk(st.Val)
		for _, e := range an.DominatingConds(st.Block()) {
			w.Walk(e.If.Cond)
		}
		if dep {
			found = c.Pos(st.Pos())
		}
	})
	c.Check(found != "", rule, key, geo.Pos(),
		"isECSDeclined is set from the length of the looked-up subnet at "+found,
		"no store into cacheRequest.isECSDeclined that depends on Bits() of the subnet lies between the SubnetByLocation call and the cache lookup: a client whose location has no subnet is forwarded with a /0, the upstream's generic scope-0 answer is stored under the key of located clients, and they get it instead of the answer for their subnet")
}

// c04StoreKeyFromRequest: in the simple cache, get and set both call toCacheKey.
// Followed back through the parameters of get and set to the handler closure
// made by Wrap, both arguments are the closure's request parameter.
func c04StoreKeyFromRequest(c *an.Ctx, rule string) {
	wrap := c.Prog.Fn("dnsserver/cache.(*Middleware).Wrap$1")
	key := "dnsserver/cache.(*Middleware).set keys the stored answer by the request"
	if wrap == nil {
		c.Und(rule, key, token.NoPos, "anchor (the handler closure of Wrap) not found")
		return
	}
	// source returns the value of the handler closure that reaches toCacheKey through the given method
	source := func(method string) (src ssa.Value, pos token.Pos) {
		fn := c.Prog.Fn("dnsserver/cache.(*Middleware)." + method)
		if fn == nil {
			return nil, token.NoPos
		}
		c.Analysed(an.FnKey(fn))
		idx := -1
		for _, call := range an.Calls(fn) {
			if strings.HasSuffix(an.CalleeName(call), "dnsserver/cache.toCacheKey") && len(call.Common().Args) == 1 {
				pos = call.Pos()
				for i, pa := range fn.Params {
					if call.Common().Args[0] == ssa.Value(pa) {
						idx = i
					}
				}
			}
		}
		if idx < 0 {
			return nil, pos
		}
		for _, call := range an.Calls(wrap) {
			if an.StaticCallee(call) == fn && idx < len(call.Common().Args) {
				return call.Common().Args[idx], pos
			}
		}
		return nil, pos
	}
	getSrc, _ := source("get")
	setSrc, setPos := source("set")
	if getSrc == nil {
		c.Und(rule, key, wrap.Pos(), "the lookup key could not be followed to the handler")
		return
	}
	isReq := func(v ssa.Value) bool {
		pa, ok := v.(*ssa.Parameter)
		return ok && pa.Parent() == wrap && pa.Name() == "req"
	}
	c.Analysed(an.FnKey(wrap))
	c.Check(setSrc != nil && setSrc == getSrc && isReq(setSrc), rule, key, setPos,
		"both keys are computed from the handler's request",
		"the key of a stored answer is not computed from the handler's request (the message the lookup key is computed from): whether the answer to a DO=1 query is filed under DO=1 depends on the OPT record the upstream chose to send, and a DO=0 client can be served an answer with signatures, or the other way round")
}

// c04OverrideVerbatim: validation demands a positive ttl_override.min also when
// the override is disabled, so the minimum says nothing about the switch.  In
// both cache constructors the value stored into overrideTTL is the load of the
// configuration's OverrideTTL and the value stored into cacheMinTTL the load
// of MinTTL, nothing computed from them.
func c04OverrideVerbatim(c *an.Ctx, rule string) {
	want := map[string]string{"overrideTTL": "OverrideTTL", "cacheMinTTL": "MinTTL"}
	for _, k := range []string{"ecscache.NewMiddleware", "dnsserver/cache.NewMiddleware"} {
		fn := c.Prog.Fn(k)
		if fn == nil {
			c.Und(rule, k, token.NoPos, "anchor not found")
			continue
		}
		c.Analysed(k)
		seen := map[string]bool{}
		an.Instrs(fn, func(in ssa.Instruction) {
			st, ok := in.(*ssa.Store)
			if !ok {
				return
			}
			_, f, _, ok := an.FieldOf(st.Addr)
			if !ok || want[f] == "" {
				return
			}
			seen[f] = true
			src := ""
			if ld, isLd := st.Val.(*ssa.UnOp); isLd && ld.Op == token.MUL {
				if _, sf, _, ok := an.FieldOf(ld.X); ok {
					src = sf
				}
			}
			c.Check(src == want[f], rule, fmt.Sprintf("%s: %s is the configuration's %s as it is", k, f, want[f]), st.Pos(), "a plain load of "+want[f],
				fmt.Sprintf("%s is stored from %s, not from a plain load of the configuration's %s: the TTL override (answers cached and served longer than their original TTL) no longer follows its own switch", f, st.Val.String(), want[f]))
		})
		for f := range want {
			if !seen[f] {
				c.Und(rule, k+": "+f, fn.Pos(), "no store into %s found", f)
			}
		}
	}
}
