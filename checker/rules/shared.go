package rules

import (
	"fmt"
	"go/token"
	"go/types"
	"sort"
	"strings"

	"adgverif/an"

	"golang.org/x/tools/go/ssa"
)

// Rules shared by several properties.  A mechanism such as "the cache stores a
// clone" or "a recycled request-information object is fully reset" is a
// necessary condition of more than one property; each property's check runs
// the rule under its own rule id so that a change breaking the mechanism is
// reported by every property it breaks.

// sharedPoolInit runs the pooled-object re-initialisation rule (C07-R1) for
// the Pool.Get sites of the named functions only.
func sharedPoolInit(c *an.Ctx, rule string, fnKeys ...string) {
	ctor := poolCtors(c)
	for _, k := range fnKeys {
		fn := c.Fn(k)
		if fn == nil {
			c.Und(rule, k+" pooled object", token.NoPos, "anchor not found")
			continue
		}
		found := false
		for _, call := range an.Calls(fn) {
			n, st := poolGetStruct(call)
			if n == nil {
				continue
			}
			found = true
			c.Analysed(k)
			get := call.(*ssa.Call)
			fi := fieldInit(c, fn, get, st)
			var names []string
			for f := range fi {
				names = append(names, f)
			}
			sort.Strings(names)
			for _, f := range names {
				key := fmt.Sprintf("%s %s.%s", k, an.TypeName(n), f)
				if fi[f] == "always" {
					c.Ok(rule, key, call.Pos(), "assigned on every path from Pool.Get to the exit")
					continue
				}
				if why, ok := c07CallerSets(an.TypeName(n), f); ok {
					c.Ok(rule, key, call.Pos(), "exception: %s", why)
					continue
				}
				top := strings.SplitN(f, ".", 2)[0]
				outside := 0
				for _, fs := range c.FieldStores(an.TypeName(n), top) {
					if !ctor[fs.In] && !c.IsTestFile(fs.Store.Pos()) {
						if pk := an.FnPkg(fs.In); pk != nil && strings.HasSuffix(pk.Path(), "test") {
							continue
						}
						outside++
					}
				}
				if outside == 0 && fi[f] == "never" {
					c.Ok(rule, key, call.Pos(), "written by the pool's constructor only")
				} else {
					c.Bad(rule, key, call.Pos(), "the field of the recycled object is not re-initialised on every path (%s; %d writes elsewhere): the next request sees the previous request's value", fi[f], outside)
				}
			}
		}
		if !found {
			c.Und(rule, k+" pooled object", fn.Pos(), "no Pool.Get of a struct in this function")
		}
	}
}

// poolCtors returns the constructor functions passed to syncutil.NewPool.
func poolCtors(c *an.Ctx) map[*ssa.Function]bool {
	ctor := map[*ssa.Function]bool{}
	for _, fn := range c.AllFns {
		for _, call := range an.Calls(fn) {
			if strings.HasPrefix(an.CalleeName(call), "github.com/AdguardTeam/golibs/syncutil.NewPool") {
				switch a := call.Common().Args[0].(type) {
				case *ssa.MakeClosure:
					if f, ok := a.Fn.(*ssa.Function); ok {
						ctor[f] = true
					}
				case *ssa.Function:
					ctor[a] = true
				}
			}
		}
	}
	return ctor
}

// sharedReplyInit checks that every message rebuilt from a stored message for
// another request is initialised from that request (ID, question, opcode).
func sharedReplyInit(c *an.Ctx, rule string) {
	for _, k := range []string{"dnsserver/cache.(*Middleware).fromCacheItem", "ecscache.fromCacheItem", "filter/internal.(*ResultModifiedResponse).CloneForReq"} {
		fn := c.Fn(k)
		if fn == nil {
			c.Und(rule, k, token.NoPos, "anchor not found")
			continue
		}
		c.Analysed(k)
		var reqParam ssa.Value
		for _, pa := range fn.Params {
			if an.TypeName(pa.Type()) == "github.com/miekg/dns.Msg" {
				reqParam = pa
			}
		}
		ok := false
		for _, call := range an.CallsTo(fn, "(*github.com/miekg/dns.Msg).SetReply", "(*github.com/miekg/dns.Msg).SetRcode") {
			args := call.Common().Args
			if len(args) < 2 || args[1] != reqParam {
				continue
			}
			// the receiver must be (or end up in) what the function returns
			recv := args[0]
			for _, r := range an.Returns(fn) {
				if !an.Dominates(call, r) || len(r.Results) != 1 {
					continue
				}
				ret := r.Results[0]
				if ret == recv {
					ok = true
				}
				// returned composite carrying the message in a field
				if al, isAlloc := ret.(*ssa.Alloc); isAlloc {
					for _, ref := range *al.Referrers() {
						if fa, isFA := ref.(*ssa.FieldAddr); isFA {
							for _, st := range an.Stores(fa) {
								if st.Val == recv {
									ok = true
								}
							}
						}
					}
				}
			}
		}
		c.Check(ok, rule, k, fn.Pos(),
			"the returned message is initialised with SetReply/SetRcode from this request (ID, question, opcode)",
			"the message rebuilt from a stored copy is not initialised from this request with SetReply/SetRcode: its ID or question can be those of the request that filled the cache")
	}
}

// sharedLocation checks ratelimitmw.(*Middleware).location.
func sharedLocation(c *an.Ctx, rule string) {
	decide(c, rule, "dnssvc/internal/ratelimitmw.(*Middleware).location", an.DecideCfg{
		Dom: an.Domain{"ecserr": an.Bools, "(ecssubnet == zero:net/netip.Prefix)": an.Bools},
		OnCall: func(it *an.Interp, name string, args []an.AV) (an.AV, bool) {
			switch {
			case name == "(*dnssvc/internal/ratelimitmw.Middleware).locationData":
				return an.NonNil("loc(" + args[2].String() + ")"), true
			case name == "dnsmsg.ECSFromMsg":
				if args[0].String() != "p2" {
					return an.Sym("ECS of another message"), true
				}
				e := an.Nil()
				if it.Feature("ecserr").IsTrue() {
					e = an.NonNil("ecsErr")
				}
				return an.AV{Kind: an.KTuple, Tup: []an.AV{an.Sym("ecssubnet"), an.Sym("scope"), e}}, true
			case name == "fmt.Errorf":
				return an.NonNil("wrapped"), true
			case name == "(net/netip.Prefix).Addr":
				return an.Sym("addr(" + args[0].String() + ")"), true
			}
			return an.AV{}, false
		},
		Expect: func(f an.Features, o an.AOutcome) string {
			if o.Exit != "return" || len(o.Ret) != 3 {
				return "a (loc, ecs, err) result"
			}
			if o.Ret[0].String() != "nonnil:loc(p3)" {
				return "the location of the connecting client's own address as the request location (access and rate-limit decisions use it); got " + o.Ret[0].String()
			}
			if f.B("ecserr") {
				if o.Ret[1].Kind == an.KNil && o.Ret[2].Kind != an.KNil {
					return ""
				}
				return "an error and no ECS for a malformed option"
			}
			wantECS := !f.B("(ecssubnet == zero:net/netip.Prefix)")
			if wantECS != (o.Ret[1].Kind != an.KNil) || o.Ret[2].Kind != an.KNil {
				return fmt.Sprintf("ECS record present=%v (kept for every decoded option, including a /0 opt-out; absent only when the request has none)", wantECS)
			}
			if wantECS {
				k := strings.TrimPrefix(o.Ret[1].String(), "&")
				if o.Mem[k+".Subnet"].String() != "ecssubnet" {
					return "the record to carry the client's subnet"
				}
				if o.Mem[k+".Location"].String() != "nonnil:loc(addr(ecssubnet))" {
					return "the record's location to be that of the ECS subnet; got " + o.Mem[k+".Location"].String()
				}
			}
			return ""
		},
	})
}

// sharedReqNotMutated checks that no handler rewrites the request message it
// was given: the transport's writers normalise the response against that very
// object (EDNS size, DO bit, options).
func sharedReqNotMutated(c *an.Ctx, rule string) {
	// summary: does fn store into (or hand to a mutator) its *dns.Msg parameter #i ?
	memo := map[string]int{}
	var mutates func(fn *ssa.Function, i int) bool
	mutates = func(fn *ssa.Function, i int) bool {
		if fn == nil || fn.Blocks == nil || i >= len(fn.Params) {
			return false
		}
		k := fmt.Sprintf("%s#%d", an.FnKey(fn), i)
		if v, ok := memo[k]; ok {
			return v == 2
		}
		memo[k] = 1
		pa := fn.Params[i]
		res := false
		// aliases: the parameter and its OPT record (IsEdns0 result), Extra elements
		al := map[ssa.Value]bool{pa: true}
		for changed := true; changed; {
			changed = false
			an.Instrs(fn, func(in ssa.Instruction) {
				v, ok := in.(ssa.Value)
				if !ok || al[v] {
					return
				}
				switch x := in.(type) {
				case *ssa.Call:
					n := an.Short(an.CalleeName(x))
					if n == "(*github.com/miekg/dns.Msg).IsEdns0" && al[x.Call.Args[0]] {
						al[v], changed = true, true
					}
				case *ssa.Phi:
					for _, e := range x.Edges {
						if al[e] {
							al[v], changed = true, true
						}
					}
				}
			})
		}
		for _, call := range an.Calls(fn) {
			cc := call.Common()
			n := an.Short(an.CalleeName(call))
			for ai, a := range cc.Args {
				if !al[a] {
					continue
				}
				switch {
				case n == "(*github.com/miekg/dns.Msg).SetEdns0" && ai == 0,
					strings.HasPrefix(n, "(*github.com/miekg/dns.OPT).Set") && ai == 0:
					res = true
				default:
					if f := an.StaticCallee(call); f != nil && c.InRepo(f) && mutates(f, ai) {
						res = true
					}
				}
			}
		}
		an.Instrs(fn, func(in ssa.Instruction) {
			st, ok := in.(*ssa.Store)
			if !ok {
				return
			}
			// store into the EDNS part of an alias: the Extra section of the
			// message, or any field of its OPT record
			base := st.Addr
			touchesExtra := false
			for {
				switch x := base.(type) {
				case *ssa.FieldAddr:
					if _, f, _, ok := an.FieldOf(x); ok && (f == "Extra" || f == "Option" || f == "Hdr") {
						touchesExtra = true
					}
					base = x.X
					continue
				case *ssa.IndexAddr:
					base = x.X
					continue
				case *ssa.UnOp:
					if x.Op == token.MUL {
						base = x.X
						continue
					}
				}
				break
			}
			if al[base] && (touchesExtra || base != ssa.Value(pa)) {
				res = true
			}
		})
		if res {
			memo[k] = 2
		}
		return res
	}
	n := 0
	for _, fn := range c.AllFns {
		if c.IsTestFile(fn.Pos()) {
			continue
		}
		k := an.FnKey(fn)
		if pk := an.FnPkg(fn); pk != nil && strings.HasSuffix(pk.Path(), "test") {
			continue
		}
		// handlers: a ResponseWriter parameter and a *dns.Msg parameter
		hasRW := false
		var reqIdx []int
		for i, pa := range fn.Params {
			if an.TypeName(pa.Type()) == rwType {
				hasRW = true
			}
			if an.TypeName(pa.Type()) == "github.com/miekg/dns.Msg" {
				if _, isPtr := pa.Type().Underlying().(*types.Pointer); isPtr && (pa.Name() == "req" || pa.Name() == "r") {
					reqIdx = append(reqIdx, i)
				}
			}
		}
		if !hasRW || len(reqIdx) == 0 || strings.HasPrefix(k, "dnsserver.(*") {
			continue
		}
		n++
		c.Analysed(k)
		for _, i := range reqIdx {
			key := k + " request " + fn.Params[i].Name()
			if why, ok := reqMutationAllowed[k]; ok {
				c.Ok(rule, key, fn.Pos(), "exception: %s", why)
				continue
			}
			c.Check(!mutates(fn, i), rule, key, fn.Pos(), "the handler does not modify the EDNS data (OPT record, Extra section) of the request message it received",
				"the handler modifies the EDNS data of the client's request message (directly or through a callee); the transport later normalises the response against that object, so the client's advertised EDNS size, DO bit or options are lost")
		}
	}
	if n == 0 {
		c.Und(rule, "handlers", token.NoPos, "no handler functions found")
	}
}

// reqMutationAllowed lists handlers that modify the request on purpose.
var reqMutationAllowed = map[string]string{}
