package rules

import (
	"fmt"
	"go/ast"
	"go/constant"
	"go/token"
	"go/types"
	"os"
	"path/filepath"
	"reflect"
	"regexp"
	"sort"
	"strings"

	"adgverif/an"

	"golang.org/x/tools/go/ssa"
)

// Rules shared by several properties.  A mechanism such as "the cache stores a
// clone" or "a recycled request-information object is fully reset" is a
// necessary condition of more than one property; each property's check runs
// the rule under its own rule id so that a change breaking the mechanism is
// reported by every property it breaks.

// sharedPoolInit runs the pooled-object re-initialisation rule (C07-R1) for
// the Pool.Get sites of the named functions only.
func sharedPoolInit(c *an.Ctx, rule string, fnKeys ...string) {
	ctor := poolCtors(c)
	for _, k := range fnKeys {
		fn := c.Fn(k)
		if fn == nil {
			c.Und(rule, k+" pooled object", token.NoPos, "anchor not found")
			continue
		}
		found := false
		for _, call := range an.Calls(fn) {
			n, st := poolGetStruct(call)
			if n == nil {
				continue
			}
			found = true
			c.Analysed(k)
			get := call.(*ssa.Call)
			fi := fieldInit(c, fn, get, st)
			var names []string
			for f := range fi {
				names = append(names, f)
			}
			sort.Strings(names)
			for _, f := range names {
				key := fmt.Sprintf("%s %s.%s", k, an.TypeName(n), f)
				if fi[f] == "always" {
					c.Ok(rule, key, call.Pos(), "assigned on every path from Pool.Get to the exit")
					continue
				}
				if why, ok := c07CallerSets(an.TypeName(n), f); ok {
					c.Ok(rule, key, call.Pos(), "exception: %s", why)
					continue
				}
				top := strings.SplitN(f, ".", 2)[0]
				outside := 0
				for _, fs := range c.FieldStores(an.TypeName(n), top) {
					if !ctor[fs.In] && !c.IsTestFile(fs.Store.Pos()) {
						if pk := an.FnPkg(fs.In); pk != nil && strings.HasSuffix(pk.Path(), "test") {
							continue
						}
						outside++
					}
				}
				if outside == 0 && fi[f] == "never" {
					c.Ok(rule, key, call.Pos(), "written by the pool's constructor only")
				} else {
					c.Bad(rule, key, call.Pos(), "the field of the recycled object is not re-initialised on every path (%s; %d writes elsewhere): the next request sees the previous request's value", fi[f], outside)
				}
			}
		}
		if !found {
			c.Und(rule, k+" pooled object", fn.Pos(), "no Pool.Get of a struct in this function")
		}
	}
}

// poolCtors returns the constructor functions passed to syncutil.NewPool.
func poolCtors(c *an.Ctx) map[*ssa.Function]bool {
	ctor := map[*ssa.Function]bool{}
	for _, fn := range c.AllFns {
		for _, call := range an.Calls(fn) {
			if strings.HasPrefix(an.CalleeName(call), "github.com/AdguardTeam/golibs/syncutil.NewPool") {
				switch a := call.Common().Args[0].(type) {
				case *ssa.MakeClosure:
					if f, ok := a.Fn.(*ssa.Function); ok {
						ctor[f] = true
					}
				case *ssa.Function:
					ctor[a] = true
				}
			}
		}
	}
	return ctor
}

// sharedReplyInit checks that every message rebuilt from a stored message for
// another request is initialised from that request (ID, question, opcode).
func sharedReplyInit(c *an.Ctx, rule string) {
	for _, k := range []string{"dnsserver/cache.(*Middleware).fromCacheItem", "ecscache.fromCacheItem", "filter/internal.(*ResultModifiedResponse).CloneForReq"} {
		fn := c.Fn(k)
		if fn == nil {
			c.Und(rule, k, token.NoPos, "anchor not found")
			continue
		}
		c.Analysed(k)
		var reqParam ssa.Value
		for _, pa := range fn.Params {
			if an.TypeName(pa.Type()) == "github.com/miekg/dns.Msg" {
				reqParam = pa
			}
		}
		ok := false
		for _, call := range an.CallsTo(fn, "(*github.com/miekg/dns.Msg).SetReply", "(*github.com/miekg/dns.Msg).SetRcode") {
			args := call.Common().Args
			if len(args) < 2 || args[1] != reqParam {
				continue
			}
			// the receiver must be (or end up in) what the function returns
			recv := args[0]
			for _, r := range an.Returns(fn) {
				if !an.Dominates(call, r) || len(r.Results) != 1 {
					continue
				}
				ret := r.Results[0]
				if ret == recv {
					ok = true
				}
				// returned composite carrying the message in a field
				if al, isAlloc := ret.(*ssa.Alloc); isAlloc {
					for _, ref := range *al.Referrers() {
						if fa, isFA := ref.(*ssa.FieldAddr); isFA {
							for _, st := range an.Stores(fa) {
								if st.Val == recv {
									ok = true
								}
							}
						}
					}
				}
			}
		}
		c.Check(ok, rule, k, fn.Pos(),
			"the returned message is initialised with SetReply/SetRcode from this request (ID, question, opcode)",
			"the message rebuilt from a stored copy is not initialised from this request with SetReply/SetRcode: its ID or question can be those of the request that filled the cache")
	}
}

// sharedLocation checks ratelimitmw.(*Middleware).location.
func sharedLocation(c *an.Ctx, rule string) {
	decide(c, rule, "dnssvc/internal/ratelimitmw.(*Middleware).location", an.DecideCfg{
		Dom: an.Domain{"ecserr": an.Bools, "(ecssubnet == zero:net/netip.Prefix)": an.Bools},
		OnCall: func(it *an.Interp, name string, args []an.AV) (an.AV, bool) {
			switch {
			case name == "(*dnssvc/internal/ratelimitmw.Middleware).locationData":
				return an.NonNil("loc(" + args[2].String() + ")"), true
			case name == "dnsmsg.ECSFromMsg":
				if args[0].String() != "p2" {
					return an.Sym("ECS of another message"), true
				}
				e := an.Nil()
				if it.Feature("ecserr").IsTrue() {
					e = an.NonNil("ecsErr")
				}
				return an.AV{Kind: an.KTuple, Tup: []an.AV{an.Sym("ecssubnet"), an.Sym("scope"), e}}, true
			case name == "fmt.Errorf":
				return an.NonNil("wrapped"), true
			case name == "(net/netip.Prefix).Addr":
				return an.Sym("addr(" + args[0].String() + ")"), true
			}
			return an.AV{}, false
		},
		Expect: func(f an.Features, o an.AOutcome) string {
			if o.Exit != "return" || len(o.Ret) != 3 {
				return "a (loc, ecs, err) result"
			}
			if o.Ret[0].String() != "nonnil:loc(p3)" {
				return "the location of the connecting client's own address as the request location (access and rate-limit decisions use it); got " + o.Ret[0].String()
			}
			if f.B("ecserr") {
				if o.Ret[1].Kind == an.KNil && o.Ret[2].Kind != an.KNil {
					return ""
				}
				return "an error and no ECS for a malformed option"
			}
			wantECS := !f.B("(ecssubnet == zero:net/netip.Prefix)")
			if wantECS != (o.Ret[1].Kind != an.KNil) || o.Ret[2].Kind != an.KNil {
				return fmt.Sprintf("ECS record present=%v (kept for every decoded option, including a /0 opt-out; absent only when the request has none)", wantECS)
			}
			if wantECS {
				k := strings.TrimPrefix(o.Ret[1].String(), "&")
				if o.Mem[k+".Subnet"].String() != "ecssubnet" {
					return "the record to carry the client's subnet"
				}
				if o.Mem[k+".Location"].String() != "nonnil:loc(addr(ecssubnet))" {
					return "the record's location to be that of the ECS subnet; got " + o.Mem[k+".Location"].String()
				}
			}
			return ""
		},
	})
}

// sharedReqNotMutated checks that no handler rewrites the request message it
// was given: the transport's writers normalise the response against that very
// object (EDNS size, DO bit, options).
func sharedReqNotMutated(c *an.Ctx, rule string) {
	// summary: does fn store into (or hand to a mutator) its *dns.Msg parameter #i ?
	memo := map[string]int{}
	var mutates func(fn *ssa.Function, i int) bool
	mutates = func(fn *ssa.Function, i int) bool {
		if fn == nil || fn.Blocks == nil || i >= len(fn.Params) {
			return false
		}
		k := fmt.Sprintf("%s#%d", an.FnKey(fn), i)
		if v, ok := memo[k]; ok {
			return v == 2
		}
		memo[k] = 1
		pa := fn.Params[i]
		res := false
		// aliases: the parameter and its OPT record (IsEdns0 result), Extra elements
		al := map[ssa.Value]bool{pa: true}
		for changed := true; changed; {
			changed = false
			an.Instrs(fn, func(in ssa.Instruction) {
				v, ok := in.(ssa.Value)
				if !ok || al[v] {
					return
				}
				switch x := in.(type) {
				case *ssa.Call:
					n := an.Short(an.CalleeName(x))
					if n == "(*github.com/miekg/dns.Msg).IsEdns0" && al[x.Call.Args[0]] {
						al[v], changed = true, true
					}
				case *ssa.Phi:
					for _, e := range x.Edges {
						if al[e] {
							al[v], changed = true, true
						}
					}
				case *ssa.UnOp:
					// a parameter that a closure captures lives in a cell: loads of the cell are the parameter
					if cell, ok := x.X.(*ssa.Alloc); ok && x.Op == token.MUL {
						for _, r := range *cell.Referrers() {
							if st, ok := r.(*ssa.Store); ok && st.Addr == ssa.Value(cell) && al[st.Val] {
								al[v], changed = true, true
							}
						}
					}
				}
			})
		}
		for _, call := range an.Calls(fn) {
			cc := call.Common()
			n := an.Short(an.CalleeName(call))
			for ai, a := range cc.Args {
				if !al[a] {
					continue
				}
				switch {
				case n == "(*github.com/miekg/dns.Msg).SetEdns0" && ai == 0,
					strings.HasPrefix(n, "(*github.com/miekg/dns.OPT).Set") && ai == 0:
					res = true
				case cc.IsInvoke():
					// every implementation in the repository of the interface method (the forwarder's upstreams)
					iface, _ := cc.Value.Type().Underlying().(*types.Interface)
					for _, f := range c.AllFns {
						if iface == nil || f.Signature.Recv() == nil || f.Name() != cc.Method.Name() || c.IsTestFile(f.Pos()) {
							continue
						}
						if types.Implements(f.Signature.Recv().Type(), iface) && mutates(f, ai+1) {
							res = true
						}
					}
				default:
					if f := an.StaticCallee(call); f != nil && c.InRepo(f) && mutates(f, ai) {
						res = true
					}
				}
			}
		}
		an.Instrs(fn, func(in ssa.Instruction) {
			st, ok := in.(*ssa.Store)
			if !ok {
				return
			}
			// store into the EDNS part of an alias: the Extra section of the
			// message, or any field of its OPT record
			base := st.Addr
			touchesExtra := false
			for {
				switch x := base.(type) {
				case *ssa.FieldAddr:
					if _, f, _, ok := an.FieldOf(x); ok && (f == "Extra" || f == "Option" || f == "Hdr") {
						touchesExtra = true
					}
					base = x.X
					continue
				case *ssa.IndexAddr:
					base = x.X
					continue
				case *ssa.UnOp:
					if x.Op == token.MUL {
						base = x.X
						continue
					}
				}
				break
			}
			if al[base] && (touchesExtra || base != ssa.Value(pa)) {
				res = true
			}
		})
		if res {
			memo[k] = 2
		}
		return res
	}
	n := 0
	for _, fn := range c.AllFns {
		if c.IsTestFile(fn.Pos()) {
			continue
		}
		k := an.FnKey(fn)
		if pk := an.FnPkg(fn); pk != nil && strings.HasSuffix(pk.Path(), "test") {
			continue
		}
		// handlers: a ResponseWriter parameter and a *dns.Msg parameter
		hasRW := false
		var reqIdx []int
		for i, pa := range fn.Params {
			if an.TypeName(pa.Type()) == rwType {
				hasRW = true
			}
			if an.TypeName(pa.Type()) == "github.com/miekg/dns.Msg" {
				if _, isPtr := pa.Type().Underlying().(*types.Pointer); isPtr && (pa.Name() == "req" || pa.Name() == "r") {
					reqIdx = append(reqIdx, i)
				}
			}
		}
		if !hasRW || len(reqIdx) == 0 || strings.HasPrefix(k, "dnsserver.(*") {
			continue
		}
		n++
		c.Analysed(k)
		for _, i := range reqIdx {
			key := k + " request " + fn.Params[i].Name()
			if why, ok := reqMutationAllowed[k]; ok {
				c.Ok(rule, key, fn.Pos(), "exception: %s", why)
				continue
			}
			c.Check(!mutates(fn, i), rule, key, fn.Pos(), "the handler does not modify the EDNS data (OPT record, Extra section) of the request message it received",
				"the handler modifies the EDNS data of the client's request message (directly or through a callee); the transport later normalises the response against that object, so the client's advertised EDNS size, DO bit or options are lost")
		}
	}
	if n == 0 {
		c.Und(rule, "handlers", token.NoPos, "no handler functions found")
	}
}

// reqMutationAllowed lists handlers that modify the request on purpose.
var reqMutationAllowed = map[string]string{}

// sharedAtomicSnapshot checks the single-snapshot discipline for the atomically
// published pointer in field `field` of struct type typ: a function that reads
// the published value reads it at most once on any path (directly or through
// methods of the same receiver that read it), so everything it computes comes
// from one version.  The unit is one method of the owning type.  A second Load on some path, or a Load inside a loop, may
// observe a different version after a concurrent publication.
func sharedAtomicSnapshot(c *an.Ctx, rule, typ, field string, minReaders int) {
	isLoadOf := func(call ssa.CallInstruction) bool {
		n := an.CalleeName(call)
		if !(strings.Contains(n, "sync/atomic.") && strings.HasSuffix(n, ").Load")) {
			return false
		}
		args := call.Common().Args
		if len(args) == 0 {
			return false
		}
		recv := args[0]
		// the receiver is the field's value (a *atomic.Pointer) or its address
		if u, ok := recv.(*ssa.UnOp); ok && u.Op == token.MUL {
			recv = u.X
		}
		t, f, _, ok := an.FieldOf(recv)
		return ok && t == typ && f == field
	}
	// summaries: repository functions that (transitively, through calls to other
	// functions) read the published value
	reads := map[*ssa.Function]bool{}
	for changed := true; changed; {
		changed = false
		for _, fn := range c.AllFns {
			if reads[fn] || fn.Blocks == nil {
				continue
			}
			// the unit of consistency is one method of the owning type; callers
			// that combine several method calls are outside this rule
			if fn.Signature.Recv() == nil || an.TypeName(fn.Signature.Recv().Type()) != typ {
				continue
			}
			for _, call := range an.Calls(fn) {
				if isLoadOf(call) {
					reads[fn] = true
				} else if cal := an.StaticCallee(call); cal != nil && reads[cal] {
					reads[fn] = true
				}
				if reads[fn] {
					changed = true
					break
				}
			}
		}
	}
	n := 0
	var fns []*ssa.Function
	for fn := range reads {
		fns = append(fns, fn)
	}
	sort.Slice(fns, func(i, j int) bool { return an.FnKey(fns[i]) < an.FnKey(fns[j]) })
	for _, fn := range fns {
		if c.IsTestFile(fn.Pos()) {
			continue
		}
		k := an.FnKey(fn)
		events := map[ssa.Instruction]bool{}
		for _, call := range an.Calls(fn) {
			if isLoadOf(call) {
				events[call] = true
			} else if cal := an.StaticCallee(call); cal != nil && reads[cal] {
				events[call] = true
			}
		}
		c.Analysed(k)
		n++
		key := fmt.Sprintf("%s reads %s.%s once", k, typ, field)
		if w := an.PathEvents(fn, events, 1, nil); w != nil {
			var where []string
			for _, in := range w {
				where = append(where, c.Pos(in.Pos()))
			}
			c.Bad(rule, key, w[len(w)-1].Pos(), "the atomically published value is read more than once on one path (%s): a publication between the reads makes the result mix two versions", strings.Join(where, ", "))
		} else {
			c.Ok(rule, key, fn.Pos(), "at most one read of the published value on every path (%d read sites)", len(events))
		}
	}
	if n < minReaders {
		c.Und(rule, fmt.Sprintf("%s.%s readers", typ, field), token.NoPos, "only %d functions read the published value, expected at least %d: the anchor no longer resolves", n, minReaders)
	}
}

// ---- injective packing of cache-key components ----

type bitSeg struct {
	comp   ssa.Value
	lo, hi int // bit range [lo, hi) the component occupies in the value
}

func intWidth(t types.Type) int {
	b, ok := t.Underlying().(*types.Basic)
	if !ok {
		return 0
	}
	switch b.Kind() {
	case types.Bool, types.Uint8, types.Int8:
		return 8
	case types.Uint16, types.Int16:
		return 16
	case types.Uint32, types.Int32:
		return 32
	case types.Uint64, types.Int64, types.Uint, types.Int, types.Uintptr:
		return 64
	}
	return 0
}

// bitLayout computes where the bits of each atomic component end up in integer
// value v built by widening conversions, constant left shifts and OR/XOR/ADD.
// problem is non-empty when two components overlap or bits may be lost.
func bitLayout(v ssa.Value, depth int) (segs []bitSeg, problem string) {
	if depth > 12 {
		return []bitSeg{{v, 0, intWidth(v.Type())}}, ""
	}
	switch x := v.(type) {
	case *ssa.Const:
		return nil, ""
	case *ssa.ChangeType:
		return bitLayout(x.X, depth+1)
	case *ssa.Convert:
		inner, p := bitLayout(x.X, depth+1)
		if p != "" {
			return nil, p
		}
		w := intWidth(x.Type())
		if w == 0 || intWidth(x.X.Type()) == 0 {
			return []bitSeg{{v, 0, w}}, ""
		}
		for _, s := range inner {
			if s.hi > w {
				return nil, fmt.Sprintf("a conversion to %s drops bits %d..%d of a key component", x.Type(), w, s.hi)
			}
		}
		return inner, ""
	case *ssa.BinOp:
		switch x.Op {
		case token.SHL:
			k, ok := an.ConstInt(x.Y)
			if !ok {
				break
			}
			inner, p := bitLayout(x.X, depth+1)
			if p != "" {
				return nil, p
			}
			w := intWidth(x.Type())
			for i := range inner {
				inner[i].lo += int(k)
				inner[i].hi += int(k)
				if inner[i].hi > w {
					return nil, fmt.Sprintf("a shift by %d pushes a key component out of the %d-bit value", k, w)
				}
			}
			return inner, ""
		case token.OR, token.XOR, token.ADD:
			a, p := bitLayout(x.X, depth+1)
			if p != "" {
				return nil, p
			}
			b, p := bitLayout(x.Y, depth+1)
			if p != "" {
				return nil, p
			}
			for _, s := range a {
				for _, t := range b {
					if s.lo < t.hi && t.lo < s.hi {
						return nil, fmt.Sprintf("two key components are combined with %s into overlapping bits %d..%d and %d..%d: distinct component pairs map to the same value", x.Op, s.lo, s.hi, t.lo, t.hi)
					}
				}
			}
			return append(a, b...), ""
		case token.AND, token.SHR, token.REM, token.QUO, token.AND_NOT:
			return nil, fmt.Sprintf("a key component passes through the lossy operation %s", x.Op)
		}
	}
	return []bitSeg{{v, 0, intWidth(v.Type())}}, ""
}

// sharedKeyPacking checks that the fixed-width part of a cache key is an
// injective packing of its components: every write into the key buffer goes to
// a byte range disjoint from every other write, and the written value keeps
// every bit of each component it carries in a separate position.
func sharedKeyPacking(c *an.Ctx, rule, fnKey string, minWrites int) {
	fn := c.Fn(fnKey)
	if fn == nil {
		c.Und(rule, fnKey+" key packing", token.NoPos, "anchor not found")
		return
	}
	c.Analysed(fnKey)
	isByteBuf := func(v ssa.Value) bool {
		switch x := v.(type) {
		case *ssa.Alloc:
			if arr, ok := an.Deref(x.Type()).Underlying().(*types.Array); ok {
				return intWidth(arr.Elem()) == 8
			}
		case *ssa.MakeSlice:
			if sl, ok := x.Type().Underlying().(*types.Slice); ok {
				return intWidth(sl.Elem()) == 8
			}
		}
		return false
	}
	type region struct {
		buf    ssa.Value
		lo, hi int // hi < 0: open-ended (variable-length tail)
		pos    token.Pos
		what   string
	}
	var regions []region
	bad := func(pos token.Pos, key, format string, args ...any) {
		c.Bad(rule, fnKey+" "+key, pos, format, args...)
	}
	constOr := func(v ssa.Value, def int) (int, bool) {
		if v == nil {
			return def, true
		}
		k, ok := an.ConstInt(v)
		return int(k), ok
	}
	nWrites := 0
	an.Instrs(fn, func(in ssa.Instruction) {
		switch x := in.(type) {
		case *ssa.Store:
			ia, ok := x.Addr.(*ssa.IndexAddr)
			if !ok || !isByteBuf(ia.X) {
				return
			}
			nWrites++
			i, ok := constOr(ia.Index, 0)
			if !ok {
				bad(x.Pos(), "byte store", "a key byte is written at a non-constant position")
				return
			}
			regions = append(regions, region{ia.X, i, i + 1, x.Pos(), fmt.Sprintf("byte %d", i)})
			segs, p := bitLayout(x.Val, 0)
			if p != "" {
				bad(x.Pos(), fmt.Sprintf("byte %d value", i), "%s", p)
				return
			}
			for _, s := range segs {
				if s.hi > 8 {
					bad(x.Pos(), fmt.Sprintf("byte %d value", i), "a component of %d bits is stored into one byte", s.hi)
					return
				}
			}
			c.Ok(rule, fmt.Sprintf("%s byte %d value", fnKey, i), x.Pos(), "one byte carrying %d component(s) in disjoint bits", len(segs))
		case *ssa.Call:
			name := an.CalleeName(x)
			var w int
			switch {
			case strings.HasSuffix(name, "ndian).PutUint16"):
				w = 2
			case strings.HasSuffix(name, "ndian).PutUint32"):
				w = 4
			case strings.HasSuffix(name, "ndian).PutUint64"):
				w = 8
			case name == "builtin.copy":
				w = -1
			default:
				return
			}
			args := x.Call.Args
			dst, val := args[len(args)-2], args[len(args)-1]
			sl, ok := dst.(*ssa.Slice)
			var buf ssa.Value
			lo := 0
			if ok {
				buf = sl.X
				var okLo bool
				lo, okLo = constOr(sl.Low, 0)
				if !okLo {
					if isByteBuf(buf) {
						nWrites++
						bad(x.Pos(), "write at "+c.Pos(x.Pos()), "a key component is written at a non-constant offset")
					}
					return
				}
				if hi, okHi := constOr(sl.High, -1); okHi && hi >= 0 && w > 0 && hi-lo < w {
					// PutUintN panics on a short slice; not an injectivity question
					_ = hi
				}
			} else {
				buf = dst
			}
			if !isByteBuf(buf) {
				return
			}
			nWrites++
			if w < 0 {
				regions = append(regions, region{buf, lo, -1, x.Pos(), fmt.Sprintf("bytes %d.. (variable tail)", lo)})
				c.Ok(rule, fmt.Sprintf("%s bytes %d.. value", fnKey, lo), x.Pos(), "variable-length tail copied after the fixed-width part")
				return
			}
			regions = append(regions, region{buf, lo, lo + w, x.Pos(), fmt.Sprintf("bytes %d..%d", lo, lo+w)})
			segs, p := bitLayout(val, 0)
			key := fmt.Sprintf("bytes %d..%d value", lo, lo+w)
			if p != "" {
				bad(x.Pos(), key, "%s", p)
				return
			}
			for _, s := range segs {
				if s.hi > 8*w {
					bad(x.Pos(), key, "a component reaching bit %d is stored into %d bytes", s.hi, w)
					return
				}
			}
			c.Ok(rule, fnKey+" "+key, x.Pos(), "%d component(s) in disjoint bits of a %d-bit field", len(segs), 8*w)
		}
	})
	for i, a := range regions {
		for _, b := range regions[i+1:] {
			if a.buf != b.buf {
				continue
			}
			// two constant stores to the same byte on different branches are one region
			if a.lo == b.lo && a.hi == b.hi && a.hi == a.lo+1 {
				continue
			}
			aHi, bHi := a.hi, b.hi
			if aHi < 0 {
				aHi = 1 << 30
			}
			if bHi < 0 {
				bHi = 1 << 30
			}
			if a.lo < bHi && b.lo < aHi {
				bad(b.pos, "overlap "+a.what+" / "+b.what, "two key components are written to overlapping bytes (%s at %s and %s at %s): the later write destroys part of the earlier one", a.what, c.Pos(a.pos), b.what, c.Pos(b.pos))
			}
		}
	}
	if len(regions) > 0 {
		c.Ok(rule, fnKey+" regions", fn.Pos(), "%d writes into the key buffer checked for pairwise disjoint byte ranges", len(regions))
	}
	if nWrites < minWrites {
		c.Und(rule, fnKey+" key writes", fn.Pos(), "only %d writes into a key buffer found, expected at least %d: the key is built in a way this rule does not recognise", nWrites, minWrites)
	}
}

// sharedFileMutators is the who-may-mutate-files rule: in the packages whose
// function keys start with one of the prefixes, files are created or replaced
// only through renameio (temp file + atomic rename) plus os.Chtimes and
// append-only opens; no os.WriteFile / Create / Rename / Remove / Truncate.
func sharedFileMutators(c *an.Ctx, rule string, prefixes ...string) {
	forbidden := map[string]bool{"os.WriteFile": true, "os.Create": true, "os.Rename": true, "os.Remove": true, "os.RemoveAll": true,
		"os.Truncate": true, "os.CreateTemp": true, "io/ioutil.WriteFile": true, "(*os.File).Truncate": true, "os.Link": true, "os.Symlink": true}
	for _, fn := range c.AllFns {
		k := an.FnKey(fn)
		in := false
		for _, p := range prefixes {
			if strings.HasPrefix(k, p) {
				in = true
			}
		}
		if !in || c.IsTestFile(fn.Pos()) {
			continue
		}
		if pk := an.FnPkg(fn); pk != nil && strings.HasSuffix(pk.Path(), "test") {
			continue // test helper packages (filtertest, profiledbtest)
		}
		for _, call := range an.Calls(fn) {
			n := an.Short(an.CalleeName(call))
			switch {
			case forbidden[n]:
				c.Bad(rule, k+" "+n, call.Pos(), "a file is created, replaced, truncated or removed without the atomic temp-file + rename protocol: a crash at this point leaves a truncated or missing file")
			case n == "os.OpenFile":
				// only append-only opens (the query log) are allowed
				flags, ok := an.ConstInt(call.Common().Args[1])
				oAppend, _ := c.ConstInt("os", "O_APPEND")
				oTrunc, _ := c.ConstInt("os", "O_TRUNC")
				if !ok {
					// a named constant defined elsewhere: resolve through the global
					c.Ok(rule, k+" os.OpenFile", call.Pos(), "open flags come from a package-level constant (checked in C15-R3)")
				} else if flags&oTrunc != 0 || flags&oAppend == 0 {
					c.Bad(rule, k+" os.OpenFile", call.Pos(), "a file is opened for writing without O_APPEND (or with O_TRUNC)")
				} else {
					c.Ok(rule, k+" os.OpenFile", call.Pos(), "append-only open")
				}
			case strings.HasPrefix(n, "github.com/google/renameio/v2."), strings.HasPrefix(n, "(*github.com/google/renameio/v2.PendingFile)."), n == "os.Chtimes":
				c.Ok(rule, k+" "+n, call.Pos(), "atomic replace protocol")
			}
		}
	}
}

// normName lower-cases an identifier and drops underscores, so that Go and
// protobuf spellings of one name compare equal (IPLogEnabled / IpLogEnabled).
func normName(s string) string {
	return strings.ToLower(strings.ReplaceAll(s, "_", ""))
}

// isConverterName reports whether a function name says "convert X to Y"
// (ipsToByteSlices, ByteSlicesToIPs, asnToInternal, prefixesToProtobuf).
func isConverterName(n string) bool {
	if i := strings.Index(n, "["); i >= 0 {
		n = n[:i]
	}
	return strings.HasPrefix(n, "to") || strings.Contains(n, "To")
}

// fieldSource returns the struct field (type, name) or getter name from which
// value v is copied through value-preserving conversions and one-argument
// conversion calls, or ok=false when v is computed otherwise.
func fieldSource(v ssa.Value, depth int) (typ, field string, ok bool) {
	if depth > 8 {
		return "", "", false
	}
	switch x := v.(type) {
	case *ssa.Convert:
		return fieldSource(x.X, depth+1)
	case *ssa.ChangeType:
		return fieldSource(x.X, depth+1)
	case *ssa.MakeInterface:
		return fieldSource(x.X, depth+1)
	case *ssa.UnOp:
		if x.Op == token.MUL {
			if t, f, base, ok := an.FieldOf(x.X); ok {
				// the Duration inside a timeutil.Duration wrapper: name the wrapped setting
				if t == "github.com/AdguardTeam/golibs/timeutil.Duration" && f == "Duration" {
					if t2, f2, _, ok2 := an.FieldOf(base); ok2 {
						return t2, f2, true
					}
				}
				return t, f, true
			}
		}
	case *ssa.Field:
		if t, f, base, ok := an.FieldOf(x); ok {
			if t == "github.com/AdguardTeam/golibs/timeutil.Duration" && f == "Duration" {
				switch b := base.(type) {
				case *ssa.UnOp:
					if t2, f2, _, ok2 := an.FieldOf(b.X); ok2 {
						return t2, f2, true
					}
				case *ssa.Field:
					if t2, f2, _, ok2 := an.FieldOf(b); ok2 {
						return t2, f2, true
					}
				}
			}
			return t, f, true
		}
	case *ssa.Call:
		// protobuf getter x.GetFoo()
		if cal := an.StaticCallee(x); cal != nil && cal.Signature.Recv() != nil && strings.HasPrefix(cal.Name(), "Get") && len(x.Call.Args) == 1 {
			return an.TypeName(cal.Signature.Recv().Type()), strings.TrimPrefix(cal.Name(), "Get"), true
		}
		// a one-argument converter (ipsToByteSlices(x.f), ByteSlicesToIPs(x.f))
		if cal := an.StaticCallee(x); cal != nil && !x.Call.IsInvoke() && len(x.Call.Args) == 1 && cal.Signature.Recv() == nil && isConverterName(cal.Name()) {
			return fieldSource(x.Call.Args[0], depth+1)
		}
	case *ssa.Extract:
		// first result of a one-argument converter that can fail
		if call, ok := x.Tuple.(*ssa.Call); ok && x.Index == 0 {
			if cal := an.StaticCallee(call); cal != nil && !call.Call.IsInvoke() && len(call.Call.Args) == 1 && cal.Signature.Recv() == nil && isConverterName(cal.Name()) {
				return fieldSource(call.Call.Args[0], depth+1)
			}
		}
	}
	return "", "", false
}

// sharedCodecNames checks writer/reader agreement by name in conversion
// functions: whenever a field of one struct is set directly from a field (or
// protobuf getter) of another struct, the two field names agree up to case and
// underscores, or the pair is in the table of confirmed renamings.
func sharedCodecNames(c *an.Ctx, rule string, inScope func(fn *ssa.Function) bool, fields func(dst, src string) bool, renamed map[string]string, min int) {
	n := 0
	for _, fn := range c.AllFns {
		if fn.Blocks == nil || c.IsTestFile(fn.Pos()) || !inScope(fn) {
			continue
		}
		k := an.FnKey(fn)
		an.Instrs(fn, func(in ssa.Instruction) {
			st, ok := in.(*ssa.Store)
			if !ok {
				return
			}
			dt, df, _, ok := an.FieldOf(st.Addr)
			if !ok || dt == "" {
				return
			}
			stp, sf, ok := fieldSource(st.Val, 0)
			if !ok || stp == "" || stp == dt {
				return
			}
			if fields != nil && !fields(df, sf) {
				return
			}
			c.Analysed(k)
			n++
			key := fmt.Sprintf("%s %s.%s <- %s.%s", k, dt, df, stp, sf)
			pair := dt + "." + df + " <- " + stp + "." + sf
			switch {
			case normName(df) == normName(sf):
				c.Ok(rule, key, st.Pos(), "same name on both sides")
			case renamed[pair] != "":
				c.Ok(rule, key, st.Pos(), "confirmed renaming: %s", renamed[pair])
			default:
				c.Bad(rule, key, st.Pos(), "a setting is copied into a field of another name (%s from %s): after the conversion the %s setting takes the value of %s", df, sf, df, sf)
			}
		})
	}
	if n < min {
		c.Und(rule, "codec name agreement instances", token.NoPos, "only %d direct field copies found, expected at least %d", n, min)
	}
}

// sharedPartialCopy is the partial same-type copy rule: a composite literal of
// struct type T that takes two or more of its fields from the same-named fields
// of another value of type T is a field-by-field copy, and must then copy every
// field of T; a field left out silently becomes the zero value (a limit that is
// disabled, a timeout that is unset).  Returns the number of literals examined.
func sharedPartialCopy(c *an.Ctx, rule string, inScope func(fn *ssa.Function) bool, allowed map[string]string) (examined int) {
	for _, fn := range c.AllFns {
		if fn.Blocks == nil || c.IsTestFile(fn.Pos()) || !inScope(fn) {
			continue
		}
		k := an.FnKey(fn)
		an.Instrs(fn, func(in ssa.Instruction) {
			al, ok := in.(*ssa.Alloc)
			if !ok {
				return
			}
			st, ok := an.Deref(al.Type()).Underlying().(*types.Struct)
			if !ok || an.TypeName(al.Type()) == "" || al.Referrers() == nil {
				return
			}
			tn := an.TypeName(al.Type())
			set := map[string]bool{}
			same := 0
			for _, r := range *al.Referrers() {
				fa, ok := r.(*ssa.FieldAddr)
				if !ok || fa.Referrers() == nil {
					continue
				}
				fname := st.Field(fa.Field).Name()
				for _, rr := range *fa.Referrers() {
					s, ok := rr.(*ssa.Store)
					if !ok || s.Addr != ssa.Value(fa) {
						continue
					}
					set[fname] = true
					if stp, sf, ok := fieldSource(s.Val, 0); ok && stp == tn && sf == fname {
						same++
					}
				}
			}
			if same < 2 {
				return
			}
			examined++
			c.Analysed(k)
			var missing []string
			for i := 0; i < st.NumFields(); i++ {
				if n := st.Field(i).Name(); !set[n] {
					if allowed[k+" "+tn+"."+n] != "" {
						continue
					}
					missing = append(missing, n)
				}
			}
			key := fmt.Sprintf("%s copies %s field by field", k, tn)
			if len(missing) > 0 {
				c.Bad(rule, key, al.Pos(), "%d fields are copied from another %s but %s left at the zero value: the setting configured there is lost in this copy", same, tn, strings.Join(missing, ", "))
			} else {
				c.Ok(rule, key, al.Pos(), "all %d fields set", st.NumFields())
			}
		})
	}
	return examined
}

// mainPipeline is the decision table of the main middleware's handler
// (mainmw.Wrap's closure): the order filter selection -> request filtering ->
// context check -> next stage with the non-writer -> response filtering ->
// verdict application -> one WriteMsg of the filtered response for the original
// request -> recording only after a successful write.
func mainPipeline(c *an.Ctx, rule string) {
	const mm = "dnssvc/internal/mainmw.(*Middleware)."
	decide(c, rule, mm+"Wrap$1", an.DecideCfg{
		Dom: an.Domain{"ctxerr": an.Bools, "nexterr": an.Bools, "fctx.isDebug": an.Bools, "writeerr": an.Bools, "same": an.Bools,
			"(nonnil:filtered == nonnil:upstream)": {an.CBool(false)}, "(nonnil:upstream == nonnil:filtered)": {an.CBool(false)}},
		OnCall: func(it *an.Interp, name string, args []an.AV) (an.AV, bool) {
			errOr := func(k, e string) an.AV {
				if it.Feature(k).IsTrue() {
					return an.NonNil(e)
				}
				return an.Nil()
			}
			switch {
			case strings.HasSuffix(name, ").newFilteringContext"):
				if args[1].String() != "p2" {
					return an.Sym("filtering context of another request"), true
				}
				return an.NonNil("fctx"), true
			case strings.HasSuffix(name, "agd.MustRequestInfoFromContext"):
				return an.NonNil("ri"), true
			case strings.HasSuffix(name, "optslog.Debug2"), strings.HasSuffix(name, ".Put"):
				return an.Nil(), true
			case strings.HasSuffix(name, mm+"filter"), strings.HasSuffix(name, "mainmw.Middleware).filter"):
				return an.NonNil("flt(" + args[2].String() + ")"), true
			case strings.HasSuffix(name, ").filterRequest"), strings.HasSuffix(name, ").filterResponse"), strings.HasSuffix(name, ").reportMetrics"),
				strings.HasSuffix(name, ").recordQueryInfo"), strings.HasSuffix(name, "Cloner).Dispose"):
				return an.Nil(), true
			case strings.HasSuffix(name, ").setFilteredResponse"):
				// the verdict application decides what is written: the upstream answer or another message
				if it.Feature("same").IsTrue() {
					it.SetMem("fctx.filteredResponse", an.NonNil("upstream"))
				} else {
					it.SetMem("fctx.filteredResponse", an.NonNil("filtered"))
				}
				return an.Nil(), true
			case name == "p0.Err":
				return errOr("ctxerr", "ctxErr"), true
			case strings.HasSuffix(name, "internal.MakeNonWriter"):
				return an.NonNil("nwrw(" + args[0].String() + ")"), true
			case strings.HasSuffix(name, ").nextParams"):
				return an.AV{Kind: an.KTuple, Tup: []an.AV{an.NonNil("nctx"), an.NonNil("nrw(" + args[3].String() + ")"), an.NonNil("nreq(" + args[2].String() + ")")}}, true
			case strings.HasSuffix(name, "next.ServeDNS"):
				return errOr("nexterr", "nextErr"), true
			case strings.HasSuffix(name, "NonWriter).Msg"), strings.HasSuffix(name, ".Msg"):
				return an.NonNil("upstream"), true
			case strings.HasSuffix(name, ").writeDebugResponse"):
				return an.Sym("debugresult"), true
			case name == "p1.WriteMsg":
				return errOr("writeerr", "writeErr"), true
			case strings.HasSuffix(name, "errors.Annotate"):
				return args[0], true
			}
			return an.AV{}, false
		},
		Inline: func(f *ssa.Function) bool { return strings.HasPrefix(an.FnKey(f), mm+"Wrap$1$") },
		Expect: func(f an.Features, o an.AOutcome) string {
			idx := func(suffix string) int {
				for i, e := range o.Effects {
					if e.Kind == "call" && strings.HasSuffix(e.Name, suffix) {
						return i
					}
				}
				return -1
			}
			count := func(suffix string) (n int) {
				for _, e := range o.Effects {
					if e.Kind == "call" && strings.HasSuffix(e.Name, suffix) {
						n++
					}
				}
				return n
			}
			if o.Exit != "return" || len(o.Ret) != 1 {
				return "an error result"
			}
			fr, nx, fresp, sfr, wr, rec := idx(").filterRequest"), idx("next.ServeDNS"), idx(").filterResponse"), idx(").setFilteredResponse"), idx("p1.WriteMsg"), idx(").recordQueryInfo")
			if fr < 0 {
				return "the request filtered first"
			}
			if f.B("ctxerr") {
				if nx < 0 && wr < 0 && rec < 0 && o.Ret[0].Kind != an.KNil {
					return ""
				}
				return "an error and no upstream query, write or record when the context expired during filtering"
			}
			if nx < fr || count("next.ServeDNS") != 1 {
				return "exactly one call of the next stage, after request filtering"
			}
			for _, e := range o.Effects {
				if e.Kind == "call" && strings.HasSuffix(e.Name, "next.ServeDNS") && !strings.Contains(e.Args[1], "nwrw(p1)") {
					return "the next stage given the non-writer wrapping this request's writer (so that it cannot answer on its own); got " + e.Args[1]
				}
			}
			if f.B("nexterr") {
				if wr < 0 && rec < 0 && fresp < 0 && o.Ret[0].Kind != an.KNil {
					return ""
				}
				return "the next stage's error returned and nothing written or recorded"
			}
			if !(nx < fresp && fresp < sfr) {
				return "response filtering and then verdict application after the upstream answer"
			}
			if got := o.Mem["fctx.originalResponse"].String(); got != "nonnil:upstream" {
				return "the non-writer's message recorded as the original response; got " + got
			}
			if f.B("fctx.isDebug") {
				if wr < 0 && rec < 0 && o.RetString() == "debugresult" {
					return ""
				}
				return "the debug response for CHAOS-class queries (no record)"
			}
			if count("p1.WriteMsg") != 1 || wr < sfr {
				return "exactly one WriteMsg, after the verdict is applied"
			}
			want := "nonnil:filtered"
			if f.B("same") {
				want = "nonnil:upstream"
			}
			for _, e := range o.Effects {
				if e.Kind == "call" && e.Name == "p1.WriteMsg" && (e.Args[1] != "fctx.originalRequest" || e.Args[2] != want) {
					return "the filtered response written for the original request; got " + strings.Join(e.Args, ",")
				}
			}
			if f.B("writeerr") {
				if rec < 0 && o.Ret[0].Kind != an.KNil {
					return ""
				}
				return "the write error returned and nothing recorded"
			}
			if rec < wr || count(").recordQueryInfo") != 1 || o.Ret[0].Kind != an.KNil {
				return "exactly one record, after the successful write"
			}
			disp := count("Cloner).Dispose")
			if f.B("same") != (disp == 0) {
				return fmt.Sprintf("the upstream answer disposed exactly when another message was written (same=%v, disposals=%d)", f.B("same"), disp)
			}
			return ""
		},
	})
}

// ---- loop completeness ----

// loopInfo describes one natural loop of a function.
type loopInfo struct {
	header *ssa.BasicBlock
	blocks map[*ssa.BasicBlock]bool
	done   *ssa.BasicBlock // the block the header exits to when the range is exhausted (range loops only)
}

// naturalLoops returns the natural loops of fn (one per header).
func naturalLoops(fn *ssa.Function) (ls []*loopInfo) {
	byHeader := map[*ssa.BasicBlock]*loopInfo{}
	for _, b := range fn.Blocks {
		for _, h := range b.Succs {
			if !h.Dominates(b) {
				continue
			}
			// back edge b -> h
			l := byHeader[h]
			if l == nil {
				l = &loopInfo{header: h, blocks: map[*ssa.BasicBlock]bool{h: true}}
				byHeader[h] = l
				ls = append(ls, l)
			}
			work := []*ssa.BasicBlock{b}
			for len(work) > 0 {
				x := work[len(work)-1]
				work = work[:len(work)-1]
				if l.blocks[x] {
					continue
				}
				l.blocks[x] = true
				work = append(work, x.Preds...)
			}
		}
	}
	for _, l := range ls {
		if strings.HasPrefix(l.header.Comment, "rangeindex.loop") || strings.HasPrefix(l.header.Comment, "rangeiter.loop") || strings.HasPrefix(l.header.Comment, "rangeint.loop") {
			for _, s := range l.header.Succs {
				if !l.blocks[s] {
					l.done = s
				}
			}
		}
	}
	return ls
}

// loopSubject names what a range loop iterates over (the access path of the
// ranged slice or map when it can be resolved, the header's block index otherwise).
func loopSubject(l *loopInfo) string {
	for b := range l.blocks {
		for _, in := range b.Instrs {
			switch x := in.(type) {
			case *ssa.IndexAddr:
				if bo, ok := x.Index.(*ssa.BinOp); ok && bo.Op == token.ADD {
					if _, isPhi := bo.X.(*ssa.Phi); isPhi {
						if ap, ok := an.AccessPath(x.X); ok {
							return ap
						}
					}
				}
			case *ssa.Range:
				if ap, ok := an.AccessPath(x.X); ok {
					return ap
				}
			}
		}
	}
	return fmt.Sprintf("block %d", l.header.Index)
}

// sharedLoopCompleteness is the every-element rule for the element-wise
// conversion and search loops of the given packages: an element that does not
// qualify (a failed type assertion) or that is reported as invalid (through the
// error collector) is skipped with continue; leaving the loop at that point
// silently drops every later element.  It returns the number of range loops
// examined.
func sharedLoopCompleteness(c *an.Ctx, rule string, prefixes ...string) (examined int) {
	for _, fn := range c.AllFns {
		if fn.Blocks == nil || c.IsTestFile(fn.Pos()) {
			continue
		}
		k := an.FnKey(fn)
		in := false
		for _, p := range prefixes {
			if strings.HasPrefix(k, p) {
				in = true
			}
		}
		if !in || strings.Contains(c.Pos(fn.Pos()), ".pb.go:") {
			continue
		}
		for _, l := range naturalLoops(fn) {
			if l.done == nil {
				continue
			}
			examined++
			// break edges: from a body block straight to the loop's done block
			// (a block that breaks is dominated by the header but no longer part of the
			// natural loop, since it cannot reach the back edge)
			for _, b := range l.done.Preds {
				if b == l.header || !l.header.Dominates(b) {
					continue
				}
				for si, s := range b.Succs {
					if s != l.done {
						continue
					}
					why := ""
					// (1) the break is the failure branch of a comma-ok type assertion
					if ifi, ok := b.Instrs[len(b.Instrs)-1].(*ssa.If); ok {
						if ex, isEx := ifi.Cond.(*ssa.Extract); isEx && ex.Index == 1 {
							if ta, isTA := ex.Tuple.(*ssa.TypeAssert); isTA && ta.CommaOk && si == 1 {
								why = "an element of another type ends the scan"
							}
						}
					}
					// (2) the block reports the element through the error collector and then leaves the loop
					if why == "" {
						for _, ins := range b.Instrs {
							if call, ok := ins.(ssa.CallInstruction); ok && strings.HasSuffix(an.CalleeName(call), "errcoll.Collect") {
								why = "an element reported as invalid ends the conversion"
							}
						}
					}
					// (3) the block only logs the element (a warning about a missing or
					// unknown one) and then leaves the loop
					if why == "" && len(b.Succs) == 1 {
						for _, ins := range b.Instrs {
							if call, ok := ins.(ssa.CallInstruction); ok && strings.HasPrefix(an.CalleeName(call), "(*log/slog.Logger).") {
								why = "an element that is only logged (unknown or missing) ends the loop"
							}
						}
					}
					if why == "" {
						continue
					}
					c.Analysed(k)
					c.Bad(rule, fmt.Sprintf("%s loop over %s", k, loopSubject(l)), b.Instrs[len(b.Instrs)-1].Pos(),
						"%s: every later element is silently dropped (skip it with continue instead)", why)
				}
			}
		}
	}
	return examined
}

// sharedErrorsAs is the writer/reader agreement rule for typed errors: an
// errors.As whose target matches values of named type T (or of *T) only ever
// succeeds if the code that creates such errors wraps the same form.  For every
// errors.As target in the given packages the rule collects the forms (T or *T)
// in which errors of that named type are produced anywhere in the repository;
// a produced form that no errors.As / type switch in the target's package can
// match, while the other form is what the package looks for, is a mismatch.
func sharedErrorsAs(c *an.Ctx, rule string, min int, prefixes ...string) {
	errIface := types.Universe.Lookup("error").Type().Underlying().(*types.Interface)
	type form struct{ ptr bool }
	// producers: conversions of T / *T to an interface, by named type
	produced := map[string]map[bool][]token.Pos{}
	for _, fn := range c.AllFns {
		// type-check declarations (var _ error = (*T)(nil)) live in the package
		// initialiser and produce no error at run time
		if fn.Blocks == nil || c.IsTestFile(fn.Pos()) || fn.Synthetic != "" || fn.Name() == "init" {
			continue
		}
		an.Instrs(fn, func(in ssa.Instruction) {
			mi, ok := in.(*ssa.MakeInterface)
			if !ok || !types.Implements(mi.X.Type(), errIface) {
				return
			}
			// only conversions to error-like interfaces produce errors (any(&target) does not)
			if it, isIface := mi.Type().Underlying().(*types.Interface); !isIface || !types.Implements(it, errIface) {
				return
			}
			n := an.NamedOf(mi.X.Type())
			if n == nil || n.Obj().Pkg() == nil || !strings.Contains(n.Obj().Pkg().Path(), "AdGuardDNS") {
				return
			}
			if _, isStruct := n.Underlying().(*types.Struct); !isStruct {
				return
			}
			_, isPtr := mi.X.Type().Underlying().(*types.Pointer)
			k := an.TypeName(mi.X.Type())
			if produced[k] == nil {
				produced[k] = map[bool][]token.Pos{}
			}
			produced[k][isPtr] = append(produced[k][isPtr], mi.Pos())
		})
	}
	n := 0
	for _, fn := range c.AllFns {
		if fn.Blocks == nil || c.IsTestFile(fn.Pos()) {
			continue
		}
		k := an.FnKey(fn)
		in := false
		for _, p := range prefixes {
			if strings.HasPrefix(k, p) {
				in = true
			}
		}
		if !in {
			continue
		}
		for _, call := range an.Calls(fn) {
			name := an.CalleeName(call)
			if name != "errors.As" && !strings.HasSuffix(name, "golibs/errors.As") {
				continue
			}
			args := call.Common().Args
			if len(args) != 2 {
				continue
			}
			// the target is passed as any(&x): the static type of x is what is matched
			tv := an.Unwrap(args[1])
			pt, ok := tv.Type().Underlying().(*types.Pointer)
			if !ok {
				continue
			}
			target := pt.Elem()
			if _, isIface := target.Underlying().(*types.Interface); isIface {
				continue
			}
			named := an.NamedOf(target)
			if named == nil || named.Obj().Pkg() == nil || !strings.Contains(named.Obj().Pkg().Path(), "AdGuardDNS") {
				continue
			}
			_, wantPtr := target.Underlying().(*types.Pointer)
			tn := an.TypeName(target)
			n++
			c.Analysed(k)
			key := fmt.Sprintf("%s errors.As target %s", k, types.TypeString(target, func(p *types.Package) string { return p.Name() }))
			forms := produced[tn]
			switch {
			case len(forms[wantPtr]) > 0 && len(forms[!wantPtr]) == 0:
				c.Ok(rule, key, call.Pos(), "errors of this type are produced in the matched form only (%d sites)", len(forms[wantPtr]))
			case len(forms[!wantPtr]) > 0:
				c.Bad(rule, key, call.Pos(), "errors of type %s are also produced in the other form (pointer=%v) at %s: errors.As never matches those, and the handling behind this check (e.g. answering FORMERR) is skipped for them",
					tn, !wantPtr, c.Pos(forms[!wantPtr][0]))
			default:
				c.Ok(rule, key, call.Pos(), "no error of this type is produced inside the repository (it comes from a dependency)")
			}
		}
	}
	if n < min {
		c.Und(rule, "errors.As targets", token.NoPos, "only %d typed errors.As targets found, expected at least %d", n, min)
	}
}

// sharedPoolBufferReset is the recycled-buffer rule: a *bytes.Buffer or
// *strings.Builder taken from a pool still holds what its previous user wrote,
// so a Reset on it must come before anything else is done with it.  The rule
// visits every Pool.Get of such a type in the given packages and requires a
// Reset call on the value that dominates every other use.  It returns the
// number of Get sites examined.
func sharedPoolBufferReset(c *an.Ctx, rule string, prefixes ...string) (examined int) {
	isBuf := func(t types.Type) bool {
		switch an.TypeName(t) {
		case "bytes.Buffer", "strings.Builder":
			_, isPtr := t.Underlying().(*types.Pointer)
			return isPtr
		}
		return false
	}
	for _, fn := range c.AllFns {
		if fn.Blocks == nil || c.IsTestFile(fn.Pos()) {
			continue
		}
		k := an.FnKey(fn)
		in := false
		for _, p := range prefixes {
			if strings.HasPrefix(k, p) {
				in = true
			}
		}
		if !in {
			continue
		}
		for _, ci := range an.Calls(fn) {
			call, ok := ci.(*ssa.Call)
			if !ok || !isBuf(call.Type()) {
				continue
			}
			n := an.CalleeName(call)
			if !(strings.Contains(n, "Pool") && strings.HasSuffix(n, ".Get")) {
				continue
			}
			examined++
			c.Analysed(k)
			key := k + " pooled buffer"
			// uses of the value (through the local cell it may be spilled into)
			vals := map[ssa.Value]bool{call: true}
			if call.Referrers() != nil {
				for _, r := range *call.Referrers() {
					if st, ok := r.(*ssa.Store); ok && st.Val == ssa.Value(call) {
						if al, ok := st.Addr.(*ssa.Alloc); ok && al.Referrers() != nil {
							for _, rr := range *al.Referrers() {
								if ld, ok := rr.(*ssa.UnOp); ok && ld.Op == token.MUL {
									vals[ld] = true
								}
							}
						}
					}
				}
			}
			var resets, uses []ssa.Instruction
			for v := range vals {
				if v.Referrers() == nil {
					continue
				}
				for _, r := range *v.Referrers() {
					switch u := r.(type) {
					case ssa.CallInstruction:
						if _, isDefer := u.(*ssa.Defer); isDefer {
							continue
						}
						if cn := an.CalleeName(u); strings.HasSuffix(cn, ").Reset") && len(u.Common().Args) > 0 && u.Common().Args[0] == v {
							resets = append(resets, u)
						} else if strings.HasSuffix(cn, ".Put") {
							// handing it back
						} else {
							uses = append(uses, u)
						}
					case *ssa.Store:
						if u.Val == v {
							if _, toLocal := u.Addr.(*ssa.Alloc); !toLocal {
								uses = append(uses, u) // stored into an object that will write to it
							}
						}
					case *ssa.MakeClosure:
						// captured by a closure (the deferred Put)
					}
				}
			}
			bad := ""
			for _, u := range uses {
				dominated := false
				for _, r := range resets {
					if an.Dominates(r, u) {
						dominated = true
					}
				}
				if !dominated {
					bad = c.Pos(u.Pos())
				}
			}
			switch {
			case len(resets) == 0:
				c.Bad(rule, key, call.Pos(), "a buffer taken from a pool is used without Reset: it still holds what its previous user wrote, and that content is prepended to this user's")
			case bad != "":
				c.Bad(rule, key, call.Pos(), "the pooled buffer is used at %s before it is Reset", bad)
			default:
				c.Ok(rule, key, call.Pos(), "Reset before every other use (%d uses)", len(uses))
			}
		}
	}
	return examined
}

// sharedRetainedArgs is the hand-off rule: when a function keeps a pointer
// argument beyond its return (a closure that escapes captures it, or it is
// stored into a longer-lived object), the caller must not modify the pointed-to
// object afterwards; otherwise the instance built earlier silently sees the
// later values (the configuration of the last server for every server).  It
// returns the number of retaining call sites examined.
func sharedRetainedArgs(c *an.Ctx, rule string, prefixes ...string) (examined int) {
	// summaries: parameter indices a function retains
	retains := map[*ssa.Function]map[int]bool{}
	for _, fn := range c.AllFns {
		if fn.Blocks == nil || c.IsTestFile(fn.Pos()) {
			continue
		}
		for i, pa := range fn.Params {
			if _, isPtr := pa.Type().Underlying().(*types.Pointer); !isPtr || pa.Referrers() == nil {
				continue
			}
			kept := false
			for _, r := range *pa.Referrers() {
				switch u := r.(type) {
				case *ssa.MakeClosure:
					// a closure over the parameter that is not simply deferred / called in place
					if u.Referrers() != nil {
						for _, rr := range *u.Referrers() {
							switch x := rr.(type) {
							case *ssa.Defer:
							case *ssa.Call:
								if x.Call.Value != ssa.Value(u) {
									kept = true // passed on as an argument
								}
							default:
								kept = true
							}
						}
					}
				case *ssa.Store:
					if u.Val == ssa.Value(pa) {
						if _, toLocal := u.Addr.(*ssa.Alloc); !toLocal {
							kept = true
						} else if al := u.Addr.(*ssa.Alloc); al.Heap {
							// spilled because a closure captures the variable
							for _, rr := range *al.Referrers() {
								if mc, ok := rr.(*ssa.MakeClosure); ok && mc.Referrers() != nil {
									for _, r3 := range *mc.Referrers() {
										if _, isDefer := r3.(*ssa.Defer); !isDefer {
											kept = true
										}
									}
								}
							}
						}
					}
				}
			}
			if kept {
				if retains[fn] == nil {
					retains[fn] = map[int]bool{}
				}
				retains[fn][i] = true
			}
		}
	}
	for _, fn := range c.AllFns {
		if fn.Blocks == nil || c.IsTestFile(fn.Pos()) {
			continue
		}
		k := an.FnKey(fn)
		in := false
		for _, p := range prefixes {
			if strings.HasPrefix(k, p) {
				in = true
			}
		}
		if !in {
			continue
		}
		for _, call := range an.Calls(fn) {
			callee := an.StaticCallee(call)
			if callee == nil || retains[callee] == nil {
				continue
			}
			args := call.Common().Args
			for i := range retains[callee] {
				if i >= len(args) {
					continue
				}
				al, ok := args[i].(*ssa.Alloc)
				if !ok || al.Referrers() == nil {
					continue
				}
				examined++
				c.Analysed(k)
				key := fmt.Sprintf("%s hands %s to %s", k, an.TypeName(al.Type()), an.FnKey(callee))
				bad := ""
				for _, r := range *al.Referrers() {
					fa, ok := r.(*ssa.FieldAddr)
					if !ok || fa.Referrers() == nil {
						continue
					}
					for _, rr := range *fa.Referrers() {
						if st, ok := rr.(*ssa.Store); ok && st.Addr == ssa.Value(fa) && an.CanReachAvoiding(call, st, al) {
							_, f, _, _ := an.FieldOf(fa)
							bad = fmt.Sprintf("field %s is written at %s after the call", f, c.Pos(st.Pos()))
						}
					}
				}
				if bad != "" {
					c.Bad(rule, key, call.Pos(), "the callee keeps this object (a closure it returns or stores reads it later) and %s: every instance built from it sees the last values written", bad)
				} else {
					c.Ok(rule, key, call.Pos(), "the object is not modified after the hand-off")
				}
			}
		}
	}
	return examined
}

// hasRefFields reports whether struct type t has, directly or in nested
// structs and arrays, fields through which two copies would share memory
// (slices, maps, pointers, channels, interfaces, functions).
func hasRefFields(t types.Type, depth int) bool {
	if depth > 6 {
		return true
	}
	switch u := t.Underlying().(type) {
	case *types.Struct:
		for i := 0; i < u.NumFields(); i++ {
			if hasRefFields(u.Field(i).Type(), depth+1) {
				return true
			}
		}
		return false
	case *types.Array:
		return hasRefFields(u.Elem(), depth+1)
	case *types.Basic:
		return false
	}
	return true
}

// sharedNoShallowCopy is the deep-copy rule for the cloner: a clone is never
// initialised by copying a whole struct that has slice, map, pointer or
// interface fields from the original (*clone = *orig), because the copy shares
// the original's backing arrays and pooled parts; the later field-by-field
// work then writes into memory the original still uses.
func sharedNoShallowCopy(c *an.Ctx, rule string, prefix string, onlyTypes ...string) (examined int) {
	for _, fn := range c.AllFns {
		if fn.Blocks == nil || c.IsTestFile(fn.Pos()) || !strings.HasPrefix(an.FnKey(fn), prefix) {
			continue
		}
		// helper packages for tests (filtertest, dnsservertest, …) are not production code
		if pkg := an.FnPkg(fn); pkg != nil && strings.HasSuffix(pkg.Name(), "test") {
			continue
		}
		k := an.FnKey(fn)
		an.Instrs(fn, func(in ssa.Instruction) {
			st, ok := in.(*ssa.Store)
			if !ok {
				return
			}
			ld, ok := st.Val.(*ssa.UnOp)
			if !ok || ld.Op != token.MUL {
				return
			}
			if _, isStruct := ld.Type().Underlying().(*types.Struct); !isStruct {
				return
			}
			if len(onlyTypes) > 0 {
				match := false
				for _, t := range onlyTypes {
					if an.TypeName(ld.Type()) == t {
						match = true
					}
				}
				if !match {
					return
				}
			}
			if _, fromLocal := ld.X.(*ssa.Alloc); fromLocal {
				return
			}
			// a temporary that a constructor has just returned is not shared with anything
			if _, fresh := an.Unwrap(ld.X).(*ssa.Call); fresh {
				return
			}
			if al, toLocal := st.Addr.(*ssa.Alloc); toLocal && !al.Heap {
				return
			}
			examined++
			c.Analysed(k)
			key := fmt.Sprintf("%s copies a whole %s", k, an.TypeName(ld.Type()))
			if hasRefFields(ld.Type(), 0) {
				c.Bad(rule, key, st.Pos(), "a struct with slice / pointer fields is copied as a whole from the original: the copy shares the original's backing arrays and pooled parts, so releasing or re-filling one message changes the other")
			} else {
				c.Ok(rule, key, st.Pos(), "the struct has no fields through which memory could be shared")
			}
		})
	}
	return examined
}

// ecsHopToHop holds the tables of the ECS cache's hop-by-hop clean-up: all
// three sections are cleaned whatever the DO bit; OPT records lose every option
// except EDE and vanish when empty, independently of the DO bit; DNSSEC records
// are kept only for DO requests or when they are what was asked for.
func ecsHopToHop(c *an.Ctx, rule string) {
	decide(c, rule, "ecscache.rmHopToHopData", an.DecideCfg{
		Dom: an.Domain{"p2": an.Bools},
		OnCall: func(it *an.Interp, name string, args []an.AV) (an.AV, bool) {
			if strings.HasSuffix(name, "ecscache.rmHopToHopRRs") {
				return an.NonNil("clean(" + args[0].String() + "," + args[1].String() + "," + args[2].String() + ")"), true
			}
			return an.AV{}, false
		},
		Expect: func(f an.Features, o an.AOutcome) string {
			do := fmt.Sprint(f.B("p2"))
			st := map[string]string{}
			for _, e := range o.Effects {
				if e.Kind == "store" {
					st[e.Name] = e.Args[0]
				}
			}
			for sec, exc := range map[string]string{"Answer": "p1", "Ns": "0", "Extra": "0"} {
				want := fmt.Sprintf("nonnil:clean(p0.%s,%s,%s)", sec, do, exc)
				if st["p0."+sec] != want {
					return fmt.Sprintf("section %s replaced by its cleaned form for every request (the walk also strips the upstream's own EDNS options, which must not reach a client that sent a DO bit either): %s; got %q", sec, want, st["p0."+sec])
				}
			}
			return ""
		},
	})
	opt := "*github.com/miekg/dns.OPT"
	decide(c, rule, "ecscache.filterRR", an.DecideCfg{
		Dom: an.Domain{"type(p0)": an.Strs(opt, "*github.com/miekg/dns.A"), "p2": an.Bools, "dnssec": an.Bools, "(hdr.Rrtype == p1)": an.Bools, "len(nonnil:onlyEDE)": an.Ints(0, 1)},
		OnCall: func(it *an.Interp, name string, args []an.AV) (an.AV, bool) {
			switch {
			case name == "p0.Header":
				return an.NonNil("hdr"), true
			case name == "slices.DeleteFunc":
				return an.NonNil("onlyEDE"), true
			case strings.HasSuffix(name, "ecscache.isDNSSEC"):
				return it.Feature("dnssec"), true
			}
			return an.AV{}, false
		},
		Expect: func(f an.Features, o an.AOutcome) string {
			if f.S("type(p0)") == opt {
				var del string
				for _, e := range o.Effects {
					if e.Kind == "call" && e.Name == "slices.DeleteFunc" {
						del = strings.Join(e.Args, ",")
					}
				}
				if !strings.HasSuffix(del, ".Option,nonnil:closure:ecscache.isNotEDE") && !strings.Contains(del, "isNotEDE") {
					return "every option except EDE deleted from an OPT record, whatever the DO bit; got " + del
				}
				want := "p0"
				if f.I("len(nonnil:onlyEDE)") == 0 {
					want = "nil"
				}
				if o.RetString() != want {
					return want + " (an OPT record left without options is dropped); got " + o.RetString()
				}
				return ""
			}
			keep := f.B("p2") || !f.B("dnssec") || f.B("(hdr.Rrtype == p1)")
			want := "nil"
			if keep {
				want = "p0"
			}
			if o.RetString() != want {
				return want + " (DNSSEC records only for DO requests or when they are the type asked for); got " + o.RetString()
			}
			return ""
		},
	})
	decide(c, rule, "ecscache.rmHopToHopRRs", an.DecideCfg{
		Dom: an.Domain{"len(p0)": an.Ints(0, 2), "keep0": an.Bools, "keep1": an.Bools},
		OnCall: func(it *an.Interp, name string, args []an.AV) (an.AV, bool) {
			if strings.HasSuffix(name, "ecscache.filterRR") {
				if args[1].String() != "p2" || args[2].String() != "p1" {
					return an.Sym("filter with other arguments"), true
				}
				i := "0"
				if strings.Contains(args[0].String(), "[1]") {
					i = "1"
				}
				if it.Feature("keep" + i).IsTrue() {
					return an.NonNil("kept" + i), true
				}
				return an.Nil(), true
			}
			return an.AV{}, false
		},
		Expect: func(f an.Features, o an.AOutcome) string {
			n := int(f.I("len(p0)"))
			calls := 0
			for _, e := range o.Effects {
				if e.Kind == "call" && strings.HasSuffix(e.Name, "ecscache.filterRR") {
					calls++
				}
			}
			if calls != n {
				return fmt.Sprintf("every record of the section passed through the filter (%d); got %d", n, calls)
			}
			want := 0
			for i := 0; i < n; i++ {
				if f.B(fmt.Sprintf("keep%d", i)) {
					want++
				}
			}
			got := strings.Count(o.RetString(), "kept")
			if got != want {
				return fmt.Sprintf("exactly the %d records the filter keeps; got %s", want, o.RetString())
			}
			return ""
		},
	})
}

// mainmwFilterSteps holds the tables of the main middleware's two filtering steps.
func mainmwFilterSteps(c *an.Ctx, rule string) {
	const mm = "dnssvc/internal/mainmw.(*Middleware)."
	common := func(it *an.Interp, name string, args []an.AV) (an.AV, bool) {
		switch {
		case name == "time.Now":
			return an.Sym("start"), true
		case name == "time.Since":
			return an.Sym("dur"), true
		case strings.HasSuffix(name, "errcoll.Collect"):
			return an.Nil(), true
		case strings.HasSuffix(name, ").putFltReq"), strings.HasSuffix(name, ").putFltResp"):
			return an.Nil(), true
		}
		return an.AV{}, false
	}
	modT := "*filter/internal.ResultModifiedRequest"
	decide(c, rule, mm+"filterRequest", an.DecideCfg{
		Dom: an.Domain{"type(res)": append(an.Strs(modT, "*filter/internal.ResultBlocked"), an.Nil()), "err": an.Bools},
		OnCall: func(it *an.Interp, name string, args []an.AV) (an.AV, bool) {
			switch {
			case strings.HasSuffix(name, ").reqInfoToFltReq"):
				return an.NonNil("fltreq(" + args[1].String() + "," + args[2].String() + ")"), true
			case name == "p3.FilterRequest":
				e := an.Nil()
				if it.Feature("err").IsTrue() {
					e = an.NonNil("fltErr")
				}
				t := it.Feature("type(res)")
				r := an.Nil()
				if t.Kind != an.KNil {
					r = an.NonNil("res")
					r.Dyn = avStr(t)
				}
				return an.AV{Kind: an.KTuple, Tup: []an.AV{r, e}}, true
			}
			return common(it, name, args)
		},
		Expect: func(f an.Features, o an.AOutcome) string {
			n := 0
			for _, e := range o.Effects {
				if e.Kind == "call" && e.Name == "p3.FilterRequest" {
					n++
					if strings.Join(e.Args, ",") != "p1,nonnil:fltreq(p2.originalRequest,p4)" {
						return "the filter asked about this request (original message, this request's information); got " + strings.Join(e.Args, ",")
					}
				}
			}
			if n != 1 {
				return "exactly one FilterRequest"
			}
			st := map[string]string{}
			for _, e := range o.Effects {
				if e.Kind == "store" {
					st[e.Name] = e.Args[0]
				}
			}
			wantRes := "nil"
			if !f.IsNil("type(res)") {
				wantRes = "nonnil:res"
			}
			if st["p2.requestResult"] != wantRes {
				return "the verdict recorded in the filtering context; got " + st["p2.requestResult"]
			}
			if !f.IsNil("type(res)") && f.S("type(res)") == modT {
				if st["p2.modifiedRequest"] != "res.Msg" {
					return "the rewritten request recorded so that it, not the original, goes upstream; got " + st["p2.modifiedRequest"]
				}
			} else if st["p2.modifiedRequest"] != "" {
				return "no rewritten request for other verdicts"
			}
			return ""
		},
	})
	decide(c, rule, mm+"filterResponse", an.DecideCfg{
		Dom: an.Domain{"p2.modifiedRequest": {an.Nil(), an.NonNil("modreq")}, "err": an.Bools},
		OnCall: func(it *an.Interp, name string, args []an.AV) (an.AV, bool) {
			switch {
			case strings.HasSuffix(name, ").reqInfoToFltResp"):
				return an.NonNil("fltresp(" + args[1].String() + "," + args[2].String() + ")"), true
			case name == "p3.FilterResponse":
				e := an.Nil()
				if it.Feature("err").IsTrue() {
					e = an.NonNil("fltErr")
				}
				return an.AV{Kind: an.KTuple, Tup: []an.AV{an.Sym("respres"), e}}, true
			case strings.HasSuffix(name, "Constructor).NewAnswerCNAME"):
				return an.NonNil("cname(" + args[1].String() + "," + args[2].String() + ")"), true
			case name == "slices.Insert":
				var as []string
				for _, a := range args {
					as = append(as, a.String())
				}
				return an.NonNil("insert(" + strings.Join(as, ",") + ")"), true
			}
			return common(it, name, args)
		},
		Expect: func(f an.Features, o an.AOutcome) string {
			st := map[string]string{}
			for _, e := range o.Effects {
				if e.Kind == "store" {
					st[e.Name] = e.Args[0]
				}
			}
			asked := o.HasCall("p3.FilterResponse")
			if f.IsNil("p2.modifiedRequest") {
				if !asked {
					return "the filter asked about the upstream answer"
				}
				for _, e := range o.Effects {
					if e.Kind == "call" && e.Name == "p3.FilterResponse" && strings.Join(e.Args, ",") != "p1,nonnil:fltresp(p2.originalResponse,p4)" {
						return "the filter asked about this request's upstream answer; got " + strings.Join(e.Args, ",")
					}
				}
				if st["p2.responseResult"] != "respres" {
					return "the response verdict recorded; got " + st["p2.responseResult"]
				}
				return ""
			}
			if asked {
				return "no response filtering for a CNAME-rewritten request"
			}
			if st["p2.originalResponse.MsgHdr.Id"] != "p2.originalRequest.MsgHdr.Id" {
				return "the answer's ID restored to the original request's; got " + st["p2.originalResponse.MsgHdr.Id"]
			}
			if st["p2.originalResponse.Question[0]"] != "p2.originalRequest.Question[0]" {
				return "the answer's question restored to the original request's; got " + st["p2.originalResponse.Question[0]"]
			}
			ans := st["p2.originalResponse.Answer"]
			if !strings.HasPrefix(ans, "nonnil:insert(p2.originalResponse.Answer,0,") || !strings.Contains(ans, "cname(p2.originalRequest,modreq.Question[0].Name)") {
				return "a CNAME from the original name to the rewritten name put in front of the answer section; got " + ans
			}
			return ""
		},
	})
}

// sharedPoolInitSweep runs the pooled-object re-initialisation rule for every
// function that takes an object of one of the named struct types from a pool.
func sharedPoolInitSweep(c *an.Ctx, rule string, typeNames ...string) (sites int) {
	want := map[string]bool{}
	for _, t := range typeNames {
		want[t] = true
	}
	var keys []string
	for _, fn := range c.AllFns {
		if fn.Blocks == nil || c.IsTestFile(fn.Pos()) {
			continue
		}
		for _, call := range an.Calls(fn) {
			if n, _ := poolGetStruct(call); n != nil && want[an.TypeName(n)] {
				keys = append(keys, an.FnKey(fn))
				break
			}
		}
	}
	sort.Strings(keys)
	if len(keys) > 0 {
		sharedPoolInit(c, rule, keys...)
	}
	return len(keys)
}

// sharedConfigImmutable is the rule that request-path code never writes into
// the objects shared by all requests of a server group or profile: a store whose
// address is reached through one of the shared-configuration fields of the
// request information (ServerGroup, FilteringGroup, the profile and device of a
// device result) modifies what concurrent requests read.  Copies made first
// (dns.Copy, Clone) start a new chain and are not affected.
func sharedConfigImmutable(c *an.Ctx, rule string, prefixes ...string) (examined int) {
	sharedFields := map[string]bool{"ServerGroup": true, "FilteringGroup": true, "Profile": true, "Device": true}
	var chain func(v ssa.Value, depth int) (fields []string, ok bool)
	chain = func(v ssa.Value, depth int) ([]string, bool) {
		if depth > 16 {
			return nil, false
		}
		switch x := v.(type) {
		case *ssa.FieldAddr:
			_, f, _, _ := an.FieldOf(x)
			fs, ok := chain(x.X, depth+1)
			return append(fs, f), ok
		case *ssa.Field:
			_, f, _, _ := an.FieldOf(x)
			fs, ok := chain(x.X, depth+1)
			return append(fs, f), ok
		case *ssa.IndexAddr:
			fs, ok := chain(x.X, depth+1)
			return append(fs, "[]"), ok
		case *ssa.UnOp:
			if x.Op == token.MUL {
				// a local cell with a single store: continue at the stored value
				if al, isAl := x.X.(*ssa.Alloc); isAl {
					if st := an.SingleStore(al); st != nil {
						return chain(st.Val, depth+1)
					}
					return nil, false
				}
				return chain(x.X, depth+1)
			}
		case *ssa.Extract:
			if ta, isTA := x.Tuple.(*ssa.TypeAssert); isTA {
				return chain(ta.X, depth+1)
			}
		case *ssa.TypeAssert:
			return chain(x.X, depth+1)
		case *ssa.ChangeType:
			return chain(x.X, depth+1)
		case *ssa.Phi:
			// one of several sources (tmpls := a.X; if … { tmpls = a.Y }): a source that leads into shared data decides
			var first []string
			found := false
			for _, e := range x.Edges {
				fs, ok := chain(e, depth+1)
				if !ok {
					continue
				}
				for _, f := range fs {
					if sharedFields[f] {
						return fs, true
					}
				}
				if !found {
					first, found = fs, true
				}
			}
			return first, found
		case *ssa.Parameter, *ssa.FreeVar:
			return nil, true
		}
		return nil, false // call results, allocations: a fresh chain
	}
	for _, fn := range c.AllFns {
		if fn.Blocks == nil || c.IsTestFile(fn.Pos()) {
			continue
		}
		k := an.FnKey(fn)
		in := false
		for _, p := range prefixes {
			if strings.HasPrefix(k, p) {
				in = true
			}
		}
		if !in {
			continue
		}
		an.Instrs(fn, func(ins ssa.Instruction) {
			st, ok := ins.(*ssa.Store)
			if !ok {
				return
			}
			fs, rooted := chain(st.Addr, 0)
			if !rooted || len(fs) < 2 {
				return
			}
			shared := ""
			for _, f := range fs[:len(fs)-1] {
				if sharedFields[f] {
					shared = f
				}
			}
			if shared == "" {
				return
			}
			examined++
			c.Analysed(k)
			c.Bad(rule, fmt.Sprintf("%s writes %s", k, strings.Join(fs, ".")), st.Pos(),
				"request-path code writes into an object reached through the shared %s data (the same object serves every concurrent request): another client's answer can change under it; copy the object first", shared)
		})
	}
	return examined
}

// builderTable is the reference wiring of the components in cmd's builder,
// confirmed by reading the code: for a configuration literal built in a builder
// method, the source each property-relevant field is filled from (suffix of the
// source's access path).  A property's check selects the entries that concern it.
var builderTable = map[string]map[string]string{
	"initDNS|dnssvc.HandlersConfig": {
		"Handler": ".fwdHandler", "Messages": ".messages", "Cloner": ".cloner", "FilterStorage": ".filterStorage", "FilteringGroups": ".filteringGroups",
		"ServerGroups": ".serverGroups", "GeoIP": ".geoIP", "AccessManager": ".access", "RateLimit": ".rateLimit", "HashMatcher": ".hashMatcher",
		"ProfileDB": ".profileDB", "BillStat": ".billStat", "QueryLog": "p0", "RuleStat": ".ruleStat", "DNSCheck": ".dnsCheck",
		"DNSDB": ".dnsDB", "EDEEnabled": ".conf.Filters.EDEEnabled", "StructuredErrors": ".sdeConf", "Cache": ".conf.Cache"},
	"initDNS|dnssvc.Config": {
		"Handlers": "call:dnssvc.NewHandlers#0", "ConnLimiter": ".connLimit", "HandleTimeout": ".conf.DNS.HandleTimeout.Duration", "ServerGroups": ".serverGroups",
		"ControlConf": ".controlConf", "Cloner": ".cloner", "NonDNS": ".webSvc"},
	"initFilterStorage|filter/filterstorage.ConfigHashPrefix": {"Adult": ".adultBlocking", "Dangerous": ".safeBrowsing", "NewlyRegistered": ".newRegDomains"},
	"initFilterStorage|filter/filterstorage.ConfigRuleLists": {
		"IndexURL": ".env.FilterIndexURL.URL", "IndexMaxSize": ".conf.Filters.MaxSize", "MaxSize": ".conf.Filters.MaxSize",
		"IndexRefreshTimeout": ".conf.Filters.IndexRefreshTimeout.Duration", "IndexStaleness": ".conf.Filters.RefreshIvl.Duration",
		"RefreshTimeout": ".conf.Filters.RefreshTimeout.Duration", "Staleness": ".conf.Filters.RefreshIvl.Duration",
		"ResultCacheCount": ".conf.Filters.RuleListCache.Size", "ResultCacheEnabled": ".conf.Filters.RuleListCache.Enabled"},
	"initFilterStorage|filter/filterstorage.ConfigBlockedServices": {
		"IndexURL": ".env.BlockedServiceIndexURL.URL", "IndexMaxSize": ".conf.Filters.MaxSize", "IndexStaleness": ".conf.Filters.RefreshIvl.Duration",
		"ResultCacheCount": ".conf.Filters.RuleListCache.Size", "ResultCacheEnabled": ".conf.Filters.RuleListCache.Enabled", "Enabled": ".env.BlockedServiceEnabled"},
	"initFilterStorage|filter/filterstorage.ConfigCustom": {"CacheCount": ".conf.Filters.CustomFilterCacheSize"},
	"initFilterStorage|filter/filterstorage.Config":       {"CacheDir": ".env.FilterCachePath", "CacheManager": ".cacheManager"},
	"newSafeSearchConfig|filter/filterstorage.ConfigSafeSearch": {
		"URL": "p1.URL", "ID": "p2", "MaxSize": ".conf.Filters.MaxSize", "RefreshTimeout": ".conf.Filters.RefreshTimeout.Duration",
		"Staleness": ".conf.Filters.RefreshIvl.Duration", "ResultCacheCount": ".conf.Filters.SafeSearchCacheSize"},
	"initSafeBrowsing|filter/hashprefix.FilterConfig": {
		"ReplacementHost": ".conf.SafeBrowsing.BlockHost", "Staleness": ".conf.SafeBrowsing.RefreshIvl.Duration", "RefreshTimeout": ".conf.SafeBrowsing.RefreshTimeout.Duration",
		"CacheTTL": ".conf.SafeBrowsing.CacheTTL.Duration", "CacheCount": ".conf.SafeBrowsing.CacheSize", "MaxSize": "p3", "Cloner": ".cloner"},
	"initAdultBlocking|filter/hashprefix.FilterConfig": {
		"ReplacementHost": ".conf.AdultBlocking.BlockHost", "Staleness": ".conf.AdultBlocking.RefreshIvl.Duration", "RefreshTimeout": ".conf.AdultBlocking.RefreshTimeout.Duration",
		"CacheTTL": ".conf.AdultBlocking.CacheTTL.Duration", "CacheCount": ".conf.AdultBlocking.CacheSize", "MaxSize": "p3", "Cloner": ".cloner"},
	"initNewRegDomains|filter/hashprefix.FilterConfig": {
		"ReplacementHost": ".conf.SafeBrowsing.BlockHost", "Staleness": ".conf.SafeBrowsing.RefreshIvl.Duration", "RefreshTimeout": ".conf.SafeBrowsing.RefreshTimeout.Duration",
		"CacheTTL": ".conf.SafeBrowsing.CacheTTL.Duration", "CacheCount": ".conf.SafeBrowsing.CacheSize", "MaxSize": "p2", "Cloner": ".cloner"},
	"initSafeBrowsing|agdservice.RefreshWorkerConfig":  {"Refresher": ".safeBrowsing", "Interval": ".conf.SafeBrowsing.RefreshIvl.Duration"},
	"initAdultBlocking|agdservice.RefreshWorkerConfig": {"Refresher": ".adultBlocking", "Interval": ".conf.AdultBlocking.RefreshIvl.Duration"},
	"initNewRegDomains|agdservice.RefreshWorkerConfig": {"Refresher": ".newRegDomains", "Interval": ".conf.SafeBrowsing.RefreshIvl.Duration"},
	"initFilterStorage|agdservice.RefreshWorkerConfig": {"Refresher": ".filterStorage", "Interval": ".conf.Filters.RefreshIvl.Duration"},
	"initProfileDB|agdservice.RefreshWorkerConfig":     {"Refresher": "call:profiledb.New#0", "Interval": ".conf.Backend.RefreshIvl.Duration"},
	"initBillStat|agdservice.RefreshWorkerConfig":      {"Refresher": "call:billstat.NewRuntimeRecorder", "Interval": ".conf.Backend.BillStatIvl.Duration"},
	"initRateLimiter|agdservice.RefreshWorkerConfig":   {"Interval": ".conf.RateLimit.Allowlist.RefreshIvl.Duration"},
	"initProfileDB|profiledb.Config": {
		"Storage": "call:backendpb.NewProfileStorage#0", "CacheFilePath": ".env.ProfilesCachePath", "FullSyncIvl": ".conf.Backend.FullRefreshIvl.Duration",
		"FullSyncRetryIvl": ".conf.Backend.FullRefreshRetryIvl.Duration", "ResponseSizeEstimate": ".conf.RateLimit.ResponseSizeEstimate"},
	"initProfileDB|backendpb.ProfileStorageConfig": {
		"BindSet": ".bindSet", "APIKey": ".env.ProfilesAPIKey", "ResponseSizeEstimate": ".conf.RateLimit.ResponseSizeEstimate", "MaxProfilesSize": ".env.ProfilesMaxRespSize"},
	"initRateLimiter|consul.AllowlistUpdaterConfig": {"Allowlist": "call:dnsserver/ratelimit.NewDynamicAllowlist", "ConsulURL": ".env.ConsulAllowlistURL.URL"},
	"initRateLimiter|backendpb.RateLimiterConfig":   {"Allowlist": "call:dnsserver/ratelimit.NewDynamicAllowlist", "Endpoint": ".env.BackendRateLimitURL.URL", "APIKey": ".env.BackendRateLimitAPIKey"},
	"initGeoIP|geoip.FileConfig": {
		"ASNPath": ".env.GeoIPASNPath", "CountryPath": ".env.GeoIPCountryPath", "HostCacheCount": ".conf.GeoIP.HostCacheSize", "IPCacheCount": ".conf.GeoIP.IPCacheSize",
		"AllTopASNs": "geoip.DefaultTopASNs", "CountryTopASNs": "geoip.DefaultCountryTopASNs"},
	"initMsgConstructor|dnsmsg.ConstructorConfig": {
		"Cloner": ".cloner", "StructuredErrors": ".sdeConf", "FilteredResponseTTL": ".conf.Filters.ResponseTTL.Duration", "EDEEnabled": ".conf.Filters.EDEEnabled"},
	"queryLog|querylog.FileSystemConfig":           {"Path": ".env.QueryLogPath"},
	"newBillStatUploader|backendpb.BillStatConfig": {"APIKey": ".env.BillStatAPIKey"},
	"initBillStat|billstat.RuntimeRecorderConfig":  {"Uploader": "call:(*cmd.builder).newBillStatUploader#0"},
}

// builderWiring checks the selected entries of builderTable; select maps an
// entry key ("method|config type") to the fields of it that matter to the
// calling property (nil = all tabled fields).
func builderWiring(c *an.Ctx, rule string, selectEntries map[string][]string) {
	var keys []string
	for k := range selectEntries {
		keys = append(keys, k)
	}
	sort.Strings(keys)
	for _, k := range keys {
		full, ok := builderTable[k]
		if !ok {
			c.Und(rule, "builder table "+k, token.NoPos, "no such entry in the builder table")
			continue
		}
		want := full
		if fields := selectEntries[k]; fields != nil {
			want = map[string]string{}
			for _, f := range fields {
				w, ok := full[f]
				if !ok {
					c.Und(rule, "builder table "+k+" "+f, token.NoPos, "no such field in the builder table")
					continue
				}
				want[f] = w
			}
		}
		i := strings.Index(k, "|")
		checkFieldMap(c, rule, "cmd.(*builder)."+k[:i], k[i+1:], want)
	}
}

// dnssvcWiring runs the name-agreement rule over the top-level wiring functions
// of package dnssvc (NewHandlers, NewListener, newListeners, wrapPreUpstreamMw,
// newDeviceFinder, newHandlersForServers): a component's configuration field is
// filled from the handlers-configuration field of the same name, or the pair is
// one of the renamings confirmed here.  fields selects the pairs that concern
// the calling property.
func dnssvcWiring(c *an.Ctx, rule string, fields func(dst, src string) bool, min int) {
	sharedCodecNames(c, rule, func(fn *ssa.Function) bool {
		return strings.HasPrefix(an.FnKey(fn), "dnssvc.")
	}, fields, map[string]string{
		"dnssvc/internal/preservice.Config.Checker <- dnssvc.HandlersConfig.DNSCheck":         "the DNS checker",
		"dnssvc/internal/ratelimitmw.Config.Limiter <- dnssvc.HandlersConfig.RateLimit":       "the global rate limiter",
		"dnssvc/internal/preupstream.Config.DB <- dnssvc.HandlersConfig.DNSDB":                "the DNS database",
		"dnsserver/cache.MiddlewareConfig.Count <- dnssvc.CacheConfig.NoECSCount":             "the simple cache has one size, the non-ECS one",
		"dnsserver/cache.MiddlewareConfig.OverrideTTL <- dnssvc.CacheConfig.OverrideCacheTTL": "abbreviated",
		"ecscache.MiddlewareConfig.OverrideTTL <- dnssvc.CacheConfig.OverrideCacheTTL":        "abbreviated",
		"dnsserver.ConfigBase.Disposer <- dnssvc.Config.Cloner":                               "the cloner is the server's message disposer",
		"dnsserver.ConfigDNS.MaxUDPRespSize <- agd.UDPConfig.MaxRespSize":                     "per-protocol structure drops the prefix",
		"dnsserver.ConfigDNS.TCPIdleTimeout <- agd.TCPConfig.IdleTimeout":                     "per-protocol structure drops the prefix",
		"dnsserver.ConfigDNSCrypt.DNSCryptProviderName <- agd.DNSCryptConfig.ProviderName":    "per-protocol structure drops the prefix",
		"dnsserver.ConfigDNSCrypt.DNSCryptResolverCert <- agd.DNSCryptConfig.Cert":            "per-protocol structure drops the prefix",
		"dnsserver.ConfigHTTPS.TLSConfDefault <- agd.TLSConfig.Default":                       "the default TLS configuration",
		"dnsserver.ConfigHTTPS.TLSConfH3 <- agd.TLSConfig.H3":                                 "the HTTP/3 TLS configuration",
		"dnsserver.ConfigQUIC.TLSConfig <- agd.TLSConfig.Default":                             "DoQ uses the default TLS configuration",
		"dnsserver.ConfigTLS.TLSConfig <- agd.TLSConfig.Default":                              "DoT uses the default TLS configuration",
	}, min)
}

// cmdConversions runs the name-agreement rule over the configuration
// conversions of package cmd (the toInternal methods): an internal setting is
// filled from the configuration field of the same name or through a confirmed
// renaming.
func cmdConversions(c *an.Ctx, rule string, fields func(dst, src string) bool, min int) {
	sharedCodecNames(c, rule, func(fn *ssa.Function) bool {
		k := an.FnKey(fn)
		return strings.HasPrefix(k, "cmd.") && strings.Contains(fn.Name(), "toInternal")
	}, fields, cmdRenamings, min)
}

var cmdRenamings = map[string]string{
	"websvc.BlockPageServerConfig.ContentFilePath <- cmd.blockPageServer.BlockPage":                                 "the block page's file",
	"dnssvc.CacheConfig.ECSCount <- cmd.cacheConfig.ECSSize":                                                        "size in entries",
	"dnssvc.CacheConfig.MinTTL <- cmd.ttlOverride.Min":                                                              "the override's minimum",
	"dnssvc.CacheConfig.NoECSCount <- cmd.cacheConfig.Size":                                                         "the plain size is the non-ECS cache's",
	"dnssvc.CacheConfig.OverrideCacheTTL <- cmd.ttlOverride.Enabled":                                                "the override's switch",
	"filter.ConfigParental.AdultBlockingEnabled <- cmd.fltGrpParental.BlockAdult":                                   "configuration spelling",
	"filter.ConfigParental.SafeSearchGeneralEnabled <- cmd.fltGrpParental.GeneralSafeSearch":                        "configuration spelling",
	"filter.ConfigParental.SafeSearchYouTubeEnabled <- cmd.fltGrpParental.YoutubeSafeSearch":                        "configuration spelling",
	"filter.ConfigSafeBrowsing.DangerousDomainsEnabled <- cmd.fltGrpSafeBrowsing.BlockDangerousDomains":             "configuration spelling",
	"filter.ConfigSafeBrowsing.NewlyRegisteredDomainsEnabled <- cmd.fltGrpSafeBrowsing.BlockNewlyRegisteredDomains": "configuration spelling",
	"dnsserver/ratelimit.BackoffConfig.Count <- cmd.rateLimitConfig.BackoffCount":                                   "the limiter's own prefix dropped",
	"dnsserver/ratelimit.BackoffConfig.Duration <- cmd.rateLimitConfig.BackoffDuration":                             "the limiter's own prefix dropped",
	"dnsserver/ratelimit.BackoffConfig.Period <- cmd.rateLimitConfig.BackoffPeriod":                                 "the limiter's own prefix dropped",
	"dnsserver/ratelimit.BackoffConfig.IPv4Count <- cmd.rateLimitOptions.Count":                                     "per-family options (which family: C09-R6)",
	"dnsserver/ratelimit.BackoffConfig.IPv4Interval <- cmd.rateLimitOptions.Interval":                               "per-family options (which family: C09-R6)",
	"dnsserver/ratelimit.BackoffConfig.IPv4SubnetKeyLen <- cmd.rateLimitOptions.SubnetKeyLen":                       "per-family options (which family: C09-R6)",
	"dnsserver/ratelimit.BackoffConfig.IPv6Count <- cmd.rateLimitOptions.Count":                                     "per-family options (which family: C09-R6)",
	"dnsserver/ratelimit.BackoffConfig.IPv6Interval <- cmd.rateLimitOptions.Interval":                               "per-family options (which family: C09-R6)",
	"dnsserver/ratelimit.BackoffConfig.IPv6SubnetKeyLen <- cmd.rateLimitOptions.SubnetKeyLen":                       "per-family options (which family: C09-R6)",
	"dnsserver/forward.HandlerConfig.FallbackAddresses <- cmd.upstreamFallbackConfig.Servers":                       "the fallback section's servers (which section: C17-R5)",
	"dnsserver/forward.HandlerConfig.UpstreamsAddresses <- cmd.upstreamConfig.Servers":                              "the main section's servers (which section: C17-R5)",
	"dnsserver/forward.HandlerConfig.HealthcheckBackoffDuration <- cmd.upstreamHealthcheckConfig.BackoffDuration":   "the health-check section's setting",
	"dnsserver/forward.HandlerConfig.HealthcheckDomainTmpl <- cmd.upstreamHealthcheckConfig.DomainTmpl":             "the health-check section's setting",
	"agd.QUICConfig.QUICLimitsEnabled <- cmd.ratelimitQUICConfig.Enabled":                                           "the QUIC section's switch (which section: C20-R5)",
	"agd.TCPConfig.IdleTimeout <- cmd.dnsConfig.TCPIdleTimeout":                                                     "per-protocol structure drops the prefix",
	"agd.TCPConfig.MaxPipelineEnabled <- cmd.ratelimitTCPConfig.Enabled":                                            "the TCP section's switch (which section: C20-R5, C18-R6)",
}

// sharedSortedSearch is the precondition rule for binary searches: a binary
// search over a slice returns garbage unless the slice is kept sorted by the
// same order.  For every slices.BinarySearch* / sort.Search* call in the given
// packages the rule looks for the ordering discipline of the searched slice:
// (a) the sorted-insert idiom (the function stores slices.Insert(s, i, x) back
// into the searched location with i the search's own result), or (b) a sort
// call (slices.Sort*, sort.Slice*, sort.Sort/Stable) over a value of the
// searched slice's type somewhere in the searched slice's package.  It returns
// the number of searches examined.
func sharedSortedSearch(c *an.Ctx, rule string, prefixes ...string) (examined int) {
	isSearch := func(n string) bool {
		return strings.HasPrefix(n, "slices.BinarySearch") || n == "sort.Search" || n == "sort.Find" || strings.HasPrefix(n, "sort.Search")
	}
	isSort := func(n string) bool {
		return strings.HasPrefix(n, "slices.Sort") || strings.HasPrefix(n, "sort.Slice") || n == "sort.Sort" || n == "sort.Stable" ||
			n == "sort.Strings" || n == "sort.Ints" || strings.HasPrefix(n, "slices.Sorted")
	}
	base := func(n string) string { // drop the instantiation suffix of a generic
		if i := strings.Index(n, "["); i >= 0 {
			return n[:i]
		}
		return n
	}
	for _, fn := range c.AllFns {
		if fn.Blocks == nil || c.IsTestFile(fn.Pos()) {
			continue
		}
		k := an.FnKey(fn)
		in := false
		for _, p := range prefixes {
			if strings.HasPrefix(k, p) {
				in = true
			}
		}
		if !in {
			continue
		}
		for _, call := range an.Calls(fn) {
			n := base(an.CalleeName(call))
			if !isSearch(n) || len(call.Common().Args) == 0 {
				continue
			}
			cv, ok := call.(*ssa.Call)
			if !ok {
				continue
			}
			examined++
			c.Analysed(k)
			searched := call.Common().Args[0]
			key := fmt.Sprintf("%s binary search over %s", k, types.TypeString(searched.Type(), func(p *types.Package) string { return p.Name() }))
			// (a) sorted insert
			okIdiom := false
			sp, hasPath := an.AccessPath(searched)
			for _, other := range an.Calls(fn) {
				if base(an.CalleeName(other)) != "slices.Insert" || len(other.Common().Args) < 2 {
					continue
				}
				ip, ok2 := an.AccessPath(other.Common().Args[0])
				idxFromSearch := false
				if ex, isEx := other.Common().Args[1].(*ssa.Extract); isEx && ex.Tuple == ssa.Value(cv) && ex.Index == 0 {
					idxFromSearch = true
				}
				if hasPath && ok2 && ip == sp && idxFromSearch {
					if ov, isV := other.(*ssa.Call); isV && ov.Referrers() != nil {
						for _, r := range *ov.Referrers() {
							if st, isSt := r.(*ssa.Store); isSt {
								if dp, ok3 := an.AccessPath(st.Addr); ok3 && dp == sp {
									okIdiom = true
								}
							}
						}
					}
				}
			}
			if okIdiom {
				c.Ok(rule, key, call.Pos(), "the slice is maintained by sorted insertion at the index this search returns")
				continue
			}
			// (b) a sort over the same slice type in the package
			sorted := false
			for _, g := range c.AllFns {
				if g.Blocks == nil || g.Pkg != fn.Pkg || c.IsTestFile(g.Pos()) {
					continue
				}
				for _, sc := range an.Calls(g) {
					if !isSort(base(an.CalleeName(sc))) || len(sc.Common().Args) == 0 {
						continue
					}
					at := sc.Common().Args[0].Type()
					if mi, isMI := sc.Common().Args[0].(*ssa.MakeInterface); isMI {
						at = mi.X.Type()
					}
					if types.Identical(at, searched.Type()) {
						sorted = true
					}
				}
			}
			c.Check(sorted, rule, key, call.Pos(),
				"slices of this type are sorted in the package that searches them",
				"binary search over a slice that nothing keeps sorted: neither a sorted insertion at this search's index nor any sort of a "+
					searched.Type().String()+" exists in the package, so the search misses elements that are present")
		}
	}
	return examined
}

// sharedParamsUsed is the forwarding rule for thin wrappers: every named
// parameter of every function or method of the given packages is used by its
// body (a wrapper that drops a parameter -- an expiration, a key, a context
// value -- silently changes the behaviour of the wrapped component).  Methods
// of the types listed in exempt (no-op implementations) are skipped.  It
// returns the number of parameters examined.
func sharedParamsUsed(c *an.Ctx, rule string, exempt map[string]string, prefixes ...string) (examined int) {
	for _, fn := range c.AllFns {
		if fn.Blocks == nil || (fn.Synthetic != "" && fn.Origin() == nil) || c.IsTestFile(fn.Pos()) || fn.Parent() != nil {
			continue
		}
		k := an.FnKey(fn)
		if o := fn.Origin(); o != nil {
			// an instantiation of a generic function: reported under the generic's name
			k = an.FnKey(o)
		}
		in := false
		for _, p := range prefixes {
			if strings.HasPrefix(k, p) {
				in = true
			}
		}
		if !in {
			continue
		}
		skip := false
		for e := range exempt {
			if strings.Contains(k, e) {
				skip = true
			}
		}
		if skip {
			continue
		}
		c.Analysed(k)
		for i, pa := range fn.Params {
			if pa.Name() == "_" || pa.Name() == "" || (i == 0 && fn.Signature.Recv() != nil) {
				continue
			}
			examined++
			used := pa.Referrers() != nil && len(*pa.Referrers()) > 0
			if !used {
				c.Bad(rule, k+" uses parameter "+pa.Name(), fn.Pos(), "parameter %s is ignored by the body: the caller's value never reaches the wrapped component", pa.Name())
			}
		}
	}
	return examined
}

// sharedCloneComplete is the completeness rule for clone methods: a method
// named Clone* with receiver type T that builds a new T field by field must set
// every field of T (a field left out is the zero value in every clone: a rule
// text that is not logged, a limit that is lifted).  A whole-struct copy
// (*dst = *src) sets all fields at once.  allowed names the fields a clone
// leaves out on purpose ("<fn> <T>.<field>" -> reason).  Returns the number of
// clone methods examined.
func sharedCloneComplete(c *an.Ctx, rule string, allowed map[string]string, prefixes ...string) (examined int) {
	for _, fn := range c.AllFns {
		if fn.Blocks == nil || c.IsTestFile(fn.Pos()) || fn.Signature.Recv() == nil || fn.Parent() != nil || (fn.Synthetic != "" && fn.Origin() == nil) {
			continue
		}
		if !strings.HasPrefix(fn.Name(), "Clone") && !strings.HasPrefix(fn.Name(), "clone") {
			continue
		}
		k := an.FnKey(fn)
		in := false
		for _, p := range prefixes {
			if strings.HasPrefix(k, p) {
				in = true
			}
		}
		if !in || strings.Contains(c.Pos(fn.Pos()), ".pb.go:") {
			continue
		}
		recvT := an.TypeName(fn.Signature.Recv().Type())
		if recvT == "" {
			continue
		}
		an.Instrs(fn, func(in ssa.Instruction) {
			al, ok := in.(*ssa.Alloc)
			if !ok || an.TypeName(al.Type()) != recvT || al.Referrers() == nil {
				return
			}
			st, ok := an.Deref(al.Type()).Underlying().(*types.Struct)
			if !ok {
				return
			}
			set := map[string]bool{}
			whole := false
			n := 0
			for _, r := range *al.Referrers() {
				switch x := r.(type) {
				case *ssa.Store:
					if x.Addr == ssa.Value(al) {
						whole = true
					}
				case *ssa.FieldAddr:
					if x.Referrers() == nil {
						continue
					}
					for _, rr := range *x.Referrers() {
						if s, ok := rr.(*ssa.Store); ok && s.Addr == ssa.Value(x) {
							set[st.Field(x.Field).Name()] = true
							n++
						}
					}
				}
			}
			if n == 0 && !whole {
				return
			}
			examined++
			c.Analysed(k)
			var missing []string
			if !whole {
				for i := 0; i < st.NumFields(); i++ {
					f := st.Field(i).Name()
					if !set[f] && allowed[k+" "+recvT+"."+f] == "" && f != "_" && !strings.HasPrefix(f, "noCopy") {
						missing = append(missing, f)
					}
				}
			}
			c.Check(len(missing) == 0, rule, k+" copies every field of "+recvT, al.Pos(),
				"the clone sets every field", "the clone leaves out "+strings.Join(missing, ", ")+": every clone has the zero value there")
		})
	}
	return examined
}

// sharedNoLoopCarried is the per-element independence rule for conversion
// loops: an object built inside a loop body for the current element must not
// take a slice that is accumulated across iterations (a slice-typed φ of the
// loop header that grows by append): every later object would then also carry
// the contributions of all earlier elements.  Returns the number of loops with
// an accumulator examined.
func sharedNoLoopCarried(c *an.Ctx, rule string, prefixes ...string) (examined int) {
	for _, fn := range c.AllFns {
		if fn.Blocks == nil || c.IsTestFile(fn.Pos()) {
			continue
		}
		k := an.FnKey(fn)
		in := false
		for _, p := range prefixes {
			if strings.HasPrefix(k, p) {
				in = true
			}
		}
		if !in || strings.Contains(c.Pos(fn.Pos()), ".pb.go:") {
			continue
		}
		for _, l := range naturalLoops(fn) {
			// accumulators: slice-typed φ-nodes of the header fed by an append of themselves
			var accs []*ssa.Phi
			for _, ins := range l.header.Instrs {
				phi, ok := ins.(*ssa.Phi)
				if !ok {
					break
				}
				if _, isSl := phi.Type().Underlying().(*types.Slice); !isSl {
					continue
				}
				accs = append(accs, phi)
			}
			if len(accs) == 0 {
				continue
			}
			examined++
			derives := func(v ssa.Value, phi *ssa.Phi) bool {
				seen := map[ssa.Value]bool{}
				var walk func(v ssa.Value, d int) bool
				walk = func(v ssa.Value, d int) bool {
					if v == nil || seen[v] || d > 12 {
						return false
					}
					seen[v] = true
					if v == ssa.Value(phi) {
						return true
					}
					switch x := v.(type) {
					case *ssa.Phi:
						for _, e := range x.Edges {
							if walk(e, d+1) {
								return true
							}
						}
					case *ssa.Call:
						if b, ok := x.Call.Value.(*ssa.Builtin); ok && b.Name() == "append" {
							return walk(x.Call.Args[0], d+1)
						}
						if n := an.CalleeName(x); strings.HasPrefix(n, "slices.Clip") || strings.HasPrefix(n, "slices.Concat") {
							for _, a := range x.Call.Args {
								if walk(a, d+1) {
									return true
								}
							}
						}
						// a repository converter or constructor that is handed the slice keeps it in its result
						if cal := an.StaticCallee(x); cal != nil && cal.Pkg != nil && strings.Contains(cal.Pkg.Pkg.Path(), "AdGuardDNS") &&
							(isConverterName(cal.Name()) || strings.HasPrefix(cal.Name(), "New") || strings.HasPrefix(cal.Name(), "new")) {
							for _, a := range x.Call.Args {
								if _, isSl := a.Type().Underlying().(*types.Slice); isSl && walk(a, d+1) {
									return true
								}
							}
						}
					case *ssa.UnOp:
						// the object a fresh inner literal was stored into: look at what was stored in its slice fields
						if x.Op == token.MUL {
							return walk(x.X, d+1)
						}
					case *ssa.Alloc:
						if x.Referrers() != nil {
							for _, r := range *x.Referrers() {
								if fa, ok := r.(*ssa.FieldAddr); ok && fa.Referrers() != nil {
									for _, rr := range *fa.Referrers() {
										if st2, ok := rr.(*ssa.Store); ok && st2.Addr == ssa.Value(fa) {
											if _, isSl := st2.Val.Type().Underlying().(*types.Slice); isSl && walk(st2.Val, d+1) {
												return true
											}
										}
									}
								}
							}
						}
					case *ssa.Slice:
						return walk(x.X, d+1)
					case *ssa.ChangeType:
						return walk(x.X, d+1)
					case *ssa.Convert:
						return walk(x.X, d+1)
					}
					return false
				}
				return walk(v, 0)
			}
			for b := range l.blocks {
				for _, ins := range b.Instrs {
					st, ok := ins.(*ssa.Store)
					if !ok {
						continue
					}
					fa, ok := st.Addr.(*ssa.FieldAddr)
					if !ok {
						continue
					}
					al, ok := fa.X.(*ssa.Alloc)
					if !ok || !l.blocks[al.Block()] {
						continue
					}
					for _, phi := range accs {
						if derives(st.Val, phi) {
							_, f, _, _ := an.FieldOf(fa)
							c.Analysed(k)
							c.Bad(rule, fmt.Sprintf("%s loop over %s: field %s of the per-element %s", k, loopSubject(l), f, an.TypeName(al.Type())), st.Pos(),
								"the object built for one element takes a slice accumulated over the previous iterations (%s): every later element also carries the earlier elements' entries", phi.Comment)
						}
					}
				}
			}
		}
	}
	return examined
}

// sharedValidatedConversions is the rule for unchecked conversions to
// validated identifier types: a plain conversion T(s.f) of a string field into
// an identifier type T whose package has a validating constructor (newName,
// e.g. filter.NewID for filter.ID) is only sound if the same field is handed to
// that constructor somewhere in the package (the "validate" step the
// conversion's comment relies on).  Returns the number of conversions examined.
func sharedValidatedConversions(c *an.Ctx, rule, typeName, ctorSuffix string, prefixes ...string) (examined int) {
	inPkgs := func(fn *ssa.Function) bool {
		k := an.FnKey(fn)
		for _, p := range prefixes {
			if strings.HasPrefix(k, p) {
				return true
			}
		}
		return false
	}
	// the fields that reach the validating constructor
	validated := map[string]bool{}
	for _, fn := range c.AllFns {
		if fn.Blocks == nil || c.IsTestFile(fn.Pos()) || !inPkgs(fn) {
			continue
		}
		for _, call := range an.Calls(fn) {
			if !strings.HasSuffix(an.CalleeName(call), ctorSuffix) || len(call.Common().Args) == 0 {
				continue
			}
			if cv, ok := call.(*ssa.Call); ok {
				// the constructor's result or error must be looked at
				if cv.Referrers() == nil || len(*cv.Referrers()) == 0 {
					continue
				}
			}
			if t, f, ok := fieldSource(call.Common().Args[0], 0); ok {
				validated[t+"."+f] = true
			}
		}
	}
	for _, fn := range c.AllFns {
		if fn.Blocks == nil || c.IsTestFile(fn.Pos()) || !inPkgs(fn) {
			continue
		}
		k := an.FnKey(fn)
		an.Instrs(fn, func(in ssa.Instruction) {
			var x ssa.Value
			var to types.Type
			switch cv := in.(type) {
			case *ssa.ChangeType:
				x, to = cv.X, cv.Type()
			case *ssa.Convert:
				x, to = cv.X, cv.Type()
			default:
				return
			}
			if an.TypeName(to) != typeName {
				return
			}
			if b, ok := x.Type().Underlying().(*types.Basic); !ok || b.Kind() != types.String || an.TypeName(x.Type()) != "" {
				return
			}
			t, f, ok := fieldSource(x, 0)
			if !ok {
				return
			}
			examined++
			c.Analysed(k)
			c.Check(validated[t+"."+f], rule, fmt.Sprintf("%s converts %s.%s to %s", k, t, f, typeName), in.Pos(),
				"the field is checked by "+strings.TrimPrefix(ctorSuffix, ".")+" in the same package",
				fmt.Sprintf("%s.%s is converted to %s without validation: nothing in the package hands it to %s (an identifier with a path separator or of any length is accepted)", t, f, typeName, strings.TrimPrefix(ctorSuffix, ".")))
		})
	}
	return examined
}

// sharedInitialRefresh is the start-up rule for refreshable components: a
// component that offers RefreshInitial (load whatever is cached, even if stale,
// and only download what is missing) must be started through it; calling its
// periodic Refresh directly from package cmd makes the start depend on the
// network and on every upstream document being valid.  Returns the number of
// RefreshInitial calls found.
func sharedInitialRefresh(c *an.Ctx, rule string) (initials int) {
	for _, fn := range c.AllFns {
		if fn.Blocks == nil || c.IsTestFile(fn.Pos()) || !strings.HasPrefix(an.FnKey(fn), "cmd.") {
			continue
		}
		k := an.FnKey(fn)
		for _, call := range an.Calls(fn) {
			callee := an.StaticCallee(call)
			if callee == nil || callee.Signature.Recv() == nil {
				continue
			}
			switch callee.Name() {
			case "RefreshInitial":
				initials++
				c.Analysed(k)
				c.Ok(rule, k+" starts "+an.TypeName(callee.Signature.Recv().Type())+" with RefreshInitial", call.Pos(), "initial load through RefreshInitial")
			case "Refresh":
				recv := callee.Signature.Recv().Type()
				ms := c.Prog.SSA.MethodSets.MethodSet(recv)
				hasInitial := false
				for i := 0; i < ms.Len(); i++ {
					if ms.At(i).Obj().Name() == "RefreshInitial" {
						hasInitial = true
					}
				}
				if hasInitial {
					c.Analysed(k)
					c.Bad(rule, k+" starts "+an.TypeName(recv)+" with RefreshInitial", call.Pos(),
						"%s has RefreshInitial (use what is cached, even stale) but is started with its periodic Refresh: the first start after a restart needs the network and a fully valid index", an.TypeName(recv))
				}
			}
		}
	}
	return initials
}

// refreshWorkerRules checks the periodic worker that drives every refresher
// (rule-list storage, hash-prefix filters, profile database, billing upload,
// GeoIP, allowlist): the loop ends only through the shutdown channel (never
// because a refresh failed or a tick was skipped), every tick that is not
// interrupted by shutdown calls the refresher, the refresher's error is not
// used to leave the loop, the shutdown refresh happens exactly when requested
// and before the loop is told to stop, and the constructor takes every setting
// from its own configuration field.
func refreshWorkerRules(c *an.Ctx, rule string) {
	const w = "agdservice.(*RefreshWorker)."
	// ---- the loop
	if fn := c.Fn(w + "refreshInALoop"); fn == nil {
		c.Und(rule, w+"refreshInALoop", token.NoPos, "anchor not found")
	} else {
		c.Analysed(w + "refreshInALoop")
		key := w + "refreshInALoop ends only on shutdown"
		var sel *ssa.Select
		an.Instrs(fn, func(in ssa.Instruction) {
			if s, ok := in.(*ssa.Select); ok {
				sel = s
			}
		})
		loops := naturalLoops(fn)
		switch {
		case sel == nil || len(loops) == 0:
			c.Und(rule, key, fn.Pos(), "no select inside a loop found")
		default:
			inLoop := false
			for _, l := range loops {
				if l.blocks[sel.Block()] {
					inLoop = true
				}
			}
			// which select state receives from the done channel
			doneState := -1
			for i, st := range sel.States {
				if ap, ok := an.AccessPath(st.Chan); ok && strings.HasSuffix(ap, ".done") {
					doneState = i
				}
			}
			bad := ""
			if !inLoop || doneState < 0 || !sel.Blocking {
				bad = "the select is not a blocking wait on the shutdown channel inside the loop"
			}
			// every return is dominated by "index == doneState"
			for _, r := range an.Returns(fn) {
				ok := r.Block() == fn.Recover // the exit taken after a recovered panic
				for _, e := range an.DominatingConds(r.Block()) {
					if bo, isBo := e.If.Cond.(*ssa.BinOp); isBo && bo.Op == token.EQL && e.Branch {
						if ex, isEx := bo.X.(*ssa.Extract); isEx && ex.Tuple == ssa.Value(sel) && ex.Index == 0 {
							if k, isK := an.ConstInt(bo.Y); isK && int(k) == doneState {
								ok = true
							}
						}
					}
				}
				if !ok {
					bad = "the loop can be left on a path other than the shutdown case"
				}
			}
			// the refresh is reached from the tick case
			var refreshes []ssa.CallInstruction
			for _, call := range an.Calls(fn) {
				if strings.HasSuffix(an.CalleeName(call), "agdservice.RefreshWorker).refresh") {
					refreshes = append(refreshes, call)
				}
			}
			if len(refreshes) == 0 {
				bad = "the tick case does not call refresh"
			}
			for _, call := range refreshes {
				inL := false
				for _, l := range loops {
					if l.blocks[call.Block()] {
						inL = true
					}
				}
				if !inL {
					bad = "refresh is called outside the loop"
				}
				// one refresh at a time: the refreshers (billing upload and its re-merge, profile sync) assume that their
				// periodic runs do not overlap
				if _, isGo := call.(*ssa.Go); isGo {
					bad = "refresh is started in a goroutine of its own, so a slow refresh overlaps the next one (two failed billing uploads are then merged back in the wrong order)"
				}
				// the only condition between the tick and the refresh is sleepRandom's verdict
				for _, e := range an.DominatingConds(call.Block()) {
					switch cond := e.If.Cond.(type) {
					case *ssa.BinOp:
						if ex, isEx := cond.X.(*ssa.Extract); isEx && ex.Tuple == ssa.Value(sel) {
							continue
						}
						bad = "refresh is skipped on a condition other than the interrupted start sleep"
					case *ssa.Call:
						if !strings.HasSuffix(an.CalleeName(cond), ").sleepRandom") || !e.Branch {
							bad = "refresh is skipped on a condition other than the interrupted start sleep"
						}
					default:
						bad = "refresh is skipped on a condition other than the interrupted start sleep"
					}
				}
			}
			c.Check(bad == "", rule, key, fn.Pos(), "the periodic loop only ends on shutdown and refreshes on every uninterrupted tick", bad)
		}
	}
	// ---- one refresh: the error is dropped, not acted upon
	if fn := c.Fn(w + "refresh"); fn == nil {
		c.Und(rule, w+"refresh", token.NoPos, "anchor not found")
	} else {
		c.Analysed(w + "refresh")
		n := 0
		bad := ""
		for _, call := range an.Calls(fn) {
			if call.Common().IsInvoke() && call.Common().Method.Name() == "Refresh" {
				n++
				if ap, _ := an.AccessPath(call.Common().Value); !strings.HasSuffix(ap, ".refr") {
					bad = "refreshes " + ap + " instead of the configured refresher"
				}
				if v := call.Value(); v != nil && v.Referrers() != nil {
					for _, r := range *v.Referrers() {
						switch r.(type) {
						case *ssa.If, *ssa.Panic:
							bad = "the refresher's error decides control flow"
						}
					}
				}
			}
			if _, isPanic := call.(*ssa.Go); isPanic {
				bad = "the refresh is started asynchronously (overlapping refreshes)"
			}
		}
		for _, b := range fn.Blocks {
			if _, ok := b.Instrs[len(b.Instrs)-1].(*ssa.Panic); ok && b.Comment != "recover" {
				bad = "a failed refresh panics"
			}
		}
		c.Check(n == 1 && bad == "", rule, w+"refresh calls the refresher once and survives its error", fn.Pos(),
			"one synchronous Refresh of the configured refresher; its error does not affect the worker", fmt.Sprintf("%d Refresh calls; %s", n, bad))
	}
	// ---- shutdown
	decide(c, rule, w+"Shutdown", an.DecideCfg{
		Dom: an.Domain{"p0.refrOnShutdown": an.Bools, "referr": an.Bools},
		OnCall: func(it *an.Interp, name string, args []an.AV) (an.AV, bool) {
			switch {
			case name == "p0.refr.Refresh":
				if it.Feature("referr").IsTrue() {
					return an.NonNil("refErr"), true
				}
				return an.Nil(), true
			case name == "fmt.Errorf":
				return an.NonNil("wrapped"), true
			case strings.HasSuffix(name, "slogutil.ContextWithLogger"):
				return args[0], true
			}
			return an.AV{}, false
		},
		Expect: func(f an.Features, o an.AOutcome) string {
			ri, ci, ti := -1, -1, -1
			for i, e := range o.Effects {
				if e.Kind != "call" {
					continue
				}
				switch {
				case e.Name == "p0.refr.Refresh":
					ri = i
				case e.Name == "builtin.close" && len(e.Args) == 1 && strings.HasSuffix(e.Args[0], "p0.done"):
					ci = i
				case strings.HasSuffix(e.Name, "time.Ticker).Stop"):
					ti = i
				}
			}
			if ci < 0 || ti < 0 {
				return "the loop is told to stop (close(done)) and the ticker stopped on every path"
			}
			if f.B("p0.refrOnShutdown") != (ri >= 0) {
				return "a final refresh exactly when RefreshOnShutdown is set"
			}
			if ri >= 0 && ri > ci {
				return "the final refresh before the worker is stopped"
			}
			wantErr := f.B("p0.refrOnShutdown") && f.B("referr")
			if len(o.Ret) != 1 || wantErr != (o.Ret[0].Kind != an.KNil) {
				return fmt.Sprintf("error returned=%v; got %s", wantErr, o.RetString())
			}
			return ""
		},
	})
	checkFieldMap(c, rule, "agdservice.NewRefreshWorker", "agdservice.RefreshWorker", map[string]string{
		"logger": ".Logger", "context": ".Context", "refr": ".Refresher", "refrOnShutdown": ".RefreshOnShutdown"})
	// the wrapper that reports errors still returns them and refreshes the wrapped refresher
	decide(c, rule, "agdservice.(*RefresherWithErrColl).Refresh", an.DecideCfg{
		Dom: an.Domain{"referr": an.Bools},
		OnCall: func(it *an.Interp, name string, args []an.AV) (an.AV, bool) {
			switch {
			case name == "p0.refr.Refresh":
				if args[0].String() != "p1" {
					return an.Sym("refresh with another context"), true
				}
				if it.Feature("referr").IsTrue() {
					return an.NonNil("refErr"), true
				}
				return an.Nil(), true
			case strings.HasSuffix(name, "errcoll.Collect"):
				return an.Nil(), true
			}
			return an.AV{}, false
		},
		Expect: func(f an.Features, o an.AOutcome) string {
			if !o.HasCall("p0.refr.Refresh") {
				return "the wrapped refresher is refreshed"
			}
			if f.B("referr") != o.HasCall("errcoll.Collect") {
				return "the error is reported exactly when there is one"
			}
			want := "nil"
			if f.B("referr") {
				want = "nonnil:refErr"
			}
			if o.RetString() != want {
				return "the refresher's own error is returned; got " + o.RetString()
			}
			return ""
		},
	})
}

// sharedReplaceNotAccumulate is the rule for setters that replace a list: in a
// method named Update*/Set*/Reset*/Replace* of the given packages, a slice
// field of the receiver must not be stored as append(<the same field>, ...)
// unless the old contents are cut off first (field[:0]); such a store keeps
// every entry of every earlier call (an allowlist that only grows, a rule set
// that never forgets).  Returns the number of slice-field stores examined.
func sharedReplaceNotAccumulate(c *an.Ctx, rule string, prefixes ...string) (examined int) {
	for _, fn := range c.AllFns {
		if fn.Blocks == nil || c.IsTestFile(fn.Pos()) || fn.Signature.Recv() == nil || fn.Parent() != nil {
			continue
		}
		k := an.FnKey(fn)
		in := false
		for _, p := range prefixes {
			if strings.HasPrefix(k, p) {
				in = true
			}
		}
		name := fn.Name()
		if !in || !(strings.HasPrefix(name, "Update") || strings.HasPrefix(name, "Set") || strings.HasPrefix(name, "Reset") || strings.HasPrefix(name, "Replace") ||
			strings.HasPrefix(name, "update") || strings.HasPrefix(name, "set") || strings.HasPrefix(name, "reset") || strings.HasPrefix(name, "replace")) {
			continue
		}
		an.Instrs(fn, func(in ssa.Instruction) {
			st, ok := in.(*ssa.Store)
			if !ok {
				return
			}
			if _, isSl := st.Val.Type().Underlying().(*types.Slice); !isSl {
				return
			}
			typ, field, base, ok := an.FieldOf(st.Addr)
			if !ok {
				return
			}
			if bp, _ := an.AccessPath(base); bp != "p0" {
				return
			}
			examined++
			c.Analysed(k)
			// does the stored value grow the old contents of the same field?
			grows := false
			seen := map[ssa.Value]bool{}
			var walk func(v ssa.Value, cut bool)
			walk = func(v ssa.Value, cut bool) {
				if v == nil || seen[v] {
					return
				}
				seen[v] = true
				switch x := v.(type) {
				case *ssa.Call:
					if b, isB := x.Call.Value.(*ssa.Builtin); isB && b.Name() == "append" {
						walk(x.Call.Args[0], cut)
					}
				case *ssa.Phi:
					for _, e := range x.Edges {
						walk(e, cut)
					}
				case *ssa.Slice:
					if hk, isK := an.ConstInt(x.High); isK && hk == 0 {
						cut = true
					}
					walk(x.X, cut)
				case *ssa.UnOp:
					if x.Op == token.MUL {
						if t2, f2, b2, ok2 := an.FieldOf(x.X); ok2 && t2 == typ && f2 == field {
							if bp2, _ := an.AccessPath(b2); bp2 == "p0" && !cut {
								grows = true
							}
						}
					}
				}
			}
			if call, isCall := st.Val.(*ssa.Call); isCall {
				if b, isB := call.Call.Value.(*ssa.Builtin); isB && b.Name() == "append" {
					walk(call, false)
				}
			}
			c.Check(!grows, rule, fmt.Sprintf("%s replaces %s.%s", k, typ, field), st.Pos(),
				"the setter stores a new list (or re-uses the buffer after cutting it to length 0)",
				fmt.Sprintf("%s appends to the previous contents of %s.%s: entries removed by a later update stay in effect for the life of the process", name, typ, field))
		})
	}
	return examined
}

// sharedNilOnlyAbsent is the rule for codecs of optional sub-messages: a
// converter of the given packages that takes a pointer and returns a pointer
// may return nil only because its input is nil.  A nil returned on any other
// condition ("nothing to store", "disabled") silently drops settings on the
// way to or from the file cache.  Returns the number of nil returns examined.
func sharedNilOnlyAbsent(c *an.Ctx, rule string, allowed map[string]string, prefixes ...string) (examined int) {
	for _, fn := range c.AllFns {
		if fn.Blocks == nil || c.IsTestFile(fn.Pos()) || fn.Parent() != nil || strings.Contains(c.Pos(fn.Pos()), ".pb.go:") {
			continue
		}
		k := an.FnKey(fn)
		in := false
		for _, p := range prefixes {
			if strings.HasPrefix(k, p) {
				in = true
			}
		}
		if !in || !isConverterName(fn.Name()) || len(fn.Params) == 0 {
			continue
		}
		if _, isPtr := fn.Params[0].Type().Underlying().(*types.Pointer); !isPtr {
			continue
		}
		res := fn.Signature.Results()
		if res.Len() == 0 {
			continue
		}
		if _, isPtr := res.At(0).Type().Underlying().(*types.Pointer); !isPtr {
			continue
		}
		for _, r := range an.Returns(fn) {
			if len(r.Results) == 0 || !an.IsNilConst(r.Results[0]) {
				continue
			}
			// an error return (nil, ..., err) is not "absent"
			if n := len(r.Results); n >= 2 && !an.IsNilConst(r.Results[n-1]) && types.Identical(res.At(n-1).Type(), types.Universe.Lookup("error").Type()) {
				continue
			}
			examined++
			c.Analysed(k)
			bad := ""
			for _, p := range r.Block().Preds {
				ifi, ok := p.Instrs[len(p.Instrs)-1].(*ssa.If)
				if !ok {
					bad = "an unconditional path"
					continue
				}
				bo, ok := ifi.Cond.(*ssa.BinOp)
				onTrue := p.Succs[0] == r.Block()
				// a confirmed second reason: "<fn>" -> "<access path of the flag>=<value on which nil is returned>"
				if want := allowed[k]; want != "" {
					if ap, okp := an.AccessPath(ifi.Cond); okp && want == fmt.Sprintf("%s=%v", ap, onTrue) {
						continue
					}
				}
				if !ok || !(bo.Op == token.EQL && onTrue || bo.Op == token.NEQ && !onTrue) ||
					!(bo.X == ssa.Value(fn.Params[0]) && an.IsNilConst(bo.Y) || bo.Y == ssa.Value(fn.Params[0]) && an.IsNilConst(bo.X)) {
					bad = "a condition other than the input being nil (" + ifi.Cond.String() + ")"
				}
			}
			c.Check(bad == "", rule, k+" returns nil only for a nil input", r.Pos(),
				"nil is returned only when the input is nil", "nil is returned on "+bad+": present settings are dropped by the conversion")
		}
	}
	return examined
}

// sharedPoolNewFresh is the freshness rule for pool constructors: the function
// handed to syncutil.NewPool / sync.Pool.New must build every object (and every
// buffer it puts into it) anew; an object or buffer that comes from a variable
// captured by the closure (or from a package variable) is shared by all pooled
// objects, so two requests in flight write into the same memory.  Returns the
// number of constructors examined.
func sharedPoolNewFresh(c *an.Ctx, rule string, prefixes ...string) (examined int) {
	ctors := poolCtors(c)
	// sync.Pool{New: f}
	for _, fn := range c.AllFns {
		if fn.Blocks == nil || c.IsTestFile(fn.Pos()) {
			continue
		}
		an.Instrs(fn, func(in ssa.Instruction) {
			st, ok := in.(*ssa.Store)
			if !ok {
				return
			}
			if typ, field, _, ok := an.FieldOf(st.Addr); ok && typ == "sync.Pool" && field == "New" {
				switch a := st.Val.(type) {
				case *ssa.MakeClosure:
					if f, ok := a.Fn.(*ssa.Function); ok {
						ctors[f] = true
					}
				case *ssa.Function:
					ctors[a] = true
				}
			}
		})
	}
	isRef := func(t types.Type) bool {
		switch t.Underlying().(type) {
		case *types.Pointer, *types.Slice, *types.Map, *types.Chan:
			return true
		}
		return false
	}
	for fn := range ctors {
		if fn.Blocks == nil || c.IsTestFile(fn.Pos()) || !c.InRepo(fn) || !hasAnyPrefix(an.FnKey(fn), prefixes) {
			continue
		}
		examined++
		k := an.FnKey(fn)
		c.Analysed(k)
		bad := ""
		// a reference that reaches the returned object from outside the constructor
		var shared func(v ssa.Value, d int) string
		seen := map[ssa.Value]bool{}
		shared = func(v ssa.Value, d int) string {
			if v == nil || seen[v] || d > 10 {
				return ""
			}
			seen[v] = true
			switch x := v.(type) {
			case *ssa.FreeVar:
				if isRef(x.Type()) {
					// a captured variable cell: what matters is what it holds
					if p, ok := x.Type().Underlying().(*types.Pointer); ok && !isRef(p.Elem()) {
						if _, isStruct := p.Elem().Underlying().(*types.Struct); !isStruct {
							return ""
						}
					}
					return "the captured variable " + x.Name()
				}
			case *ssa.Global:
				return "the package variable " + x.Name()
			case *ssa.UnOp:
				if x.Op == token.MUL {
					if fv, ok := x.X.(*ssa.FreeVar); ok && isRef(x.Type()) {
						return "the captured variable " + fv.Name()
					}
					if g, ok := x.X.(*ssa.Global); ok && isRef(x.Type()) {
						return "the package variable " + g.Name()
					}
				}
			case *ssa.Call:
				// a constructor called with shared storage (bytes.NewBuffer(initBuf))
				for _, a := range x.Call.Args {
					if isRef(a.Type()) {
						if s := shared(a, d+1); s != "" {
							return s
						}
					}
				}
			case *ssa.MakeInterface:
				return shared(x.X, d+1)
			case *ssa.ChangeType:
				return shared(x.X, d+1)
			case *ssa.Slice:
				return shared(x.X, d+1)
			case *ssa.Phi:
				for _, e := range x.Edges {
					if s := shared(e, d+1); s != "" {
						return s
					}
				}
			case *ssa.Alloc:
				// a literal built here: look at the references stored into it
				if x.Referrers() != nil {
					for _, r := range *x.Referrers() {
						if fa, ok := r.(*ssa.FieldAddr); ok && fa.Referrers() != nil {
							for _, rr := range *fa.Referrers() {
								if st, ok := rr.(*ssa.Store); ok && st.Addr == ssa.Value(fa) && isRef(st.Val.Type()) {
									if s := shared(st.Val, d+1); s != "" {
										return s
									}
								}
							}
						}
					}
				}
			}
			return ""
		}
		for _, r := range an.Returns(fn) {
			for _, res := range r.Results {
				if s := shared(res, 0); s != "" {
					bad = s
				}
			}
		}
		c.Check(bad == "", rule, k+" builds a fresh object", fn.Pos(),
			"the pooled object and the references stored in it are created inside the constructor",
			"every object of this pool shares "+bad+": concurrent users of two pooled objects write into the same memory")
	}
	return examined
}

// sharedSwappedArgs is the argument-order rule: when a call passes, to two
// parameters of identical type, values whose own names (parameter, field or
// getter names) match the *other* parameter's name, the arguments are crossed.
// Names are compared after normalisation (case, underscores).  Returns the
// number of call sites with two or more same-typed named arguments examined.
func sharedSwappedArgs(c *an.Ctx, rule string, prefixes ...string) (examined int) {
	nameOf := func(v ssa.Value) string {
		switch x := v.(type) {
		case *ssa.Parameter:
			return x.Name()
		case *ssa.FreeVar:
			return x.Name()
		}
		if _, f, ok := fieldSource(v, 0); ok {
			return f
		}
		// the result of a getter (rw.LocalAddr()) is named by the getter
		if call, ok := v.(*ssa.Call); ok {
			com := call.Common()
			if com.IsInvoke() && len(com.Args) == 0 {
				return com.Method.Name()
			}
			if callee := an.StaticCallee(call); callee != nil && callee.Signature.Recv() != nil && len(com.Args) == 1 {
				return callee.Name()
			}
		}
		return ""
	}
	for _, fn := range c.AllFns {
		if fn.Blocks == nil || c.IsTestFile(fn.Pos()) || strings.Contains(c.Pos(fn.Pos()), ".pb.go:") {
			continue
		}
		k := an.FnKey(fn)
		in := false
		for _, p := range prefixes {
			if strings.HasPrefix(k, p) {
				in = true
			}
		}
		if !in {
			continue
		}
		for _, call := range an.Calls(fn) {
			callee := an.StaticCallee(call)
			if callee == nil || !c.InRepo(callee) || callee.Signature.Variadic() {
				continue
			}
			args := call.Common().Args
			params := callee.Params
			if len(args) != len(params) {
				continue
			}
			type na struct {
				i    int
				name string
			}
			var named []na
			for i, a := range args {
				if n := normName(nameOf(a)); n != "" && params[i].Name() != "" && params[i].Name() != "_" {
					named = append(named, na{i, n})
				}
			}
			if len(named) < 2 {
				continue
			}
			counted := false
			for x := 0; x < len(named); x++ {
				for y := x + 1; y < len(named); y++ {
					i, j := named[x].i, named[y].i
					if !types.Identical(params[i].Type(), params[j].Type()) {
						continue
					}
					if !counted {
						counted = true
						examined++
					}
					pi, pj := normName(params[i].Name()), normName(params[j].Name())
					if pi == pj {
						continue
					}
					// crossed, one-sided crossed, or one named value passed for both parameters although it is named
					// after one of them only (newSRV(..., orig.Priority, orig.Priority, ...))
					// an abbreviated parameter name stands for the full one (prio / priority)
					eq := func(a, b string) bool {
						return a == b || len(a) >= 3 && strings.HasPrefix(b, a) || len(b) >= 3 && strings.HasPrefix(a, b)
					}
					nx, ny := named[x].name, named[y].name
					twice := nx == ny && (eq(nx, pi) || eq(nx, pj)) && !(eq(nx, pi) && eq(nx, pj))
					if twice || eq(nx, pj) && eq(ny, pi) && !eq(nx, pi) || (eq(nx, pj) && !eq(nx, pi) && !eq(ny, pj)) || (eq(ny, pi) && !eq(ny, pj) && !eq(nx, pi)) {
						c.Analysed(k)
						c.Bad(rule, fmt.Sprintf("%s call of %s: arguments %d and %d", k, an.Short(an.FnKey(callee)), i, j), call.Pos(),
							"argument %q is passed as parameter %q while the callee has a parameter %q of the same type: the arguments are crossed",
							nameOf(args[i]), params[i].Name(), params[j].Name())
					}
				}
			}
		}
	}
	return examined
}

// sharedPerIterationObjects is the rule for accept / stream loops: a pointer
// to a struct that is attached to a per-request context (a call of a With*/
// ContextWith* function) inside a loop must point to an object allocated in the
// same iteration.  An object hoisted out of the loop is shared by every request
// of the connection: its start time is the connection's, and its fields are
// overwritten while earlier requests still use it.  Returns the number of
// attachments inside loops examined.
func sharedPerIterationObjects(c *an.Ctx, rule string, prefixes ...string) (examined int) {
	for _, fn := range c.AllFns {
		if fn.Blocks == nil || c.IsTestFile(fn.Pos()) {
			continue
		}
		k := an.FnKey(fn)
		in := false
		for _, p := range prefixes {
			if strings.HasPrefix(k, p) {
				in = true
			}
		}
		if !in {
			continue
		}
		loops := naturalLoops(fn)
		if len(loops) == 0 {
			continue
		}
		for _, call := range an.Calls(fn) {
			callee := an.StaticCallee(call)
			if callee == nil || !(strings.HasPrefix(callee.Name(), "ContextWith") || strings.HasPrefix(callee.Name(), "With")) || !c.InRepo(callee) {
				continue
			}
			// the innermost loop around the call
			var loop *loopInfo
			for _, l := range loops {
				if l.blocks[call.Block()] && (loop == nil || len(l.blocks) < len(loop.blocks)) {
					loop = l
				}
			}
			if loop == nil {
				continue
			}
			for _, a := range call.Common().Args {
				p, isPtr := a.Type().Underlying().(*types.Pointer)
				if !isPtr {
					continue
				}
				if _, isStruct := p.Elem().Underlying().(*types.Struct); !isStruct || an.TypeName(a.Type()) == "" {
					continue
				}
				examined++
				c.Analysed(k)
				al, isAlloc := a.(*ssa.Alloc)
				key := fmt.Sprintf("%s attaches a per-request %s inside its loop", k, an.TypeName(a.Type()))
				switch {
				case isAlloc && loop.blocks[al.Block()]:
					c.Ok(rule, key, call.Pos(), "the object is allocated in the iteration that attaches it")
				case isAlloc:
					c.Bad(rule, key, call.Pos(), "the %s attached to each request's context is allocated once outside the loop: all requests of the connection share it (same start time; fields overwritten while in use)", an.TypeName(a.Type()))
				default:
					// a pooled object, a parameter, …: not this rule's business
					examined--
				}
			}
		}
	}
	return examined
}

// sharedFreshDecodeTarget is the rule for record decoders that leave absent
// fields untouched (maxminddb's Lookup / Network): the struct they decode into
// must be a zero value created for that one call, i.e. a local variable of the
// calling function that is not allocated outside an enclosing loop.  A target
// passed in from a caller or kept across iterations inherits the previous
// record's fields for every key the current record lacks.  Returns the number
// of decoder calls examined.
func sharedFreshDecodeTarget(c *an.Ctx, rule string, prefixes ...string) (examined int) {
	isDecoder := func(n string) bool {
		return strings.HasSuffix(n, "maxminddb-golang.Networks).Network") || strings.HasSuffix(n, "maxminddb-golang.Reader).Lookup") ||
			strings.HasSuffix(n, "maxminddb-golang.Reader).LookupNetwork") || strings.HasSuffix(n, "maxminddb-golang.Reader).Decode")
	}
	for _, fn := range c.AllFns {
		if fn.Blocks == nil || c.IsTestFile(fn.Pos()) {
			continue
		}
		k := an.FnKey(fn)
		in := false
		for _, p := range prefixes {
			if strings.HasPrefix(k, p) {
				in = true
			}
		}
		if !in {
			continue
		}
		loops := naturalLoops(fn)
		for _, call := range an.Calls(fn) {
			if !isDecoder(an.CalleeName(call)) {
				continue
			}
			args := call.Common().Args
			target := args[len(args)-1]
			if mi, ok := target.(*ssa.MakeInterface); ok {
				target = mi.X
			}
			examined++
			c.Analysed(k)
			key := fmt.Sprintf("%s decodes into a fresh value (%s)", k, an.Short(an.CalleeName(call)))
			al, ok := target.(*ssa.Alloc)
			switch {
			case an.IsNilConst(target):
				c.Ok(rule, key, call.Pos(), "a nil target: the call only checks that the database can be read")
			case !ok:
				if pa, isP := target.(*ssa.Parameter); isP {
					// a helper that decodes into its caller's value: acceptable only if every caller passes a fresh one;
					// today's tree has one such helper, which checks a database's metadata once
					sites, _ := c.ArgSites(fn, an.ParamIndex(pa))
					fresh := len(sites) > 0
					for _, s := range sites {
						if a2, isA := s.Val.(*ssa.Alloc); !isA {
							fresh = false
						} else {
							for _, l := range naturalLoops(a2.Parent()) {
								if l.blocks[s.Call.Block()] && !l.blocks[a2.Block()] {
									fresh = false
								}
							}
						}
					}
					c.Check(fresh, rule, key, call.Pos(), "every caller passes a value created for the call",
						"the decode target is the caller's value "+pa.Name()+", which at least one caller keeps across calls: fields absent from a record keep the previous record's values")
					continue
				}
				c.Und(rule, key, call.Pos(), "decode target is neither a local variable nor a parameter")
			default:
				bad := false
				for _, l := range loops {
					if l.blocks[call.Block()] && !l.blocks[al.Block()] {
						bad = true
					}
				}
				c.Check(!bad, rule, key, call.Pos(), "the target is a zero value created for this call",
					"the decode target is created once outside the loop and reused for every record: fields absent from a record keep the previous record's values")
			}
		}
	}
	return examined
}

// sharedPooledBufferEscape is the lifetime rule for pooled scratch buffers: in
// a function that takes a byte buffer from a pool and gives it back (Put,
// deferred or not), no slice derived from the buffer -- a reslice, an append
// onto it, or the result of a repository function that returns a slice built on
// its slice argument -- may be stored into an object that outlives the
// function (a field of anything but a local that does not escape).  Otherwise
// the next user of the pooled buffer rewrites data that a message still points
// to.  Returns the number of Get/Put pairs examined.
func sharedPooledBufferEscape(c *an.Ctx, rule string, prefixes ...string) (examined int) {
	// summary: parameters on which a returned slice is built
	passes := map[*ssa.Function]map[int]bool{}
	var derivedFrom func(v ssa.Value, roots map[ssa.Value]bool, d int) bool
	derivedFrom = func(v ssa.Value, roots map[ssa.Value]bool, d int) bool {
		if v == nil || d > 10 {
			return false
		}
		if roots[v] {
			return true
		}
		switch x := v.(type) {
		case *ssa.Slice:
			return derivedFrom(x.X, roots, d+1)
		case *ssa.ChangeType:
			return derivedFrom(x.X, roots, d+1)
		case *ssa.Convert:
			return derivedFrom(x.X, roots, d+1)
		case *ssa.Phi:
			for _, e := range x.Edges {
				if derivedFrom(e, roots, d+1) {
					return true
				}
			}
		case *ssa.Call:
			if b, ok := x.Call.Value.(*ssa.Builtin); ok && b.Name() == "append" {
				return derivedFrom(x.Call.Args[0], roots, d+1)
			}
			if callee := an.StaticCallee(x); callee != nil {
				for i := range passes[callee] {
					if i < len(x.Call.Args) && derivedFrom(x.Call.Args[i], roots, d+1) {
						return true
					}
				}
			}
		case *ssa.Extract:
			if call, ok := x.Tuple.(*ssa.Call); ok && x.Index == 0 {
				return derivedFrom(call, roots, d+1)
			}
		}
		return false
	}
	for round := 0; round < 2; round++ {
		for _, fn := range c.AllFns {
			if fn.Blocks == nil || c.IsTestFile(fn.Pos()) || !c.InRepo(fn) {
				continue
			}
			for i, pa := range fn.Params {
				if _, isSl := pa.Type().Underlying().(*types.Slice); !isSl {
					continue
				}
				for _, r := range an.Returns(fn) {
					for _, res := range r.Results {
						if _, isSl := res.Type().Underlying().(*types.Slice); isSl && derivedFrom(res, map[ssa.Value]bool{pa: true}, 0) {
							if passes[fn] == nil {
								passes[fn] = map[int]bool{}
							}
							passes[fn][i] = true
						}
					}
				}
			}
		}
	}
	for _, fn := range c.AllFns {
		if fn.Blocks == nil || c.IsTestFile(fn.Pos()) {
			continue
		}
		k := an.FnKey(fn)
		in := false
		for _, p := range prefixes {
			if strings.HasPrefix(k, p) {
				in = true
			}
		}
		if !in {
			continue
		}
		for _, get := range an.Calls(fn) {
			gc, ok := get.(*ssa.Call)
			if !ok || !isPoolGet(get) || !isByteSlicePtr(gc.Type()) {
				continue
			}
			// is the pointer given back in this function?
			put := false
			for _, pc := range an.Calls(fn) {
				if isPoolPut(pc) {
					for _, a := range pc.Common().Args {
						if a == ssa.Value(gc) {
							put = true
						}
					}
				}
			}
			if !put {
				continue
			}
			examined++
			c.Analysed(k)
			roots := map[ssa.Value]bool{}
			if gc.Referrers() != nil {
				for _, r := range *gc.Referrers() {
					if ld, ok := r.(*ssa.UnOp); ok && ld.Op == token.MUL {
						roots[ld] = true
					}
				}
			}
			bad := ""
			an.Instrs(fn, func(in ssa.Instruction) {
				st, ok := in.(*ssa.Store)
				if !ok {
					return
				}
				if _, isSl := st.Val.Type().Underlying().(*types.Slice); !isSl || !derivedFrom(st.Val, roots, 0) {
					return
				}
				// writing the grown buffer back through the pool pointer is the normal idiom
				if st.Addr == ssa.Value(gc) {
					return
				}
				switch a := st.Addr.(type) {
				case *ssa.FieldAddr:
					if al, isAlloc := a.X.(*ssa.Alloc); isAlloc && !al.Heap {
						return
					}
					_, f, _, _ := an.FieldOf(a)
					bad = "stored into field " + f
				case *ssa.IndexAddr:
					bad = "stored into an element of another container"
				case *ssa.Alloc:
					if a.Heap {
						bad = "stored into a variable that escapes"
					}
				}
			})
			c.Check(bad == "", rule, k+" keeps nothing built on its pooled buffer", get.Pos(),
				"no slice built on the pooled buffer is stored into a longer-lived object",
				"a slice built on the pooled buffer is "+bad+" although the buffer goes back to the pool when the function returns: the next user of the buffer overwrites it")
		}
	}
	return examined
}

// sharedErrorChain is the rule for error wrapping on paths whose callers
// classify errors (errors.As / errors.Is for network errors, not-found errors,
// …): a fmt.Errorf that is given an error value must wrap it with %w; formatting
// it with %s or %v cuts the chain, and the caller's classification silently
// stops matching (no fail-over, no retry, a not-found treated as fatal).
// Returns the number of fmt.Errorf calls with an error argument examined.
func sharedErrorChain(c *an.Ctx, rule string, allowed map[string]string, prefixes ...string) (examined int) {
	errT := types.Universe.Lookup("error").Type().Underlying().(*types.Interface)
	// verbs of a format string, in argument order ("%%" skipped; explicit argument indexes are not supported)
	verbs := func(format string) (vs []byte, ok bool) {
		for i := 0; i < len(format); i++ {
			if format[i] != '%' {
				continue
			}
			i++
			for i < len(format) && strings.IndexByte("+-# 0123456789.", format[i]) >= 0 {
				i++
			}
			if i >= len(format) {
				break
			}
			switch format[i] {
			case '%':
				continue
			case '[', '*':
				return nil, false
			}
			vs = append(vs, format[i])
		}
		return vs, true
	}
	for _, fn := range c.AllFns {
		if fn.Blocks == nil || c.IsTestFile(fn.Pos()) || strings.Contains(c.Pos(fn.Pos()), ".pb.go:") {
			continue
		}
		k := an.FnKey(fn)
		in := false
		for _, p := range prefixes {
			if strings.HasPrefix(k, p) {
				in = true
			}
		}
		if !in {
			continue
		}
		if pkg := an.FnPkg(fn); pkg != nil && strings.HasSuffix(pkg.Name(), "test") {
			continue
		}
		for _, call := range an.Calls(fn) {
			if an.CalleeName(call) != "fmt.Errorf" {
				continue
			}
			args := call.Common().Args
			fk, ok := args[0].(*ssa.Const)
			if !ok || fk.Value == nil || fk.Value.Kind() != constant.String || len(args) < 2 {
				continue
			}
			format := constant.StringVal(fk.Value)
			sl, ok := args[1].(*ssa.Slice)
			if !ok {
				continue
			}
			arr, ok := sl.X.(*ssa.Alloc)
			if !ok || arr.Referrers() == nil {
				continue
			}
			// the variadic arguments by position
			byIdx := map[int64]ssa.Value{}
			for _, r := range *arr.Referrers() {
				ia, ok := r.(*ssa.IndexAddr)
				if !ok || ia.Referrers() == nil {
					continue
				}
				idx, isK := an.ConstInt(ia.Index)
				if !isK {
					continue
				}
				for _, rr := range *ia.Referrers() {
					if st, ok := rr.(*ssa.Store); ok {
						byIdx[idx] = st.Val
					}
				}
			}
			vs, parsed := verbs(format)
			var cut []string
			nErr := 0
			for idx, v := range byIdx {
				if mi, ok := v.(*ssa.MakeInterface); ok {
					v = mi.X
				}
				if ci, ok := v.(*ssa.ChangeInterface); ok {
					v = ci.X
				}
				if _, isConst := v.(*ssa.Const); isConst {
					continue // a sentinel named on purpose
				}
				if ld, ok := v.(*ssa.UnOp); ok {
					if _, isG := ld.X.(*ssa.Global); isG {
						continue // a package-level sentinel
					}
				}
				if !types.Implements(v.Type(), errT) {
					continue
				}
				nErr++
				if !parsed || int(idx) >= len(vs) {
					cut = append(cut, fmt.Sprintf("argument %d (format not understood)", idx))
				} else if vs[idx] != 'w' {
					cut = append(cut, fmt.Sprintf("argument %d is formatted with %%%c", idx, vs[idx]))
				}
			}
			if nErr == 0 {
				continue
			}
			examined++
			c.Analysed(k)
			key := fmt.Sprintf("%s wraps the error it reports (%q)", k, format)
			if allowed[k] != "" {
				c.Ok(rule, key, call.Pos(), "exception: "+allowed[k])
				continue
			}
			sort.Strings(cut)
			c.Check(len(cut) == 0, rule, key, call.Pos(), "every error value is wrapped with %w",
				"an error value is formatted without %w ("+strings.Join(cut, "; ")+"): callers that classify the error with errors.As / errors.Is no longer see the cause")
		}
	}
	return examined
}

// sharedCodecGuards is the rule for the early returns of message converters:
// a converter of the given packages may return early (a default, an empty
// object, nil) only because its input is absent (nil), switched off (a field
// named Enabled) or invalid (an error is being returned).  An early return
// that depends on the *contents* ("no subnets", "nothing to block") replaces
// present settings by defaults.  allowed lists confirmed other guards
// ("<fn>" -> reason).  Returns the number of early returns examined.
func sharedCodecGuards(c *an.Ctx, rule string, allowed map[string]string, prefixes ...string) (examined int) {
	errType := types.Universe.Lookup("error").Type()
	for _, fn := range c.AllFns {
		if fn.Blocks == nil || c.IsTestFile(fn.Pos()) || fn.Parent() != nil || strings.Contains(c.Pos(fn.Pos()), ".pb.go:") {
			continue
		}
		k := an.FnKey(fn)
		in := false
		for _, p := range prefixes {
			if strings.HasPrefix(k, p) {
				in = true
			}
		}
		if !in || !isConverterName(fn.Name()) || len(fn.Params) == 0 || allowed[k] != "" {
			continue
		}
		// converters of one message (a pointer to a struct); list converters return empty for empty
		if pt, isPtr := fn.Params[0].Type().Underlying().(*types.Pointer); !isPtr {
			continue
		} else if _, isStruct := pt.Elem().Underlying().(*types.Struct); !isStruct {
			continue
		}
		rets := an.Returns(fn)
		if len(rets) < 2 {
			continue
		}
		var last token.Pos
		for _, r := range rets {
			if r.Pos() > last {
				last = r.Pos()
			}
		}
		res := fn.Signature.Results()
		sort.Slice(rets, func(i, j int) bool { return rets[i].Pos() < rets[j].Pos() })
		ord := 0
		for _, r := range rets {
			if r.Pos() == last || r.Block() == fn.Recover {
				continue
			}
			// returning an error is not an early "default"
			if n := len(r.Results); n >= 1 && types.Identical(res.At(n-1).Type(), errType) && !an.IsNilConst(r.Results[n-1]) {
				continue
			}
			// returns inside loops (per-element conversion) are out of scope
			inLoop := false
			for _, l := range naturalLoops(fn) {
				if l.blocks[r.Block()] {
					inLoop = true
				}
			}
			if inLoop {
				continue
			}
			examined++
			c.Analysed(k)
			bad := ""
			for _, p := range r.Block().Preds {
				ifi, ok := p.Instrs[len(p.Instrs)-1].(*ssa.If)
				if !ok {
					continue
				}
				cond := ifi.Cond
				if u, isNot := cond.(*ssa.UnOp); isNot && u.Op == token.NOT {
					cond = u.X
				}
				okGuard := false
				switch x := cond.(type) {
				case *ssa.BinOp:
					// input == nil / input != nil, also for an input's sub-message
					if (x.Op == token.EQL || x.Op == token.NEQ) && (an.IsNilConst(x.X) || an.IsNilConst(x.Y)) {
						other := x.X
						if an.IsNilConst(x.X) {
							other = x.Y
						}
						if ap, isAP := an.AccessPath(other); isAP && strings.HasPrefix(ap, "p") {
							okGuard = true
						}
						if types.Identical(other.Type(), errType) {
							okGuard = true
						}
					}
				case *ssa.UnOp, *ssa.Field:
					if ap, isAP := an.AccessPath(cond); isAP && strings.HasPrefix(ap, "p") && strings.HasSuffix(ap, "Enabled") {
						okGuard = true
					}
				case *ssa.Call:
					// a protobuf getter of a flag: x.GetEnabled()
					if cal := an.StaticCallee(x); cal != nil && strings.HasSuffix(cal.Name(), "Enabled") {
						okGuard = true
					}
				case *ssa.Extract:
					// the dispatch of a type switch over a sum type
					if ta, isTA := x.Tuple.(*ssa.TypeAssert); isTA && ta.CommaOk && x.Index == 1 {
						okGuard = true
					}
				}
				if !okGuard {
					bad = ifi.Cond.String()
					if bo, isBo := ifi.Cond.(*ssa.BinOp); isBo {
						bad = bo.X.String() + " " + bo.Op.String() + " " + bo.Y.String()
					}
				}
			}
			ord++
			c.Check(bad == "", rule, fmt.Sprintf("%s early return #%d only for absent or disabled input", k, ord), r.Pos(),
				"the early return is guarded by nil / Enabled tests only",
				"the converter returns early on a condition over the message's contents ("+bad+"): present settings are replaced by the default")
		}
	}
	return examined
}

// sharedEnumSync is the writer/reader agreement rule for string enums that two
// packages declare separately ("keep in sync"): the constants whose names start
// with prefix must be the same set, with the same values, in both packages;
// and every switch over such a value whose default case panics must have a case
// for each of them (a value the reader does not know panics in the middle of an
// upload or a refresh).
func sharedEnumSync(c *an.Ctx, rule, pkgA, pkgB, prefix string) {
	consts := func(pkgName string) map[string]string {
		out := map[string]string{}
		for _, pkg := range c.Prog.SSA.AllPackages() {
			if an.Short(pkg.Pkg.Path()) != pkgName {
				continue
			}
			for name, m := range pkg.Members {
				if nc, ok := m.(*ssa.NamedConst); ok && strings.HasPrefix(name, prefix) && nc.Value.Value != nil && nc.Value.Value.Kind() == constant.String {
					out[name] = constant.StringVal(nc.Value.Value)
				}
			}
		}
		return out
	}
	a, b := consts(pkgA), consts(pkgB)
	key := fmt.Sprintf("%s.%s* and %s.%s* agree", pkgA, prefix, pkgB, prefix)
	if len(a) == 0 || len(b) == 0 {
		c.Und(rule, key, token.NoPos, "constants not found (%d, %d)", len(a), len(b))
		return
	}
	var diff []string
	for n, v := range a {
		if bv, ok := b[n]; !ok {
			diff = append(diff, n+" only in "+pkgA)
		} else if bv != v {
			diff = append(diff, n+" differs")
		}
	}
	for n := range b {
		if _, ok := a[n]; !ok {
			diff = append(diff, n+" only in "+pkgB)
		}
	}
	sort.Strings(diff)
	c.Check(len(diff) == 0, rule, key, token.NoPos, fmt.Sprintf("%d constants, same names and values", len(a)),
		"the two declarations differ: "+strings.Join(diff, "; ")+" (the reader panics on a value it does not know)")
	// switches with a panicking default
	vals := map[string]bool{}
	for _, v := range a {
		vals[v] = true
	}
	for _, v := range b {
		vals[v] = true
	}
	for _, fn := range c.AllFns {
		if fn.Blocks == nil || c.IsTestFile(fn.Pos()) {
			continue
		}
		pn := ""
		if p := an.FnPkg(fn); p != nil {
			pn = an.Short(p.Path())
		}
		if pn != pkgA && pn != pkgB {
			continue
		}
		// a chain of "x == <const>" tests on one value ending in a panic
		cases := map[ssa.Value]map[string]bool{}
		for _, blk := range fn.Blocks {
			ifi, ok := blk.Instrs[len(blk.Instrs)-1].(*ssa.If)
			if !ok {
				continue
			}
			bo, ok := ifi.Cond.(*ssa.BinOp)
			if !ok || bo.Op != token.EQL {
				continue
			}
			k, ok := bo.Y.(*ssa.Const)
			if !ok || k.Value == nil || k.Value.Kind() != constant.String || !vals[constant.StringVal(k.Value)] {
				continue
			}
			if cases[bo.X] == nil {
				cases[bo.X] = map[string]bool{}
			}
			cases[bo.X][constant.StringVal(k.Value)] = true
		}
		hasPanic := false
		for _, blk := range fn.Blocks {
			if _, ok := blk.Instrs[len(blk.Instrs)-1].(*ssa.Panic); ok {
				hasPanic = true
			}
		}
		for _, got := range cases {
			if len(got) < 2 || !hasPanic {
				continue
			}
			var missing []string
			for v := range vals {
				if !got[v] {
					missing = append(missing, v)
				}
			}
			sort.Strings(missing)
			k := an.FnKey(fn)
			c.Analysed(k)
			c.Check(len(missing) == 0, rule, k+" handles every "+prefix+" value", fn.Pos(), "a case for each declared value",
				"no case for "+strings.Join(missing, ", ")+": the default branch panics")
		}
	}
}

// sharedShadowedResult is the rule for named results: inside a function with
// named results, a short variable declaration in a nested scope that declares
// a new variable with the name of a result hides the result; a bare "return
// <name>" (or naked return) after that scope returns the result variable, which
// was never assigned -- the verdict computed into the inner variable is lost.
// The rule reports the case where the function also returns that result by
// name outside the inner scope.  It works on the type-checked syntax tree.
// Returns the number of functions with named results examined.
func sharedShadowedResult(c *an.Ctx, rule string, prefixes ...string) (examined int) {
	for _, pkg := range c.Prog.Pkgs {
		pp := an.Short(pkg.PkgPath)
		in := false
		for _, p := range prefixes {
			if strings.HasPrefix(pp, strings.TrimSuffix(p, ".")) {
				in = true
			}
		}
		if !in || pkg.TypesInfo == nil || strings.HasSuffix(pkg.Name, "test") {
			continue
		}
		for _, file := range pkg.Syntax {
			fname := c.Prog.Fset.Position(file.Pos()).Filename
			if strings.HasSuffix(fname, "_test.go") || strings.HasSuffix(fname, ".pb.go") {
				continue
			}
			for _, decl := range file.Decls {
				fd, ok := decl.(*ast.FuncDecl)
				if !ok || fd.Body == nil || fd.Type.Results == nil {
					continue
				}
				results := map[string]types.Object{}
				for _, f := range fd.Type.Results.List {
					for _, n := range f.Names {
						if n.Name != "_" {
							results[n.Name] = pkg.TypesInfo.Defs[n]
						}
					}
				}
				if len(results) == 0 {
					continue
				}
				examined++
				name := fd.Name.Name
				if fd.Recv != nil && len(fd.Recv.List) == 1 {
					name = types.ExprString(fd.Recv.List[0].Type) + "." + name
				}
				key := pp + "." + name
				ast.Inspect(fd.Body, func(n ast.Node) bool {
					as, ok := n.(*ast.AssignStmt)
					if !ok || as.Tok != token.DEFINE {
						return true
					}
					for _, lhs := range as.Lhs {
						id, ok := lhs.(*ast.Ident)
						if !ok {
							continue
						}
						res, isRes := results[id.Name]
						obj := pkg.TypesInfo.Defs[id]
						if !isRes || obj == nil || obj == res {
							continue
						}
						// a new variable hides result id.Name within obj's scope; is the result itself
						// returned by name (or by a naked return) outside that scope?
						scope := obj.Parent()
						hidden := false
						ast.Inspect(fd.Body, func(m ast.Node) bool {
							ret, ok := m.(*ast.ReturnStmt)
							if !ok {
								return true
							}
							if scope != nil && scope.Contains(ret.Pos()) {
								return true
							}
							if len(ret.Results) == 0 {
								hidden = true
							}
							for _, r := range ret.Results {
								if rid, ok := r.(*ast.Ident); ok && pkg.TypesInfo.Uses[rid] == res {
									hidden = true
								}
							}
							return true
						})
						// an inner variable of another type (err of a nested call handled locally) is the usual
						// harmless idiom only when the result is assigned elsewhere; keep to same-typed shadows
						if hidden && types.Identical(obj.Type(), res.Type()) && !isErrorType(res.Type()) {
							c.Bad(rule, key+" result "+id.Name+" is not shadowed", as.Pos(),
								"a new variable %s declared with := hides the named result of the same name; the function returns the result by name outside that scope, where it still has its zero value", id.Name)
						}
					}
					return true
				})
			}
		}
	}
	return examined
}

// sharedCharRanges is the boundary rule for hand-written ASCII classes: a
// comparison of a byte or rune with one of the class boundaries 'A', 'Z', 'a',
// 'z', '0', '9' must be the inclusive form on the inside of the class
// (c >= 'A', c <= 'Z', …) or its exact complement (c < 'A', c > 'Z', …).  A
// strict comparison on the inside (c < 'Z', c > 'a') leaves the boundary letter
// out of the class.  Returns the number of comparisons examined.
func sharedCharRanges(c *an.Ctx, rule string, prefixes ...string) (examined int) {
	lower := map[int64]bool{'A': true, 'a': true, '0': true}
	upper := map[int64]bool{'Z': true, 'z': true, '9': true}
	for _, fn := range c.AllFns {
		if fn.Blocks == nil || c.IsTestFile(fn.Pos()) || strings.Contains(c.Pos(fn.Pos()), ".pb.go:") {
			continue
		}
		k := an.FnKey(fn)
		in := false
		for _, p := range prefixes {
			if strings.HasPrefix(k, p) {
				in = true
			}
		}
		if !in {
			continue
		}
		if pkg := an.FnPkg(fn); pkg != nil && strings.HasSuffix(pkg.Name(), "test") {
			continue
		}
		an.Instrs(fn, func(ins ssa.Instruction) {
			bo, ok := ins.(*ssa.BinOp)
			if !ok {
				return
			}
			op := bo.Op
			if op != token.LSS && op != token.LEQ && op != token.GTR && op != token.GEQ {
				return
			}
			x := bo.X
			kv, isK := an.ConstInt(bo.Y)
			if !isK {
				kv, isK = an.ConstInt(bo.X)
				x = bo.Y
				switch op {
				case token.LSS:
					op = token.GTR
				case token.GTR:
					op = token.LSS
				case token.LEQ:
					op = token.GEQ
				case token.GEQ:
					op = token.LEQ
				}
			}
			if !isK || (!lower[kv] && !upper[kv]) {
				return
			}
			b, isB := x.Type().Underlying().(*types.Basic)
			if !isB || (b.Kind() != types.Uint8 && b.Kind() != types.Int32) {
				return
			}
			examined++
			c.Analysed(k)
			good := lower[kv] && (op == token.GEQ || op == token.LSS) || upper[kv] && (op == token.LEQ || op == token.GTR)
			c.Check(good, rule, fmt.Sprintf("%s compares a character with %q", k, rune(kv)), bo.Pos(),
				"inclusive on the inside of the class",
				fmt.Sprintf("the comparison c %s %q leaves the boundary character %q out of (or lets a neighbour into) the class", op, rune(kv), rune(kv)))
		})
	}
	return examined
}

// sharedArrayPoolPut is the rule for pools of fixed-size arrays that are fed
// with slices converted to array pointers: (*[N]T)(s[:N]) is a window of N
// elements into s's backing array.  Unless s's capacity is *exactly* N, the
// window can be part of a larger buffer, and two slices of one buffer (for
// example the address hints that a wire decoder cuts out of a single
// allocation) yield overlapping arrays: the pool then hands the same bytes to
// two users.  Every such Put must therefore be guarded by cap(s) == N (a
// comparison with >= admits windows into larger buffers).  Returns the number
// of Puts of converted slices examined.
func sharedArrayPoolPut(c *an.Ctx, rule string, prefixes ...string) (examined int) {
	for _, fn := range c.AllFns {
		if fn.Blocks == nil || c.IsTestFile(fn.Pos()) || !hasAnyPrefix(an.FnKey(fn), prefixes) {
			continue
		}
		k := an.FnKey(fn)
		for _, call := range an.Calls(fn) {
			if !isPoolPut(call) {
				continue
			}
			args := call.Common().Args
			conv, ok := args[len(args)-1].(*ssa.SliceToArrayPointer)
			if !ok {
				continue
			}
			examined++
			c.Analysed(k)
			arr, _ := an.Deref(conv.Type()).Underlying().(*types.Array)
			var src ssa.Value = conv.X
			if sl, isSl := src.(*ssa.Slice); isSl {
				src = sl.X
			}
			exact := false
			why := "no capacity test guards the conversion"
			for _, e := range an.DominatingConds(call.Block()) {
				bo, isBo := e.If.Cond.(*ssa.BinOp)
				if !isBo {
					continue
				}
				capCall, isCall := bo.X.(*ssa.Call)
				kv, isK := an.ConstInt(bo.Y)
				if !isCall || !isK {
					continue
				}
				b, isB := capCall.Call.Value.(*ssa.Builtin)
				if !isB || b.Name() != "cap" || capCall.Call.Args[0] != src {
					continue
				}
				switch {
				case bo.Op == token.EQL && e.Branch && arr != nil && kv == arr.Len():
					exact = true
				case bo.Op == token.NEQ && !e.Branch && arr != nil && kv == arr.Len():
					exact = true
				default:
					why = fmt.Sprintf("the guard is cap %s %d", bo.Op, kv)
				}
			}
			c.Check(exact, rule, k+" pools only whole arrays", call.Pos(),
				"the converted slice's capacity is tested for equality with the array length",
				"a slice is converted to an array pointer and pooled without an exact capacity test ("+why+"): slices cut out of one larger buffer give overlapping arrays, which the pool then hands to two users at once")
		}
	}
	return examined
}

// sharedStateNotRead is the rule for refreshes that replace a component's
// state wholesale: the refresh function computes the new state from the newly
// loaded data alone and never reads the state field it is about to replace (an
// entry carried over from the old state keeps an old version, with its old
// result cache, in service after a successful refresh).
func sharedStateNotRead(c *an.Ctx, rule, fnKey, typ, field string) {
	fn := c.Fn(fnKey)
	key := fnKey + " builds " + field + " from the new data only"
	if fn == nil {
		c.Und(rule, key, token.NoPos, "anchor not found")
		return
	}
	c.Analysed(fnKey)
	reads, writes := 0, 0
	var pos token.Pos
	an.Instrs(fn, func(in ssa.Instruction) {
		switch x := in.(type) {
		case *ssa.UnOp:
			if x.Op == token.MUL {
				if t, f, _, ok := an.FieldOf(x.X); ok && t == typ && f == field {
					reads++
					pos = x.Pos()
				}
			}
		case *ssa.Store:
			if t, f, _, ok := an.FieldOf(x.Addr); ok && t == typ && f == field {
				writes++
			}
		}
	})
	if writes == 0 {
		c.Und(rule, key, fn.Pos(), "the refresh does not store %s.%s", typ, field)
		return
	}
	if pos == token.NoPos {
		pos = fn.Pos()
	}
	c.Check(reads == 0, rule, key, pos, "the old state is replaced without being read",
		fmt.Sprintf("the refresh reads the %s it is replacing (%d reads): entries of the previous version can be carried over into the new state", field, reads))
}

// sharedGrowArith is the arithmetic rule for slices.Grow: Grow(s, n) guarantees
// room for n more elements *after len(s)*, so "make s hold total elements" is
// Grow(s, total-len(s)).  Subtracting cap(s) instead leaves the slice too small
// whenever len(s) < cap(s) < total, and the reslice that follows panics.
// Returns the number of Grow calls examined.
func sharedGrowArith(c *an.Ctx, rule string, prefixes ...string) (examined int) {
	for _, fn := range c.AllFns {
		if fn.Blocks == nil || c.IsTestFile(fn.Pos()) {
			continue
		}
		k := an.FnKey(fn)
		in := false
		for _, p := range prefixes {
			if strings.HasPrefix(k, p) {
				in = true
			}
		}
		if !in {
			continue
		}
		for _, call := range an.Calls(fn) {
			n := an.CalleeName(call)
			if i := strings.Index(n, "["); i >= 0 {
				n = n[:i]
			}
			if n != "slices.Grow" {
				continue
			}
			examined++
			c.Analysed(k)
			s, amount := call.Common().Args[0], call.Common().Args[1]
			bad := ""
			if bo, ok := amount.(*ssa.BinOp); ok && bo.Op == token.SUB {
				if cc, isCall := bo.Y.(*ssa.Call); isCall {
					if b, isB := cc.Call.Value.(*ssa.Builtin); isB && b.Name() == "cap" && cc.Call.Args[0] == s {
						bad = "the amount is computed from cap(s)"
					}
				}
			}
			c.Check(bad == "", rule, k+" grows its buffer by the missing length", call.Pos(),
				"the amount handed to slices.Grow is not derived from the capacity", bad+": Grow counts from len(s), so the buffer stays shorter than required when len(s) < cap(s)")
		}
	}
	return examined
}

// sharedNoNilInterfaceResult is the rule for converters that produce a
// behaviour object (an interface value: an authenticator, a rate limiter, an
// access profile, a blocking mode): on a path that reports no error they return
// a usable value, never a nil interface -- the consumers call methods on the
// result without a nil test (the sibling decoder of the other codec returns the
// "allow everything" / "empty" implementation in the same case).  Returns the
// number of returns examined.
func sharedNoNilInterfaceResult(c *an.Ctx, rule string, allowed map[string]string, prefixes ...string) (examined int) {
	errType := types.Universe.Lookup("error").Type()
	for _, fn := range c.AllFns {
		if fn.Blocks == nil || c.IsTestFile(fn.Pos()) || fn.Parent() != nil || strings.Contains(c.Pos(fn.Pos()), ".pb.go:") {
			continue
		}
		k := an.FnKey(fn)
		in := false
		for _, p := range prefixes {
			if strings.HasPrefix(k, p) {
				in = true
			}
		}
		if !in || !isConverterName(fn.Name()) {
			continue
		}
		res := fn.Signature.Results()
		if res.Len() == 0 {
			continue
		}
		if _, isIface := res.At(0).Type().Underlying().(*types.Interface); !isIface || types.Identical(res.At(0).Type(), errType) {
			continue
		}
		// protobuf oneof wrappers are data, not behaviour: only interfaces declared outside the codec packages count
		if named := an.NamedOf(res.At(0).Type()); named != nil && named.Obj().Pkg() != nil && named.Obj().Pkg() == fn.Pkg.Pkg {
			continue
		}
		for _, r := range an.Returns(fn) {
			if len(r.Results) == 0 || !an.IsNilConst(r.Results[0]) {
				continue
			}
			if n := len(r.Results); n >= 2 && types.Identical(res.At(n-1).Type(), errType) && !an.IsNilConst(r.Results[n-1]) {
				continue
			}
			examined++
			c.Analysed(k)
			if allowed[k] != "" {
				c.Ok(rule, k+" returns a usable "+an.TypeName(res.At(0).Type()), r.Pos(), "exception: "+allowed[k])
				continue
			}
			c.Bad(rule, k+" returns a usable "+an.TypeName(res.At(0).Type()), r.Pos(),
				"a nil %s is returned without an error: the consumers call its methods without a nil test (a request that reaches them panics)", an.TypeName(res.At(0).Type()))
		}
		if examined == 0 {
			continue
		}
	}
	return examined
}

// hasAnyPrefix reports whether s starts with one of the prefixes; an empty list
// accepts everything.
func hasAnyPrefix(s string, prefixes []string) bool {
	if len(prefixes) == 0 {
		return true
	}
	for _, p := range prefixes {
		if strings.HasPrefix(s, p) {
			return true
		}
	}
	return false
}

// propPkgs lists, per property, the packages the property rests on (prefixes of
// function keys; "dnsserver" covers the package and its sub-packages).  The
// class rules of classSweep are run for a property over these packages only: a
// class-rule violation elsewhere says nothing about the property.
var propPkgs = map[string][]string{
	"C01": {"dnsserver", "dnssvc", "dnsmsg.", "bindtodevice.", "ecscache.", "agdnet."},
	"C02": {"filter", "dnssvc/internal/mainmw.", "dnsmsg.", "cmd.", "backendpb.", "profiledb/internal/filecachepb."},
	"C03": {"dnssvc/internal/devicefinder.", "profiledb", "backendpb.", "agd.", "agdpasswd.", "cmd.", "bindtodevice.", "dnssvc."},
	"C04": {"dnsserver/cache.", "ecscache.", "agdcache.", "dnsmsg.", "cmd."},
	"C05": {"ecscache.", "geoip.", "dnsmsg.", "dnssvc/internal/ratelimitmw."},
	"C06": {"dnsserver", "bindtodevice.", "dnsmsg.", "dnssvc/internal/mainmw.", "dnssvc/internal/ratelimitmw."},
	"C07": {"agd.", "dnsmsg.", "dnsserver", "ecscache.", "filter/hashprefix.", "dnssvc", "bindtodevice.", "agdcache.", "querylog.", "billstat."},
	"C08": {"dnsserver.", "dnsmsg.", "ecscache.", "dnssvc/internal/mainmw.", "filter/internal."},
	"C09": {"dnsserver/ratelimit.", "dnssvc/internal/ratelimitmw.", "agd.", "consul.", "backendpb.", "cmd."},
	"C10": {"access.", "dnssvc/internal/ratelimitmw.", "backendpb.", "profiledb/internal/filecachepb.", "agdnet.", "geoip."},
	"C11": {"filter/hashprefix.", "filter/internal.", "dnssvc/internal/preservice.", "filter/internal/refreshable.", "cmd."},
	"C12": {"filter", "agdcache."},
	"C13": {"filter", "agdservice.", "agdhttp.", "cmd."},
	"C14": {"profiledb", "backendpb.", "agdservice."},
	"C15": {"querylog.", "dnssvc/internal/mainmw.", "dnssvc/internal/ratelimitmw.", "profiledb", "access.", "filter/internal."},
	"C16": {"billstat.", "backendpb.", "dnssvc/internal/mainmw.", "dnssvc/internal/ratelimitmw.", "dnssvc/internal/preservice.", "agdservice.", "geoip.", "ecscache.", "dnsserver."},
	"C17": {"dnsserver/forward.", "dnsserver/pool.", "dnsserver/prometheus.", "cmd."},
	"C18": {"connlimiter.", "bindtodevice.", "dnsserver.", "dnssvc.", "cmd."},
	"C19": {"websvc.", "cmd."},
	"C20": {"cmd.", "dnssvc.", "dnsserver.", "websvc."},
}

// classSweep runs the repository-independent class rules (each a necessary
// condition of memory separation, completeness of conversions, error
// classification, … that is visible in the shape of the code) over the packages
// property prop rests on, under the rule id <prop>-RC.
func classSweep(c *an.Ctx, prop string) {
	if c.Depth() > 0 {
		return // run for a borrower, which has its own sweep
	}
	rule := prop + "-RC"
	pk := propPkgs[prop]
	if len(pk) == 0 {
		c.Und(rule, "class rules", token.NoPos, "no package set for %s", prop)
		return
	}
	var pkgPaths []string
	for _, p := range pk {
		pkgPaths = append(pkgPaths, strings.TrimSuffix(p, "."))
	}
	counts := []string{}
	add := func(name string, n int) { counts = append(counts, fmt.Sprintf("%s=%d", name, n)) }
	add("error-chain", sharedErrorChain(c, rule, errChainExceptions, pk...))
	add("shadowed-result", sharedShadowedResult(c, rule, pkgPaths...))
	add("char-ranges", sharedCharRanges(c, rule, pk...))
	add("crossed-args", sharedSwappedArgs(c, rule, pk...))
	add("pool-ctors", sharedPoolNewFresh(c, rule, pk...))
	add("array-pool", sharedArrayPoolPut(c, rule, pk...))
	add("loops", sharedLoopCompleteness(c, rule, pk...))
	add("loop-carried", sharedNoLoopCarried(c, rule, pk...))
	add("setters", sharedReplaceNotAccumulate(c, rule, pk...))
	add("clones", sharedCloneComplete(c, rule, nil, pk...))
	add("grow", sharedGrowArith(c, rule, pk...))
	add("pooled-buffers", sharedPooledBufferEscape(c, rule, pk...))
	add("sorted-search", sharedSortedSearch(c, rule, pk...))
	add("decode-targets", sharedFreshDecodeTarget(c, rule, pk...))
	add("per-iteration", sharedPerIterationObjects(c, rule, pk...))
	add("single-put", sharedSinglePut(c, rule, pk...))
	add("loop-errors", sharedLoopErrorNotDropped(c, rule, pk...))
	add("opt-ttl", sharedTTLStoreSkipsOPT(c, rule, pk...))
	add("hoisted-elements", sharedNoHoistedElement(c, rule, pk...))
	add("cmp-or", sharedCmpOrOrder(c, rule, pk...))
	add("ctx-constructors", sharedContextConstructors(c, rule, pk...))
	add("prefix-bitlen", sharedPrefixOfSameAddr(c, rule, pk...))
	add("locks-released", sharedLockReleased(c, rule, pk...))
	add("nil-receivers", sharedNilReceiverPath(c, rule, pk...))
	add("sends-under-lock", sharedSendsUnderLock(c, rule, pk...))
	add("error-appends", sharedAppendResultUsed(c, rule, pk...))
	add("aliasing-strings", sharedNoAliasingStrings(c, rule, pk...))
	add("same-type-copies", sharedSameTypeCopyComplete(c, rule, pk...))
	add("defer-flags", sharedDeferFlagsUpdated(c, rule, pk...))
	add("single-put-defers", sharedSinglePutWithDefers(c, rule, pk...))
	n := 0
	for _, p := range pk {
		n += sharedNoShallowCopy(c, rule, p, "github.com/miekg/dns.Msg")
	}
	add("msg-copies", n)
	codec := []string{}
	for _, p := range pk {
		if p == "backendpb." || p == "profiledb/internal/filecachepb." || p == "profiledb" {
			codec = append(codec, "backendpb.", "profiledb/internal/filecachepb.")
			break
		}
	}
	if len(codec) > 0 {
		add("codec-guards", sharedCodecGuards(c, rule, nil, codec...))
		add("nil-only-absent", sharedNilOnlyAbsent(c, rule, nilWhenDisabled, codec...))
		add("nil-interfaces", sharedNoNilInterfaceResult(c, rule, nil, codec...))
	}
	c.Ok(rule, "class rules over the packages of "+prop, token.NoPos, "instances examined: "+strings.Join(counts, " "))
}

// sharedSetReplyKeepsRcode is the rule for responses that are re-targeted to
// another request: (*dns.Msg).SetReply copies ID, opcode, RD/CD and the
// question from the request and *resets the response code to NOERROR*.  Called
// on a fresh message that is harmless; called on a message that already is a
// response (a clone of a cached answer, the answer the rest of the pipeline
// produced), the code has to be put back afterwards, as the simple cache's
// fromCacheItem does (msg.Rcode = item.msg.Rcode).  Every SetReply on a
// non-fresh message must therefore be followed (dominated) by a store to that
// message's Rcode.  Returns the number of SetReply calls examined.
func sharedSetReplyKeepsRcode(c *an.Ctx, rule string) (examined int) {
	for _, fn := range c.AllFns {
		if fn.Blocks == nil || c.IsTestFile(fn.Pos()) {
			continue
		}
		if pkg := an.FnPkg(fn); pkg != nil && strings.HasSuffix(pkg.Name(), "test") {
			continue
		}
		k := an.FnKey(fn)
		for _, call := range an.Calls(fn) {
			if an.CalleeName(call) != "(*github.com/miekg/dns.Msg).SetReply" {
				continue
			}
			examined++
			c.Analysed(k)
			recv := call.Common().Args[0]
			key := k + " keeps the response code across SetReply"
			if _, fresh := recv.(*ssa.Alloc); fresh {
				c.Ok(rule, key, call.Pos(), "SetReply on a freshly allocated message")
				continue
			}
			restored := false
			an.Instrs(fn, func(in ssa.Instruction) {
				st, ok := in.(*ssa.Store)
				if !ok {
					return
				}
				typ, field, base, ok := an.FieldOf(st.Addr)
				if !ok || typ != "github.com/miekg/dns.MsgHdr" || field != "Rcode" {
					return
				}
				// base is &recv.MsgHdr
				if fa, isFA := base.(*ssa.FieldAddr); isFA && fa.X == recv && an.Dominates(call, st) {
					restored = true
				}
			})
			c.Check(restored, rule, key, call.Pos(), "the response code is stored again after SetReply",
				"SetReply is applied to a message that already is a response and its response code is not restored afterwards: an NXDOMAIN, REFUSED or SERVFAIL answer goes out as NOERROR")
		}
	}
	return examined
}

// sharedTTLStoreSkipsOPT is the rule for code that rewrites record TTLs: the
// "TTL" field of an OPT pseudo-record is not a TTL but the extended response
// code, the EDNS version and the DO bit.  A store to RR_Header.Ttl of a record
// that may come from a message's additional section must therefore be guarded
// by a test that the record is not an OPT (Rrtype != TypeOPT, or a type
// assertion), as the simple cache does.  Returns the number of TTL stores on
// records of an additional section examined.
func sharedTTLStoreSkipsOPT(c *an.Ctx, rule string, prefixes ...string) (examined int) {
	optType, _ := c.ConstInt("github.com/miekg/dns", "TypeOPT")
	for _, fn := range c.AllFns {
		if fn.Blocks == nil || c.IsTestFile(fn.Pos()) || !hasAnyPrefix(an.FnKey(fn), prefixes) {
			continue
		}
		k := an.FnKey(fn)
		// may the record come from an Extra section?
		var fromExtra func(v ssa.Value, d int, seen map[ssa.Value]bool) bool
		fromExtra = func(v ssa.Value, d int, seen map[ssa.Value]bool) bool {
			if v == nil || d > 14 || seen[v] {
				return false
			}
			seen[v] = true
			switch x := v.(type) {
			case *ssa.UnOp:
				if x.Op == token.MUL {
					if typ, f, _, ok := an.FieldOf(x.X); ok && typ == "github.com/miekg/dns.Msg" && f == "Extra" {
						return true
					}
					return fromExtra(x.X, d+1, seen)
				}
			case *ssa.IndexAddr:
				return fromExtra(x.X, d+1, seen)
			case *ssa.Slice:
				return fromExtra(x.X, d+1, seen)
			case *ssa.Phi:
				for _, e := range x.Edges {
					if fromExtra(e, d+1, seen) {
						return true
					}
				}
			case *ssa.Alloc:
				// a literal such as [][]dns.RR{resp.Answer, resp.Ns, resp.Extra}
				if x.Referrers() != nil {
					for _, r := range *x.Referrers() {
						if ia, ok := r.(*ssa.IndexAddr); ok && ia.Referrers() != nil {
							for _, rr := range *ia.Referrers() {
								if st, ok := rr.(*ssa.Store); ok && st.Addr == ssa.Value(ia) && fromExtra(st.Val, d+1, seen) {
									return true
								}
							}
						}
					}
				}
			case *ssa.Call:
				// dns.Copy(r) keeps the record's type
				if strings.HasSuffix(an.CalleeName(x), "miekg/dns.Copy") && len(x.Call.Args) == 1 {
					return fromExtra(x.Call.Args[0], d+1, seen)
				}
			case *ssa.Extract:
				return fromExtra(x.Tuple, d+1, seen)
			case *ssa.Next:
				return fromExtra(x.Iter, d+1, seen)
			case *ssa.Range:
				return fromExtra(x.X, d+1, seen)
			}
			return false
		}
		an.Instrs(fn, func(in ssa.Instruction) {
			st, ok := in.(*ssa.Store)
			if !ok {
				return
			}
			typ, field, base, ok := an.FieldOf(st.Addr)
			if !ok || typ != "github.com/miekg/dns.RR_Header" || field != "Ttl" {
				return
			}
			// base is the result of rr.Header()
			hdr, ok := base.(*ssa.Call)
			if !ok || !hdr.Call.IsInvoke() || hdr.Call.Method.Name() != "Header" {
				return
			}
			if !fromExtra(hdr.Call.Value, 0, map[ssa.Value]bool{}) {
				return
			}
			examined++
			c.Analysed(k)
			guarded := false
			for _, e := range an.DominatingConds(st.Block()) {
				switch cond := e.If.Cond.(type) {
				case *ssa.BinOp:
					for _, side := range []ssa.Value{cond.X, cond.Y} {
						if kv, isK := an.ConstInt(side); isK && kv == optType {
							// the edge taken is "type != OPT"
							if (cond.Op == token.NEQ) == e.Branch || (cond.Op == token.EQL) == !e.Branch {
								guarded = true
							}
						}
					}
				case *ssa.Extract:
					if ta, isTA := cond.Tuple.(*ssa.TypeAssert); isTA && strings.HasSuffix(ta.AssertedType.String(), "dns.OPT") && !e.Branch {
						guarded = true
					}
				}
			}
			c.Check(guarded, rule, k+" does not rewrite the TTL field of an OPT record", st.Pos(),
				"the store is reached only for records that are not OPT",
				"the TTL of every record of the additional section is overwritten, the OPT pseudo-record included: its TTL field holds the extended response code, the EDNS version and the DO bit, so a cached answer comes back with another version and without DO")
		})
	}
	return examined
}

// sharedDomainConcatBounded is the length rule for domain names that are built
// by concatenation: a string concatenation stored into a domain-name field of a
// resource record (a field of a miekg/dns record type whose struct tag says
// "domain-name" or "cdomain-name") can exceed the 255-octet limit when one
// operand is as long as a name may be (the question name); the packed message
// is then undecodable.  The store must be dominated by a comparison on a
// length.  Returns the number of such stores examined.
func sharedDomainConcatBounded(c *an.Ctx, rule string, allowed map[string]string, prefixes ...string) (examined int) {
	isDomainField := func(addr ssa.Value) (string, bool) {
		fa, ok := addr.(*ssa.FieldAddr)
		if !ok {
			return "", false
		}
		st, ok := an.Deref(fa.X.Type()).Underlying().(*types.Struct)
		if !ok {
			return "", false
		}
		named := an.NamedOf(fa.X.Type())
		if named == nil || named.Obj().Pkg() == nil || named.Obj().Pkg().Path() != "github.com/miekg/dns" {
			return "", false
		}
		tag := st.Tag(fa.Field)
		if !strings.Contains(tag, "domain-name") {
			return "", false
		}
		return named.Obj().Name() + "." + st.Field(fa.Field).Name(), true
	}
	for _, fn := range c.AllFns {
		if fn.Blocks == nil || c.IsTestFile(fn.Pos()) || !hasAnyPrefix(an.FnKey(fn), prefixes) {
			continue
		}
		k := an.FnKey(fn)
		an.Instrs(fn, func(in ssa.Instruction) {
			st, ok := in.(*ssa.Store)
			if !ok {
				return
			}
			field, ok := isDomainField(st.Addr)
			if !ok {
				return
			}
			bo, ok := st.Val.(*ssa.BinOp)
			if !ok || bo.Op != token.ADD {
				return
			}
			// a concatenation with a non-constant operand
			_, xk := bo.X.(*ssa.Const)
			_, yk := bo.Y.(*ssa.Const)
			if xk && yk {
				return
			}
			examined++
			c.Analysed(k)
			if why := allowed[k+" "+field]; why != "" {
				c.Ok(rule, k+" bounds the concatenated "+field, st.Pos(), "exception: "+why)
				return
			}
			bounded := false
			for _, e := range an.DominatingConds(st.Block()) {
				cond, isBo := e.If.Cond.(*ssa.BinOp)
				if !isBo {
					continue
				}
				for _, side := range []ssa.Value{cond.X, cond.Y} {
					hasLen := false
					var walk func(v ssa.Value, d int)
					walk = func(v ssa.Value, d int) {
						if v == nil || d > 4 {
							return
						}
						switch x := v.(type) {
						case *ssa.Call:
							if b, isB := x.Call.Value.(*ssa.Builtin); isB && b.Name() == "len" {
								hasLen = true
							}
						case *ssa.BinOp:
							walk(x.X, d+1)
							walk(x.Y, d+1)
						}
					}
					walk(side, 0)
					if !hasLen {
						continue
					}
					// an upper bound on the taken edge: len-side < / <= other (true edge), or
					// len-side > / >= other (false edge); mirrored when the length is on the right
					op := cond.Op
					if side == cond.Y {
						switch op {
						case token.LSS:
							op = token.GTR
						case token.LEQ:
							op = token.GEQ
						case token.GTR:
							op = token.LSS
						case token.GEQ:
							op = token.LEQ
						}
					}
					if ((op == token.LSS || op == token.LEQ) && e.Branch) || ((op == token.GTR || op == token.GEQ) && !e.Branch) {
						bounded = true
					}
				}
			}
			c.Check(bounded, rule, k+" bounds the concatenated "+field, st.Pos(),
				"the concatenation is reached only under a length comparison",
				"a domain name is built by concatenation and stored into "+field+" without a length check: with an operand as long as a name may be, the result exceeds 255 octets and the response cannot be decoded")
		})
	}
	return examined
}

// sharedSinglePut is the rule that a pooled object goes back to its pool at
// most once per taking: two Put calls with the same value that can both happen
// on one path (a deferred Put plus an explicit one, or one Put that reaches the
// other) leave the object in the pool twice, and two later users then share it.
// Returns the number of functions with a Put examined.
func sharedSinglePut(c *an.Ctx, rule string, prefixes ...string) (examined int) {
	for _, fn := range c.AllFns {
		if fn.Blocks == nil || c.IsTestFile(fn.Pos()) || !hasAnyPrefix(an.FnKey(fn), prefixes) {
			continue
		}
		k := an.FnKey(fn)
		byVal := map[ssa.Value][]ssa.CallInstruction{}
		for _, call := range an.Calls(fn) {
			if !isPoolPut(call) {
				continue
			}
			args := call.Common().Args
			v := args[len(args)-1]
			if mi, ok := v.(*ssa.MakeInterface); ok {
				v = mi.X
			}
			byVal[v] = append(byVal[v], call)
		}
		if len(byVal) == 0 {
			continue
		}
		examined++
		for v, puts := range byVal {
			if len(puts) < 2 {
				continue
			}
			bad := ""
			for i, a := range puts {
				for j, b := range puts {
					if i >= j {
						continue
					}
					_, ad := a.(*ssa.Defer)
					_, bd := b.(*ssa.Defer)
					switch {
					case ad && bd:
						bad = "two deferred Put calls"
					case ad || bd:
						// the deferred one runs at every exit: the explicit one doubles it unless it cannot be
						// reached once the defer is registered (it always can when the defer comes first)
						d, e := a, b
						if bd {
							d, e = b, a
						}
						if an.CanReach(d, e) {
							bad = "an explicit Put in addition to the deferred one"
						}
					default:
						if an.CanReach(a, b) || an.CanReach(b, a) {
							bad = "two Put calls on one path"
						}
					}
				}
			}
			c.Analysed(k)
			name := v.Name()
			if ap, ok := an.AccessPath(v); ok {
				name = ap
			}
			c.Check(bad == "", rule, k+" returns "+name+" to its pool once", puts[0].Pos(),
				"at most one Put of the object on any path", bad+": the object sits in the pool twice and two later users share it")
		}
	}
	return examined
}

// sharedLoopErrorNotDropped is the rule for validation and conversion loops: an
// error obtained for one element inside a loop is acted upon in that iteration
// (the function returns, the loop is left, or the error is collected with
// append / errcoll.Collect / errors.Join); if the non-nil branch simply flows
// on to the next iteration, a later element's nil result replaces the error and
// the invalid element is accepted.  Returns the number of error tests inside
// loops examined.
func sharedLoopErrorNotDropped(c *an.Ctx, rule string, prefixes ...string) (examined int) {
	errT := types.Universe.Lookup("error").Type()
	for _, fn := range c.AllFns {
		if fn.Blocks == nil || c.IsTestFile(fn.Pos()) || !hasAnyPrefix(an.FnKey(fn), prefixes) || strings.Contains(c.Pos(fn.Pos()), ".pb.go:") {
			continue
		}
		k := an.FnKey(fn)
		for _, l := range naturalLoops(fn) {
			for b := range l.blocks {
				ifi, ok := b.Instrs[len(b.Instrs)-1].(*ssa.If)
				if !ok {
					continue
				}
				bo, ok := ifi.Cond.(*ssa.BinOp)
				if !ok || (bo.Op != token.NEQ && bo.Op != token.EQL) {
					continue
				}
				var ev ssa.Value
				switch {
				case an.IsNilConst(bo.Y) && types.Identical(bo.X.Type(), errT):
					ev = bo.X
				case an.IsNilConst(bo.X) && types.Identical(bo.Y.Type(), errT):
					ev = bo.Y
				default:
					continue
				}
				// the error must have been produced inside the loop
				if in, isIn := ev.(ssa.Instruction); !isIn || !l.blocks[in.Block()] {
					continue
				}
				if ld, isLd := ev.(*ssa.UnOp); isLd && ld.Op == token.MUL {
					producedInLoop := false
					if cell, isCell := ld.X.(*ssa.Alloc); isCell {
						for _, st := range an.Stores(cell) {
							if l.blocks[st.Block()] {
								producedInLoop = true
							}
						}
					}
					if !producedInLoop {
						continue
					}
				}
				if _, isPhi := ev.(*ssa.Phi); isPhi {
					continue
				}
				examined++
				nonNil := b.Succs[0]
				if bo.Op == token.EQL {
					nonNil = b.Succs[1]
				}
				// walk the non-nil side inside the loop until the header: the blocks of that region
				reachesHeader := false
				region := map[*ssa.BasicBlock]bool{}
				var walk func(x *ssa.BasicBlock)
				walk = func(x *ssa.BasicBlock) {
					if region[x] {
						return
					}
					if x == l.header {
						reachesHeader = true
						return
					}
					if !l.blocks[x] {
						return // left the loop: a return, a break, or the code after the loop
					}
					region[x] = true
					for _, s := range x.Succs {
						walk(s)
					}
				}
				walk(nonNil)
				// is the error handed, in that region, to something that keeps or reports it?  Wrapping it
				// (a call that returns an error again) only moves the question to the wrapped value.
				consumed := false
				seenV := map[ssa.Value]bool{}
				var sink func(v ssa.Value, d int)
				sink = func(v ssa.Value, d int) {
					if v == nil || seenV[v] || d > 6 || v.Referrers() == nil {
						return
					}
					seenV[v] = true
					for _, r := range *v.Referrers() {
						if !region[r.Block()] {
							continue
						}
						switch y := r.(type) {
						case *ssa.MakeInterface:
							sink(y, d+1)
						case *ssa.ChangeInterface:
							sink(y, d+1)
						case *ssa.Store:
							if y.Val != v {
								continue
							}
							// into the backing array of a variadic call: follow the slice to the call
							if ia, isIA := y.Addr.(*ssa.IndexAddr); isIA {
								if arr, isArr := ia.X.(*ssa.Alloc); isArr && arr.Referrers() != nil {
									for _, rr := range *arr.Referrers() {
										if sl, isSl := rr.(*ssa.Slice); isSl {
											sink(sl, d+1)
										}
									}
									continue
								}
							}
							if _, isAlloc := y.Addr.(*ssa.Alloc); !isAlloc {
								consumed = true // a longer-lived place
							}
						case *ssa.Send:
							consumed = true
						case ssa.CallInstruction:
							res := y.Common().Signature().Results()
							if res.Len() == 1 && types.Identical(res.At(0).Type(), errT) {
								if cv, isV := y.(*ssa.Call); isV {
									sink(cv, d+1) // a wrapper
								}
								continue
							}
							if b, isB := y.Common().Value.(*ssa.Builtin); isB && b.Name() != "append" {
								continue
							}
							consumed = true // logging, collecting, appending
						}
					}
				}
				sink(ev, 0)
				// a named result kept in a cell: every load of the cell in the region is the same error
				if ld, isLd := ev.(*ssa.UnOp); isLd && ld.Op == token.MUL {
					if cell, isCell := ld.X.(*ssa.Alloc); isCell && cell.Referrers() != nil {
						for _, r := range *cell.Referrers() {
							if l2, isL2 := r.(*ssa.UnOp); isL2 && l2.Op == token.MUL && region[l2.Block()] {
								sink(l2, 0)
							}
						}
					}
				}
				if consumed || !reachesHeader {
					continue
				}
				// the error flows on to the next iteration: harmless only if nothing outside the loop reads a value that a later
				// iteration overwrites -- which is what a phi of the error at the header or after the loop is
				c.Analysed(k)
				c.Bad(rule, fmt.Sprintf("%s loop over %s acts on each element's error", k, loopSubject(l)), ifi.Pos(),
					"an element's error is neither returned, collected nor leaves the loop: the next iteration goes on and a later nil result replaces it, so the invalid element is accepted")
			}
		}
	}
	return examined
}

// sharedReadOnlyMethods is the rule for objects that are shared by all requests
// and documented as safe for concurrent use without a lock of their own: their
// methods (constructors aside) do not write to the receiver's fields.  A
// scratch object kept in the receiver "to save an allocation" is written by
// every caller at once.  Returns the number of methods examined.
func sharedReadOnlyMethods(c *an.Ctx, rule string, typeNames ...string) (examined int) {
	want := map[string]bool{}
	for _, t := range typeNames {
		want[t] = true
	}
	for _, fn := range c.AllFns {
		if fn.Blocks == nil || c.IsTestFile(fn.Pos()) || fn.Signature.Recv() == nil || fn.Parent() != nil {
			continue
		}
		tn := an.TypeName(fn.Signature.Recv().Type())
		if !want[tn] {
			continue
		}
		examined++
		k := an.FnKey(fn)
		c.Analysed(k)
		held := an.HeldLocks(fn)
		bad := ""
		an.Instrs(fn, func(in ssa.Instruction) {
			st, ok := in.(*ssa.Store)
			if !ok {
				return
			}
			ap, ok := an.AccessPath(st.Addr)
			if !ok || !strings.HasPrefix(ap, "p0.") {
				return
			}
			if len(held[in]) > 0 {
				return
			}
			bad = ap
		})
		c.Check(bad == "", rule, k+" does not write to its shared receiver", fn.Pos(),
			"no store into the receiver's fields outside a lock",
			"the method writes "+bad+" of an object that every request shares, without a lock: concurrent calls overwrite each other's data")
	}
	return examined
}

// sharedNilGuardedParam is the rule for callbacks whose argument is nil on the
// error path of their caller: every dereference of parameter number idx in the
// given function is dominated by a comparison of the parameter with nil.
func sharedNilGuardedParam(c *an.Ctx, rule, fnKey string, idx int, why string) {
	fn := c.Fn(fnKey)
	key := fmt.Sprintf("%s guards its nilable parameter %d", fnKey, idx)
	if fn == nil || idx >= len(fn.Params) {
		c.Und(rule, key, token.NoPos, "anchor not found")
		return
	}
	c.Analysed(fnKey)
	pa := fn.Params[idx]
	bad := false
	var pos token.Pos
	if pa.Referrers() != nil {
		for _, r := range *pa.Referrers() {
			fa, ok := r.(*ssa.FieldAddr)
			if !ok {
				continue
			}
			guarded := false
			for _, e := range an.DominatingConds(fa.Block()) {
				bo, isBo := e.If.Cond.(*ssa.BinOp)
				if !isBo {
					continue
				}
				if (bo.X == ssa.Value(pa) && an.IsNilConst(bo.Y)) || (bo.Y == ssa.Value(pa) && an.IsNilConst(bo.X)) {
					if (bo.Op == token.NEQ) == e.Branch {
						guarded = true
					}
				}
			}
			if !guarded {
				bad = true
				pos = fa.Pos()
			}
		}
	}
	if pos == token.NoPos {
		pos = fn.Pos()
	}
	c.Check(!bad, rule, key, pos, "every dereference is under a nil test", "parameter "+pa.Name()+" is dereferenced without a nil test, but "+why)
}

// sharedSendBufferIntact: one byte slice that is both the source of a send and
// the destination of a receive must be filled again before it is sent a second
// time: a receive that failed half-way has left a part of some other message
// in it.  The rule summarises, for every function of the given packages, which
// []byte parameters it sends (a Write of the slice or of a part of it), which
// it receives into (Read, io.ReadFull, io.ReadAtLeast) and which it fills
// (Pack*, Put*, copy, append), through callees of the same packages; then in
// every function it looks for a receive into a slice followed, on some path
// without a fill, by a send of the same slice.
func sharedSendBufferIntact(c *an.Ctx, rule string, pkgPrefixes ...string) (examined int) {
	const (
		fSend = 1 << iota
		fRecv
		fFill
	)
	isBytes := func(t types.Type) bool {
		s, ok := t.Underlying().(*types.Slice)
		return ok && isBasicKind(s.Elem(), types.Uint8)
	}
	base := func(v ssa.Value) ssa.Value {
		for {
			switch x := v.(type) {
			case *ssa.Slice:
				if _, isArr := an.Deref(x.X.Type()).Underlying().(*types.Array); isArr {
					return v
				}
				v = x.X
			case *ssa.ChangeType:
				v = x.X
			default:
				return v
			}
		}
	}
	var fns []*ssa.Function
	for _, fn := range c.Prog.AllFns {
		if !c.Prog.InRepo(fn) || c.Prog.IsTestFile(fn.Pos()) || !hasAnyPrefix(an.FnKey(fn), pkgPrefixes) {
			continue
		}
		fns = append(fns, fn)
	}
	inSet := map[*ssa.Function]bool{}
	for _, fn := range fns {
		inSet[fn] = true
	}
	summ := map[*ssa.Function]map[int]int{}
	// effect of one call on its []byte arguments: argument index -> flags
	effects := func(call ssa.CallInstruction) map[int]int {
		out := map[int]int{}
		com := call.Common()
		name := an.CalleeName(call)
		short := name
		if i := strings.LastIndexAny(short, ".)"); i >= 0 {
			short = strings.TrimLeft(short[i:], ".)")
		}
		callee := an.StaticCallee(call)
		for i, a := range com.Args {
			if !isBytes(a.Type()) {
				continue
			}
			switch {
			case callee != nil && inSet[callee]:
				pi := i
				if s := summ[callee]; s != nil {
					out[i] |= s[pi]
				}
			case strings.HasPrefix(short, "Write"):
				out[i] |= fSend
			case short == "ReadFull" || short == "ReadAtLeast" || strings.HasPrefix(short, "Read"):
				out[i] |= fRecv
			case strings.HasPrefix(short, "Pack") || strings.HasPrefix(short, "Put") || strings.HasPrefix(short, "Append"):
				out[i] |= fFill
			}
		}
		return out
	}
	for changed := true; changed; {
		changed = false
		for _, fn := range fns {
			params := map[ssa.Value]int{}
			for i, p := range fn.Params {
				if isBytes(p.Type()) {
					params[p] = i
				}
			}
			if len(params) == 0 {
				continue
			}
			for _, call := range an.Calls(fn) {
				for ai, fl := range effects(call) {
					if pi, ok := params[base(call.Common().Args[ai])]; ok && fl != 0 {
						if summ[fn] == nil {
							summ[fn] = map[int]int{}
						}
						if summ[fn][pi]|fl != summ[fn][pi] {
							summ[fn][pi] |= fl
							changed = true
						}
					}
				}
			}
		}
	}
	reachNoFill := func(from, to ssa.Instruction, fills map[ssa.Instruction]bool) bool {
		blk, i := an.After(from)
		seen := map[*ssa.BasicBlock]bool{}
		type st struct {
			b *ssa.BasicBlock
			i int
		}
		work := []st{{blk, i}}
		for len(work) > 0 {
			s := work[len(work)-1]
			work = work[:len(work)-1]
			blocked := false
			for j := s.i; j < len(s.b.Instrs); j++ {
				if fills[s.b.Instrs[j]] {
					blocked = true
					break
				}
				if s.b.Instrs[j] == to {
					return true
				}
			}
			if blocked {
				continue
			}
			for _, succ := range s.b.Succs {
				if !seen[succ] {
					seen[succ] = true
					work = append(work, st{succ, 0})
				}
			}
		}
		return false
	}
	for _, fn := range fns {
		type ev struct {
			in ssa.Instruction
			fl int
		}
		byBuf := map[ssa.Value][]ev{}
		for _, call := range an.Calls(fn) {
			for ai, fl := range effects(call) {
				if fl != 0 {
					b := base(call.Common().Args[ai])
					byBuf[b] = append(byBuf[b], ev{call, fl})
				}
			}
		}
		// a built-in copy into the slice is a fill as well
		an.Instrs(fn, func(in ssa.Instruction) {
			if call, ok := in.(*ssa.Call); ok {
				if b, ok := call.Call.Value.(*ssa.Builtin); ok && b.Name() == "copy" && len(call.Call.Args) == 2 {
					byBuf[base(call.Call.Args[0])] = append(byBuf[base(call.Call.Args[0])], ev{call, fFill})
				}
			}
		})
		for buf, evs := range byBuf {
			hasSend, hasRecv := false, false
			fills := map[ssa.Instruction]bool{}
			for _, e := range evs {
				hasSend = hasSend || e.fl&fSend != 0
				hasRecv = hasRecv || e.fl&fRecv != 0
				if e.fl&fFill != 0 && e.fl&(fSend|fRecv) == 0 {
					fills[e.in] = true
				}
			}
			if !hasSend || !hasRecv {
				continue
			}
			examined++
			c.Analysed(an.FnKey(fn))
			bufName := "of type " + buf.Type().String()
			if p, ok := buf.(*ssa.Parameter); ok {
				bufName = p.Name()
			}
			key := fmt.Sprintf("%s: the buffer %s is filled again before it is sent after a receive", an.FnKey(fn), bufName)
			bad := ""
			for _, r := range evs {
				if r.fl&fRecv == 0 {
					continue
				}
				for _, s := range evs {
					if s.fl&fSend == 0 {
						continue
					}
					if reachNoFill(r.in, s.in, fills) {
						bad = fmt.Sprintf("%s receives into the buffer and %s then sends it with no fill in between (a failed receive leaves a partial message in the bytes that are sent)",
							c.Prog.Pos(r.in.Pos()), c.Prog.Pos(s.in.Pos()))
					}
				}
			}
			c.Check(bad == "", rule, key, fn.Pos(), fmt.Sprintf("%d uses of the buffer; no send is reachable from a receive without a fill", len(evs)), bad)
		}
	}
	return examined
}

// sharedPutOfOwnedField: when what goes back to a pool is held in a field of
// an object that outlives the call (the address of the field, the pointer or
// slice stored in it, or a local copy of it), nothing in the function's own
// control flow says that this happens once per object: the function can be
// entered again for the same object (a second write to one UDP session after
// the first one failed).  Such a Put has to be a test-and-clear: dominated by a
// condition on the field and accompanied by a store that clears or replaces
// the field.  Returns the number of such Puts examined.
func sharedPutOfOwnedField(c *an.Ctx, rule string, prefixes ...string) (examined int) {
	for _, fn := range c.AllFns {
		if fn.Blocks == nil || c.IsTestFile(fn.Pos()) || !c.Prog.InRepo(fn) || !hasAnyPrefix(an.FnKey(fn), prefixes) {
			continue
		}
		for _, call := range an.Calls(fn) {
			if !isPoolPut(call) {
				continue
			}
			args := call.Common().Args
			v := args[len(args)-1]
			if mi, ok := v.(*ssa.MakeInterface); ok {
				v = mi.X
			}
			// which field of which longer-lived object does the value come from?
			fa := putSourceField(v)
			if fa == nil {
				continue
			}
			path, ok := an.AccessPath(fa)
			if !ok {
				continue
			}
			// a field of the pool's owner itself (l.buf) is not per-session state; the object must come in through a
			// parameter other than the one the pool is reached through, or through a field of one
			poolPath, _ := an.AccessPath(args[0])
			root := func(p string) string {
				if i := strings.Index(p, "."); i >= 0 {
					return p[:i]
				}
				return p
			}
			if root(path) == root(poolPath) && strings.Count(path, ".") <= 1 {
				continue
			}
			examined++
			k := an.FnKey(fn)
			c.Analysed(k)
			typ, field, _, _ := an.FieldOf(fa)
			key := fmt.Sprintf("%s returns %s.%s to its pool at most once per object", k, an.Short(typ), field)
			// test: some condition that dominates the Put reads the same field
			tested := false
			for _, e := range an.DominatingConds(call.Block()) {
				w := &an.Walker{P: c.Prog, NoFieldJoin: true, Opaque: func(*ssa.Function) bool { return true },
					Visit: func(u ssa.Value) bool {
						if ld, ok := u.(*ssa.UnOp); ok && ld.Op == token.MUL {
							if p2, ok := an.AccessPath(ld.X); ok && p2 == path {
								tested = true
								return true
							}
						}
						return false
					}}
				w.Walk(e.If.Cond)
			}
			// clear: the field is stored to in this function
			cleared := false
			an.Instrs(fn, func(in ssa.Instruction) {
				if st, ok := in.(*ssa.Store); ok {
					if p2, ok := an.AccessPath(st.Addr); ok && p2 == path {
						if _, isFA := st.Addr.(*ssa.FieldAddr); isFA {
							cleared = true
						}
					}
				}
			})
			c.Check(tested && cleared, rule, key, call.Pos(),
				"the Put is guarded by a test of the field and the field is replaced in the same function",
				fmt.Sprintf("the pooled value lives in %s, which outlives this call, and the Put is %s: a second call for the same object (a second write to one session after the first failed) leaves the buffer in the pool twice and two later users share it",
					path, map[bool]string{true: "guarded by a test of the field but the field is never cleared", false: "not guarded by a test of the field"}[tested]))
		}
	}
	return examined
}

// sharedHandOnEvery is the rule for a receive-convert-collect loop: once the
// conversion of a received item has succeeded, the item is handed on.  From the
// success edge of the conversion call, the next receive (or the end of the
// function) is reachable only through a store to each of the collecting
// fields; a path that skips one drops an item the sender will not send again.
func sharedHandOnEvery(c *an.Ctx, rule, fnKey, convertSuffix string, fields ...string) {
	fn := c.Fn(fnKey)
	key := fnKey + " hands on every item that converts"
	if fn == nil {
		c.Und(rule, key, token.NoPos, "anchor not found")
		return
	}
	c.Analysed(fnKey)
	var conv *ssa.Call
	for _, call := range an.Calls(fn) {
		if cl, ok := call.(*ssa.Call); ok && strings.HasSuffix(an.CalleeName(call), convertSuffix) {
			conv = cl
		}
	}
	if conv == nil {
		c.Und(rule, key, fn.Pos(), "no call of %s found", convertSuffix)
		return
	}
	// the success edge: the negation of an edge taken exactly when the conversion's error is non-nil
	var start *ssa.BasicBlock
	for _, b := range fn.Blocks {
		ifi, ok := b.Instrs[len(b.Instrs)-1].(*ssa.If)
		if !ok {
			continue
		}
		for _, br := range []bool{true, false} {
			if an.ErrNonNilEdgeOf(an.CondEdge{If: ifi, Branch: br}, conv) {
				start = an.CondEdge{If: ifi, Branch: !br}.To()
			}
		}
	}
	if start == nil {
		c.Und(rule, key, conv.Pos(), "the error of %s is not tested", convertSuffix)
		return
	}
	var missing []string
	for _, f := range fields {
		isStore := func(in ssa.Instruction) bool {
			st, ok := in.(*ssa.Store)
			if !ok {
				return false
			}
			_, field, _, ok := an.FieldOf(st.Addr)
			return ok && field == f
		}
		// search from the success edge for the conversion call (next iteration) or a return, not passing a store
		seen := map[*ssa.BasicBlock]bool{}
		work := []*ssa.BasicBlock{start}
		skipped := false
		for len(work) > 0 && !skipped {
			b := work[len(work)-1]
			work = work[:len(work)-1]
			if seen[b] {
				continue
			}
			seen[b] = true
			blocked := false
			for _, in := range b.Instrs {
				if isStore(in) {
					blocked = true
					break
				}
				if in == ssa.Instruction(conv) {
					skipped = true
					break
				}
				if _, isRet := in.(*ssa.Return); isRet {
					skipped = true
					break
				}
			}
			if !blocked && !skipped {
				work = append(work, b.Succs...)
			}
		}
		if skipped {
			missing = append(missing, f)
		}
	}
	c.Check(len(missing) == 0, rule, key, conv.Pos(),
		fmt.Sprintf("after a successful %s every path to the next item or to the end stores to %s", convertSuffix, strings.Join(fields, " and ")),
		fmt.Sprintf("after a successful %s some path reaches the next item (or the end) without storing to %s: a converted item is dropped, and the sender, whose sync point still advances, does not send it again",
			convertSuffix, strings.Join(missing, ", ")))
}

// sharedNoSilentSkip is the rule for element-wise conversion loops (a range
// loop that appends to a result): an element is left out only after it has been
// reported (error collector, logger) or because a conversion of it failed (an
// error or ok result of a call is tested on the skipping path).  A path from
// the loop header back to it that neither appends nor reports nor tests such a
// result drops valid elements silently: a /0 prefix, a deleted profile, the
// last device of a profile.  Returns the number of loops examined.
func sharedNoSilentSkip(c *an.Ctx, rule string, prefixes ...string) (examined int) {
	isBuiltinAppend := func(in ssa.Instruction) bool {
		call, ok := in.(*ssa.Call)
		if !ok {
			return false
		}
		b, ok := call.Call.Value.(*ssa.Builtin)
		return ok && b.Name() == "append"
	}
	isReport := func(in ssa.Instruction) bool {
		call, ok := in.(ssa.CallInstruction)
		if !ok {
			return false
		}
		n := an.CalleeName(call)
		return strings.Contains(n, "errcoll.") || strings.Contains(n, "slog.Logger).") || strings.Contains(n, "optslog.") ||
			strings.Contains(n, ".Collect") || strings.HasSuffix(n, "log.Debug") || strings.HasSuffix(n, "log.Info") || strings.HasSuffix(n, "log.Error")
	}
	for _, fn := range c.AllFns {
		if fn.Blocks == nil || c.IsTestFile(fn.Pos()) || !c.Prog.InRepo(fn) || !hasAnyPrefix(an.FnKey(fn), prefixes) || strings.Contains(c.Pos(fn.Pos()), ".pb.go:") {
			continue
		}
		for _, l := range naturalLoops(fn) {
			if l.done == nil {
				continue
			}
			has := false
			for b := range l.blocks {
				for _, in := range b.Instrs {
					if isBuiltinAppend(in) {
						has = true
					}
				}
			}
			if !has {
				continue
			}
			examined++
			k := an.FnKey(fn)
			c.Analysed(k)
			// the body entry: the successor of the header that stays in the loop
			var entry *ssa.BasicBlock
			for _, s := range l.header.Succs {
				if l.blocks[s] && s != l.header {
					entry = s
				}
			}
			if entry == nil {
				continue
			}
			// a block excuses the skip when it appends, reports, or is entered through a test of a call's error / ok result
			excused := func(b *ssa.BasicBlock) bool {
				for _, in := range b.Instrs {
					if isBuiltinAppend(in) || isReport(in) {
						return true
					}
				}
				return false
			}
			testsCallResult := func(b *ssa.BasicBlock) bool {
				ifi, ok := b.Instrs[len(b.Instrs)-1].(*ssa.If)
				if !ok {
					return false
				}
				found := false
				var visit func(v ssa.Value, d int)
				visit = func(v ssa.Value, d int) {
					if d > 4 || found {
						return
					}
					switch x := v.(type) {
					case *ssa.Extract:
						if _, isCall := x.Tuple.(*ssa.Call); isCall && x.Index > 0 {
							found = true
						}
						if _, isTA := x.Tuple.(*ssa.TypeAssert); isTA {
							found = true
						}
						if _, isLookup := x.Tuple.(*ssa.Lookup); isLookup {
							found = true
						}
					case *ssa.Call:
						found = found || isErrorType(x.Type()) || isBasicKind(x.Type(), types.Bool)
					case *ssa.BinOp:
						visit(x.X, d+1)
						visit(x.Y, d+1)
					case *ssa.UnOp:
						visit(x.X, d+1)
					case *ssa.Phi:
						for _, e := range x.Edges {
							visit(e, d+1)
						}
					}
				}
				visit(ifi.Cond, 0)
				return found
			}
			seen := map[*ssa.BasicBlock]bool{}
			var path []*ssa.BasicBlock
			var silent []*ssa.BasicBlock
			var dfs func(b *ssa.BasicBlock, tested bool)
			dfs = func(b *ssa.BasicBlock, tested bool) {
				if silent != nil || !l.blocks[b] {
					return
				}
				if b == l.header {
					if !tested {
						silent = append([]*ssa.BasicBlock{}, path...)
					}
					return
				}
				if seen[b] || excused(b) {
					return
				}
				seen[b] = true
				path = append(path, b)
				t := tested || testsCallResult(b)
				for _, s := range b.Succs {
					dfs(s, t)
				}
				path = path[:len(path)-1]
			}
			dfs(entry, false)
			key := fmt.Sprintf("%s: the loop over %s leaves no element out silently", k, loopSubject(l))
			where := ""
			if len(silent) > 0 {
				last := silent[len(silent)-1]
				where = c.Pos(last.Instrs[len(last.Instrs)-1].Pos())
				for _, in := range last.Instrs {
					if in.Pos() != token.NoPos {
						where = c.Pos(in.Pos())
					}
				}
			}
			c.Check(silent == nil, rule, key, l.header.Instrs[0].Pos(),
				"every path through the loop body appends, reports the element, or follows a test of a conversion result",
				"a path through the body (ending near "+where+") reaches the next element without appending, reporting, or testing a conversion result: elements that a plain comparison singles out (a zero prefix length, a flag) vanish from the result")
		}
	}
	return examined
}

// sharedPrefixLengthVerbatim: where subnets cross a representation boundary
// (backend protobuf -> netip.Prefix -> file-cache protobuf -> netip.Prefix) the
// prefix length is carried over as it is: the length operand of
// netip.PrefixFrom is a plain conversion of the message's Prefix field, and the
// Prefix field of a message is a plain conversion of netip.Prefix.Bits.  A
// length that is chosen by a comparison (0 replaced by the address width)
// changes which clients a subnet covers.  Returns the number of operands examined.
func sharedPrefixLengthVerbatim(c *an.Ctx, rule string, prefixes ...string) (examined int) {
	strip := func(v ssa.Value) ssa.Value {
		for {
			switch x := v.(type) {
			case *ssa.Convert:
				v = x.X
			case *ssa.ChangeType:
				v = x.X
			default:
				return v
			}
		}
	}
	for _, fn := range c.AllFns {
		if fn.Blocks == nil || c.IsTestFile(fn.Pos()) || !c.Prog.InRepo(fn) || !hasAnyPrefix(an.FnKey(fn), prefixes) || strings.Contains(c.Pos(fn.Pos()), ".pb.go:") {
			continue
		}
		k := an.FnKey(fn)
		n := 0
		bad := ""
		an.Instrs(fn, func(in ssa.Instruction) {
			switch x := in.(type) {
			case *ssa.Call:
				if an.CalleeName(x) != "net/netip.PrefixFrom" || len(x.Call.Args) != 2 {
					return
				}
				src := strip(x.Call.Args[1])
				// only conversions of messages: the length operand mentions a Prefix field somewhere
				mentions := false
				w := &an.Walker{P: c.Prog, NoFieldJoin: true, Opaque: func(*ssa.Function) bool { return true },
					Visit: func(v ssa.Value) bool {
						if ld, ok := v.(*ssa.UnOp); ok && ld.Op == token.MUL {
							if _, f, _, ok := an.FieldOf(ld.X); ok && f == "Prefix" {
								mentions = true
								return true
							}
						}
						return false
					}}
				w.Walk(x.Call.Args[1])
				if !mentions {
					return
				}
				n++
				ld, ok := src.(*ssa.UnOp)
				if ok && ld.Op == token.MUL {
					if _, f, _, ok := an.FieldOf(ld.X); ok && f == "Prefix" {
						return
					}
				}
				bad = "the length given to netip.PrefixFrom at " + c.Pos(x.Pos()) + " is computed (" + src.String() + "), not the message's Prefix field as it is"
			case *ssa.Store:
				typ, f, _, ok := an.FieldOf(x.Addr)
				if !ok || f != "Prefix" || !strings.HasSuffix(typ, ".CidrRange") {
					return
				}
				n++
				src := strip(x.Val)
				if call, ok := src.(*ssa.Call); ok && strings.HasSuffix(an.CalleeName(call), "netip.Prefix).Bits") {
					return
				}
				if ld, ok := src.(*ssa.UnOp); ok && ld.Op == token.MUL {
					if _, f2, _, ok := an.FieldOf(ld.X); ok && f2 == "Prefix" {
						return
					}
				}
				bad = "the Prefix field stored at " + c.Pos(x.Pos()) + " is computed (" + src.String() + "), not netip.Prefix.Bits as it is"
			}
		})
		if n == 0 {
			continue
		}
		examined += n
		c.Analysed(k)
		c.Check(bad == "", rule, k+" carries prefix lengths over unchanged", fn.Pos(), fmt.Sprintf("%d prefix-length operands, each a plain conversion", n),
			bad+": a subnet covers other clients after the conversion than before")
	}
	return examined
}

// sharedCloneOwnsItsParts: what a clone function puts into its result is never
// an object of the source: every pointer, interface, slice or map value that is
// appended to or stored into the clone is walked back, and reaching a parameter
// of the function other than the receiver without passing a call (a pool Get, a
// copy helper, append into the clone's own storage) means the clone and its
// source share that object; disposing of one recycles a part of the other.
// Returns the number of stored values examined.
func sharedCloneOwnsItsParts(c *an.Ctx, rule string, match func(fnKey string) bool) (examined int) {
	refLike := func(t types.Type) bool {
		switch t.Underlying().(type) {
		case *types.Pointer, *types.Interface, *types.Slice, *types.Map:
			return true
		}
		return false
	}
	for _, fn := range c.AllFns {
		if fn.Blocks == nil || c.IsTestFile(fn.Pos()) || !c.Prog.InRepo(fn) || !match(an.FnKey(fn)) {
			continue
		}
		k := an.FnKey(fn)
		src := map[ssa.Value]bool{}
		for i, p := range fn.Params {
			if i == 0 && fn.Signature.Recv() != nil {
				continue
			}
			if refLike(p.Type()) {
				src[p] = true
			}
		}
		if len(src) == 0 {
			continue
		}
		n := 0
		var shared []string
		check := func(v ssa.Value, at token.Pos, what string) {
			if !refLike(v.Type()) {
				return
			}
			if _, isConst := v.(*ssa.Const); isConst {
				return
			}
			n++
			hit := false
			w := &an.Walker{P: c.Prog, NoFieldJoin: true, Opaque: func(*ssa.Function) bool { return true },
				Visit: func(u ssa.Value) bool {
					if src[u] {
						hit = true
						return true
					}
					if ld, ok := u.(*ssa.UnOp); ok && ld.Op == token.MUL {
						// a load from inside the source object (a field, an element): follow the address chain to its root
						for a := ld.X; ; {
							switch x := a.(type) {
							case *ssa.FieldAddr:
								a = x.X
								continue
							case *ssa.IndexAddr:
								a = x.X
								continue
							case *ssa.UnOp:
								if x.Op == token.MUL {
									a = x.X
									continue
								}
							}
							if src[a] {
								hit = true
								return true
							}
							break
						}
					}
					_, isParam := u.(*ssa.Parameter)
					return isParam
				}}
			// a field load stays inside the source object: follow the address chain by hand
			var follow func(u ssa.Value, d int)
			follow = func(u ssa.Value, d int) {
				if d > 12 || hit {
					return
				}
				switch x := u.(type) {
				case *ssa.UnOp:
					if x.Op == token.MUL {
						follow(x.X, d+1)
						return
					}
				case *ssa.FieldAddr:
					follow(x.X, d+1)
					return
				case *ssa.IndexAddr:
					follow(x.X, d+1)
					return
				case *ssa.Alloc:
					for _, st := range an.Stores(x) {
						follow(st.Val, d+1)
					}
					return
				case *ssa.Extract:
					if nx, ok := x.Tuple.(*ssa.Next); ok {
						if rg, ok := nx.Iter.(*ssa.Range); ok {
							follow(rg.X, d+1)
						}
						return
					}
				}
				w.Walk(u)
			}
			follow(v, 0)
			if hit {
				shared = append(shared, what+" at "+c.Pos(at))
			}
		}
		an.Instrs(fn, func(in ssa.Instruction) {
			switch x := in.(type) {
			case *ssa.Call:
				// the source (or a part of it) handed to a pool while its owner still uses it
				if callee := an.StaticCallee(x); callee != nil || isPoolPut(x) {
					nm := ""
					if callee != nil {
						nm = callee.Name()
					}
					if isPoolPut(x) || strings.HasPrefix(nm, "put") || strings.HasPrefix(nm, "Put") || nm == "Dispose" {
						for _, a := range x.Call.Args {
							if src[a] {
								n++
								shared = append(shared, "the source itself is returned to the pools by "+nm+" at "+c.Pos(x.Pos()))
							}
						}
					}
				}
				if b, ok := x.Call.Value.(*ssa.Builtin); ok && b.Name() == "append" && len(x.Call.Args) == 2 {
					// the appended elements: a slice literal built in place
					if sl, ok := x.Call.Args[1].(*ssa.Slice); ok {
						if al, ok := sl.X.(*ssa.Alloc); ok {
							for _, r := range *al.Referrers() {
								if ia, ok := r.(*ssa.IndexAddr); ok {
									for _, st := range an.Stores(ia) {
										check(st.Val, x.Pos(), "an appended element")
									}
								}
							}
						}
					}
				}
			case *ssa.Store:
				if _, f, _, ok := an.FieldOf(x.Addr); ok {
					if _, isParamField := an.Unwrap(x.Val).(*ssa.Parameter); isParamField {
						return
					}
					check(x.Val, x.Pos(), "field "+f)
				}
			}
		})
		if n == 0 {
			continue
		}
		examined += n
		c.Analysed(k)
		sort.Strings(shared)
		c.Check(len(shared) == 0, rule, k+" shares no object with its source", fn.Pos(),
			fmt.Sprintf("%d reference values put into the clone, none taken from the source as it is", n),
			"the clone holds an object of its source ("+strings.Join(shared, "; ")+"): when either message is disposed of, the object returns to its pool and the other message's option is overwritten by a later answer")
	}
	return examined
}

// appendedElems returns the values of the elements that a builtin append call
// adds when they are given one by one (append(xs, a, b)); nil for append(xs, ys...).
func appendedElems(call *ssa.Call) (vs []ssa.Value) {
	b, ok := call.Call.Value.(*ssa.Builtin)
	if !ok || b.Name() != "append" || len(call.Call.Args) != 2 {
		return nil
	}
	sl, ok := call.Call.Args[1].(*ssa.Slice)
	if !ok {
		return nil
	}
	al, ok := sl.X.(*ssa.Alloc)
	if !ok || al.Referrers() == nil {
		return nil
	}
	for _, r := range *al.Referrers() {
		if ia, ok := r.(*ssa.IndexAddr); ok {
			for _, st := range an.Stores(ia) {
				vs = append(vs, st.Val)
			}
		}
	}
	return vs
}

// sharedNoHoistedElement: a loop that collects pointers must collect a pointer
// to a different object in every iteration.  When the object is declared
// outside the loop and only filled in inside it, every collected element is
// the same object and holds the values of the last iteration (all upstreams are
// the last upstream, all listeners the last listener).  Returns the number of
// pointer elements collected inside loops examined.
func sharedNoHoistedElement(c *an.Ctx, rule string, prefixes ...string) (examined int) {
	for _, fn := range c.AllFns {
		if fn.Blocks == nil || c.IsTestFile(fn.Pos()) || !c.Prog.InRepo(fn) || !hasAnyPrefix(an.FnKey(fn), prefixes) || strings.Contains(c.Pos(fn.Pos()), ".pb.go:") {
			continue
		}
		loops := naturalLoops(fn)
		if len(loops) == 0 {
			continue
		}
		k := an.FnKey(fn)
		n := 0
		bad := ""
		inner := func(b *ssa.BasicBlock) (loop *loopInfo) {
			for _, l := range loops {
				if l.blocks[b] && (loop == nil || len(l.blocks) < len(loop.blocks)) {
					loop = l
				}
			}
			return loop
		}
		consider := func(v ssa.Value, at ssa.Instruction) {
			if mi, ok := v.(*ssa.MakeInterface); ok {
				v = mi.X
			}
			al, ok := v.(*ssa.Alloc)
			if !ok || !al.Heap {
				return
			}
			loop := inner(at.Block())
			if loop == nil {
				return
			}
			n++
			if !loop.blocks[al.Block()] {
				bad = fmt.Sprintf("the object collected at %s (%s) is allocated outside the loop, at %s", c.Pos(at.Pos()), al.Comment, c.Pos(al.Pos()))
			}
		}
		an.Instrs(fn, func(in ssa.Instruction) {
			switch x := in.(type) {
			case *ssa.Call:
				for _, v := range appendedElems(x) {
					consider(v, x)
				}
			case *ssa.MapUpdate:
				consider(x.Value, x)
			}
		})
		if n == 0 {
			continue
		}
		examined += n
		c.Analysed(k)
		c.Check(bad == "", rule, k+" collects a different object in every iteration", fn.Pos(),
			fmt.Sprintf("%d pointers collected inside loops, each to an object of its own iteration", n),
			bad+": every collected element is that one object, with the values of the last iteration")
	}
	return examined
}

// sharedCmpOrOrder: cmp.Or returns its first non-zero operand, so a default
// goes last.  An operand in front of the last one that can never be zero (a
// non-zero constant, the result of a constructor that always returns a fresh
// object) makes every later operand dead: the caller's setting is ignored.
// Returns the number of cmp.Or calls examined.
func sharedCmpOrOrder(c *an.Ctx, rule string, prefixes ...string) (examined int) {
	var neverZero func(v ssa.Value, d int) bool
	neverZero = func(v ssa.Value, d int) bool {
		if d > 3 {
			return false
		}
		switch x := v.(type) {
		case *ssa.MakeInterface:
			return neverZero(x.X, d+1)
		case *ssa.ChangeInterface:
			return neverZero(x.X, d+1)
		case *ssa.Alloc:
			return true
		case *ssa.Const:
			if x.Value == nil {
				return false // nil / zero value
			}
			switch x.Value.Kind() {
			case constant.Int, constant.Float:
				return constant.Sign(x.Value) != 0
			case constant.String:
				return constant.StringVal(x.Value) != ""
			case constant.Bool:
				return constant.BoolVal(x.Value)
			}
			return false
		case *ssa.Call:
			callee := an.StaticCallee(x)
			if callee == nil || callee.Blocks == nil {
				return false
			}
			rs := an.Returns(callee)
			if len(rs) == 0 {
				return false
			}
			for _, r := range rs {
				if len(r.Results) != 1 || !neverZero(r.Results[0], d+1) {
					return false
				}
			}
			return true
		}
		return false
	}
	for _, fn := range c.AllFns {
		if fn.Blocks == nil || c.IsTestFile(fn.Pos()) || !c.Prog.InRepo(fn) || !hasAnyPrefix(an.FnKey(fn), prefixes) {
			continue
		}
		for _, call := range an.Calls(fn) {
			name := an.CalleeName(call)
			if !strings.HasPrefix(name, "cmp.Or") {
				continue
			}
			// variadic: the operands are the elements of a slice literal
			args := call.Common().Args
			if len(args) != 1 {
				continue
			}
			sl, ok := args[0].(*ssa.Slice)
			if !ok {
				continue
			}
			al, ok := sl.X.(*ssa.Alloc)
			if !ok || al.Referrers() == nil {
				continue
			}
			type el struct {
				i int64
				v ssa.Value
			}
			var els []el
			for _, r := range *al.Referrers() {
				if ia, ok := r.(*ssa.IndexAddr); ok {
					if i, ok := an.ConstInt(ia.Index); ok {
						for _, st := range an.Stores(ia) {
							els = append(els, el{i, st.Val})
						}
					}
				}
			}
			if len(els) < 2 {
				continue
			}
			examined++
			c.Analysed(an.FnKey(fn))
			last := int64(0)
			for _, e := range els {
				last = max(last, e.i)
			}
			bad := ""
			for _, e := range els {
				if e.i < last && neverZero(e.v, 0) {
					bad = fmt.Sprintf("operand %d of cmp.Or at %s can never be zero, so the operands after it are never used", e.i+1, c.Pos(call.Pos()))
				}
			}
			key := fmt.Sprintf("%s: cmp.Or at line-independent site %d puts defaults last", an.FnKey(fn), siteIndex(fn, call))
			c.Check(bad == "", rule, key, call.Pos(), fmt.Sprintf("%d operands; none before the last is a constant or a constructor result", len(els)),
				bad+": the value the caller supplied is replaced by the default")
		}
	}
	return examined
}

// siteIndex numbers the call instructions of fn with the same callee name as
// call, in block order, so that an obligation key does not depend on line numbers.
func siteIndex(fn *ssa.Function, call ssa.CallInstruction) (n int) {
	name := an.CalleeName(call)
	for _, cl := range an.Calls(fn) {
		if an.CalleeName(cl) == name {
			n++
			if cl == call {
				return n
			}
		}
	}
	return 0
}

// sharedContextConstructors: a function that hands out a fresh context per call
// (results: context.Context and context.CancelFunc) derives every context from
// the same parent.  A constructor closure that assigns to a captured variable
// chains each context to the previous one: the first deadline is inherited by
// every later context, and after it has passed every operation started under
// such a context fails at once.  Returns the number of constructors examined.
func sharedContextConstructors(c *an.Ctx, rule string, prefixes ...string) (examined int) {
	for _, fn := range c.AllFns {
		if fn.Blocks == nil || c.IsTestFile(fn.Pos()) || !c.Prog.InRepo(fn) || !hasAnyPrefix(an.FnKey(fn), prefixes) {
			continue
		}
		res := fn.Signature.Results()
		if res.Len() != 2 || an.TypeName(res.At(0).Type()) != "context.Context" || an.TypeName(res.At(1).Type()) != "context.CancelFunc" {
			continue
		}
		if len(fn.FreeVars) == 0 {
			continue
		}
		examined++
		c.Analysed(an.FnKey(fn))
		bad := ""
		an.Instrs(fn, func(in ssa.Instruction) {
			if st, ok := in.(*ssa.Store); ok {
				if fv, ok := st.Addr.(*ssa.FreeVar); ok {
					bad = fmt.Sprintf("the captured variable %s is assigned at %s", fv.Name(), c.Pos(st.Pos()))
				}
			}
		})
		// the context handed out is made by this call: it is not a captured value (one context shared by every
		// caller ends for all of them with the first cancel)
		for _, r := range an.Returns(fn) {
			if len(r.Results) != 2 {
				continue
			}
			v := r.Results[0]
			if ld, ok := v.(*ssa.UnOp); ok && ld.Op == token.MUL {
				v = ld.X
			}
			if fv, ok := v.(*ssa.FreeVar); ok {
				bad = fmt.Sprintf("the captured context %s is handed out at %s", fv.Name(), c.Pos(r.Pos()))
			}
		}
		c.Check(bad == "", rule, an.FnKey(fn)+" derives every context from the same parent", fn.Pos(), "the constructor closure does not assign to what it captured",
			bad+": the contexts are not independent of each other (a chained context inherits the previous deadline; a shared one is cancelled for everybody by the first caller that is done)")
	}
	return examined
}

// putSourceField returns the field that a value handed to a pool's Put is
// held in: the address of the field itself, the pointer or slice loaded from
// it, or a local copy of that load (body := s.readBody; Put(&body)); nil when
// the value does not come from a field.
func putSourceField(v ssa.Value) (fa *ssa.FieldAddr) {
	if mi, ok := v.(*ssa.MakeInterface); ok {
		v = mi.X
	}
	switch x := v.(type) {
	case *ssa.FieldAddr:
		return x
	case *ssa.UnOp:
		if x.Op == token.MUL {
			fa, _ = x.X.(*ssa.FieldAddr)
		}
	case *ssa.Alloc:
		if st := an.SingleStore(x); st != nil {
			if ld, ok := st.Val.(*ssa.UnOp); ok && ld.Op == token.MUL {
				fa, _ = ld.X.(*ssa.FieldAddr)
			}
		}
	}
	return fa
}

// sharedSubmessageNilSafe: a sub-message of a protobuf message is a pointer
// that is nil whenever the sender left the field out.  A converter that reads
// a field through such a pointer (x.Sub.F) without a nil test of it panics on
// a message that lacks the sub-message; in the profile synchronisation a panic
// ends the periodic refresh loop, so one such profile stops every later update.
// For every field access whose base is a pointer loaded from a field of a
// generated message type (declared in a .pb.go file of the package), a nil
// test of that pointer must dominate the access.  Generated getters are
// nil-safe and are not field accesses.  Returns the number of accesses examined.
func sharedSubmessageNilSafe(c *an.Ctx, rule string, pkgPrefix string) (examined int) {
	isGenerated := func(t types.Type) bool {
		n := an.NamedOf(an.Deref(t))
		if n == nil || n.Obj() == nil {
			return false
		}
		return strings.HasSuffix(c.Prog.Fset.Position(n.Obj().Pos()).Filename, ".pb.go")
	}
	for _, fn := range c.AllFns {
		k := an.FnKey(fn)
		if fn.Blocks == nil || c.IsTestFile(fn.Pos()) || !c.Prog.InRepo(fn) || !strings.HasPrefix(k, pkgPrefix) || strings.Contains(c.Pos(fn.Pos()), ".pb.go:") {
			continue
		}
		n := 0
		bad := map[string]bool{}
		an.Instrs(fn, func(in ssa.Instruction) {
			fa, ok := in.(*ssa.FieldAddr)
			if !ok {
				return
			}
			ld, ok := fa.X.(*ssa.UnOp)
			if !ok || ld.Op != token.MUL {
				return
			}
			src, ok := ld.X.(*ssa.FieldAddr)
			if !ok || !isGenerated(ld.Type()) || !isGenerated(src.X.Type()) {
				return
			}
			n++
			same := func(v ssa.Value) bool {
				if v == ssa.Value(ld) {
					return true
				}
				l2, ok := v.(*ssa.UnOp)
				if !ok || l2.Op != token.MUL {
					return false
				}
				f2, ok := l2.X.(*ssa.FieldAddr)
				return ok && f2.X == src.X && f2.Field == src.Field
			}
			guarded := false
			for _, e := range an.DominatingConds(fa.Block()) {
				b, ok := e.If.Cond.(*ssa.BinOp)
				if !ok || b.Op != token.EQL && b.Op != token.NEQ {
					continue
				}
				var isEq, hit bool
				switch {
				case an.IsNilConst(b.Y) && same(b.X), an.IsNilConst(b.X) && same(b.Y):
					isEq, hit = b.Op == token.EQL, true
				}
				if hit && isEq != e.Branch {
					guarded = true
				}
			}
			if !guarded {
				_, sub, _, _ := an.FieldOf(src)
				_, f, _, _ := an.FieldOf(fa)
				bad[fmt.Sprintf("%s.%s (%s)", sub, f, c.Pos(fa.Pos()))] = true
			}
		})
		if n == 0 {
			continue
		}
		examined += n
		c.Analysed(k)
		var bs []string
		for b := range bad {
			bs = append(bs, b)
		}
		sort.Strings(bs)
		c.Check(len(bs) == 0, rule, k+" reads sub-messages only after a nil test", fn.Pos(),
			fmt.Sprintf("%d field accesses through sub-message pointers, each dominated by a nil test", n),
			"a message without the sub-message makes this a nil dereference: "+strings.Join(bs, ", ")+"; the panic ends the periodic refresh loop, so one such message stops every later synchronisation")
	}
	return examined
}

// sharedPrefixOfSameAddr: a.Prefix(b.BitLen()) turns an address into the
// single-address prefix only when a and b are the same address value; the full
// length of one address applied to a transformed copy of it (unmapped, zoned)
// is out of range or covers a different set.  Returns the number of such calls
// examined.
func sharedPrefixOfSameAddr(c *an.Ctx, rule string, prefixes ...string) (examined int) {
	var same func(a, b ssa.Value) bool
	same = func(a, b ssa.Value) bool {
		if a == b {
			return true
		}
		la, ok1 := a.(*ssa.UnOp)
		lb, ok2 := b.(*ssa.UnOp)
		if ok1 && ok2 && la.Op == token.MUL && lb.Op == token.MUL {
			if la.X == lb.X {
				return true
			}
			pa, oka := an.AccessPath(la.X)
			pb, okb := an.AccessPath(lb.X)
			if oka && okb && pa == pb {
				return true
			}
			fa, oka := la.X.(*ssa.FieldAddr)
			fb, okb := lb.X.(*ssa.FieldAddr)
			return oka && okb && fa.Field == fb.Field && same(fa.X, fb.X)
		}
		return false
	}
	for _, fn := range c.AllFns {
		if fn.Blocks == nil || c.IsTestFile(fn.Pos()) || !c.Prog.InRepo(fn) || !hasAnyPrefix(an.FnKey(fn), prefixes) {
			continue
		}
		for _, call := range an.Calls(fn) {
			if an.CalleeName(call) != "(net/netip.Addr).Prefix" || len(call.Common().Args) != 2 {
				continue
			}
			bl, ok := call.Common().Args[1].(*ssa.Call)
			if !ok || an.CalleeName(bl) != "(net/netip.Addr).BitLen" || len(bl.Call.Args) != 1 {
				continue
			}
			examined++
			c.Analysed(an.FnKey(fn))
			ok = same(call.Common().Args[0], bl.Call.Args[0])
			c.Check(ok, rule, fmt.Sprintf("%s: Prefix(BitLen()) site %d uses one address", an.FnKey(fn), siteIndex(fn, call)), call.Pos(),
				"the prefix length is the bit length of the address the prefix is made from",
				"the prefix is made from one address with the bit length of another (a transformed copy): for an IPv4-mapped address the length is out of range and the conversion fails, or the prefix covers a different set of clients")
		}
	}
	return examined
}

// sharedLockReleased: a mutex that a function locks is unlocked (or its unlock
// is deferred) on every path from the Lock to a return of that function.  An
// early return placed between the Lock and the `defer Unlock` leaves the mutex
// locked for ever; the next caller blocks (the upstream status listener blocks
// the health-check round, and traffic never returns to the main upstreams).
// Returns the number of Lock calls examined.
func sharedLockReleased(c *an.Ctx, rule string, prefixes ...string) (examined int) {
	lockName := func(call ssa.CallInstruction) (kind string) {
		switch an.CalleeName(call) {
		case "(*sync.Mutex).Lock", "(*sync.RWMutex).Lock":
			return "Lock"
		case "(*sync.RWMutex).RLock":
			return "RLock"
		case "(*sync.Mutex).Unlock", "(*sync.RWMutex).Unlock":
			return "Unlock"
		case "(*sync.RWMutex).RUnlock":
			return "RUnlock"
		}
		return ""
	}
	for _, fn := range c.AllFns {
		if fn.Blocks == nil || c.IsTestFile(fn.Pos()) || !c.Prog.InRepo(fn) || !hasAnyPrefix(an.FnKey(fn), prefixes) {
			continue
		}
		for _, call := range an.Calls(fn) {
			kind := lockName(call)
			if kind != "Lock" && kind != "RLock" {
				continue
			}
			if _, isDefer := call.(*ssa.Defer); isDefer {
				continue
			}
			path, ok := an.AccessPath(call.Common().Args[0])
			if !ok {
				continue
			}
			want := map[string]string{"Lock": "Unlock", "RLock": "RUnlock"}[kind]
			releases := func(in ssa.Instruction) bool {
				cl, ok := in.(ssa.CallInstruction)
				if !ok {
					return false
				}
				if lockName(cl) == want {
					p2, ok := an.AccessPath(cl.Common().Args[0])
					return ok && p2 == path
				}
				// a deferred closure that unlocks
				if d, ok := in.(*ssa.Defer); ok {
					if mc, ok := d.Call.Value.(*ssa.MakeClosure); ok {
						if f, ok := mc.Fn.(*ssa.Function); ok {
							for _, c2 := range an.Calls(f) {
								if lockName(c2) == want {
									return true
								}
							}
						}
					}
				}
				return false
			}
			examined++
			c.Analysed(an.FnKey(fn))
			// search from just after the Lock for a return not preceded by a release
			blk, i := an.After(call)
			seen := map[*ssa.BasicBlock]bool{}
			type st struct {
				b *ssa.BasicBlock
				i int
			}
			work := []st{{blk, i}}
			leak := token.NoPos
			for len(work) > 0 && leak == token.NoPos {
				s := work[len(work)-1]
				work = work[:len(work)-1]
				released := false
				for j := s.i; j < len(s.b.Instrs); j++ {
					in := s.b.Instrs[j]
					if releases(in) {
						released = true
						break
					}
					if r, ok := in.(*ssa.Return); ok {
						leak = r.Pos()
						if leak == token.NoPos {
							leak = call.Pos()
						}
						break
					}
				}
				if released || leak != token.NoPos {
					continue
				}
				for _, succ := range s.b.Succs {
					if !seen[succ] {
						seen[succ] = true
						work = append(work, st{succ, 0})
					}
				}
			}
			key := fmt.Sprintf("%s releases %s after %s #%d", an.FnKey(fn), path, kind, siteIndex(fn, call))
			c.Check(leak == token.NoPos, rule, key, call.Pos(), "every path from the "+kind+" to a return passes the "+want+" or its defer",
				fmt.Sprintf("the return at %s is reached with %s still locked (no %s and no deferred one on that path): the next %s blocks for ever", c.Pos(leak), path, want, kind))
		}
	}
	return examined
}

// sharedNilReceiverPath: a method that tests its own receiver for nil has
// promised to work on a nil receiver (an absent optional component, stored as
// a typed nil in an interface).  On the path where the receiver is nil it must
// not touch the receiver's fields, directly or through another method of the
// type that reads them without a test of its own.  From the nil edge of every
// such test, no field access through the receiver and no such method call is
// reachable.  Returns the number of nil tests of a receiver examined.
func sharedNilReceiverPath(c *an.Ctx, rule string, prefixes ...string) (examined int) {
	derefsUnguarded := receiverDerefsUnguarded
	for _, fn := range c.AllFns {
		if fn.Blocks == nil || c.IsTestFile(fn.Pos()) || !c.Prog.InRepo(fn) || !hasAnyPrefix(an.FnKey(fn), prefixes) || fn.Signature.Recv() == nil || len(fn.Params) == 0 {
			continue
		}
		if _, isPtr := fn.Params[0].Type().Underlying().(*types.Pointer); !isPtr {
			continue
		}
		recv := fn.Params[0]
		inFn := 0
		for _, b := range fn.Blocks {
			ifi, ok := b.Instrs[len(b.Instrs)-1].(*ssa.If)
			if !ok {
				continue
			}
			bo, ok := ifi.Cond.(*ssa.BinOp)
			if !ok || bo.Op != token.EQL && bo.Op != token.NEQ {
				continue
			}
			if !(bo.X == ssa.Value(recv) && an.IsNilConst(bo.Y) || bo.Y == ssa.Value(recv) && an.IsNilConst(bo.X)) {
				continue
			}
			examined++
			inFn++
			c.Analysed(an.FnKey(fn))
			nilEdge := an.CondEdge{If: ifi, Branch: bo.Op == token.EQL}
			// blocks reachable from the nil edge
			seen := map[*ssa.BasicBlock]bool{}
			work := []*ssa.BasicBlock{nilEdge.To()}
			bad := ""
			for len(work) > 0 && bad == "" {
				x := work[len(work)-1]
				work = work[:len(work)-1]
				if seen[x] {
					continue
				}
				seen[x] = true
				// a block that the non-nil edge dominates is not on a nil path
				nonNil := false
				for _, e := range an.DominatingConds(x) {
					if e.If == ifi && e.Branch != nilEdge.Branch {
						nonNil = true
					}
				}
				if nonNil {
					continue
				}
				for _, in := range x.Instrs {
					switch y := in.(type) {
					case *ssa.FieldAddr:
						if y.X == ssa.Value(recv) {
							_, f, _, _ := an.FieldOf(y)
							bad = "field " + f + " of the receiver is read at " + c.Pos(y.Pos())
						}
					case ssa.CallInstruction:
						if callee := an.StaticCallee(y); callee != nil && len(y.Common().Args) > 0 && y.Common().Args[0] == ssa.Value(recv) && derefsUnguarded(callee) {
							bad = callee.Name() + ", which reads the receiver's fields, is called on it at " + c.Pos(y.Pos())
						}
					}
				}
				work = append(work, x.Succs...)
			}
			c.Check(bad == "", rule, fmt.Sprintf("%s keeps off a nil receiver after testing it (test %d)", an.FnKey(fn), inFn), ifi.Pos(),
				"nothing reachable from the nil edge touches the receiver's fields",
				"on the path where the receiver is nil "+bad+": the method panics for the absent component it was written to tolerate")
		}
	}
	return examined
}

// mutexLockKind classifies a call as a Lock or an Unlock of a sync mutex.
func mutexLockKind(call ssa.CallInstruction) string {
	switch an.CalleeName(call) {
	case "(*sync.Mutex).Lock", "(*sync.RWMutex).Lock", "(*sync.RWMutex).RLock":
		return "lock"
	case "(*sync.Mutex).Unlock", "(*sync.RWMutex).Unlock", "(*sync.RWMutex).RUnlock":
		return "unlock"
	}
	if call.Common().IsInvoke() {
		switch call.Common().Method.Name() {
		case "Lock":
			return "lock"
		case "Unlock":
			return "unlock"
		}
	}
	return ""
}

// heldMutexAt returns the access path of a mutex that fn itself has locked
// and may still hold at ins: a (non-deferred) Lock dominates ins and a path
// leads from it to ins that passes no explicit Unlock of the same mutex (a
// deferred Unlock releases nothing before the function returns).  "" if none.
func heldMutexAt(fn *ssa.Function, ins ssa.Instruction) (held string) {
	calls := an.Calls(fn)
	for _, call := range calls {
		if mutexLockKind(call) != "lock" {
			continue
		}
		if _, isDefer := call.(*ssa.Defer); isDefer || !an.Dominates(call, ins) {
			continue
		}
		recv := call.Common().Value
		if !call.Common().IsInvoke() {
			recv = call.Common().Args[0]
		}
		path, ok := an.AccessPath(recv)
		if !ok {
			continue
		}
		unlocks := map[ssa.Instruction]bool{}
		for _, u := range calls {
			if _, isDefer := u.(*ssa.Defer); isDefer || mutexLockKind(u) != "unlock" {
				continue
			}
			r2 := u.Common().Value
			if !u.Common().IsInvoke() {
				r2 = u.Common().Args[0]
			}
			if p2, ok := an.AccessPath(r2); ok && p2 == path {
				unlocks[u] = true
			}
		}
		blk, idx := an.After(call)
		seen := map[*ssa.BasicBlock]bool{}
		type st struct {
			b *ssa.BasicBlock
			i int
		}
		work := []st{{blk, idx}}
		reached := false
		for len(work) > 0 && !reached {
			w := work[len(work)-1]
			work = work[:len(work)-1]
			stop := false
			for j := w.i; j < len(w.b.Instrs); j++ {
				if unlocks[w.b.Instrs[j]] {
					stop = true
					break
				}
				if w.b.Instrs[j] == ins {
					reached = true
					break
				}
			}
			if stop || reached {
				continue
			}
			for _, succ := range w.b.Succs {
				if !seen[succ] {
					seen[succ] = true
					work = append(work, st{succ, 0})
				}
			}
		}
		if reached {
			held = path
		}
	}
	return held
}

// sharedSendsUnderLock records (information only: by itself it breaks no
// property) every channel send outside a select that is made while a mutex of
// the enclosing function is held: such a send keeps everybody who needs the
// mutex waiting for the channel's receiver.  Returns the number of sends
// examined.
func sharedSendsUnderLock(c *an.Ctx, rule string, prefixes ...string) (examined int) {
	for _, fn := range c.AllFns {
		if fn.Blocks == nil || c.IsTestFile(fn.Pos()) || !c.Prog.InRepo(fn) || !hasAnyPrefix(an.FnKey(fn), prefixes) {
			continue
		}
		i := 0
		an.Instrs(fn, func(in ssa.Instruction) {
			s, ok := in.(*ssa.Send)
			if !ok {
				return
			}
			i++
			examined++
			c.Analysed(an.FnKey(fn))
			if held := heldMutexAt(fn, s); held != "" {
				c.Inf(rule, fmt.Sprintf("%s: channel send %d is made with a mutex held", an.FnKey(fn), i), s.Pos(),
					"the send at %s can block while %s is held: whoever needs that mutex (Close of the same object, for one) waits for the channel's receiver", c.Pos(s.Pos()), held)
			}
		})
	}
	return examined
}

// receiverDerefsUnguarded reports whether fn reads a field of its receiver on
// some path that no nil test of the receiver dominates.
func receiverDerefsUnguarded(fn *ssa.Function) bool {
	if fn == nil || fn.Blocks == nil || fn.Signature.Recv() == nil || len(fn.Params) == 0 {
		return false
	}
	recv := fn.Params[0]
	bad := false
	an.Instrs(fn, func(in ssa.Instruction) {
		fa, ok := in.(*ssa.FieldAddr)
		if !ok || fa.X != ssa.Value(recv) {
			return
		}
		if !nonNilAt(recv, fa.Block()) {
			bad = true
		}
	})
	return bad
}

// nonNilAt: a test of v against nil dominates block b on its non-nil edge.
func nonNilAt(v ssa.Value, b *ssa.BasicBlock) bool {
	for _, e := range an.DominatingConds(b) {
		if bo, ok := e.If.Cond.(*ssa.BinOp); ok && (bo.Op == token.EQL || bo.Op == token.NEQ) {
			if (bo.X == v && an.IsNilConst(bo.Y) || bo.Y == v && an.IsNilConst(bo.X)) && (bo.Op == token.EQL) != e.Branch {
				return true
			}
		}
	}
	return false
}

// rejectsNilReceiver: the method tests its receiver for nil and returns a
// non-nil error (its last result) on that edge.
func rejectsNilReceiver(fn *ssa.Function) bool {
	if fn == nil || fn.Blocks == nil || fn.Signature.Recv() == nil || len(fn.Params) == 0 {
		return false
	}
	recv := ssa.Value(fn.Params[0])
	n := fn.Signature.Results().Len()
	if n == 0 || fn.Signature.Results().At(n-1).Type().String() != "error" {
		return false
	}
	for _, b := range fn.Blocks {
		ifi, ok := b.Instrs[len(b.Instrs)-1].(*ssa.If)
		if !ok {
			continue
		}
		bo, ok := ifi.Cond.(*ssa.BinOp)
		if !ok || bo.Op != token.EQL && bo.Op != token.NEQ || !(bo.X == recv && an.IsNilConst(bo.Y) || bo.Y == recv && an.IsNilConst(bo.X)) {
			continue
		}
		to := an.CondEdge{If: ifi, Branch: bo.Op == token.EQL}.To()
		ret, ok := to.Instrs[len(to.Instrs)-1].(*ssa.Return)
		if !ok || len(ret.Results) != n {
			continue
		}
		if r := ret.Results[n-1]; !an.IsNilConst(r) {
			if _, isPhi := r.(*ssa.Phi); !isPhi {
				return true
			}
		}
	}
	return false
}

// sharedDecodedElementsNilSafe: encoding/json leaves a nil pointer in a slice
// of pointers for every `null` element of the document.  Wherever an element
// of a JSON-decoded []*T field (a field with a json tag) is used, either a nil
// test of the element, or the "no error" edge of a method of the element that
// rejects a nil receiver with an error, dominates every read of the element's
// fields and every call of a method that reads them unguarded.  Returns the
// number of element uses examined.
func sharedDecodedElementsNilSafe(c *an.Ctx, rule string, prefixes ...string) (examined int) {
	for _, fn := range c.AllFns {
		if fn.Blocks == nil || c.IsTestFile(fn.Pos()) || !c.Prog.InRepo(fn) || !hasAnyPrefix(an.FnKey(fn), prefixes) {
			continue
		}
		k := an.FnKey(fn)
		an.Instrs(fn, func(in ssa.Instruction) {
			ld, ok := in.(*ssa.UnOp)
			if !ok || ld.Op != token.MUL {
				return
			}
			ia, ok := ld.X.(*ssa.IndexAddr)
			if !ok {
				return
			}
			sl, ok := ia.X.(*ssa.UnOp)
			if !ok || sl.Op != token.MUL {
				return
			}
			fa, ok := sl.X.(*ssa.FieldAddr)
			if !ok {
				return
			}
			st, ok := fa.X.Type().Underlying().(*types.Pointer).Elem().Underlying().(*types.Struct)
			if !ok || !strings.Contains(st.Tag(fa.Field), `json:"`) {
				return
			}
			slt, ok := st.Field(fa.Field).Type().Underlying().(*types.Slice)
			if !ok {
				return
			}
			if _, isPtr := slt.Elem().Underlying().(*types.Pointer); !isPtr {
				return
			}
			fieldName := st.Field(fa.Field).Name()
			// guarded: a nil test of the element, or the success edge of a receiver-rejecting method, dominates b
			guarded := func(b *ssa.BasicBlock) bool {
				if nonNilAt(ld, b) {
					return true
				}
				for _, e := range an.DominatingConds(b) {
					for _, r := range *ld.Referrers() {
						call, ok := r.(*ssa.Call)
						if !ok || len(call.Call.Args) == 0 || call.Call.Args[0] != ssa.Value(ld) {
							continue
						}
						if rejectsNilReceiver(an.StaticCallee(call)) && an.ErrNonNilEdgeOf(an.CondEdge{If: e.If, Branch: !e.Branch}, call) {
							return true
						}
					}
				}
				return false
			}
			uses := 0
			for _, r := range *ld.Referrers() {
				bad := ""
				switch y := r.(type) {
				case *ssa.FieldAddr:
					if y.X != ssa.Value(ld) {
						continue
					}
					uses++
					if !guarded(y.Block()) {
						_, f, _, _ := an.FieldOf(y)
						bad = "its field " + f + " is read at " + c.Pos(y.Pos())
					}
				case ssa.CallInstruction:
					callee := an.StaticCallee(y)
					if callee == nil || len(y.Common().Args) == 0 || y.Common().Args[0] != ssa.Value(ld) || callee.Signature.Recv() == nil {
						continue
					}
					uses++
					if receiverDerefsUnguarded(callee) && !guarded(y.Block()) {
						bad = callee.Name() + ", which reads the receiver's fields without a nil test, is called on it at " + c.Pos(y.Pos())
					}
				default:
					continue
				}
				examined++
				c.Analysed(k)
				c.Check(bad == "", rule, fmt.Sprintf("%s: use %d of an element of the decoded %s tolerates null", k, uses, fieldName), r.Pos(),
					"a nil test of the element (or the success of a method that rejects a nil receiver) comes first",
					"an element of "+fieldName+" is nil for a `null` in the document, and "+bad+" with no nil test before it: the document makes the process panic instead of being rejected")
			}
		})
	}
	return examined
}

// distConfigKeys returns the mapping-key paths of /repo's config.dist.yaml (the
// documented sample configuration): keys joined by dots, list items without an
// index.  The file uses plain block style only (no flow mappings, no block
// scalars), which the function verifies.
func distConfigKeys(repo string) (paths map[string]int, err error) {
	data, err := os.ReadFile(filepath.Join(repo, "config.dist.yaml"))
	if err != nil {
		return nil, err
	}
	type level struct {
		indent int
		key    string
	}
	var stack []level
	paths = map[string]int{}
	keyRe := regexp.MustCompile(`^([A-Za-z0-9_]+):(\s.*)?$`)
	for i, line := range strings.Split(string(data), "\n") {
		trimmed := strings.TrimLeft(line, " ")
		if trimmed == "" || strings.HasPrefix(trimmed, "#") {
			continue
		}
		indent := len(line) - len(trimmed)
		for strings.HasPrefix(trimmed, "- ") {
			// a list item: its keys are children of the list's key, one level deeper than the dash
			trimmed = strings.TrimLeft(trimmed[2:], " ")
			indent = len(line) - len(trimmed)
		}
		m := keyRe.FindStringSubmatch(trimmed)
		if m == nil {
			continue // a scalar list item
		}
		if rest := strings.TrimSpace(m[2]); rest == "|" || rest == ">" || strings.HasPrefix(rest, "{") {
			return nil, fmt.Errorf("config.dist.yaml:%d: block scalars and flow mappings are not supported by this reader", i+1)
		}
		for len(stack) > 0 && stack[len(stack)-1].indent >= indent {
			stack = stack[:len(stack)-1]
		}
		stack = append(stack, level{indent, m[1]})
		var ks []string
		for _, l := range stack {
			ks = append(ks, l.key)
		}
		paths[strings.Join(ks, ".")] = i + 1
	}
	return paths, nil
}

// sharedDistConfigKeys: every setting of the documented sample configuration
// (config.dist.yaml) is read by a field: walking the configuration struct of
// package cmd through its yaml tags reaches every key path of the file.  A key
// that no tag names is silently ignored by the decoder, and the feature it was
// meant to switch on keeps its zero value.  Only key paths with one of the
// given prefixes are examined.  Returns the number of key paths examined.
func sharedDistConfigKeys(c *an.Ctx, rule string, prefixes ...string) (examined int) {
	paths, err := distConfigKeys(c.Prog.Repo)
	if err != nil {
		c.Und(rule, "config.dist.yaml", token.NoPos, "%v", err)
		return 0
	}
	pkg := c.Prog.SSA.ImportedPackage("github.com/AdguardTeam/AdGuardDNS/internal/cmd")
	if pkg == nil || pkg.Type("configuration") == nil {
		c.Und(rule, "cmd.configuration", token.NoPos, "type not found")
		return 0
	}
	known := map[string]bool{}    // key paths that a tag names
	wildcard := map[string]bool{} // paths below which anything is accepted (maps, foreign types, custom decoders)
	var walk func(t types.Type, path string, depth int)
	walk = func(t types.Type, path string, depth int) {
		if depth > 12 {
			wildcard[path] = true
			return
		}
		if n := an.NamedOf(t); n != nil {
			// a type that decodes itself, or one from outside the repository: a leaf
			for i := 0; i < n.NumMethods(); i++ {
				if n.Method(i).Name() == "UnmarshalYAML" || n.Method(i).Name() == "UnmarshalText" {
					wildcard[path] = true
					return
				}
			}
			if n.Obj().Pkg() != nil && !strings.HasPrefix(n.Obj().Pkg().Path(), "github.com/AdguardTeam/AdGuardDNS/") {
				wildcard[path] = true
				return
			}
		}
		switch u := t.Underlying().(type) {
		case *types.Pointer:
			walk(u.Elem(), path, depth+1)
		case *types.Slice:
			walk(u.Elem(), path, depth+1)
		case *types.Array:
			walk(u.Elem(), path, depth+1)
		case *types.Map:
			wildcard[path] = true
		case *types.Struct:
			for i := 0; i < u.NumFields(); i++ {
				tag := reflect.StructTag(u.Tag(i)).Get("yaml")
				name, opts, _ := strings.Cut(tag, ",")
				switch {
				case name == "-":
					continue
				case strings.Contains(opts, "inline"):
					walk(u.Field(i).Type(), path, depth+1)
					continue
				case name == "":
					name = strings.ToLower(u.Field(i).Name())
				}
				p := name
				if path != "" {
					p = path + "." + name
				}
				known[p] = true
				walk(u.Field(i).Type(), p, depth+1)
			}
		}
	}
	walk(pkg.Type("configuration").Type(), "", 0)
	var keys []string
	for p := range paths {
		keys = append(keys, p)
	}
	sort.Strings(keys)
	for _, p := range keys {
		if !hasAnyPrefix(p, prefixes) {
			continue
		}
		below := false
		for w := range wildcard {
			if p == w || strings.HasPrefix(p, w+".") {
				below = true
			}
		}
		if below && !known[p] {
			continue
		}
		examined++
		c.Check(known[p], rule, "config.dist.yaml: "+p+" is read by a field of the configuration", token.NoPos,
			"a yaml tag names the key",
			fmt.Sprintf("no field of cmd.configuration carries the yaml key %s of config.dist.yaml (line %d): the decoder ignores the setting and the field meant for it keeps its zero value", p, paths[p]))
	}
	return examined
}

// sharedAppendResultUsed: append returns the grown slice; an append whose
// result nothing reads adds to a slice that nobody looks at again (a validation
// error appended to the parameter instead of the returned slice is dropped, and
// the invalid configuration is accepted).  Every append to a slice of errors
// has a result that is used.  Returns the number of appends examined.
func sharedAppendResultUsed(c *an.Ctx, rule string, prefixes ...string) (examined int) {
	for _, fn := range c.AllFns {
		if fn.Blocks == nil || c.IsTestFile(fn.Pos()) || !c.Prog.InRepo(fn) || !hasAnyPrefix(an.FnKey(fn), prefixes) {
			continue
		}
		inFn := 0
		an.Instrs(fn, func(in ssa.Instruction) {
			call, ok := in.(*ssa.Call)
			if !ok {
				return
			}
			b, ok := call.Call.Value.(*ssa.Builtin)
			if !ok || b.Name() != "append" {
				return
			}
			sl, ok := call.Type().Underlying().(*types.Slice)
			if !ok || sl.Elem().String() != "error" {
				return
			}
			examined++
			inFn++
			c.Analysed(an.FnKey(fn))
			// a use is anything but feeding the value back into an append of the same accumulation (directly or
			// through the loop's phi): an error slice that only ever grows and is never read is dropped as a whole
			used := false
			seen := map[ssa.Value]bool{}
			var follow func(v ssa.Value, d int)
			follow = func(v ssa.Value, d int) {
				if seen[v] || d > 8 || used {
					return
				}
				seen[v] = true
				for _, r := range *v.Referrers() {
					switch x := r.(type) {
					case *ssa.DebugRef:
					case *ssa.Phi:
						follow(x, d+1)
					case *ssa.Call:
						if bb, ok := x.Call.Value.(*ssa.Builtin); ok && bb.Name() == "append" && len(x.Call.Args) > 0 && x.Call.Args[0] == v {
							follow(x, d+1)
						} else {
							used = true
						}
					default:
						used = true
					}
				}
			}
			follow(call, 0)
			c.Check(used, rule, fmt.Sprintf("%s: the result of error append %d is used", an.FnKey(fn), inFn), call.Pos(),
				"the grown slice is read afterwards",
				"the result of the append at "+c.Pos(call.Pos())+" is never read: the error is added to a slice that is not the one returned (or joined), so it is dropped")
		})
	}
	return examined
}

// sharedNoAliasingStrings: a Go string is immutable for everybody who holds
// it; unsafe.String over the bytes of a buffer that is written again later (a
// pooled buffer, a reused scratch slice) makes a string whose content changes
// under its holders.  An identifier that was validated and then used as a map
// key or sent to the backend becomes another identifier.  No production code
// makes a string with unsafe.String or a slice with unsafe.Slice.  (The one
// use of package unsafe in the repository converts between slice types of
// equal layout through unsafe.Pointer and is not one of these.)  Returns the
// number of functions scanned.
func sharedNoAliasingStrings(c *an.Ctx, rule string, prefixes ...string) (scanned int) {
	for _, fn := range c.AllFns {
		if fn.Blocks == nil || c.IsTestFile(fn.Pos()) || !c.Prog.InRepo(fn) || !hasAnyPrefix(an.FnKey(fn), prefixes) {
			continue
		}
		scanned++
		n := 0
		an.Instrs(fn, func(in ssa.Instruction) {
			call, ok := in.(*ssa.Call)
			if !ok {
				return
			}
			b, ok := call.Call.Value.(*ssa.Builtin)
			// "String" and "Slice" are builtins of package unsafe only (the universe has none of these names)
			if !ok || b.Name() != "String" && b.Name() != "Slice" {
				return
			}
			n++
			c.Analysed(an.FnKey(fn))
			c.Bad(rule, fmt.Sprintf("%s: value %d made with unsafe.%s owns its bytes", an.FnKey(fn), n, b.Name()), call.Pos(),
				"unsafe.%s at %s makes a value that shares its bytes with a buffer: when the buffer is reused (a pooled or scratch buffer), the value changes under whoever holds it", b.Name(), c.Pos(call.Pos()))
		})
	}
	return scanned
}

// sharedSameTypeCopyComplete: a function that receives a *T and builds a new T
// field by field from it (a narrowed or adjusted copy of a configuration)
// carries every field over.  When at least half of T's fields are filled, by
// name, from the parameter's fields, a field that the literal leaves at its
// zero value is a dropped setting (a timeout of zero is "no timeout").  Fields
// that the literal sets to something else count as set.  Returns the number of
// such copies examined.
func sharedSameTypeCopyComplete(c *an.Ctx, rule string, prefixes ...string) (examined int) {
	for _, fn := range c.AllFns {
		k := an.FnKey(fn)
		if fn.Blocks == nil || c.IsTestFile(fn.Pos()) || !c.Prog.InRepo(fn) || !hasAnyPrefix(k, prefixes) {
			continue
		}
		inFn := 0
		an.Instrs(fn, func(in ssa.Instruction) {
			al, ok := in.(*ssa.Alloc)
			if !ok {
				return
			}
			st, ok := al.Type().Underlying().(*types.Pointer).Elem().Underlying().(*types.Struct)
			if !ok || st.NumFields() < 4 {
				return
			}
			// a parameter of the same pointer type
			var src *ssa.Parameter
			for _, pa := range fn.Params {
				if types.Identical(pa.Type(), al.Type()) {
					src = pa
				}
			}
			if src == nil {
				return
			}
			set := map[int]bool{}
			byName := 0
			for _, r := range *al.Referrers() {
				fa, ok := r.(*ssa.FieldAddr)
				if !ok {
					continue
				}
				for _, r2 := range *fa.Referrers() {
					sto, ok := r2.(*ssa.Store)
					if !ok || sto.Addr != ssa.Value(fa) {
						continue
					}
					set[fa.Field] = true
					if ld, ok := sto.Val.(*ssa.UnOp); ok && ld.Op == token.MUL {
						if sfa, ok := ld.X.(*ssa.FieldAddr); ok && sfa.X == ssa.Value(src) && sfa.Field == fa.Field {
							byName++
						}
					}
				}
			}
			if byName*2 < st.NumFields() {
				return
			}
			examined++
			inFn++
			c.Analysed(k)
			var missing []string
			for i := 0; i < st.NumFields(); i++ {
				if !set[i] {
					missing = append(missing, st.Field(i).Name())
				}
			}
			c.Check(len(missing) == 0, rule, fmt.Sprintf("%s: copy %d of its %s parameter carries every field over", k, inFn, an.Short(al.Type().String())), al.Pos(),
				fmt.Sprintf("%d fields filled from the parameter by name, none left out", byName),
				fmt.Sprintf("the copy built at %s fills %d fields from the parameter and leaves %s at the zero value: the setting is dropped on the way (a zero timeout means no timeout, a zero size no limit)", c.Pos(al.Pos()), byName, strings.Join(missing, ", ")))
		})
	}
	return examined
}

// sharedEnumSwitchesAgree: a string setting with a fixed set of values (package
// constants with a common name prefix) is checked once, by a validate method,
// and switched on again wherever it is used.  A use whose default branch treats
// an unknown value as a programmer error (panic, errors.ErrBadEnumValue) must
// know every value that validation accepts: an accepted configuration would
// otherwise crash the start-up.  validateSuffix names the validating function;
// every other function of the package that compares one value against two or
// more of the constants and has such a default is examined.  Returns the number
// of switches examined.
func sharedEnumSwitchesAgree(c *an.Ctx, rule, pkgPath, constPrefix, validateSuffix string) (examined int) {
	pkg := c.Prog.SSA.ImportedPackage(pkgPath)
	if pkg == nil {
		c.Und(rule, "enumeration "+constPrefix+"*", token.NoPos, "package %s not found", pkgPath)
		return 0
	}
	values := map[string]string{} // constant value -> name
	for n, mem := range pkg.Members {
		if k, ok := mem.(*ssa.NamedConst); ok && strings.HasPrefix(n, constPrefix) && k.Value.Value.Kind() == constant.String {
			values[constant.StringVal(k.Value.Value)] = n
		}
	}
	// compared returns, per compared operand, the set of enumeration values it is compared with in fn
	compared := func(fn *ssa.Function) map[string]map[string]bool {
		res := map[string]map[string]bool{}
		an.Instrs(fn, func(in ssa.Instruction) {
			b, ok := in.(*ssa.BinOp)
			if !ok || b.Op != token.EQL {
				return
			}
			k, other := b.Y, b.X
			if _, isK := k.(*ssa.Const); !isK {
				k, other = b.X, b.Y
			}
			kc, isK := k.(*ssa.Const)
			if !isK || kc.Value == nil || kc.Value.Kind() != constant.String {
				return
			}
			v := constant.StringVal(kc.Value)
			if _, ok := values[v]; !ok {
				return
			}
			op, _ := an.AccessPath(other)
			if op == "" {
				op = other.Name()
			}
			if res[op] == nil {
				res[op] = map[string]bool{}
			}
			res[op][v] = true
		})
		return res
	}
	strict := func(fn *ssa.Function) bool {
		s := false
		an.Instrs(fn, func(in ssa.Instruction) {
			switch x := in.(type) {
			case *ssa.Panic:
				s = true
			case *ssa.UnOp:
				if g, ok := x.X.(*ssa.Global); ok && g.Name() == "ErrBadEnumValue" {
					s = true
				}
			}
		})
		return s
	}
	accepted := map[string]bool{}
	for _, fn := range c.AllFns {
		if fn.Pkg == pkg && strings.HasSuffix(an.FnKey(fn), validateSuffix) && !c.IsTestFile(fn.Pos()) {
			for _, set := range compared(fn) {
				for v := range set {
					accepted[v] = true
				}
			}
		}
	}
	if len(accepted) < 2 {
		c.Und(rule, "enumeration "+constPrefix+"*", token.NoPos, "the validating switch (%s) over the %d constants was not found", validateSuffix, len(values))
		return 0
	}
	for _, fn := range c.AllFns {
		k := an.FnKey(fn)
		if fn.Pkg != pkg || fn.Blocks == nil || c.IsTestFile(fn.Pos()) || strings.HasSuffix(k, validateSuffix) || !strict(fn) {
			continue
		}
		for op, set := range compared(fn) {
			if len(set) < 2 {
				continue
			}
			examined++
			c.Analysed(k)
			var missing []string
			for v := range accepted {
				if !set[v] {
					missing = append(missing, values[v])
				}
			}
			sort.Strings(missing)
			c.Check(len(missing) == 0, rule, fmt.Sprintf("%s: the switch over %s knows every accepted %s value", k, op, constPrefix), fn.Pos(),
				fmt.Sprintf("%d values, all that validation accepts", len(set)),
				fmt.Sprintf("the switch over %s in %s treats an unknown value as a programmer error but has no case for %s, which validation accepts: a configuration that passes validation crashes the start-up", op, k, strings.Join(missing, ", ")))
		}
	}
	return examined
}

// sharedDeferFlagsUpdated: a local flag that a deferred function tests (release
// the buffer unless it was handed over, undo unless committed) is useful only
// if the body changes it.  A flag that is declared with a constant and never
// assigned again, typically because the assignment that was meant to set it
// declared a new variable of the same name in an inner scope, makes the
// deferred branch constant: the clean-up always (or never) runs.  For every
// boolean local captured by a deferred function literal and read in a condition
// there, the enclosing function stores a non-constant value or a second,
// different constant into it.  Returns the number of such flags examined.
func sharedDeferFlagsUpdated(c *an.Ctx, rule string, prefixes ...string) (examined int) {
	for _, fn := range c.AllFns {
		k := an.FnKey(fn)
		if fn.Blocks == nil || c.IsTestFile(fn.Pos()) || !c.Prog.InRepo(fn) || !hasAnyPrefix(k, prefixes) {
			continue
		}
		inFn := 0
		an.Instrs(fn, func(in ssa.Instruction) {
			d, ok := in.(*ssa.Defer)
			if !ok {
				return
			}
			mc, ok := d.Call.Value.(*ssa.MakeClosure)
			if !ok {
				return
			}
			lit, ok := mc.Fn.(*ssa.Function)
			if !ok {
				return
			}
			for bi, b := range mc.Bindings {
				cell, ok := b.(*ssa.Alloc)
				if !ok {
					continue
				}
				if bt, ok := cell.Type().Underlying().(*types.Pointer).Elem().Underlying().(*types.Basic); !ok || bt.Kind() != types.Bool {
					continue
				}
				// is the captured flag read in a condition of the literal?
				fv := lit.FreeVars[bi]
				tested := false
				for _, r := range *fv.Referrers() {
					ld, ok := r.(*ssa.UnOp)
					if !ok || ld.Op != token.MUL {
						continue
					}
					for _, r2 := range *ld.Referrers() {
						switch y := r2.(type) {
						case *ssa.If:
							tested = true
						case *ssa.UnOp:
							if y.Op == token.NOT {
								tested = true
							}
						}
					}
				}
				if !tested {
					continue
				}
				// stores into the cell, in the function and in its other closures
				consts := map[string]bool{}
				varying := false
				var scan func(f *ssa.Function, addr ssa.Value)
				scan = func(f *ssa.Function, addr ssa.Value) {
					for _, r := range *addr.Referrers() {
						switch y := r.(type) {
						case *ssa.Store:
							if y.Addr == addr {
								if kc, isK := y.Val.(*ssa.Const); isK {
									consts[kc.Value.String()] = true
								} else {
									varying = true
								}
							}
						case *ssa.MakeClosure:
							if g, ok := y.Fn.(*ssa.Function); ok {
								for j, bb := range y.Bindings {
									if bb == addr {
										scan(g, g.FreeVars[j])
									}
								}
							}
						}
					}
				}
				scan(fn, cell)
				examined++
				inFn++
				c.Analysed(k)
				c.Check(varying || len(consts) > 1, rule, fmt.Sprintf("%s: flag %s tested by a deferred function is set by the body", k, fv.Name()), cell.Pos(),
					"the flag receives more than one value",
					fmt.Sprintf("the flag %s, declared at %s and tested by the deferred function, is never assigned after its declaration (an assignment meant for it probably declared a new variable in an inner scope): the deferred clean-up takes the same branch whatever happened", fv.Name(), c.Pos(cell.Pos())))
			}
		})
	}
	return examined
}

// sharedSinglePutWithDefers (the variant of sharedSinglePut that also sees Puts made by deferred function
// literals): an object taken from a pool goes back at most once.  Put
// twice, it is handed to two later Gets, and two requests that overlap write
// their state into the same object (the ECS cache's request record, a message,
// a buffer).  For every value obtained from a Get of a syncutil / sync pool in a
// function, the function has either deferred Puts of it or direct ones, not
// both, and no direct Put can be reached from another direct Put of the same
// value.  Returns the number of pooled values examined.
func sharedSinglePutWithDefers(c *an.Ctx, rule string, prefixes ...string) (examined int) {
	isPoolCall := func(call ssa.CallInstruction, method string) bool {
		n := an.CalleeName(call)
		return (strings.Contains(n, "syncutil.Pool") || strings.Contains(n, "sync.Pool")) && strings.HasSuffix(n, ")."+method) ||
			call.Common().IsInvoke() && call.Common().Method.Name() == method && strings.Contains(call.Common().Value.Type().String(), "Pool")
	}
	for _, fn := range c.AllFns {
		k := an.FnKey(fn)
		if fn.Blocks == nil || c.IsTestFile(fn.Pos()) || !c.Prog.InRepo(fn) || !hasAnyPrefix(k, prefixes) || fn.Parent() != nil {
			continue
		}
		inFn := 0
		for _, get := range an.Calls(fn) {
			gv, ok := get.(*ssa.Call)
			if !ok || !isPoolCall(get, "Get") {
				continue
			}
			// the Puts of this value: in the function itself (direct or `defer pool.Put(v)`) and in its deferred literals
			var direct []ssa.Instruction
			deferred := 0
			matches := func(call ssa.CallInstruction, v ssa.Value) bool {
				if !isPoolCall(call, "Put") {
					return false
				}
				args := call.Common().Args
				if len(args) == 0 {
					return false
				}
				a := args[len(args)-1]
				if a == v {
					return true
				}
				// the value read back from the cell it is kept in (a variable that a closure captures)
				if ld, isLd := a.(*ssa.UnOp); isLd && ld.Op == token.MUL {
					if cell, isCell := ld.X.(*ssa.Alloc); isCell {
						for _, st := range an.Stores(cell) {
							if st.Val == v {
								return true
							}
						}
					}
				}
				return false
			}
			for _, call := range an.Calls(fn) {
				if !matches(call, gv) {
					continue
				}
				if _, isDefer := call.(*ssa.Defer); isDefer {
					deferred++
				} else {
					direct = append(direct, call)
				}
			}
			for _, call := range an.Calls(fn) {
				d, ok := call.(*ssa.Defer)
				if !ok {
					continue
				}
				mc, ok := d.Call.Value.(*ssa.MakeClosure)
				if !ok {
					continue
				}
				lit, _ := mc.Fn.(*ssa.Function)
				if lit == nil {
					continue
				}
				for bi, b := range mc.Bindings {
					// the value itself, or the cell it is kept in
					holds := b == ssa.Value(gv)
					if cell, isCell := b.(*ssa.Alloc); isCell {
						for _, st := range an.Stores(cell) {
							if st.Val == ssa.Value(gv) {
								holds = true
							}
						}
					}
					if !holds {
						continue
					}
					fv := lit.FreeVars[bi]
					for _, lc := range an.Calls(lit) {
						if !isPoolCall(lc, "Put") {
							continue
						}
						args := lc.Common().Args
						if len(args) == 0 {
							continue
						}
						a := args[len(args)-1]
						if ld, isLd := a.(*ssa.UnOp); isLd && ld.Op == token.MUL {
							a = ld.X
						}
						if a == ssa.Value(fv) {
							deferred++
						}
					}
				}
			}
			if deferred == 0 && len(direct) < 2 {
				continue
			}
			examined++
			inFn++
			c.Analysed(k)
			bad := ""
			if deferred > 0 && len(direct) > 0 {
				bad = fmt.Sprintf("it is put back at %s and again by the deferred clean-up", c.Pos(direct[0].Pos()))
			}
			for _, a := range direct {
				for _, b := range direct {
					if a != b && an.CanReach(a, b) {
						bad = fmt.Sprintf("it is put back at %s and again at %s on the same path", c.Pos(a.Pos()), c.Pos(b.Pos()))
					}
				}
			}
			c.Check(bad == "", rule, fmt.Sprintf("%s: pooled value %d goes back to its pool once", k, inFn), gv.Pos(),
				"one return to the pool per path",
				"the object taken from the pool at "+c.Pos(gv.Pos())+" is returned twice: "+bad+"; two later users get the same object and overwrite each other's state")
		}
	}
	return examined
}
