package rules

import (
	"fmt"
	"go/constant"
	"go/token"
	"go/types"
	"math"
	"reflect"
	"sort"
	"strconv"
	"strings"

	"adgverif/an"

	"golang.org/x/tools/go/ssa"
)

func init() {
	register(&Property{ID: "C20", Technique: "abstract interpretation of every section's validate method over representative values (zero / negative / in-range / out-of-range) with lazy exploration of flags and enums; struct-field coverage of the section table; provenance of every integer divisor",
		Run: runC20, Explain: an.Explanation{
			Text: "R1: for every numeric, duration or size setting (yaml-tagged field) of every configuration section type in package " +
				"cmd, the section's validate method is interpreted abstractly with that field set to zero and, where signed, to -1 " +
				"(all other quantities valid, flags and enum strings explored exhaustively): the value must be rejected on every " +
				"path, unless the setting is in the table of 21 confirmed cases where it is valid on purpose (feature switched off, " +
				"documented 'zero disables'). This includes the generic validatePositive helper in each of its instantiations, so a " +
				"validator that cannot fail for a type is detected. R2: the rate limiter's subnet key lengths are bounded by their " +
				"address family (32 / 128 accepted, 33 / 129 rejected). R3: configuration.validate validates every field of the " +
				"configuration that implements the validator interface. R4: every integer division or remainder by a non-constant " +
				"in production code has a divisor whose sources are non-zero constants or configuration values proven positive by R1. " +
				"R5: the conversions that feed the servers, the cache and the connection limiter copy each validated setting into the constructor field of the same meaning (a wrong-field copy would put an unvalidated value where a validated one is assumed).",
			NotCovered: "hazards other than the recognised ones (non-positive quantities, family bounds, division by zero); validation " +
				"of lists, URLs and cross-references between sections; the environment variables.",
			Rules: map[string]string{"C20-R27": "serverProto.needsTLS is true exactly for https, quic and tls: a group with only DoQ servers is not accepted without certificates, and not rejected with them", "C20-R25": "validateRateLimitURLs: the environment URL selected by ratelimit.allowlist.type reaches the validator of its kind on every path to a return (an unset one is rejected, not dereferenced by initRateLimiter)", "C20-R26": "remoteKVConfig.validate accepts exactly: backend with a positive ttl, cache, consul with a ttl within [consulkv.MinTTL, consulkv.MaxTTL], redis with a ttl of at least rediskv.MinTTL (a smaller one becomes PX 0, which Redis refuses on every write)", "C20-R24": "connLimitConfig.toInternal: a disabled connection limit yields no limiter and touches nothing else (its thresholds were not validated, so connlimiter.New is not called with them); an enabled one yields the limiter built from stop and resume", "C20-R23": "every switch over check.kv.type that treats an unknown value as a programmer error (panic / ErrBadEnumValue) has a case for every value that remoteKVConfig.validate accepts (backend, cache, consul, redis)", "C20-R22": "a rejected value is reported under its own name: the property name given to newNotPositiveError, newNegativeError, validatePositive and validateProp is the yaml (or env) tag of the field whose value or validator is passed with it", "C20-R21": "every key path of the documented sample configuration config.dist.yaml is named by a yaml tag reachable from cmd.configuration (types that decode themselves, foreign types and maps are leaves): no documented setting is silently ignored", "C20-R20": "cmd.Main validates the configuration before anything that is documented to need a valid one (validateFromValidConfig) reads it", "C20-R18": "tlsConfig.validate: an absent section exactly when no server needs TLS; a present one needs at least one certificate, valid certificates and valid wildcards", "C20-R19": "builder.initGRPCMetrics creates the gRPC metrics exactly when profiles, the DNS-check key-value store or the allowlist use the protobuf backend (their clients get the field as an interface value)", "C20-R17": "validateDNSCrypt accepts exactly the configurations with provider name, both keys and one of the two implemented encryption schemes", "C20-R16": "a duration setting for which validation accepts zero reaches context.WithTimeout only behind a comparison with zero (a zero timeout is an expired context, not no timeout)", "C20-R15": "a configuration section whose validate accepts a nil receiver is read only after a nil test (receiver in its own methods, loaded pointer elsewhere in cmd)", "C20-R14": "allocations sized by a configuration setting: the setting has an upper bound in validation (known findings: the rate-limit counts and the TCP pipeline count have none)", "C20-RC": "class rules (error chains, shadowed results, character classes, crossed arguments, pool constructors, array pools, loop completeness, loop-carried buffers, replacing setters, complete clones, Grow arithmetic, pooled-buffer escape, sorted searches, fresh decode targets, per-iteration objects, whole-message copies, codec guards) over the packages this property rests on", "C20-R13": "server.bindData: interface bindings without an interface-listener manager are rejected with an error", "C20-R12": "cacheConfig.toInternal: cache type none exactly when size is 0; dnssvc.newListenConfig wraps a listen configuration with the connection limiter only when there is one", "C20-R11": "newServerDNS accepts exactly the documented idle-timeout interval [0, MaxTCPIdleTimeout] (interval derived from the edges into the panic)", "C20-R1": "zero / negative rejection of every numeric setting", "C20-R2": "subnet key length family bounds",
				"C20-R3": "section table completeness", "C20-R4": "divisor provenance", "C20-R5": "validated settings are copied into the constructor fields of the same meaning",
				"C20-R8": "builder flags computed over all server groups accumulate (a later group cannot switch off what an earlier group needs, e.g. the profile database)",
				"C20-R6": "DDR record validation: DoH port needs a path, hints must be of their address family"},
		}})
}

// numericLike reports whether t is a configuration value type that can be
// zero/negative/too large: integers, floats, timeutil.Duration, datasize.ByteSize.
func numericLike(t types.Type) bool {
	switch an.TypeName(t) {
	case "github.com/AdguardTeam/golibs/timeutil.Duration", "github.com/c2h5oh/datasize.ByteSize":
		return true
	}
	if _, isPtr := t.Underlying().(*types.Pointer); isPtr {
		return false
	}
	b, ok := t.Underlying().(*types.Basic)
	return ok && b.Info()&(types.IsInteger|types.IsFloat) != 0
}

func isSigned(t types.Type) bool {
	if an.TypeName(t) == "github.com/AdguardTeam/golibs/timeutil.Duration" {
		return true
	}
	b, ok := t.Underlying().(*types.Basic)
	return ok && b.Info()&types.IsUnsigned == 0 && b.Info()&types.IsInteger != 0
}

// c20Call models the helper calls of package cmd's validators.
func c20Call(c *an.Ctx) func(it *an.Interp, name string, args []an.AV) (an.AV, bool) {
	return func(it *an.Interp, name string, args []an.AV) (an.AV, bool) {
		switch {
		case name == "fmt.Errorf", name == "errors.New", strings.HasSuffix(name, "errors.Annotate"),
			strings.HasPrefix(name, "cmd.newNotPositiveError"), strings.HasPrefix(name, "cmd.newNegativeError"),
			false:
			return an.NonNil("err:" + name), true
		case strings.HasSuffix(name, "errors.Join"):
			if len(args) == 1 && args[0].Kind == an.KSlice {
				for _, e := range args[0].Tup {
					switch e.Kind {
					case an.KNil:
						continue
					case an.KNonNil:
						return e, true
					default:
						return an.Sym("errors.Join over an undetermined value " + e.String()), true
					}
				}
				return an.Nil(), true
			}
		case name == "(github.com/c2h5oh/datasize.ByteSize).Bytes":
			return args[0], true
		case strings.HasPrefix(name, "cmp.Or"):
			if len(args) == 1 && args[0].Kind == an.KSlice {
				for _, e := range args[0].Tup {
					switch e.Kind {
					case an.KNil:
						continue
					case an.KNonNil:
						return e, true
					default:
						return an.Sym("cmp.Or over an undetermined value " + e.String()), true
					}
				}
				return an.Nil(), true
			}
		case strings.HasSuffix(name, ".validate$bound"), strings.HasSuffix(name, ").validate"):
			// nested sections are validated by their own tables
			return an.Nil(), true
		case name == "reflect.ValueOf":
			return args[0], true
		case name == "(reflect.Value).CanInt", name == "(reflect.Value).CanUint":
			t := c.TypeByString(args[0].Dyn)
			var b *types.Basic
			if t != nil {
				b, _ = t.Underlying().(*types.Basic)
			} else {
				for _, bt := range types.Typ {
					if bt.Name() == args[0].Dyn {
						b = bt
					}
				}
			}
			if b == nil {
				return an.CBool(false), true
			}
			isInt := b.Info()&types.IsInteger != 0
			uns := b.Info()&types.IsUnsigned != 0
			if name == "(reflect.Value).CanInt" {
				return an.CBool(isInt && !uns), true
			}
			return an.CBool(isInt && uns), true
		case name == "(reflect.Value).Int", name == "(reflect.Value).Uint":
			a := args[0]
			a.Dyn = ""
			if a.Kind == an.KNonNil {
				// MakeInterface of a constant became nonnil:<literal>; recover the number
				var v int64
				if _, err := fmt.Sscan(a.Key, &v); err == nil {
					return an.CInt(v), true
				}
			}
			return a, true
		}
		return an.AV{}, false
	}
}

type c20Leaf struct {
	row string
	err bool
}

// c20Allowed lists, with the reason confirmed by reading the documentation
// and the consumers, the numeric settings for which a zero (or, where stated,
// negative) value is accepted on purpose, and the condition (a literal of the
// valuation, '!' negates) under which alone it may be accepted.  Key:
// Type.Field=value.
var c20Allowed = map[string]struct{ reason, cond string }{
	"cacheConfig.Size=0":                           {"documented: zero disables the cache (toInternal selects CacheTypeNone)", ``},
	"cacheConfig.ECSSize=0":                        {"required positive only for type 'ecs' (documented); unused by the simple cache", `!p0.Type="ecs"`},
	"cacheConfig.ECSSize=-1":                       {"checked only for type 'ecs'; unused by the simple cache", `!p0.Type="ecs"`},
	"connLimitConfig.Stop=0":                       {"checked only when the limiter is enabled; toInternal returns nil otherwise", `p0.Enabled=false`},
	"connLimitConfig.Resume=0":                     {"checked only when the limiter is enabled; toInternal returns nil otherwise", `p0.Enabled=false`},
	"dnsDBConfig.MaxSize=0":                        {"checked only when DNSDB is enabled", `p0.Enabled=false`},
	"dnsDBConfig.MaxSize=-1":                       {"checked only when DNSDB is enabled", `p0.Enabled=false`},
	"upstreamHealthcheckConfig.Interval=0":         {"checked only when health checks are enabled", `p0.Enabled=false`},
	"upstreamHealthcheckConfig.Interval=-1":        {"checked only when health checks are enabled", `p0.Enabled=false`},
	"upstreamHealthcheckConfig.Timeout=0":          {"checked only when health checks are enabled", `p0.Enabled=false`},
	"upstreamHealthcheckConfig.Timeout=-1":         {"checked only when health checks are enabled", `p0.Enabled=false`},
	"upstreamHealthcheckConfig.BackoffDuration=0":  {"checked only when health checks are enabled", `p0.Enabled=false`},
	"upstreamHealthcheckConfig.BackoffDuration=-1": {"checked only when health checks are enabled", `p0.Enabled=false`},
	"backendConfig.Timeout=0":                      {"documented: 0s disables the timeout", ``},
	"network.SndBufSize=0":                         {"zero keeps the operating system's default", ``},
	"network.RcvBufSize=0":                         {"zero keeps the operating system's default", ``},
	"remoteKVConfig.TTL=0":                         {"validated per key-value type in the switch on Type (positive / range per backend); 'backend' type does not use it", ``},
	"remoteKVConfig.TTL=-1":                        {"validated per key-value type in the switch on Type; 'backend' type does not use it", ``},
	"ddrRecord.HTTPSPort=0":                        {"zero means the port is not advertised", ``},
	"ddrRecord.QUICPort=0":                         {"zero means the port is not advertised", ``},
	"ddrRecord.TLSPort=0":                          {"zero means the port is not advertised", ``},
}

// c20Skip lists configuration types that are not part of the configuration
// file (environment) or whose numeric fields are identifiers, not quantities.
var c20Skip = map[string]string{
	"environment": "process environment, not the configuration file; validated by its own helper functions",
}

func runC20(c *an.Ctx) {
	c.Floor("C20-R27", 1)
	c20NeedsTLS(c, "C20-R27")
	// ---- R24: a disabled connection limit is not constructed
	c.Floor("C20-R24", 1)
	decide(c, "C20-R24", "cmd.(*connLimitConfig).toInternal", an.DecideCfg{
		Dom: an.Domain{"p0.Enabled": an.Bools, "newerr": an.Bools},
		OnCall: func(it *an.Interp, name string, args []an.AV) (an.AV, bool) {
			switch {
			case strings.HasSuffix(name, "connlimiter.New"):
				if it.Feature("newerr").IsTrue() {
					return an.AV{Kind: an.KTuple, Tup: []an.AV{an.Nil(), an.NonNil("newErr")}}, true
				}
				return an.AV{Kind: an.KTuple, Tup: []an.AV{an.NonNil("limiter"), an.Nil()}}, true
			case strings.HasSuffix(name, "slog.Logger).With"):
				return an.NonNil("logger"), true
			case strings.HasSuffix(name, ").WithLabelValues"):
				return an.NonNil("gauge"), true
			}
			return an.AV{}, false
		},
		Expect: func(f an.Features, o an.AOutcome) string {
			called := false
			for _, n := range o.Calls() {
				if strings.HasSuffix(n, "connlimiter.New") {
					called = true
				}
			}
			if !f.B("p0.Enabled") {
				if !called && o.Exit == "return" && o.RetString() == "nil" {
					return ""
				}
				return "nil and no limiter constructed for a disabled connection limit (its thresholds are not validated)"
			}
			if f.B("newerr") {
				if o.Exit == "panic" {
					return ""
				}
				return "a panic for thresholds that validation should have rejected"
			}
			if o.RetString() == "nonnil:limiter" {
				return ""
			}
			return "the constructed limiter; got " + o.RetString()
		},
	})
	// ---- R25: the selected rate-limit URL is validated on every path; R26: the ttl bounds of every key-value store type
	c.Floor("C20-R25", 1)
	c20RateLimitURLValidated(c, "C20-R25")
	c.Floor("C20-R26", 1)
	redisMin, _ := c.ConstInt("github.com/AdguardTeam/AdGuardDNS/internal/remotekv/rediskv", "MinTTL")
	consulMin, _ := c.ConstInt("github.com/AdguardTeam/AdGuardDNS/internal/remotekv/consulkv", "MinTTL")
	consulMax, _ := c.ConstInt("github.com/AdguardTeam/AdGuardDNS/internal/remotekv/consulkv", "MaxTTL")
	decide(c, "C20-R26", "cmd.(*remoteKVConfig).validate", an.DecideCfg{
		Dom: an.Domain{"p0": an.NilOrNot, "p0.Type": an.Strs("backend", "cache", "consul", "redis", "other"),
			"p0.TTL.Duration": an.Ints(-1, 0, 1, redisMin-1, redisMin, consulMin-1, consulMin, consulMax, consulMax+1)},
		OnCall: c20Call(c),
		Expect: func(f an.Features, o an.AOutcome) string {
			ok := false
			if !f.IsNil("p0") {
				ttl := f.I("p0.TTL.Duration")
				switch f.S("p0.Type") {
				case "backend":
					ok = ttl > 0
				case "cache":
					ok = true
				case "consul":
					ok = ttl >= consulMin && ttl <= consulMax
				case "redis":
					ok = redisMin > 0 && ttl >= redisMin
				}
			}
			if len(o.Ret) != 1 || ok != (o.Ret[0].Kind == an.KNil) {
				return fmt.Sprintf("accepted=%v; got %s", ok, o.RetString())
			}
			return ""
		},
	})
	// ---- R23: the uses of an enumerated setting know every value its validation accepts
	if n := sharedEnumSwitchesAgree(c, "C20-R23", "github.com/AdguardTeam/AdGuardDNS/internal/cmd", "kvMode", "cmd.(*remoteKVConfig).validate"); n < 2 {
		c.Und("C20-R23", "switches over check.kv.type", token.NoPos, "only %d strict switches over the kvMode constants found (newRemoteKV and newRemoveKVPrefix confirmed by reading)", n)
	}
	// ---- R22: validation errors carry the name of the offending property
	if n := c20ErrorNames(c, "C20-R22"); n < 50 {
		c.Und("C20-R22", "names in validation errors", token.NoPos, "only %d named validation calls with a field value found in package cmd (about 60 confirmed by reading)", n)
	}
	// ---- R21: the documented settings are read by the configuration structure
	if n := sharedDistConfigKeys(c, "C20-R21"); n < 150 {
		c.Und("C20-R21", "keys of config.dist.yaml", token.NoPos, "only %d key paths examined", n)
	}
	classSweep(c, "C20")
	// ---- R15: sections that validation lets be absent are nil-tested before they are read
	if n := c20OptionalSections(c, "C20-R15"); n < 5 {
		c.Und("C20-R15", "reads of optional sections", token.NoPos, "only %d field accesses through optional sections found", n)
	}
	// ---- R16: a duration for which zero is accepted ("no timeout") does not become an expired context
	if n := c20ZeroTimeouts(c, "C20-R16"); n < 1 {
		c.Und("C20-R16", "timeouts for which zero is accepted", token.NoPos, "no context.WithTimeout fed by such a setting found (anchor: backend.timeout)")
	}
	// ---- R17: an inline DNSCrypt resolver configuration is accepted only with names, keys and one of the two
	// encryption schemes the server implements
	c.Floor("C20-R17", 1)
	xsalsa, _ := c.ConstInt("github.com/ameshkov/dnscrypt/v2", "XSalsa20Poly1305")
	xchacha, _ := c.ConstInt("github.com/ameshkov/dnscrypt/v2", "XChacha20Poly1305")
	decide(c, "C20-R17", "cmd.validateDNSCrypt", an.DecideCfg{
		Dom: an.Domain{"p0.ProviderName": an.Strs("", "2.dnscrypt-cert.example"), "p0.PublicKey": an.Strs("", "k"), "p0.PrivateKey": an.Strs("", "k"),
			"p0.EsVersion": an.Ints(0, 1, 2, 3, 65535)},
		Expect: func(f an.Features, o an.AOutcome) string {
			ok := f.S("p0.ProviderName") != "" && f.S("p0.PublicKey") != "" && f.S("p0.PrivateKey") != "" &&
				xsalsa != xchacha && (f.I("p0.EsVersion") == xsalsa || f.I("p0.EsVersion") == xchacha)
			if len(o.Ret) != 1 || ok != (o.Ret[0].Kind == an.KNil) {
				return fmt.Sprintf("accepted=%v (provider name and both keys set, es_version XSalsa20Poly1305 or XChacha20Poly1305: the server stops serving for any other value); got %s", ok, o.RetString())
			}
			return ""
		},
	})
	// ---- R18: a tls section is accepted exactly for groups that need TLS, with at least one certificate and valid
	// certificates and wildcards; R19: the gRPC metrics exist whenever a protobuf backend is used (profiles, the
	// DNS-check key-value store or the allowlist): every backend client is handed them as an interface value
	c.Floor("C20-R18", 1)
	decide(c, "C20-R18", "cmd.(*tlsConfig).validate", an.DecideCfg{
		Dom: an.Domain{"p0": an.NilOrNot, "p1": an.Bools, "len(p0.Certificates)": an.Ints(0, 1), "certerr": an.Bools, "wcerr": an.Bools},
		OnCall: func(it *an.Interp, name string, args []an.AV) (an.AV, bool) {
			switch {
			case strings.HasSuffix(name, "tlsConfigCerts).validate"):
				if it.Feature("certerr").IsTrue() {
					return an.NonNil("certErr"), true
				}
				return an.Nil(), true
			case strings.HasSuffix(name, "cmd.validateDeviceIDWildcards"):
				if it.Feature("wcerr").IsTrue() {
					return an.NonNil("wcErr"), true
				}
				return an.Nil(), true
			case name == "fmt.Errorf", strings.HasSuffix(name, "errors.Error"):
				return an.NonNil("wrapped"), true
			}
			return an.AV{}, false
		},
		Expect: func(f an.Features, o an.AOutcome) string {
			var ok bool
			switch {
			case f.IsNil("p0"):
				ok = !f.B("p1")
			case !f.B("p1"):
				ok = false
			default:
				ok = f.I("len(p0.Certificates)") > 0 && !f.B("certerr") && !f.B("wcerr")
			}
			if len(o.Ret) != 1 || ok != (o.Ret[0].Kind == an.KNil) {
				return fmt.Sprintf("accepted=%v (absent exactly when no server needs TLS; otherwise at least one certificate, valid certificates and wildcards); got %s", ok, o.RetString())
			}
			return ""
		},
	})
	c.Floor("C20-R19", 1)
	decide(c, "C20-R19", "cmd.(*builder).initGRPCMetrics", an.DecideCfg{
		Dom: an.Domain{"p0.profilesEnabled": an.Bools, "p0.conf.Check.RemoteKV.Type": an.Strs("backend", "consul", "redis"),
			"p0.conf.RateLimit.Allowlist.Type": an.Strs("backend", "consul"), "newerr": an.Bools},
		OnCall: func(it *an.Interp, name string, args []an.AV) (an.AV, bool) {
			switch {
			case strings.HasSuffix(name, "metrics.NewBackendGRPC"):
				if it.Feature("newerr").IsTrue() {
					return an.AV{Kind: an.KTuple, Tup: []an.AV{an.Nil(), an.NonNil("newErr")}}, true
				}
				return an.AV{Kind: an.KTuple, Tup: []an.AV{an.NonNil("grpcMetrics"), an.Nil()}}, true
			case name == "fmt.Errorf":
				return an.NonNil("wrapped"), true
			}
			return an.AV{}, false
		},
		Expect: func(f an.Features, o an.AOutcome) string {
			needed := f.B("p0.profilesEnabled") || f.S("p0.conf.Check.RemoteKV.Type") == "backend" || f.S("p0.conf.RateLimit.Allowlist.Type") == "backend"
			set := false
			for _, s := range o.Stores() {
				set = set || s == "p0.backendGRPCMtrc=nonnil:grpcMetrics"
			}
			switch {
			case len(o.Ret) != 1:
				return "one result"
			case !needed:
				if set || o.Ret[0].Kind != an.KNil {
					return "nothing to do when no protobuf backend is used"
				}
			case f.B("newerr"):
				if o.Ret[0].Kind == an.KNil {
					return "the registration error is returned"
				}
			case !set || o.Ret[0].Kind != an.KNil:
				return "the metrics are created and assigned whenever profiles, the DNS-check store or the allowlist use the backend; stores: " + strings.Join(o.Stores(), ", ")
			}
			return ""
		},
	})
	// ---- R20: the checks that assume a valid configuration run after the validation
	c20ValidateFirst(c, "C20-R20")
	cmdConversions(c, "C20-R5", nil, 30)
	// ---- R12: what an accepted cache / connection-limit configuration turns into: no cache exactly when size is 0
	// (a zero-sized cache object panics at start-up), and a disabled (nil) limiter is never wrapped around a listener
	c.Floor("C20-R12", 2)
	ctNone, _ := c.ConstInt("dnssvc", "CacheTypeNone")
	ctSimple, _ := c.ConstInt("dnssvc", "CacheTypeSimple")
	ctECS, _ := c.ConstInt("dnssvc", "CacheTypeECS")
	decide(c, "C20-R12", "cmd.(*cacheConfig).toInternal", an.DecideCfg{
		Dom: an.Domain{"(p0.Size == 0)": an.Bools, `(p0.Type == "simple")`: an.Bools},
		Expect: func(f an.Features, o an.AOutcome) string {
			want := ctECS
			switch {
			case f.B("(p0.Size == 0)"):
				want = ctNone
			case f.B(`(p0.Type == "simple")`):
				want = ctSimple
			}
			if len(o.Ret) != 1 {
				return "a configuration"
			}
			k := strings.TrimPrefix(o.Ret[0].String(), "&")
			if got := o.Mem[k+".Type"].String(); got != fmt.Sprint(want) {
				return fmt.Sprintf("cache type %d (none exactly when size is 0, whatever the other sizes are); got %s", want, got)
			}
			return ""
		},
	})
	protoDNS, _ := c.ConstInt("agd", "ProtoDNS")
	isDNS := fmt.Sprintf("(p3 == %d)", protoDNS)
	decide(c, "C20-R12", "dnssvc.newListenConfig", an.DecideCfg{
		Dom: an.Domain{"p0": an.NilOrNot, "p2": an.NilOrNot, isDNS: an.Bools},
		OnCall: func(it *an.Interp, name string, args []an.AV) (an.AV, bool) {
			switch {
			case strings.HasSuffix(name, "connlimiter.NewListenConfig"):
				return an.NonNil("limited(" + args[0].String() + "," + args[1].String() + ")"), true
			case strings.HasSuffix(name, "netext.DefaultListenConfigWithOOB"):
				return an.NonNil("oob"), true
			case strings.HasSuffix(name, "netext.DefaultListenConfig"):
				return an.NonNil("plain"), true
			}
			return an.AV{}, false
		},
		Expect: func(f an.Features, o an.AOutcome) string {
			base := "nonnil:plain"
			if f.B(isDNS) {
				base = "nonnil:oob"
			}
			if !f.IsNil("p0") {
				base = "nonnil:p0"
			}
			want := base
			if !f.IsNil("p2") {
				want = "nonnil:limited(" + base + ",nonnil:p2)"
			}
			if got := o.RetString(); got != want {
				return want + " (a nil limiter is never wrapped around the listen configuration); got " + got
			}
			return ""
		},
	})
	c.Floor("C20-R14", 1)
	c20AllocSizes(c)
	c.Floor("C20-R13", 1)
	c20BindData(c)
	// ---- R11: the stream servers accept exactly the documented idle-timeout range [0, MaxTCPIdleTimeout]
	c.Floor("C20-R11", 1)
	if maxIdle, ok := c.ConstInt("dnsserver", "MaxTCPIdleTimeout"); ok {
		c20PanicInterval(c, "C20-R11", "dnsserver.newServerDNS", "a TCP idle timeout", 0, maxIdle)
	} else {
		c.Und("C20-R11", "dnsserver.MaxTCPIdleTimeout", token.NoPos, "constant not found")
	}
	// ---- R10: the builder hands every validated setting to the component it configures
	c.Floor("C20-R10", 40)
	builderWiring(c, "C20-R10", map[string][]string{
		"initDNS|dnssvc.Config":                                        {"HandleTimeout", "ConnLimiter"},
		"initDNS|dnssvc.HandlersConfig":                                {"Cache", "RateLimit"},
		"initProfileDB|profiledb.Config":                               {"FullSyncIvl", "FullSyncRetryIvl", "ResponseSizeEstimate"},
		"initProfileDB|backendpb.ProfileStorageConfig":                 {"ResponseSizeEstimate"},
		"initGeoIP|geoip.FileConfig":                                   {"HostCacheCount", "IPCacheCount"},
		"initFilterStorage|filter/filterstorage.ConfigRuleLists":       nil,
		"initFilterStorage|filter/filterstorage.ConfigBlockedServices": {"IndexMaxSize", "IndexStaleness", "ResultCacheCount"},
		"initFilterStorage|filter/filterstorage.ConfigCustom":          nil,
		"newSafeSearchConfig|filter/filterstorage.ConfigSafeSearch":    {"MaxSize", "RefreshTimeout", "Staleness", "ResultCacheCount"},
		"initSafeBrowsing|filter/hashprefix.FilterConfig":              {"Staleness", "RefreshTimeout", "CacheTTL", "CacheCount", "MaxSize"},
		"initAdultBlocking|filter/hashprefix.FilterConfig":             {"Staleness", "RefreshTimeout", "CacheTTL", "CacheCount", "MaxSize"},
		"initNewRegDomains|filter/hashprefix.FilterConfig":             {"Staleness", "RefreshTimeout", "CacheTTL", "CacheCount", "MaxSize"},
		"initSafeBrowsing|agdservice.RefreshWorkerConfig":              {"Interval"},
		"initAdultBlocking|agdservice.RefreshWorkerConfig":             {"Interval"},
		"initNewRegDomains|agdservice.RefreshWorkerConfig":             {"Interval"},
		"initFilterStorage|agdservice.RefreshWorkerConfig":             {"Interval"},
		"initProfileDB|agdservice.RefreshWorkerConfig":                 {"Interval"},
		"initBillStat|agdservice.RefreshWorkerConfig":                  {"Interval"},
		"initRateLimiter|agdservice.RefreshWorkerConfig":               {"Interval"},
		"initMsgConstructor|dnsmsg.ConstructorConfig":                  {"FilteredResponseTTL"},
	})
	// ---- R9: what the constructors reject, validation rejects first (shared with C18-R7)
	c.Floor("C20-R9", 1)
	c.Borrow("C20-R9", runC18, func(o an.Obligation) bool { return o.Rule == "C18-R7" && strings.Contains(o.Key, "connlimiter.New") })
	c20Accumulators(c)
	// ---- R7: the validated TCP limits reach every stream transport
	c.Floor("C20-R7", 2)
	c.Borrow("C20-R7", runC18, func(o an.Obligation) bool { return o.Rule == "C18-R6" && strings.Contains(o.Key, "NewListener") })
	c20DDR(c)
	c.Floor("C20-R1", 60)
	c.Floor("C20-R2", 4)
	c.Floor("C20-R3", 20)
	c.Floor("C20-R4", 4)

	pkg := c.Pkg("cmd")
	if pkg == nil {
		c.Und("C20-R1", "package cmd", token.NoPos, "package not loaded")
		return
	}
	var names []string
	for _, n := range pkg.Types.Scope().Names() {
		names = append(names, n)
	}
	sort.Strings(names)
	for _, n := range names {
		tn, ok := pkg.Types.Scope().Lookup(n).(*types.TypeName)
		if !ok {
			continue
		}
		st, ok := tn.Type().Underlying().(*types.Struct)
		if !ok {
			continue
		}
		if why, skip := c20Skip[n]; skip {
			c.Except("C20-R1", "cmd."+n, why)
			continue
		}
		fn := c.Fn("cmd.(*" + n + ").validate")
		if fn == nil {
			continue
		}
		c20Struct(c, n, st, fn)
	}

	c20Bounds(c)
	c20Sections(c)
	c20Divisions(c)

	// ---- R5: validated settings reach the constructors under their own meaning
	c.Floor("C20-R5", 12)
	checkFieldMap(c, "C20-R5", "cmd.(servers).toInternal", "agd.Server", map[string]string{
		"ReadTimeout": ".ReadTimeout.Duration", "WriteTimeout": ".WriteTimeout.Duration"})
	checkFieldMap(c, "C20-R5", "cmd.(servers).toInternal", "agd.TCPConfig", map[string]string{
		"IdleTimeout": ".TCPIdleTimeout.Duration", "MaxPipelineCount": ".TCP.MaxPipelineCount", "MaxPipelineEnabled": ".TCP.Enabled"})
	checkFieldMap(c, "C20-R5", "cmd.(servers).toInternal", "agd.UDPConfig", map[string]string{"MaxRespSize": ".MaxUDPResponseSize"})
	checkFieldMap(c, "C20-R5", "cmd.(servers).toInternal", "agd.QUICConfig", map[string]string{
		"MaxStreamsPerPeer": ".QUIC.MaxStreamsPerPeer", "QUICLimitsEnabled": ".QUIC.Enabled"})
	checkFieldMap(c, "C20-R5", "cmd.(*cacheConfig).toInternal", "dnssvc.CacheConfig", map[string]string{
		"MinTTL": ".TTLOverride.Min.Duration", "ECSCount": ".ECSSize", "NoECSCount": ".Size", "OverrideCacheTTL": ".TTLOverride.Enabled"})
	checkFieldMap(c, "C20-R5", "cmd.(*connLimitConfig).toInternal", "connlimiter.Config", map[string]string{"Stop": ".Stop", "Resume": ".Resume"})
}

// c20Struct decides, for every numeric field of configuration struct n, whether
// validate rejects a zero and a negative value.
func c20Struct(c *an.Ctx, n string, st *types.Struct, fn *ssa.Function) {
	type numField struct {
		name, key string
		signed    bool
	}
	var nums []numField
	lazy := an.Domain{}
	base := an.Env{"p0": an.NonNil("p0")}
	for i := 0; i < st.NumFields(); i++ {
		f := st.Field(i)
		if !strings.Contains(st.Tag(i), "yaml:") {
			continue
		}
		switch {
		case numericLike(f.Type()):
			key := "p0." + f.Name()
			if an.TypeName(f.Type()) == "github.com/AdguardTeam/golibs/timeutil.Duration" {
				key += ".Duration"
			}
			nums = append(nums, numField{f.Name(), key, isSigned(f.Type())})
		default:
			switch u := f.Type().Underlying().(type) {
			case *types.Pointer:
				base["p0."+f.Name()] = an.NonNil("p0." + f.Name())
				// numeric fields of nested sections take part in cross-field checks
				if ns, ok := u.Elem().Underlying().(*types.Struct); ok {
					for j := 0; j < ns.NumFields(); j++ {
						if numericLike(ns.Field(j).Type()) {
							k := "p0." + f.Name() + "." + ns.Field(j).Name()
							if an.TypeName(ns.Field(j).Type()) == "github.com/AdguardTeam/golibs/timeutil.Duration" {
								k += ".Duration"
							}
							base[k] = an.CInt(1)
						}
					}
				}
			case *types.Slice, *types.Map:
				lazy["len(p0."+f.Name()+")"] = an.Ints(0, 1)
			case *types.Basic:
				if u.Kind() == types.Bool {
					lazy["p0."+f.Name()] = an.Bools
				}
				if u.Kind() == types.String {
					vals := map[string]bool{"?other": true}
					an.Instrs(fn, func(in ssa.Instruction) {
						b, ok := in.(*ssa.BinOp)
						if !ok || (b.Op != token.EQL && b.Op != token.NEQ) {
							return
						}
						for _, pair := range [][2]ssa.Value{{b.X, b.Y}, {b.Y, b.X}} {
							k, isConst := pair[1].(*ssa.Const)
							if !isConst || k.Value == nil {
								continue
							}
							if ap, ok := an.AccessPath(pair[0]); ok && ap == "p0."+f.Name() {
								vals[strings.Trim(k.Value.ExactString(), `"`)] = true
							}
						}
					})
					var vs []string
					for v := range vals {
						vs = append(vs, v)
					}
					sort.Strings(vs)
					lazy["p0."+f.Name()] = an.Strs(vs...)
				}
			}
		}
	}
	if len(nums) == 0 {
		return
	}
	c.Analysed(an.FnKey(fn))
	run := func(zero string, val int64) (leaves []c20Leaf, unds []string) {
		dom := an.Domain{}
		for k, v := range lazy {
			dom[k] = v
		}
		for k, v := range base {
			dom[k] = []an.AV{v}
		}
		for _, nf := range nums {
			v := int64(1)
			if nf.key == zero {
				v = val
			}
			dom[nf.key] = an.Ints(v)
		}
		inline := func(f *ssa.Function) bool {
			k := an.FnKey(f)
			return strings.HasPrefix(k, "cmd.validatePositive") || k == "cmd.validateProp"
		}
		var rows []c20Leaf
		res := c.Decide(fn, an.DecideCfg{
			Dom: dom, Inline: inline, OnCall: c20Call(c), MaxRuns: 3000,
			OnUnd: func(env an.Env, why string) { unds = append(unds, why+" ["+env.String()+"]") },
			Expect: func(f an.Features, o an.AOutcome) string {
				if o.Exit != "return" || len(o.Ret) != 1 {
					unds = append(unds, "exit "+o.Exit)
					return ""
				}
				switch r := o.Ret[0]; r.Kind {
				case an.KNil:
					rows = append(rows, c20Leaf{err: false})
				case an.KNonNil:
					rows = append(rows, c20Leaf{err: true})
				default:
					unds = append(unds, "undetermined result "+r.String())
					rows = append(rows, c20Leaf{err: false, row: "?"})
				}
				return ""
			},
		})
		if res.Und != "" {
			unds = append(unds, res.Und)
		}
		j := 0
		for i := range rows {
			if rows[i].row == "?" {
				continue
			}
			if j < len(res.Rows) {
				rows[i].row = res.Rows[j]
			}
			j++
		}
		for _, r := range rows {
			if r.row != "?" {
				leaves = append(leaves, r)
			}
		}
		return leaves, unds
	}
	for _, nf := range nums {
		for _, val := range []int64{0, -1} {
			if val < 0 && !nf.signed {
				continue
			}
			key := fmt.Sprintf("%s.%s=%d", n, nf.name, val)
			lv, unds := run(nf.key, val)
			var acc []string
			for _, l := range lv {
				if !l.err {
					acc = append(acc, l.row)
				}
			}
			al, allowed := c20Allowed[key]
			reason := al.reason
			if allowed && al.cond != "" {
				// every accepting path must lie inside the confirmed condition
				for _, row := range acc {
					in := strings.Contains(row, al.cond)
					if strings.HasPrefix(al.cond, "!") {
						in = !strings.Contains(row, al.cond[1:])
					}
					if !in {
						allowed = false
						acc = []string{row}
						break
					}
				}
			}
			switch {
			case len(acc) == 0 && len(unds) == 0:
				c.Ok("C20-R1", key, fn.Pos(), "rejected on every path of %s (%d leaves)", an.FnKey(fn), len(lv))
			case len(acc) > 0 && allowed:
				c.Ok("C20-R1", key, fn.Pos(), "accepted on purpose: %s", reason)
			case len(acc) > 0:
				c.Bad("C20-R1", key, fn.Pos(), "the value %d for %s passes validation on the path %s: nothing downstream tolerates it (not in the table of settings where it is documented as valid)",
					val, nf.name, trunc(acc[0], 240))
			case allowed:
				c.Ok("C20-R1", key, fn.Pos(), "accepted on purpose: %s", reason)
			default:
				c.Und("C20-R1", key, fn.Pos(), "cannot decide whether %d is rejected: %s", val, trunc(unds[0], 300))
			}
		}
	}
}

// c20Bounds checks the family bounds of the rate limiter's subnet key lengths.
func c20Bounds(c *an.Ctx) {
	fn := c.Fn("cmd.(*rateLimitConfig).validate")
	if fn == nil {
		c.Und("C20-R2", "cmd.(*rateLimitConfig).validate", token.NoPos, "anchor not found")
		return
	}
	for _, tc := range []struct {
		fam     string
		val     int64
		wantErr bool
	}{{"IPv4", 32, false}, {"IPv4", 33, true}, {"IPv6", 128, false}, {"IPv6", 129, true}} {
		env := an.Domain{"p0": {an.NonNil("p0")}}
		for _, f := range []string{"Allowlist", "ConnectionLimit", "IPv4", "IPv6", "QUIC", "TCP"} {
			env["p0."+f] = []an.AV{an.NonNil("p0." + f)}
		}
		for _, k := range []string{"p0.ResponseSizeEstimate", "p0.BackoffCount", "p0.BackoffDuration.Duration", "p0.BackoffPeriod.Duration",
			"p0.IPv4.SubnetKeyLen", "p0.IPv6.SubnetKeyLen"} {
			env[k] = an.Ints(1)
		}
		env["p0."+tc.fam+".SubnetKeyLen"] = an.Ints(tc.val)
		gotErr, und := false, ""
		res := c.Decide(fn, an.DecideCfg{
			Dom: env, OnCall: c20Call(c),
			Inline: func(f *ssa.Function) bool {
				k := an.FnKey(f)
				return strings.HasPrefix(k, "cmd.validatePositive") || k == "cmd.validateProp"
			},
			Expect: func(f an.Features, o an.AOutcome) string {
				if o.Exit == "return" && len(o.Ret) == 1 {
					switch o.Ret[0].Kind {
					case an.KNonNil:
						gotErr = true
					case an.KNil:
					default:
						und = "undetermined result " + o.Ret[0].String()
					}
				} else {
					und = "exit " + o.Exit
				}
				return ""
			},
		})
		if res.Und != "" {
			und = res.Und
		}
		key := fmt.Sprintf("rateLimitConfig %s subnet_key_len=%d", tc.fam, tc.val)
		switch {
		case und != "":
			c.Und("C20-R2", key, fn.Pos(), "%s", und)
		case gotErr != tc.wantErr:
			c.Bad("C20-R2", key, fn.Pos(), "validation error=%v, want %v: a key length beyond the address family makes netip.Addr.Prefix fail and the limiter panic per query", gotErr, tc.wantErr)
		default:
			c.Ok("C20-R2", key, fn.Pos(), "validation error=%v as required", gotErr)
		}
	}
}

// c20Sections checks that configuration.validate validates every section.
func c20Sections(c *an.Ctx) {
	fn := c.Fn("cmd.(*configuration).validate")
	pkg := c.Pkg("cmd")
	if fn == nil || pkg == nil {
		c.Und("C20-R3", "cmd.(*configuration).validate", token.NoPos, "anchor not found")
		return
	}
	c.Analysed(an.FnKey(fn))
	tn, _ := pkg.Types.Scope().Lookup("configuration").(*types.TypeName)
	vt, _ := pkg.Types.Scope().Lookup("validator").(*types.TypeName)
	if tn == nil || vt == nil {
		c.Und("C20-R3", "cmd.configuration", token.NoPos, "types not found")
		return
	}
	iface, _ := vt.Type().Underlying().(*types.Interface)
	st := tn.Type().Underlying().(*types.Struct)
	// fields of the receiver that are converted to the validator interface in validate
	used := map[string]bool{}
	an.Instrs(fn, func(in ssa.Instruction) {
		mi, ok := in.(*ssa.MakeInterface)
		if !ok || an.TypeName(mi.Type()) != "cmd.validator" {
			return
		}
		if ap, ok := an.AccessPath(mi.X); ok && strings.HasPrefix(ap, "p0.") {
			used[strings.TrimPrefix(ap, "p0.")] = true
		}
	})
	// the loop must call validate on every element and return on error
	callsValidate := false
	for _, call := range an.Calls(fn) {
		if call.Common().IsInvoke() && call.Common().Method.Name() == "validate" {
			callsValidate = true
		}
	}
	c.Check(callsValidate, "C20-R3", "configuration.validate loop", fn.Pos(), "every collected section's validate is invoked", "the collected sections are not validated")
	for i := 0; i < st.NumFields(); i++ {
		f := st.Field(i)
		if iface == nil || !types.Implements(f.Type(), iface) {
			continue
		}
		key := "configuration." + f.Name()
		c.Check(used[f.Name()], "C20-R3", key, f.Pos(), "section is validated by configuration.validate",
			"section implements validator but configuration.validate never validates it: its values reach the constructors unchecked")
	}
}

// c20Divisions checks every integer division by a non-constant.
func c20Divisions(c *an.Ctx) {
	// fields proven positive by validation (R1) or by construction
	positive := map[string]string{
		"cmd.rateLimitConfig.ResponseSizeEstimate": "C20-R1 rateLimitConfig.ResponseSizeEstimate=0 rejected",
	}
	for _, fn := range c.AllFns {
		if c.IsTestFile(fn.Pos()) {
			continue
		}
		pk := an.FnPkg(fn)
		if pk == nil || strings.HasSuffix(pk.Path(), "test") || strings.Contains(pk.Path(), "/internal/tools") {
			continue
		}
		an.Instrs(fn, func(in ssa.Instruction) {
			b, ok := in.(*ssa.BinOp)
			if !ok || (b.Op != token.QUO && b.Op != token.REM) || !an.IsIntType(b.Y.Type()) {
				return
			}
			if _, isConst := b.Y.(*ssa.Const); isConst {
				return
			}
			c.Analysed(an.FnKey(fn))
			key := an.FnKey(fn) + " divides by " + divisorName(b.Y)
			var bad []string
			w := &an.Walker{P: c.Prog}
			w.Visit = func(v ssa.Value) bool {
				if k, isConst := v.(*ssa.Const); isConst {
					if k.Value != nil && k.Value.String() == "0" {
						// the zero value of a field type used as "unset" marker is not a divisor source unless stored
						bad = append(bad, "constant 0 at "+c.Pos(in.Pos()))
					}
					return true
				}
				if call, isCall := v.(*ssa.Call); isCall {
					n := an.Short(an.CalleeName(call))
					if n == "builtin.max" {
						// max(x, k) with k > 0 is positive
						for _, a := range call.Call.Args {
							if k, ok := an.ConstInt(a); ok && k > 0 {
								return true
							}
						}
					}
					if n == "builtin.len" {
						bad = append(bad, "len() at "+c.Pos(call.Pos()))
						return true
					}
				}
				return false
			}
			w.Leaf = func(v ssa.Value, why string) {
				if strings.HasPrefix(why, "field never stored: ") {
					f := strings.TrimPrefix(why, "field never stored: ")
					if _, ok := positive[f]; ok {
						return
					}
					bad = append(bad, "configuration field "+f+" not proven positive")
					return
				}
				if _, isConst := v.(*ssa.Const); isConst {
					return
				}
				bad = append(bad, why+" ("+v.Name()+" at "+c.Pos(v.Pos())+")")
			}
			w.Walk(b.Y)
			if len(bad) == 0 {
				c.Ok("C20-R4", key, b.Pos(), "every source of the divisor is a non-zero constant or a configuration value that validation proves positive")
			} else {
				sort.Strings(bad)
				c.Bad("C20-R4", key, b.Pos(), "the divisor can be zero or is not covered by validation: %s", trunc(strings.Join(bad, "; "), 400))
			}
		})
	}
}

func divisorName(v ssa.Value) string {
	if ap, ok := an.AccessPath(v); ok {
		return ap
	}
	return v.Name()
}

func trunc(s string, n int) string {
	if len(s) > n {
		return s[:n]
	}
	return s
}

// c20DDR is the table of the DDR record validation: a hint of the wrong address
// family (which makes every DDR answer fail at packing time) is rejected.
func c20DDR(c *an.Ctx) {
	c.Floor("C20-R6", 1)
	decide(c, "C20-R6", "cmd.(*ddrRecord).validate", an.DecideCfg{
		Dom: an.Domain{"p0": {an.NonNil("r")}, "(r.HTTPSPort == 0)": an.Bools, `(r.DoHPath == "")`: an.Bools,
			"len(r.IPv4Hints)": an.Ints(0, 1), "len(r.IPv6Hints)": an.Ints(0, 1), "is4": an.Bools, "is6": an.Bools},
		OnCall: func(it *an.Interp, name string, args []an.AV) (an.AV, bool) {
			switch {
			case name == "(net/netip.Addr).Is4":
				if strings.Contains(args[0].String(), "IPv4Hints") {
					return it.Feature("is4"), true
				}
				return an.Sym("Is4 of " + args[0].String()), true
			case name == "(net/netip.Addr).Is6":
				if strings.Contains(args[0].String(), "IPv6Hints") {
					return it.Feature("is6"), true
				}
				return an.Sym("Is6 of " + args[0].String()), true
			case strings.HasSuffix(name, ").validatePorts"):
				return an.Sym("portsresult"), true
			case name == "fmt.Errorf":
				return an.NonNil("wrapped"), true
			}
			return an.AV{}, false
		},
		Expect: func(f an.Features, o an.AOutcome) string {
			if len(o.Ret) != 1 {
				return "an error result"
			}
			bad := (!f.B("(r.HTTPSPort == 0)") && f.B(`(r.DoHPath == "")`)) ||
				(f.I("len(r.IPv4Hints)") > 0 && !f.B("is4")) || (f.I("len(r.IPv6Hints)") > 0 && !f.B("is6"))
			if bad {
				if o.Ret[0].Kind == an.KNonNil {
					return ""
				}
				return "an error for a DoH port without a path or a hint of the wrong address family (such a hint makes every DDR answer fail when it is packed); got " + o.RetString()
			}
			if o.RetString() != "portsresult" {
				return "the port validation's verdict for an otherwise valid record; got " + o.RetString()
			}
			return ""
		},
	})
}

// c20Accumulators checks the builder's flags that summarise all server groups:
// a field of the builder assigned inside the loop over the groups must combine
// the group's value with the field's previous value; a plain assignment makes
// the last group win, and the components the earlier groups need (the profile
// database) are replaced by stubs that panic when called.
func c20Accumulators(c *an.Ctx) {
	c.Floor("C20-R8", 1)
	const k = "cmd.(*builder).setServerGroupProperties"
	fn := c.Fn(k)
	if fn == nil {
		c.Und("C20-R8", k, token.NoPos, "anchor not found")
		return
	}
	c.Analysed(k)
	loops := naturalLoops(fn)
	inLoop := func(b *ssa.BasicBlock) bool {
		for _, l := range loops {
			if l.blocks[b] {
				return true
			}
		}
		return false
	}
	loads := map[string]bool{}
	an.Instrs(fn, func(in ssa.Instruction) {
		if ld, ok := in.(*ssa.UnOp); ok && ld.Op == token.MUL {
			if typ, f, _, ok := an.FieldOf(ld.X); ok && typ == "cmd.builder" && inLoop(ld.Block()) {
				loads[f] = true
			}
		}
	})
	n := 0
	an.Instrs(fn, func(in ssa.Instruction) {
		st, ok := in.(*ssa.Store)
		if !ok || !inLoop(st.Block()) {
			return
		}
		typ, f, _, ok := an.FieldOf(st.Addr)
		if !ok || typ != "cmd.builder" {
			return
		}
		if b, isBool := st.Val.Type().Underlying().(*types.Basic); !isBool || b.Kind() != types.Bool {
			return
		}
		n++
		key := k + " accumulates " + f
		if loads[f] {
			c.Ok("C20-R8", key, st.Pos(), "the new value is computed from the field's previous value and the group's")
		} else {
			c.Bad("C20-R8", key, st.Pos(), "the flag is overwritten for every server group, so the last group decides alone: a component that an earlier group needs is disabled and its stub panics on the first request")
		}
	})
	if n == 0 {
		c.Und("C20-R8", k+" flags", fn.Pos(), "no per-group flag assignment found in the loop")
	}
}

// c20PanicInterval derives, from the conditional edges that lead into the
// panic of constructor fnName, the interval of the checked value that is
// accepted, and compares it with [lo, hi].  Every edge must compare the same
// value with a constant (<, <=, >, >= in either operand order); anything else
// is not recognised.
func c20PanicInterval(c *an.Ctx, rule, fnName, what string, lo, hi int64) {
	key := fnName + " accepts " + what + " in the documented range"
	fn := c.Fn(fnName)
	if fn == nil {
		c.Und(rule, key, token.NoPos, "anchor not found")
		return
	}
	c.Analysed(fnName)
	var panics []*ssa.BasicBlock
	for _, b := range fn.Blocks {
		if len(b.Instrs) > 0 {
			if _, ok := b.Instrs[len(b.Instrs)-1].(*ssa.Panic); ok {
				panics = append(panics, b)
			}
		}
	}
	if len(panics) != 1 {
		c.Und(rule, key, fn.Pos(), "expected one panic, found %d", len(panics))
		return
	}
	accLo, accHi := int64(math.MinInt64), int64(math.MaxInt64)
	var subject ssa.Value
	n := 0
	for _, p := range panics[0].Preds {
		ifi, ok := p.Instrs[len(p.Instrs)-1].(*ssa.If)
		if !ok {
			c.Und(rule, key, fn.Pos(), "the panic is reached by an unconditional edge")
			return
		}
		onTrue := p.Succs[0] == panics[0]
		bo, ok := ifi.Cond.(*ssa.BinOp)
		if !ok {
			c.Und(rule, key, ifi.Pos(), "the range check is not a comparison with a constant (%s)", ifi.Cond.String())
			return
		}
		op := bo.Op
		x, y := bo.X, bo.Y
		kv, isK := an.ConstInt(y)
		if !isK {
			// constant on the left: mirror
			kv, isK = an.ConstInt(x)
			x = y
			switch op {
			case token.LSS:
				op = token.GTR
			case token.GTR:
				op = token.LSS
			case token.LEQ:
				op = token.GEQ
			case token.GEQ:
				op = token.LEQ
			}
		}
		if !isK {
			c.Und(rule, key, ifi.Pos(), "the range check is not a comparison with a constant (%s)", bo.String())
			return
		}
		if !onTrue {
			switch op {
			case token.LSS:
				op = token.GEQ
			case token.GEQ:
				op = token.LSS
			case token.GTR:
				op = token.LEQ
			case token.LEQ:
				op = token.GTR
			}
		}
		if subject == nil {
			subject = x
		} else if subject != x {
			c.Und(rule, key, ifi.Pos(), "the range checks compare different values")
			return
		}
		n++
		// the edge panics when "x op kv": the accepted range excludes it
		switch op {
		case token.LSS: // panics for x < kv: accept x >= kv
			accLo = max(accLo, kv)
		case token.LEQ:
			accLo = max(accLo, kv+1)
		case token.GTR: // panics for x > kv: accept x <= kv
			accHi = min(accHi, kv)
		case token.GEQ:
			accHi = min(accHi, kv-1)
		default:
			c.Und(rule, key, ifi.Pos(), "unsupported comparison %s", op)
			return
		}
	}
	c.Check(n > 0 && accLo == lo && accHi == hi, rule, key, fn.Pos(),
		fmt.Sprintf("accepted range [%d, %d]", lo, hi),
		fmt.Sprintf("the constructor accepts [%d, %d] but the documented range is [%d, %d]: a boundary value is refused or an out-of-range one accepted", accLo, accHi, lo, hi))
}

// c20BindData holds the table of a server's socket binding data: with explicit
// addresses nothing else is consulted; interface bindings need the
// interface-listener manager, and a configuration without one is rejected with
// an error (never dereferenced).
func c20BindData(c *an.Ctx) {
	decide(c, "C20-R13", "cmd.(*server).bindData", an.DecideCfg{
		Dom: an.Domain{"len(p0.BindAddresses)": an.Ints(0, 1), "p1": an.NilOrNot, "len(p0.BindInterfaces)": an.Ints(0)},
		Expect: func(f an.Features, o an.AOutcome) string {
			if len(o.Ret) != 2 {
				return "two results"
			}
			switch {
			case f.I("len(p0.BindAddresses)") > 0:
				if o.Ret[1].Kind != an.KNil {
					return "explicit addresses need nothing else; got " + o.RetString()
				}
			case f.IsNil("p1"):
				if o.Ret[1].Kind == an.KNil || o.Ret[0].Kind != an.KNil {
					return "an error when interfaces are to be bound but there is no interface-listener manager; got " + o.RetString()
				}
			default:
				if o.Ret[1].Kind != an.KNil {
					return "no error with a manager and no interfaces; got " + o.RetString()
				}
			}
			return ""
		},
	})
}

// c20AllocSizes: every allocation in production code whose size comes from a
// configuration setting (a yaml field of package cmd that no code stores) is
// sized by a setting that validation bounds from above: a value that passes
// validation and is larger than what make accepts panics at the allocation
// (makeslice: len out of range, makechan: size out of range), which for the
// per-subnet window and the per-connection pipeline semaphore happens while a
// query is being handled.
func c20AllocSizes(c *an.Ctx) {
	bounded := map[string]string{}
	sized := map[string][]string{}
	sizeOperands := func(in ssa.Instruction) (vs []ssa.Value, what string) {
		switch x := in.(type) {
		case *ssa.MakeSlice:
			return []ssa.Value{x.Len, x.Cap}, "make([]T, n)"
		case *ssa.MakeChan:
			return []ssa.Value{x.Size}, "make(chan T, n)"
		case *ssa.Call:
			n := an.CalleeName(x)
			if i := strings.Index(n, "["); i >= 0 {
				n = n[:i]
			}
			switch {
			case strings.HasSuffix(n, "container.NewRingBuffer"), strings.HasSuffix(n, "syncutil.NewChanSemaphore"):
				return x.Call.Args, an.Short(n)
			}
		}
		return nil, ""
	}
	for _, fn := range c.AllFns {
		if fn.Blocks == nil || c.IsTestFile(fn.Pos()) {
			continue
		}
		pk := an.FnPkg(fn)
		if pk == nil || strings.HasSuffix(pk.Name(), "test") || strings.Contains(pk.Path(), "/internal/tools") || strings.Contains(pk.Path(), "/scripts/") {
			continue
		}
		an.Instrs(fn, func(in ssa.Instruction) {
			vs, what := sizeOperands(in)
			for _, v := range vs {
				if v == nil {
					continue
				}
				if _, isConst := v.(*ssa.Const); isConst {
					continue
				}
				w := &an.Walker{P: c.Prog}
				w.Visit = func(x ssa.Value) bool {
					if call, isCall := x.(*ssa.Call); isCall {
						if b, isB := call.Call.Value.(*ssa.Builtin); isB && (b.Name() == "len" || b.Name() == "cap" || b.Name() == "min") {
							return true // bounded by existing data / an explicit min
						}
					}
					return false
				}
				w.Leaf = func(x ssa.Value, why string) {
					if strings.HasPrefix(why, "field never stored: cmd.") {
						f := strings.TrimPrefix(why, "field never stored: ")
						sized[f] = append(sized[f], an.FnKey(fn)+" "+what)
					}
				}
				w.Walk(v)
			}
		})
	}
	fields := make([]string, 0, len(sized))
	for f := range sized {
		fields = append(fields, f)
	}
	sort.Strings(fields)
	for _, f := range fields {
		sites := uniq(sized[f])
		sort.Strings(sites)
		key := "allocation sized by " + f + " is bounded by validation"
		if why := bounded[f]; why != "" {
			c.Ok("C20-R14", key, token.NoPos, why)
			continue
		}
		c.Bad("C20-R14", key, token.NoPos, "the setting sizes %s and validation only requires it to be positive: a huge value is accepted and the allocation panics (or exhausts memory) when it is made", trunc(strings.Join(sites, "; "), 300))
	}
	if len(fields) == 0 {
		c.Und("C20-R14", "allocations sized by configuration", token.NoPos, "none found (anchors: the window ring buffer and the pipeline semaphore)")
	}
}

// c20OptionalSections: a configuration section is optional when its validate
// method accepts a nil receiver (returns nil on a path that is taken only when
// the receiver is nil).  A section that validation lets be absent must not be
// dereferenced as if it were there: every field access through a pointer to
// such a type in package cmd is dominated by a nil test of that pointer, in
// the type's own methods (receiver) as well as in the code that loads the
// section from its parent.  Returns the number of dereferences examined.
func c20OptionalSections(c *an.Ctx, rule string) (examined int) {
	isNilCmp := func(cond ssa.Value, same func(ssa.Value) bool) (eq bool, ok bool) {
		b, isBin := cond.(*ssa.BinOp)
		if !isBin || b.Op != token.EQL && b.Op != token.NEQ {
			return false, false
		}
		switch {
		case an.IsNilConst(b.Y) && same(b.X), an.IsNilConst(b.X) && same(b.Y):
			return b.Op == token.EQL, true
		}
		return false, false
	}
	// guarded reports whether block blk is reached only when the value described by same is non-nil
	guarded := func(blk *ssa.BasicBlock, same func(ssa.Value) bool) bool {
		for _, e := range an.DominatingConds(blk) {
			if eq, ok := isNilCmp(e.If.Cond, same); ok && eq != e.Branch {
				return true
			}
		}
		return false
	}
	optional := map[string]string{} // type -> where its validate accepts nil
	for _, fn := range c.Prog.AllFns {
		k := an.FnKey(fn)
		if !strings.HasPrefix(k, "cmd.(*") || !strings.HasSuffix(k, ").validate") || fn.Blocks == nil || len(fn.Params) == 0 {
			continue
		}
		recv := fn.Params[0]
		for _, r := range an.Returns(fn) {
			if len(r.Results) == 0 || !an.IsNilConst(r.Results[len(r.Results)-1]) {
				continue
			}
			for _, e := range an.DominatingConds(r.Block()) {
				if eq, ok := isNilCmp(e.If.Cond, func(v ssa.Value) bool { return v == recv }); ok && eq == e.Branch {
					optional[an.TypeName(an.Deref(recv.Type()))] = c.Prog.Pos(r.Pos())
				}
			}
		}
	}
	// sameLoad: the value itself, or another load of the same field of the same base value / access path
	sameLoad := func(x *ssa.UnOp) func(ssa.Value) bool {
		src := x.X.(*ssa.FieldAddr)
		path, hasPath := an.AccessPath(src)
		return func(v ssa.Value) bool {
			if v == x {
				return true
			}
			ld, ok := v.(*ssa.UnOp)
			if !ok || ld.Op != token.MUL {
				return false
			}
			if fa2, ok := ld.X.(*ssa.FieldAddr); ok && fa2.X == src.X && fa2.Field == src.Field {
				return true
			}
			p2, ok := an.AccessPath(ld.X)
			return ok && hasPath && p2 == path
		}
	}
	// mayGetNil: some static call site passes a receiver that is not known to be there (not freshly allocated,
	// not nil-tested at the site); methods without visible call sites are examined too
	mayGetNil := func(fn *ssa.Function) bool {
		sites := c.Prog.Callers(fn)
		if len(sites) == 0 {
			return true
		}
		for _, s := range sites {
			if s.Call == nil {
				return true
			}
			a := an.ArgFor(s.Call, 0)
			if _, fresh := a.(*ssa.Alloc); fresh {
				continue
			}
			sm := func(v ssa.Value) bool { return v == a }
			if ld, ok := a.(*ssa.UnOp); ok && ld.Op == token.MUL {
				if _, isField := ld.X.(*ssa.FieldAddr); isField {
					sm = sameLoad(ld)
				}
			}
			if !guarded(s.Call.Block(), sm) {
				return true
			}
		}
		return false
	}
	if len(optional) == 0 {
		c.Und(rule, "optional configuration sections", token.NoPos, "no validate method that accepts a nil receiver found (anchor: cmd.(*tlsConfig).validate)")
		return 0
	}
	for _, fn := range c.Prog.AllFns {
		k := an.FnKey(fn)
		if !strings.HasPrefix(k, "cmd.") || fn.Blocks == nil || c.Prog.IsTestFile(fn.Pos()) {
			continue
		}
		bad := map[string]string{}
		n := 0
		an.Instrs(fn, func(in ssa.Instruction) {
			fa, ok := in.(*ssa.FieldAddr)
			if !ok {
				return
			}
			tn := an.TypeName(an.Deref(fa.X.Type()))
			where, isOpt := optional[tn]
			if !isOpt {
				return
			}
			var same func(ssa.Value) bool
			what := ""
			switch x := fa.X.(type) {
			case *ssa.Parameter:
				if len(fn.Params) == 0 || x != fn.Params[0] || fn.Signature.Recv() == nil || !mayGetNil(fn) {
					return
				}
				same = func(v ssa.Value) bool { return v == x }
				what = "the receiver"
			case *ssa.UnOp:
				if x.Op != token.MUL {
					return
				}
				src, isField := x.X.(*ssa.FieldAddr)
				if !isField {
					return
				}
				same = sameLoad(x)
				_, what, _, _ = an.FieldOf(src)
				what = "section " + what
			default:
				return
			}
			n++
			if !guarded(fa.Block(), same) {
				_, field, _, _ := an.FieldOf(fa)
				bad[fmt.Sprintf("%s of %s", field, what)] = fmt.Sprintf("%s (%s accepts an absent section at %s)", c.Prog.Pos(fa.Pos()), an.Short(tn), where)
			}
		})
		if n == 0 {
			continue
		}
		examined += n
		c.Analysed(k)
		var bs []string
		for f, w := range bad {
			bs = append(bs, f+" at "+w)
		}
		sort.Strings(bs)
		c.Check(len(bs) == 0, rule, k+" reads optional sections only after a nil test", fn.Pos(),
			fmt.Sprintf("%d field accesses through pointers to optional sections, each dominated by a nil test", n),
			"an accepted configuration without the section makes this a nil dereference: "+strings.Join(bs, "; "))
	}
	return examined
}

// c20ZeroTimeouts: a duration setting for which validation accepts zero (the
// documented "no timeout") must not reach context.WithTimeout as it is: a
// context with a zero timeout is expired when it is created, so every
// operation run under it fails at once.  Every duration operand of
// context.WithTimeout in production code is walked back to the yaml settings of
// package cmd it comes from; for a setting that the table of accepted zeros
// lists without a condition, the call (or the creation of the closure that
// makes it) must be dominated by a comparison of that duration with zero.
func c20ZeroTimeouts(c *an.Ctx, rule string) (examined int) {
	settingsOf := func(v ssa.Value) (fs []string) {
		w := &an.Walker{P: c.Prog}
		w.Visit = func(x ssa.Value) bool {
			// a read of a field of a cmd configuration struct, or (for timeutil.Duration and the like) of a field
			// nested in one, that no production code stores: a yaml setting
			ld, ok := x.(*ssa.UnOp)
			if !ok || ld.Op != token.MUL {
				return false
			}
			for a := ld.X; ; {
				fa, ok := a.(*ssa.FieldAddr)
				if !ok {
					return false
				}
				if typ, field, _, ok := an.FieldOf(fa); ok && strings.HasPrefix(typ, "cmd.") {
					if len(c.Prog.FieldStores(typ, field)) > 0 {
						return false
					}
					fs = append(fs, strings.TrimPrefix(typ, "cmd.")+"."+field)
					return true
				}
				a = fa.X
			}
		}
		w.Walk(v)
		return uniq(fs)
	}
	zeroTested := func(blk *ssa.BasicBlock, setting string) bool {
		for _, e := range an.DominatingConds(blk) {
			b, ok := e.If.Cond.(*ssa.BinOp)
			if !ok {
				continue
			}
			for _, pair := range [][2]ssa.Value{{b.X, b.Y}, {b.Y, b.X}} {
				if k, isConst := an.ConstInt(pair[1]); !isConst || k != 0 {
					continue
				}
				for _, s := range settingsOf(pair[0]) {
					if s == setting {
						return true
					}
				}
			}
		}
		return false
	}
	type site struct {
		call ssa.CallInstruction
		fn   *ssa.Function
	}
	bySetting := map[string][]site{}
	for _, fn := range c.AllFns {
		if fn.Blocks == nil || c.IsTestFile(fn.Pos()) || !c.Prog.InRepo(fn) {
			continue
		}
		for _, call := range an.Calls(fn) {
			if an.CalleeName(call) != "context.WithTimeout" || len(call.Common().Args) != 2 {
				continue
			}
			for _, s := range settingsOf(call.Common().Args[1]) {
				bySetting[s] = append(bySetting[s], site{call, fn})
			}
		}
	}
	var names []string
	for s := range bySetting {
		names = append(names, s)
	}
	sort.Strings(names)
	for _, s := range names {
		al, ok := c20Allowed[s+"=0"]
		if !ok || al.cond != "" {
			continue // validation rejects zero (C20-R1), or accepts it only where the setting is unused
		}
		for _, st := range bySetting[s] {
			examined++
			c.Analysed(an.FnKey(st.fn))
			ok := zeroTested(st.call.Block(), s)
			if !ok && st.fn.Parent() != nil {
				// a closure: created only where the duration is known not to be zero
				ok = true
				n := 0
				for _, cs := range c.Prog.Callers(st.fn) {
					if cs.Closure != nil {
						n++
						ok = ok && zeroTested(cs.Closure.Block(), s)
					}
				}
				ok = ok && n > 0
			}
			key := fmt.Sprintf("%s: context.WithTimeout is not given the accepted zero of %s", an.FnKey(st.fn), s)
			c.Check(ok, rule, key, st.call.Pos(), "the call is made only after the duration has been compared with zero",
				fmt.Sprintf("validation accepts 0 for %s (%s) and the value reaches context.WithTimeout unchanged: the context is expired when it is created and everything run under it fails at once", s, al.reason))
		}
	}
	return examined
}

// c20ValidateFirst: functions that say in their name that they need a valid
// configuration (…FromValidConfig) read its sections without nil tests; in Main
// each call of such a function is dominated by the call of
// (*configuration).validate, so that a file without a section is rejected with
// the section's name instead of a nil dereference.
func c20ValidateFirst(c *an.Ctx, rule string) {
	const k = "cmd.Main"
	fn := c.Fn(k)
	key := k + " validates the configuration before it is used as valid"
	if fn == nil {
		c.Und(rule, key, token.NoPos, "anchor not found")
		return
	}
	c.Analysed(k)
	var validate ssa.CallInstruction
	var users []ssa.CallInstruction
	for _, call := range an.Calls(fn) {
		n := an.CalleeName(call)
		switch {
		case strings.HasSuffix(n, "cmd.configuration).validate"):
			validate = call
		case strings.Contains(n, "FromValidConfig"):
			users = append(users, call)
		}
	}
	bad := ""
	if validate == nil {
		bad = "Main does not call (*configuration).validate"
	}
	for _, u := range users {
		if validate != nil && !an.Dominates(validate, u) {
			bad = an.Short(an.CalleeName(u)) + " at " + c.Pos(u.Pos()) + " runs before the validation"
		}
	}
	c.Check(len(users) > 0 && bad == "", rule, key, fn.Pos(), fmt.Sprintf("%d users of a valid configuration, each after validate", len(users)),
		bad+": a configuration file without one of the sections it reads makes start-up end in a nil dereference instead of an error that names the property")
}

// c20ErrorNames: "a rejected configuration is reported with the name of the
// offending property".  The helpers that build those reports take the name as a
// string next to the value (or the validator method) of a field; the name must
// be the yaml tag (env tag for the environment) of that very field.  Returns the
// number of calls whose value could be traced to a tagged field.
func c20ErrorNames(c *an.Ctx, rule string) (sites int) {
	tagOf := func(fa *ssa.FieldAddr) (tag, field string) {
		st, ok := fa.X.Type().Underlying().(*types.Pointer).Elem().Underlying().(*types.Struct)
		if !ok {
			return "", ""
		}
		t := reflect.StructTag(st.Tag(fa.Field))
		name, _, _ := strings.Cut(t.Get("yaml"), ",")
		if name == "" {
			name, _, _ = strings.Cut(t.Get("env"), ",")
		}
		return name, st.Field(fa.Field).Name()
	}
	// fieldOfValue follows conversions and loads back to the field a value was read from
	var fieldOfValue func(v ssa.Value, depth int) *ssa.FieldAddr
	fieldOfValue = func(v ssa.Value, depth int) *ssa.FieldAddr {
		if depth > 6 {
			return nil
		}
		switch x := v.(type) {
		case *ssa.MakeInterface:
			return fieldOfValue(x.X, depth+1)
		case *ssa.Convert:
			return fieldOfValue(x.X, depth+1)
		case *ssa.ChangeType:
			return fieldOfValue(x.X, depth+1)
		case *ssa.UnOp:
			if x.Op == token.MUL {
				if fa, ok := x.X.(*ssa.FieldAddr); ok {
					return fa
				}
			}
		case *ssa.FieldAddr:
			return x
		case *ssa.MakeClosure:
			// a bound method value c.X.validate: the receiver is the first binding
			if len(x.Bindings) == 1 {
				return fieldOfValue(x.Bindings[0], depth+1)
			}
		}
		return nil
	}
	for _, fn := range c.AllFns {
		k := an.FnKey(fn)
		if fn.Blocks == nil || c.IsTestFile(fn.Pos()) || !strings.HasPrefix(k, "cmd.") {
			continue
		}
		perName := map[string]int{}
		for _, call := range an.Calls(fn) {
			callee := an.StaticCallee(call)
			if callee == nil || len(call.Common().Args) < 2 {
				continue
			}
			cn := callee.Name()
			if !(strings.HasPrefix(cn, "newNotPositiveError") || strings.HasPrefix(cn, "newNegativeError") || strings.HasPrefix(cn, "validatePositive") || cn == "validateProp") {
				continue
			}
			nameK, ok := call.Common().Args[0].(*ssa.Const)
			if !ok || nameK.Value == nil || nameK.Value.Kind() != constant.String {
				continue
			}
			name := constant.StringVal(nameK.Value)
			fa := fieldOfValue(call.Common().Args[1], 0)
			if fa == nil {
				continue
			}
			tag, field := tagOf(fa)
			if tag == "" {
				continue
			}
			sites++
			c.Analysed(k)
			perName[field]++
			c.Check(name == tag, rule, fmt.Sprintf("%s: the report about field %s (%d) names its property", k, field, perName[field]), call.Pos(),
				"name "+strconv.Quote(name)+" is the field's tag",
				fmt.Sprintf("the value of field %s (property %q) is reported under the name %q: the operator is pointed at a property that does not exist or at another one", field, tag, name))
		}
	}
	return sites
}

// c20RateLimitURLValidated: validateRateLimitURLs chooses the environment URL
// that belongs to ratelimit.allowlist.type and hands it to the validator of its
// kind, which is what rejects an unset one.  Every return of the function is
// behind that call: there is no path on which the selected URL goes unvalidated
// (initRateLimiter dereferences it).
func c20RateLimitURLValidated(c *an.Ctx, rule string) {
	k := "cmd.(*environment).validateRateLimitURLs"
	fn := c.Fn(k)
	key := k + ": the selected URL reaches its validator on every path"
	if fn == nil {
		c.Und(rule, key, token.NoPos, "anchor not found")
		return
	}
	c.Analysed(k)
	var val ssa.CallInstruction
	for _, call := range an.Calls(fn) {
		cc := call.Common()
		if cc.IsInvoke() || an.StaticCallee(call) != nil {
			if n := an.CalleeName(call); !strings.Contains(n, "urlutil.Validate") {
				continue
			}
		}
		if _, isB := cc.Value.(*ssa.Builtin); isB {
			continue
		}
		sig, ok := cc.Value.Type().Underlying().(*types.Signature)
		if !ok || sig.Params().Len() != 1 || sig.Results().Len() != 1 || !strings.HasSuffix(sig.Params().At(0).Type().String(), "url.URL") {
			continue
		}
		val = call
	}
	if val == nil {
		c.Und(rule, key, fn.Pos(), "call of the selected validator not found")
		return
	}
	bad := ""
	for _, r := range an.Returns(fn) {
		if !an.Dominates(val, r) {
			bad = c.Pos(r.Pos())
		}
	}
	c.Check(bad == "", rule, key, val.Pos(),
		"every return is behind the call of the validator selected with the URL",
		"the return at "+bad+" is reached without the validator of the selected URL having run: an unset BACKEND_RATELIMIT_URL / CONSUL_ALLOWLIST_URL is accepted and dereferenced at start-up")
}
