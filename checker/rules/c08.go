package rules

import (
	"fmt"
	"go/token"
	"strings"

	"adgverif/an"

	"golang.org/x/tools/go/ssa"
)

func init() {
	register(&Property{ID: "C08", Technique: "decision-tree extraction (abstract interpretation) of normalize, maxDNSSize, truncate, padAnswer, filterUnsupportedOptions, addTCPKeepAlive and of every wire writer, with effect-order tables over representative orderings",
		Run: runC08, Explain: an.Explanation{
			Text: "R1: every wire writer of dnsserver (UDP, TCP/DoT, DoQ stream, DoH, DNSCrypt) normalises the response against " +
				"this request with its transport's network/protocol/limit before it serialises it, and serialises that same " +
				"message. R2: maxDNSSize is 65535 for non-UDP networks and max(512, min(edns, configured max)) for UDP, over " +
				"representative values covering every ordering of the three quantities. R3: truncate empties the answer section " +
				"whenever the TC bit was set by Truncate(size); packWithPrefix refuses messages above 65535 bytes. R4: normalize's " +
				"decision tree: without a request OPT the response is truncated with EDNS size 0; with one, the response OPT " +
				"(existing or created) gets version 0 / the client's UDP size, is attached before truncation to " +
				"maxDNSSize(network, client size, max), and padding is attempted only on transports with padding support. " +
				"R5: padAnswer pads only when the request carries the padding option; HasPaddingSupport/IsStdEncrypted are true " +
				"exactly for DoT, DoH, DoQ; filterUnsupportedOptions keeps exactly NSID and EXPIRE (so padding and keep-alive " +
				"are never echoed); addTCPKeepAlive adds the option only when both OPT records exist and the request has it. " +
				"R6: an OPT record recycled from the cloner's pool for a constructed answer has its option list reset, so options of an earlier response (padding, keep-alive) never reach another client. " +
				"R7: no handler of the pipeline modifies the EDNS data (OPT record, Extra section) of the request message it received (directly or through a callee): the writers read the client's EDNS size, DO bit and options from that very object.",
			NotCovered: "that dns.Msg.Truncate really fits the size and the encoded sizes themselves; the up-to-36-byte padding " +
				"overshoot on DoH acknowledged in a code comment (numeric, out of static reach).",
			Rules: map[string]string{"C08-R24": "the UDP response writer's size limit is a plain load of the MaxUDPRespSize setting: an unset (zero) maximum keeps the 512-byte floor instead of becoming 65535", "C08-R23": "the server itself does not edit the request it normalises the response against: no function of package dnsserver that hands a request to WriteMsg stores into that request (the reject path answering FORMERR / NOTIMP included: a rejected query with an OPT record gets one back)", "C08-R22": "the TCP writer adds nothing to a response after its last truncation: when the edns-tcp-keepalive option was added after normalisation, the response is truncated again before it is packed (within six bytes of the limit it would not pack, and the client would get SERVFAIL for an answer that only had to be truncated)", "C08-R21": "ecscache.setECS puts the ECS option into the OPT record the message already has, for responses too (table shared with C05-R4): a response is never given a second OPT record", "C08-R20": "the cloner re-initialises the additional section of the pooled message on every path (shared with C07-R1): a response built from a clone carries no OPT options (padding, keep-alive) of an earlier client; R21: setECS reuses the OPT record a response already has (table shared with C05-R4), so no response leaves with two OPT records", "C08-R19": "ecscache writeUpstreamResponse removes hop-to-hop options before the clone goes to the cache (store order; shared with C04-R5)", "C08-R18": "reservedLen: normalize truncates DNSCrypt responses to the limit less the bytes the dnscrypt module reserves for its header (the constant is read from the module's own normalize), so the module, which keeps the answers that still fit when it truncates on TCP, never has to drop a record; nothing is reserved for the other protocols", "C08-R17": "a pooled receive buffer is returned only after the request decoded from it has been served (buffer-lifetime rules shared with C06-R2)", "C08-R15": "the simple cache leaves the cached OPT record out of a hit (hop-by-hop options of the first requester do not reach later clients)", "C08-R16": "genErrorResponse builds the server's own error answers by SetRcode alone, so normalize gives them a fresh OPT record", "C08-R14": "optCloner.clone resets every field of the pooled OPT record, so padding and keep-alive options of an earlier response do not reach another client (shared with C07-R1)", "C08-RC": "class rules (error chains, shadowed results, character classes, crossed arguments, pool constructors, array pools, loop completeness, loop-carried buffers, replacing setters, complete clones, Grow arithmetic, pooled-buffer escape, sorted searches, fresh decode targets, per-iteration objects, whole-message copies, codec guards) over the packages this property rests on", "C08-R13": "addEDE builds a fresh response OPT from the request's UDP size and DO bit only", "C08-R12": "the filtered response is written once and for the original request (pipeline table shared with C01-R10)", "C08-R1": "normalise-before-serialise in every wire writer", "C08-R2": "maxDNSSize over all orderings",
				"C08-R3": "truncate / packWithPrefix gates", "C08-R4": "normalize decision tree and OPT fields",
				"C08-R5": "padding / keep-alive / option filter gates", "C08-R6": "pooled OPT records are reset before reuse", "C08-R7": "no handler modifies the EDNS data of the request message"},
		}})
}

func runC08(c *an.Ctx) {
	c.Floor("C08-R24", 1)
	c08MaxUDPSizeAsConfigured(c, "C08-R24")
	// ---- R23: the servers do not edit the request before writing the response
	if n := c08ServerKeepsRequest(c, "C08-R23"); n < 3 {
		c.Und("C08-R23", "functions of dnsserver that write a response for a request", token.NoPos, "only %d found", n)
	}
	// ---- R22: nothing grows a TCP response after its last truncation
	c.Floor("C08-R22", 1)
	c08KeepAliveThenTruncate(c, "C08-R22")
	// ---- R20: pooled clones start with an empty additional section (shared with C07-R1); R21: one OPT record (shared with C05-R4)
	c.Floor("C08-R20", 1)
	c.Borrow("C08-R20", runC07, func(o an.Obligation) bool { return o.Rule == "C07-R1" && strings.Contains(o.Key, "Cloner).Clone") })
	c.Floor("C08-R21", 1)
	c.Borrow("C08-R21", runC05, func(o an.Obligation) bool { return o.Rule == "C05-R4" && strings.Contains(o.Key, "setECS") })
	// ---- R19: hop-to-hop options are removed before the response is cached (shared with C04-R5)
	c.Floor("C08-R19", 1)
	ecsStoreOrder(c, "C08-R19")
	classSweep(c, "C08")
	// ---- R17: the bytes of a datagram stay that request's own until it has been served: what is answered is sized by
	// this client's EDNS settings, not by those of the datagram that overwrote the buffer (shared with C06-R2)
	c.Floor("C08-R17", 2)
	c.Borrow("C08-R17", runC06, func(o an.Obligation) bool { return o.Rule == "C06-R2" })
	// ---- R15: a hit of the simple cache does not replay the cached OPT record; R16: the server's own error responses get a fresh OPT record
	c.Floor("C08-R15", 1)
	c08CacheHitNoOPT(c, "C08-R15")
	c.Floor("C08-R16", 1)
	c08ErrorRespFresh(c, "C08-R16")
	// ---- R14: a cloned OPT record starts from the options of its source only; nothing a writer appended to a
	// disposed response (padding, keep-alive) survives in the pooled record (shared with C07-R1)
	c.Floor("C08-R14", 1)
	c.Borrow("C08-R14", runC07, func(o an.Obligation) bool { return o.Rule == "C07-R1" && strings.Contains(o.Key, "optCloner") })
	c08AddEDE(c)
	// ---- R12: the filtered response is written once, for the original request (the writers size and
	// truncate it by that request's EDNS buffer size and transport)
	c.Floor("C08-R12", 1)
	mainPipeline(c, "C08-R12")
	c.Floor("C08-R11", 1)
	dnssvcWiring(c, "C08-R11", func(dst, src string) bool {
		n := normName(dst) + " " + normName(src)
		return strings.Contains(n, "maxudprespsize") || strings.Contains(n, "maxrespsize")
	}, 1)
	// ---- R10: truncation keeps the OPT record
	c.Floor("C08-R10", 1)
	decide(c, "C08-R10", "dnsserver.truncate", an.DecideCfg{
		Dom: an.Domain{"p0.MsgHdr.Truncated": an.Bools},
		OnCall: func(it *an.Interp, name string, args []an.AV) (an.AV, bool) {
			if strings.HasSuffix(name, "dns.Msg).Truncate") {
				return an.Nil(), true
			}
			return an.AV{}, false
		},
		Expect: func(f an.Features, o an.AOutcome) string {
			n := 0
			for _, e := range o.Effects {
				if e.Kind == "call" && strings.HasSuffix(e.Name, "dns.Msg).Truncate") {
					n++
					if strings.Join(e.Args, ",") != "p0,p1" {
						return "the response truncated to the given size; got " + strings.Join(e.Args, ",")
					}
				}
			}
			if n != 1 {
				return "exactly one Truncate"
			}
			st := o.Stores()
			if !f.B("p0.MsgHdr.Truncated") {
				if len(st) == 0 {
					return ""
				}
				return "no change to a response that fits"
			}
			for _, s := range st {
				if strings.HasPrefix(s, "p0.Extra") || strings.HasPrefix(s, "p0.Ns") || strings.HasPrefix(s, "p0.Question") || strings.HasPrefix(s, "p0.MsgHdr") {
					return "the additional section (which holds the OPT record with the server's UDP size and the EDNS version), the authority section, the question and the header left as the library's truncation made them; got " + s
				}
			}
			return ""
		},
	})
	// ---- R9: per-client EDNS adjustments never land in a cached message
	c.Floor("C08-R9", 3)
	c07Caches(c, "C08-R9")
	c.Floor("C08-R8", 3)
	ecsHopToHop(c, "C08-R8")
	c.Floor("C08-R1", 5)
	c.Floor("C08-R2", 1)
	c.Floor("C08-R3", 2)
	c.Floor("C08-R4", 1)
	c.Floor("C08-R5", 5)

	dnsInt := func(name string) int64 {
		v, ok := c.ConstInt("github.com/miekg/dns", name)
		if !ok {
			c.Und("C08-R2", "dns."+name, token.NoPos, "constant not found")
		}
		return v
	}
	maxMsg, minMsg := dnsInt("MaxMsgSize"), dnsInt("MinMsgSize")
	proto := func(n string) int64 { v, _ := c.ConstInt("dnsserver", n); return v }
	pDNS, pDoH, pDoQ, pDoT, pCrypt := proto("ProtoDNS"), proto("ProtoDoH"), proto("ProtoDoQ"), proto("ProtoDoT"), proto("ProtoDNSCrypt")
	netUDP, _ := c.ConstStr("dnsserver", "NetworkUDP")
	netTCP, _ := c.ConstStr("dnsserver", "NetworkTCP")

	// ---- R2
	sizes := an.Ints(0, 100, 511, 512, 513, 1000, 1232, 4096, 65535)
	decide(c, "C08-R2", "dnsserver.maxDNSSize", an.DecideCfg{
		Dom: an.Domain{"p0": an.Strs(netUDP, netTCP, ""), "p1": sizes, "p2": sizes},
		Expect: func(f an.Features, o an.AOutcome) string {
			want := maxMsg
			if f.S("p0") == netUDP {
				e, m := f.I("p1"), f.I("p2")
				want = max(min(e, m), minMsg)
			}
			if o.Exit == "return" && o.RetString() == fmt.Sprint(want) {
				return ""
			}
			return fmt.Sprint(want)
		},
	})

	// ---- R3
	decide(c, "C08-R3", "dnsserver.truncate", an.DecideCfg{
		Dom: an.Domain{"p0.MsgHdr.Truncated": an.Bools},
		Expect: func(f an.Features, o an.AOutcome) string {
			tr := -1
			cleared := -1
			for i, e := range o.Effects {
				if e.Kind == "call" && e.Name == "(*github.com/miekg/dns.Msg).Truncate" && len(e.Args) == 2 && e.Args[0] == "p0" && e.Args[1] == "p1" {
					tr = i
				}
				if e.Kind == "store" && e.Name == "p0.Answer" && e.Args[0] == "nil" {
					cleared = i
				}
			}
			if tr < 0 {
				return "resp.Truncate(size)"
			}
			if f.B("p0.MsgHdr.Truncated") != (cleared > tr) {
				return "the answer section emptied exactly when the TC bit is set after Truncate"
			}
			return ""
		},
	})
	decide(c, "C08-R3", "dnsserver.packWithPrefix", an.DecideCfg{
		Dom: an.Domain{"packerr": an.Bools, "len(nonnil:packed)": an.Ints(12, maxMsg, maxMsg+1)},
		OnCall: func(it *an.Interp, name string, args []an.AV) (an.AV, bool) {
			if name == "(*github.com/miekg/dns.Msg).PackBuffer" {
				if it.Feature("packerr").IsTrue() {
					return an.AV{Kind: an.KTuple, Tup: []an.AV{an.Nil(), an.NonNil("packErr")}}, true
				}
				return an.AV{Kind: an.KTuple, Tup: []an.AV{an.NonNil("packed"), an.Nil()}}, true
			}
			return an.AV{}, false
		},
		Expect: func(f an.Features, o an.AOutcome) string {
			if o.Exit != "return" || len(o.Ret) != 2 {
				return "a (packed, err) result"
			}
			isErr := o.Ret[1].Kind != an.KNil
			wantErr := f.B("packerr") || f.I("len(nonnil:packed)") > maxMsg
			if isErr != wantErr {
				return fmt.Sprintf("error=%v (messages above %d bytes are refused)", wantErr, maxMsg)
			}
			if !wantErr {
				ok := false
				for _, e := range o.Effects {
					if e.Kind == "call" && strings.HasSuffix(e.Name, "PutUint16") {
						ok = true
					}
				}
				if !ok {
					return "the two-byte length prefix to be written"
				}
			}
			return ""
		},
	})

	// ---- R4 normalize
	padMax, _ := c.ConstInt("dnsserver", "responsePaddingMaxSize")
	decide(c, "C08-R4", "dnsserver.normalize", an.DecideCfg{
		Dom: an.Domain{"reqopt": an.Bools, "respopt": an.Bools, "do": an.Bools, "pad": an.Bools, "reqpad": an.Bools},
		OnCall: func(it *an.Interp, name string, args []an.AV) (an.AV, bool) {
			switch {
			case strings.HasPrefix(name, "dnsserver.findOption"):
				// the padding option of the request: what is added after truncation must have been left room for
				if args[0].String() != "nonnil:reqOpt" {
					return an.Sym("padding looked up elsewhere"), true
				}
				if it.Feature("reqpad").IsTrue() {
					return an.NonNil("reqPadding"), true
				}
				return an.Nil(), true
			case name == "(*github.com/miekg/dns.Msg).IsEdns0":
				switch args[0].String() {
				case "p2":
					if it.Feature("reqopt").IsTrue() {
						return an.NonNil("reqOpt"), true
					}
					return an.Nil(), true
				case "p3":
					if it.Feature("respopt").IsTrue() {
						return an.NonNil("respOpt"), true
					}
					return an.Nil(), true
				}
			case name == "(*github.com/miekg/dns.OPT).UDPSize":
				return an.Sym("udpsize(" + args[0].String() + ")"), true
			case name == "(*github.com/miekg/dns.OPT).Do":
				return it.Feature("do"), true
			case name == "(dnsserver.Protocol).HasPaddingSupport":
				if args[0].String() != "p1" {
					return an.Sym("padding support of another protocol"), true
				}
				return it.Feature("pad"), true
			case name == "dnsserver.maxDNSSize":
				return an.Sym("maxsize(" + args[0].String() + "," + args[1].String() + "," + args[2].String() + ")"), true
			case name == "dnsserver.reservedLen":
				// what the transport itself adds to every message (the DNSCrypt header); its table is R18
				if args[0].String() != "p1" {
					return an.Sym("reserved length of another protocol"), true
				}
				return an.Sym("reserved(p1)"), true
			case name == "dnsserver.filterUnsupportedOptions":
				return an.Sym("filtered(" + args[0].String() + ")"), true
			}
			return an.AV{}, false
		},
		Expect: func(f an.Features, o an.AOutcome) string {
			idx := func(pred func(e an.Effect) bool) int {
				for i, e := range o.Effects {
					if pred(e) {
						return i
					}
				}
				return -1
			}
			trunc := func(size string) int {
				return idx(func(e an.Effect) bool {
					return e.Kind == "call" && e.Name == "dnsserver.truncate" && len(e.Args) == 2 && e.Args[0] == "p3" && e.Args[1] == size
				})
			}
			compress := idx(func(e an.Effect) bool { return e.Kind == "store" && e.Name == "p3.Compress" && e.Args[0] == "true" })
			if compress < 0 {
				return "resp.Compress = true"
			}
			padded := idx(func(e an.Effect) bool { return e.Kind == "call" && e.Name == "dnsserver.padAnswer" })
			if !f.B("reqopt") {
				if trunc("(maxsize(p0,0,p4) - reserved(p1))") < 0 {
					return "truncation to maxDNSSize(network, 0, max), less what the protocol reserves, when the request has no OPT"
				}
				if padded >= 0 {
					return "no padding without a request OPT"
				}
				for _, e := range o.Effects {
					if e.Kind == "store" && e.Name == "p3.Extra" {
						return "no OPT added when the request has none"
					}
				}
				return ""
			}
			size := "udpsize(nonnil:reqOpt)"
			// padding (an option of up to 4 + 32 bytes) is added after truncation, so the limit leaves room for it
			// exactly when padding will be added
			willPad := f.B("pad") && f.B("reqpad")
			limit := "(maxsize(p0," + size + ",p4) - reserved(p1))"
			if willPad {
				limit = fmt.Sprintf("(%s - %d)", limit, 4+padMax)
			}
			t := trunc(limit)
			if t < 0 {
				return "truncation to maxDNSSize(network, client's EDNS size, max), less the room for the padding option when one will be added; expected " + limit
			}
			var opt string
			if f.B("respopt") {
				opt = "nonnil:respOpt"
				if idx(func(e an.Effect) bool {
					return e.Kind == "call" && e.Name == "(*github.com/miekg/dns.OPT).SetVersion" && e.Args[0] == opt && e.Args[1] == "0"
				}) < 0 {
					return "version 0 on the response OPT"
				}
			} else {
				// a new OPT appended to Extra before truncation
				app := idx(func(e an.Effect) bool { return e.Kind == "store" && e.Name == "p3.Extra" })
				if app < 0 || app > t {
					return "the created OPT to be attached to the response before truncation (its size counts)"
				}
				for _, e := range o.Effects {
					if e.Kind == "call" && e.Name == "(*github.com/miekg/dns.OPT).SetUDPSize" {
						opt = e.Args[0]
					}
				}
				if !strings.HasPrefix(opt, "&local#") {
					return "the client's UDP size on the created OPT"
				}
				if got := o.Mem[strings.TrimPrefix(opt, "&")+".Option"].String(); got != "filtered(reqOpt.Option)" {
					return "the created OPT to carry only the filtered request options; got " + got
				}
			}
			setSize := idx(func(e an.Effect) bool {
				return e.Kind == "call" && e.Name == "(*github.com/miekg/dns.OPT).SetUDPSize" && e.Args[0] == opt && e.Args[1] == size
			})
			if setSize < 0 || setSize > t {
				return "the response OPT to carry the client's UDP size"
			}
			if willPad != (padded >= 0) {
				return "padding exactly on transports with padding support for requests that carry the padding option"
			}
			if padded >= 0 && padded < t {
				return "padding after truncation"
			}
			return ""
		},
	})

	// ---- R1 wire writers
	type writer struct {
		fn, norm string
		check    func(o an.AOutcome) string
	}
	normCall := func(o an.AOutcome, name string, args ...string) int {
		for i, e := range o.Effects {
			if e.Kind == "call" && e.Name == name && strings.Join(e.Args, ",") == strings.Join(args, ",") {
				return i
			}
		}
		return -1
	}
	packIdx := func(o an.AOutcome, msg string) int {
		for i, e := range o.Effects {
			if e.Kind == "call" && (strings.HasSuffix(e.Name, "Msg).PackBuffer") || strings.HasSuffix(e.Name, "Msg).Pack") ||
				e.Name == "dnsserver.packWithPrefix" || e.Name == "dnsserver.dnsMsgToJSON") && len(e.Args) > 0 && e.Args[0] == msg {
				return i
			}
		}
		return -1
	}
	common := func(it *an.Interp, name string, args []an.AV) (an.AV, bool) {
		switch {
		case strings.HasSuffix(name, ".Get") && strings.Contains(name, "Pool"):
			return an.NonNil("bufptr"), true
		case strings.HasSuffix(name, "Msg).PackBuffer"), strings.HasSuffix(name, "Msg).Pack"), name == "dnsserver.packWithPrefix", name == "dnsserver.dnsMsgToJSON":
			return an.AV{Kind: an.KTuple, Tup: []an.AV{an.NonNil("packed"), an.Nil()}}, true
		case name == "dnsserver.MustServerInfoFromContext":
			return an.NonNil("si"), true
		case name == "dnsserver.isDoH":
			return an.AV{Kind: an.KTuple, Tup: []an.AV{an.CBool(true), an.Sym("isjson"), it.Feature("ct")}}, true
		}
		return an.AV{}, false
	}
	mimeDoH, _ := c.ConstStr("dnsserver", "MimeTypeDoH")
	mimeJSON, _ := c.ConstStr("dnsserver", "MimeTypeJSON")
	writers := []writer{
		{"dnsserver.(*udpResponseWriter).WriteMsg", "", func(o an.AOutcome) string {
			n := normCall(o, "dnsserver.normalize", fmt.Sprintf("%q", netUDP), fmt.Sprint(pDNS), "p2", "p3", "p0.maxRespSize")
			p := packIdx(o, "p3")
			if n < 0 || p < 0 || n > p {
				return "normalize(udp, plain DNS, req, resp, configured maximum) before packing resp"
			}
			return ""
		}},
		{"dnsserver.(*tcpResponseWriter).WriteMsg", "", func(o an.AOutcome) string {
			n := normCall(o, "dnsserver.normalizeTCP", "si.Proto", "p2", "p3")
			p := packIdx(o, "p3")
			if n < 0 || p < 0 || n > p {
				return "normalizeTCP(server protocol, req, resp) before packing resp"
			}
			return ""
		}},
		{"dnsserver.(*httpHandler).writeResponse", "", func(o an.AOutcome) string {
			n := normCall(o, "dnsserver.normalizeTCP", fmt.Sprint(pDoH), "p1", "p2")
			p := packIdx(o, "p2")
			if n < 0 || p < 0 || n > p {
				return "normalizeTCP(DoH, req, resp) before serialising resp"
			}
			return ""
		}},
	}
	for _, w := range writers {
		w := w
		decide(c, "C08-R1", w.fn, an.DecideCfg{
			Dom:    an.Domain{"ct": an.Strs(mimeDoH, mimeJSON)},
			OnCall: common,
			Inline: func(f *ssa.Function) bool { return false },
			Expect: func(f an.Features, o an.AOutcome) string { return w.check(o) },
		})
	}
	// DNSCrypt and DoQ build the message from a recorder
	decide(c, "C08-R1", "dnsserver.(*dnsCryptHandler).ServeDNS", an.DecideCfg{
		Dom: an.Domain{"written": an.Bools},
		OnCall: func(it *an.Interp, name string, args []an.AV) (an.AV, bool) {
			switch {
			case strings.HasSuffix(name, ").requestContext"):
				return an.AV{Kind: an.KTuple, Tup: []an.AV{an.NonNil("ctx"), an.NonNil("cancel")}}, true
			case strings.HasSuffix(name, ").serveDNSMsg"):
				return it.Feature("written"), true
			case name == "dnsserver.NewNonWriterResponseWriter":
				return an.NonNil("nrw"), true
			case strings.HasSuffix(name, "NonWriterResponseWriter).Msg"):
				return an.NonNil("recorded"), true
			case name == "dnsserver.NetworkFromAddr":
				return an.Sym("net(" + args[0].String() + ")"), true
			case name == "dnsserver.genErrorResponse":
				return an.NonNil("errResp"), true
			case strings.HasSuffix(name, "errors.Annotate"):
				return args[0], true
			}
			return an.AV{}, false
		},
		Inline: func(f *ssa.Function) bool { return strings.HasSuffix(an.FnKey(f), "ServeDNS$1") },
		Expect: func(f an.Features, o an.AOutcome) string {
			var writes []string
			wi := -1
			for i, e := range o.Effects {
				if e.Kind == "call" && e.Name == "p1.WriteMsg" {
					writes = append(writes, strings.Join(e.Args, ","))
					wi = i
				}
			}
			if len(writes) != 1 {
				return "exactly one write"
			}
			if !f.B("written") {
				// the server's own SERVFAIL is normalised like the DoQ one: a query with an OPT record gets one back
				n := normCall(o, "dnsserver.normalize", "net(p1.LocalAddr())", fmt.Sprint(pCrypt), "p2", "nonnil:errResp", fmt.Sprint(maxMsg))
				if writes[0] != "nonnil:errResp" || n < 0 || n > wi {
					return "SERVFAIL when nothing was written, normalised (OPT echo, size) like every other response before it is written"
				}
				return ""
			}
			n := normCall(o, "dnsserver.normalize", "net(p1.LocalAddr())", fmt.Sprint(pCrypt), "p2", "nonnil:recorded", fmt.Sprint(maxMsg))
			if n < 0 || n > wi || writes[0] != "nonnil:recorded" {
				return "normalize(network of the local address, DNSCrypt, req, recorded response, 65535) before writing that response"
			}
			return ""
		},
	})
	// the DoQ stream: normalizeTCP(DoQ, msg, resp) before packWithPrefix(resp) is part of C01-R4; restate the gate here
	if fn := c.Fn("dnsserver.(*ServerQUIC).serveQUICStream"); fn == nil {
		c.Und("C08-R1", "dnsserver.(*ServerQUIC).serveQUICStream", token.NoPos, "anchor not found")
	} else {
		c.Analysed(an.FnKey(fn))
		var norm, pack ssa.CallInstruction
		for _, call := range an.Calls(fn) {
			if an.IsCall(call, "dnsserver.normalizeTCP") {
				norm = call
			}
			if an.IsCall(call, "dnsserver.packWithPrefix") {
				pack = call
			}
		}
		ok := norm != nil && pack != nil && an.Dominates(norm, pack) && norm.Common().Args[2] == pack.Common().Args[0]
		if ok {
			if k, isConst := an.ConstInt(norm.Common().Args[0]); !isConst || k != pDoQ {
				ok = false
			}
		}
		c.Check(ok, "C08-R1", an.FnKey(fn), fn.Pos(), "normalizeTCP(DoQ, msg, resp) dominates packWithPrefix(resp)",
			"the DoQ response is packed without being normalised first as DoQ")
	}

	// ---- R6: OPT records taken from the cloner's pool for constructed answers start without options
	c.Floor("C08-R6", 2)
	sharedPoolInit(c, "C08-R6", "dnsmsg.newOPT")
	// ---- R7: handlers never rewrite the client's request, against which the writers normalise the response
	c.Floor("C08-R7", 8)
	sharedReqNotMutated(c, "C08-R7")

	// ---- R18: what normalize leaves to the transport: for DNSCrypt exactly what the dnscrypt module subtracts from
	// the size before it truncates (and it keeps the answers that still fit on TCP), nothing for the others
	c.Floor("C08-R18", 1)
	libReserve := int64(-1)
	if pkg := c.Prog.SSA.ImportedPackage("github.com/ameshkov/dnscrypt/v2"); pkg != nil {
		if fn := pkg.Func("normalize"); fn != nil && fn.Blocks != nil {
			an.Instrs(fn, func(in ssa.Instruction) {
				if b, ok := in.(*ssa.BinOp); ok && b.Op == token.SUB {
					if k, ok := b.Y.(*ssa.Const); ok && k.Value != nil {
						libReserve = k.Int64()
					}
				}
			})
		}
	}
	if libReserve < 0 {
		c.Und("C08-R18", "dnsserver.reservedLen", token.NoPos, "the dnscrypt module's normalize (size - reserve) was not found")
	} else {
		decide(c, "C08-R18", "dnsserver.reservedLen", an.DecideCfg{
			Dom: an.Domain{"p0": an.Ints(0, pDNS, pDoH, pDoQ, pDoT, pCrypt, 1, 2)},
			Expect: func(f an.Features, o an.AOutcome) string {
				want := int64(0)
				if f.I("p0") == pCrypt {
					want = libReserve
				}
				if o.RetString() == fmt.Sprint(want) {
					return ""
				}
				return fmt.Sprintf("%d for protocol %d (the %d bytes the dnscrypt module reserves for its header, for DNSCrypt only)", want, f.I("p0"), libReserve)
			},
		})
	}

	// ---- R5
	for _, m := range []string{"HasPaddingSupport", "IsStdEncrypted"} {
		decide(c, "C08-R5", "dnsserver.(Protocol)."+m, an.DecideCfg{
			Dom: an.Domain{"p0": an.Ints(0, pDNS, pDoH, pDoQ, pDoT, pCrypt, 1, 2)},
			Expect: func(f an.Features, o an.AOutcome) string {
				p := f.I("p0")
				want := p == pDoH || p == pDoQ || p == pDoT
				if o.RetString() == fmt.Sprint(want) {
					return ""
				}
				return fmt.Sprintf("%v for protocol %d (true exactly for DoT, DoH, DoQ)", want, p)
			},
			Inline: inlinePkgs([]string{"dnsserver.(Protocol)."}),
		})
	}
	codes := []string{"EDNS0NSID", "EDNS0EXPIRE", "EDNS0PADDING", "EDNS0TCPKEEPALIVE", "EDNS0SUBNET", "EDNS0COOKIE", "EDNS0EDE"}
	var codeVals []int64
	for _, n := range codes {
		codeVals = append(codeVals, dnsInt(n))
	}
	nsid, expire := codeVals[0], codeVals[1]
	decide(c, "C08-R5", "dnsserver.filterUnsupportedOptions", an.DecideCfg{
		Dom:     an.Domain{"len(p0)": an.Ints(0, 1, 2), "p0[0].Option()": an.Ints(codeVals...), "p0[1].Option()": an.Ints(nsid, dnsInt("EDNS0PADDING"))},
		MaxRuns: 200,
		Expect: func(f an.Features, o an.AOutcome) string {
			var kept []string
			n := f.I("len(p0)")
			for i := int64(0); i < n; i++ {
				cd := f.I(fmt.Sprintf("p0[%d].Option()", i))
				if cd == nsid || cd == expire {
					kept = append(kept, fmt.Sprintf("p0[%d]", i))
				}
			}
			want := "nil"
			if len(kept) > 0 {
				want = "[" + strings.Join(kept, ", ") + "]"
			}
			if o.RetString() == want {
				return ""
			}
			return want + " (only NSID and EXPIRE are carried over)"
		},
	})
	decide(c, "C08-R5", "dnsserver.padAnswer", an.DecideCfg{
		Dom: an.Domain{"reqpad": an.Bools, "resppad": an.Bools},
		OnCall: func(it *an.Interp, name string, args []an.AV) (an.AV, bool) {
			switch {
			case strings.HasPrefix(name, "dnsserver.findOption"):
				k := "reqpad"
				if args[0].String() == "p1" {
					k = "resppad"
				} else if args[0].String() != "p0" {
					return an.Sym("padding looked up elsewhere"), true
				}
				if it.Feature(k).IsTrue() {
					return an.NonNil(k), true
				}
				return an.Nil(), true
			case name == "math/rand.Intn":
				return an.CInt(7), true
			}
			return an.AV{}, false
		},
		Expect: func(f an.Features, o an.AOutcome) string {
			stores := o.Stores()
			if !f.B("reqpad") {
				if len(stores) == 0 {
					return ""
				}
				return "no change to the response when the request has no padding option"
			}
			// padding only ever adds an option: what the response already carries (the client-subnet echo, NSID,
			// keep-alive) stays
			for _, s := range stores {
				kv := strings.SplitN(s, "=", 2)
				if kv[0] == "p1.Option" && !strings.HasPrefix(kv[1], "builtin.append(p1.Option, ") {
					return "the response's options are only appended to (got " + s + ")"
				}
			}
			for k, v := range o.Mem {
				if strings.HasSuffix(k, ".Padding") && v.Kind != an.KNil {
					return ""
				}
			}
			for _, s := range stores {
				if strings.HasSuffix(strings.SplitN(s, "=", 2)[0], ".Padding") {
					return ""
				}
			}
			return "padding written when the request asks for it"
		},
	})
	decide(c, "C08-R5", "dnsserver.(*tcpResponseWriter).addTCPKeepAlive", an.DecideCfg{
		Dom: an.Domain{"reqopt": an.Bools, "respopt": an.Bools, "reqka": an.Bools, "respka": an.Bools},
		OnCall: func(it *an.Interp, name string, args []an.AV) (an.AV, bool) {
			switch {
			case name == "(*github.com/miekg/dns.Msg).IsEdns0":
				k := "reqopt"
				if args[0].String() == "p2" {
					k = "respopt"
				}
				if it.Feature(k).IsTrue() {
					return an.NonNil(k), true
				}
				return an.Nil(), true
			case strings.HasPrefix(name, "dnsserver.findOption"):
				k := "reqka"
				if args[0].String() == "nonnil:respopt" {
					k = "respka"
				}
				if it.Feature(k).IsTrue() {
					return an.NonNil(k), true
				}
				return an.Nil(), true
			}
			return an.AV{}, false
		},
		Expect: func(f an.Features, o an.AOutcome) string {
			changed := len(o.Stores()) > 0
			want := f.B("reqopt") && f.B("respopt") && f.B("reqka")
			if changed == want {
				return ""
			}
			return fmt.Sprintf("keep-alive option set=%v (only when both OPT records exist and the client sent the option)", want)
		},
	})
}

// c08AddEDE holds the table of the server's own error path: the response OPT,
// when the response has none, is a fresh one that takes only the UDP size and
// the DO bit from the request (never a copy of the request's OPT, whose options
// -- padding, cookies, client subnets -- would be echoed on every transport).
func c08AddEDE(c *an.Ctx) {
	c.Floor("C08-R13", 1)
	decide(c, "C08-R13", "dnsserver.addEDE", an.DecideCfg{
		Dom: an.Domain{"reqopt": an.Bools, "respopt": an.Bools},
		OnCall: func(it *an.Interp, name string, args []an.AV) (an.AV, bool) {
			switch {
			case strings.HasSuffix(name, "dns.Msg).IsEdns0"):
				feat, tag := "respopt", "respOpt"
				if args[0].String() == "p0" {
					feat, tag = "reqopt", "reqOpt"
				}
				if it.Feature(feat).IsTrue() {
					return an.NonNil(tag), true
				}
				return an.Nil(), true
			case strings.HasSuffix(name, "dns.OPT).UDPSize"):
				return an.Sym("size(" + args[0].String() + ")"), true
			case strings.HasSuffix(name, "dns.OPT).Do"):
				return an.Sym("do(" + args[0].String() + ")"), true
			case strings.HasSuffix(name, "dns.Msg).SetEdns0"):
				return args[0], true
			}
			return an.AV{}, false
		},
		Expect: func(f an.Features, o an.AOutcome) string {
			set := ""
			for _, e := range o.Effects {
				if e.Kind != "call" {
					continue
				}
				switch {
				case strings.HasSuffix(e.Name, "dns.Msg).SetEdns0"):
					set = strings.Join(e.Args, ",")
				case strings.HasSuffix(e.Name, "dns.Copy"), strings.HasSuffix(e.Name, ").copy"), strings.HasSuffix(e.Name, "dns.OPT).copy"):
					return "no copy of a record of the request in the response; got " + e.Name
				}
			}
			switch {
			case !f.B("reqopt"):
				if set != "" || len(o.Stores()) > 0 {
					return "nothing added for a client without EDNS"
				}
			case !f.B("respopt"):
				if set != "p1,size(nonnil:reqOpt),do(nonnil:reqOpt)" {
					return "a fresh OPT with the request's UDP size and DO bit only; got SetEdns0(" + set + ")"
				}
			default:
				if set != "" {
					return "the response's own OPT is kept"
				}
			}
			return ""
		},
	})
}

// c08ErrorRespFresh holds the table of genErrorResponse: the server's own
// FORMERR / NOTIMP / SERVFAIL answers are built from the request by SetRcode
// alone and carry no OPT record of their own, so that normalize creates a fresh
// one (with only the options that may be echoed) for them.  A request's OPT
// record put into the response is kept by normalize as it is: padding, cookies
// and local options of the query go back on a plain transport.
func c08ErrorRespFresh(c *an.Ctx, rule string) {
	decide(c, rule, "dnsserver.genErrorResponse", an.DecideCfg{
		Dom: an.Domain{},
		OnCall: func(it *an.Interp, name string, args []an.AV) (an.AV, bool) {
			if strings.HasSuffix(name, "dns.Msg).IsEdns0") {
				return an.NonNil("reqopt"), true
			}
			return an.AV{}, false
		},
		Expect: func(f an.Features, o an.AOutcome) string {
			calls := o.Calls()
			if o.Exit != "return" || len(o.Stores()) != 0 || len(calls) != 1 || !strings.HasSuffix(calls[0], "dns.Msg).SetRcode") {
				return "a response made by SetRcode(request, code) only, with no section filled in (calls " + strings.Join(calls, ", ") + "; stores " + strings.Join(o.Stores(), ", ") + ")"
			}
			return ""
		},
	})
}

// c08CacheHitNoOPT: the simple cache keeps the upstream's whole answer,
// OPT record included; OPT is hop-by-hop, so a cache hit must leave it out
// (normalize keeps the options of an OPT record that is already there, and the
// keep-alive or padding negotiated with the first client would reach the next).
// Every append that builds the Extra section of the message returned by
// fromCacheItem, in the function itself or in a helper it calls, is dominated
// by a comparison of the record's type with OPT.
func c08CacheHitNoOPT(c *an.Ctx, rule string) {
	const k = "dnsserver/cache.(*Middleware).fromCacheItem"
	fn := c.Fn(k)
	key := k + " leaves the cached OPT record out"
	if fn == nil {
		c.Und(rule, key, token.NoPos, "anchor not found")
		return
	}
	c.Analysed(k)
	optTested := func(b *ssa.BasicBlock) bool {
		for _, e := range an.DominatingConds(b) {
			if bo, ok := e.If.Cond.(*ssa.BinOp); ok {
				for _, op := range []ssa.Value{bo.X, bo.Y} {
					if v, isConst := an.ConstInt(op); isConst && v == 41 {
						return true
					}
				}
			}
		}
		return false
	}
	n := 0
	bad := ""
	var examine func(v ssa.Value, d int)
	examine = func(v ssa.Value, d int) {
		call, ok := v.(*ssa.Call)
		if !ok || d > 2 {
			return
		}
		if b, ok := call.Call.Value.(*ssa.Builtin); ok && b.Name() == "append" {
			n++
			if !optTested(call.Block()) {
				bad = "the append at " + c.Pos(call.Pos()) + " is not behind a test of the record type against OPT"
			}
			return
		}
		if callee := an.StaticCallee(call); callee != nil && callee.Blocks != nil && c.Prog.InRepo(callee) {
			for _, cl := range an.Calls(callee) {
				if cv, ok := cl.(*ssa.Call); ok {
					if b, ok := cv.Call.Value.(*ssa.Builtin); ok && b.Name() == "append" {
						examine(cv, d+1)
					}
				}
			}
		}
	}
	an.Instrs(fn, func(in ssa.Instruction) {
		if st, ok := in.(*ssa.Store); ok {
			if typ, f, _, ok := an.FieldOf(st.Addr); ok && f == "Extra" && strings.HasSuffix(typ, "dns.Msg") {
				examine(st.Val, 0)
			}
		}
	})
	c.Check(n > 0 && bad == "", rule, key, fn.Pos(), fmt.Sprintf("%d appends build the additional section, each behind a test of the record type against OPT", n),
		bad+": a cache hit replays the OPT record of the first requester's answer (keep-alive, padding) to every later client")
}

// c08KeepAliveThenTruncate: tcpResponseWriter.WriteMsg normalises (truncates) the
// response and then adds the edns-tcp-keepalive option.  Every path from the
// call that adds the option to packWithPrefix passes a truncation (truncate,
// normalize, normalizeTCP) or the edge on which the call reported that it
// added nothing.
func c08KeepAliveThenTruncate(c *an.Ctx, rule string) {
	k := "dnsserver.(*tcpResponseWriter).WriteMsg"
	fn := c.Prog.Fn(k)
	key := k + " truncates again after adding the keep-alive option"
	if fn == nil {
		c.Und(rule, key, token.NoPos, "anchor not found")
		return
	}
	c.Analysed(k)
	var add, pack ssa.CallInstruction
	for _, call := range an.Calls(fn) {
		switch n := an.CalleeName(call); {
		case strings.HasSuffix(n, "tcpResponseWriter).addTCPKeepAlive"):
			add = call
		case strings.HasSuffix(n, "dnsserver.packWithPrefix"):
			pack = call
		}
	}
	if add == nil || pack == nil {
		c.Und(rule, key, fn.Pos(), "addTCPKeepAlive or packWithPrefix not found in WriteMsg")
		return
	}
	// the edge on which the call reported "nothing added"
	var notAdded []an.CondEdge
	if v := add.Value(); v != nil {
		for _, r := range *v.Referrers() {
			if ifi, ok := r.(*ssa.If); ok {
				notAdded = append(notAdded, an.CondEdge{If: ifi, Branch: false})
			}
		}
	}
	// is the pack step reachable from the add step without a truncation in between?
	reach := false
	seen := map[*ssa.BasicBlock]bool{}
	var walk func(b *ssa.BasicBlock, from int)
	walk = func(b *ssa.BasicBlock, from int) {
		for _, in := range b.Instrs[from:] {
			if call, ok := in.(ssa.CallInstruction); ok {
				n := an.CalleeName(call)
				if strings.HasSuffix(n, "dnsserver.truncate") || strings.HasSuffix(n, "dnsserver.normalize") || strings.HasSuffix(n, "dnsserver.normalizeTCP") {
					return
				}
				if call == pack {
					reach = true
					return
				}
			}
		}
		for _, succ := range b.Succs {
			blocked := false
			for _, e := range notAdded {
				if e.If.Block() == b && e.To() == succ && b.Succs[0] != b.Succs[1] {
					blocked = true
				}
			}
			if !blocked && !seen[succ] {
				seen[succ] = true
				walk(succ, 0)
			}
		}
	}
	blk, idx := an.After(add)
	walk(blk, idx)
	c.Check(!reach, rule, key, add.Pos(), "a truncation lies between the added option and the packing step",
		"the keep-alive option is added at "+c.Pos(add.Pos())+" and the response is packed at "+c.Pos(pack.Pos())+" with no truncation in between: a response that normalisation left within six bytes of 65535 no longer packs, and the client gets SERVFAIL instead of a truncated answer")
}

// c08ServerKeepsRequest: every writer normalises the response against the request
// message it is given (EDNS size, DO bit, options, padding).  The functions of
// package dnsserver that pass a *dns.Msg parameter as the request of a WriteMsg
// call store nothing into that message.  Returns the number of such functions.
func c08ServerKeepsRequest(c *an.Ctx, rule string) (examined int) {
	for _, fn := range c.AllFns {
		k := an.FnKey(fn)
		if fn.Blocks == nil || c.IsTestFile(fn.Pos()) || !strings.HasPrefix(k, "dnsserver.") {
			continue
		}
		reqs := map[ssa.Value]bool{}
		cells := map[ssa.Value]bool{}
		for _, call := range an.Calls(fn) {
			idx := 1
			if call.Common().IsInvoke() {
				if call.Common().Method.Name() != "WriteMsg" {
					continue
				}
			} else if strings.HasSuffix(an.CalleeName(call), ").WriteMsg") {
				idx = 2
			} else {
				continue
			}
			if len(call.Common().Args) < idx+2 {
				continue
			}
			switch a := call.Common().Args[idx].(type) {
			case *ssa.Parameter:
				reqs[a] = true
			case *ssa.UnOp:
				// a parameter that a closure captures lives in a cell
				if cell, ok := a.X.(*ssa.Alloc); ok && a.Op == token.MUL {
					for _, st := range an.Stores(cell) {
						if pa, ok := st.Val.(*ssa.Parameter); ok {
							reqs[pa] = true
							cells[cell] = true
						}
					}
				}
			}
		}
		if len(reqs) == 0 {
			continue
		}
		examined++
		c.Analysed(k)
		bad := ""
		an.Instrs(fn, func(in ssa.Instruction) {
			st, ok := in.(*ssa.Store)
			if !ok {
				return
			}
			base := st.Addr
			for {
				switch x := base.(type) {
				case *ssa.FieldAddr:
					base = x.X
					continue
				case *ssa.IndexAddr:
					base = x.X
					continue
				case *ssa.UnOp:
					if x.Op == token.MUL && cells[x.X] {
						// the request read back from its cell
						for _, cst := range an.Stores(x.X) {
							base = cst.Val
						}
					}
				}
				break
			}
			if reqs[base] {
				_, f, _, _ := an.FieldOf(st.Addr)
				bad = "the request's " + f + " is overwritten at " + c.Pos(st.Pos())
			}
		})
		c.Check(bad == "", rule, k+" leaves the request it answers as it came", fn.Pos(), "no store into the request message",
			bad+": the response is normalised against that message afterwards, so what the client sent (its OPT record, its advertised size, its options) no longer shapes the answer")
	}
	return examined
}
