package rules

import (
	"fmt"
	"go/token"
	"go/types"
	"sort"
	"strings"

	"adgverif/an"

	"golang.org/x/tools/go/ssa"
)

func init() {
	register(&Property{ID: "C16", Technique: "lock-held dataflow for the shared record map; decision-tree extraction (abstract interpretation with one abstract map element) of Record, Refresh and remergeRecords with effect tables",
		Run: runC16, Explain: an.Explanation{
			Text: "Decides the premises from which conservation of billing counts follows. R1: the record map of the runtime recorder is " +
				"read, written and replaced only while its mutex is held, and resetRecords reads and replaces it in one critical " +
				"section. R2: Refresh uploads exactly the map returned by resetRecords, returns the uploader's error unchanged in " +
				"nil-ness, and re-merges exactly that map if and only if the upload failed. R3: remergeRecords, for each device of " +
				"the failed batch: if the live map has no record, the batch record is put back; otherwise only the live record's " +
				"query count is increased by the batch record's count (metadata of the newer record kept). R4: Record creates a " +
				"record with one query for a new device and otherwise adds one query, taking time, country, ASN and protocol from its " +
				"arguments. With R1-R4, for every device: delivered + held = recorded, by induction over the critical sections (each " +
				"either adds one to held, moves held to in-flight, delivers in-flight, or adds in-flight back to held).",
			NotCovered: "the induction over interleavings itself is a paper argument, not mechanised; the uploader's own behaviour.",
			Rules: map[string]string{"C16-R24": "a lookup by human-readable ID re-checks that the device still belongs to the profile of the key (shared with C14-R15): a query under the old profile's ID is not billed to the device after it moved to another profile", "C16-R23": "dnssvc.newDeviceFinder gives every server of a group with profiles a real device finder (table shared with C03-R23): devices recognised by address or EDNS option are billed also when the group has no device domains", "C16-R22": "the device ID in an EDNS option is found whatever other options precede or follow it (shared with C03-R11): the query is billed to the device it names, not to the owner of the client's address", "C16-R21": "a query is attributed to the device its own identifier names: on DoH the URL path and credentials come before the TLS server name, on plain DNS the dedicated address before the linked IP (tables shared with C03-R11 and C03-R1)", "C16-R20": "a query whose answer was written is recorded: in mainmw.Wrap every path from the success edge of the final WriteMsg to a return passes recordQueryInfo (nothing else, a look at the context for instance, can end the request in between)", "C16-R19": "pooled per-request state is fully re-initialised (request info, filtering context; shared with C07-R1): a query is not billed to the device of the request that used the object before, and a debug flag of an earlier query does not make later ones skip billing", "C16-R18": "initGRPCMetrics creates the backend gRPC metrics whenever profiles (and so the billing uploader) are enabled (table shared with C20-R19)", "C16-R17": "geoip.ipToCacheKey returns keys of different types for IPv4 (/24) and IPv6 (/56) networks, so the two families never share a cache entry", "C16-R15": "geoip.File.Refresh clears its caches after installing the new databases, so billing records do not keep the previous database's country and ASN (shared with C05-R10)", "C16-R16": "every transport samples the request's start time after the message has been read", "C16-RC": "class rules (error chains, shadowed results, character classes, crossed arguments, pool constructors, array pools, loop completeness, loop-carried buffers, replacing setters, complete clones, Grow arithmetic, pooled-buffer escape, sorted searches, fresh decode targets, per-iteration objects, whole-message copies, codec guards) over the packages this property rests on", "C16-R14": "the error-class enums declared in backendpb and in metrics agree, and the metrics switches (panicking default) have a case for each value", "C16-R13": "request information attached to a context inside an accept/stream loop is allocated in that iteration; pool constructors build fresh objects", "C16-R12": "the periodic worker that uploads billing records, incl. the final upload on shutdown before the worker stops (shared rule, see C13-R11)", "C16-R11": "a request is served and billed once; the billed location is the one of the client's own address (tables shared with C09-R1 and C05-R5)", "C16-R1": "records only under mu", "C16-R2": "Refresh: upload what was reset, remerge iff failed",
				"C16-R3": "remerge: insert or add counts", "C16-R4": "Record: new=1, existing+1, metadata from arguments",
				"C16-R6": "resetRecords hands out the old map and installs a fresh one on every path; recordToProtobuf copies count, device, country, ASN, protocol and time unchanged",
				"C16-R8": "wiring: the recorder installed for the request path is the one the refresh worker flushes; that worker flushes once more on shutdown and is registered with the signal handler",
				"C16-R5": "uploader: nil result only if every record was sent and the stream closed cleanly (error kinds nil / io.EOF / other tracked through wrapping, Join and errors.Is)"},
		}})
}

func runC16(c *an.Ctx) {
	c.Floor("C16-R24", 1)
	c.Borrow("C16-R24", runC14, func(o an.Obligation) bool { return o.Rule == "C14-R15" })
	c.Floor("C16-R23", 1)
	c.Borrow("C16-R23", runC03, func(o an.Obligation) bool { return o.Rule == "C03-R23" })
	c.Floor("C16-R22", 1)
	c.Borrow("C16-R22", runC03, func(o an.Obligation) bool { return o.Rule == "C03-R11" })
	// ---- R21: which identifier decides the billed device (shared with C03-R11 and C03-R1)
	c.Floor("C16-R21", 2)
	c.Borrow("C16-R21", runC03, func(o an.Obligation) bool {
		return o.Rule == "C03-R11" && strings.Contains(o.Key, "deviceDataFromSrvReqInfo") || o.Rule == "C03-R1" && strings.Contains(o.Key, "Default).Find")
	})
	// ---- R20: an answered query is always recorded
	c.Floor("C16-R20", 1)
	c16AnsweredIsRecorded(c, "C16-R20")
	// ---- R19: pooled request state starts empty (shared with C07-R1)
	c.Floor("C16-R19", 2)
	c.Borrow("C16-R19", runC07, func(o an.Obligation) bool {
		return o.Rule == "C07-R1" && (strings.Contains(o.Key, "newRequestInfo") || strings.Contains(o.Key, "newFilteringContext") || strings.Contains(o.Key, "addRequestInfo"))
	})
	// ---- R18: the uploader's gRPC metrics exist whenever profiles are enabled (shared with C20-R19)
	c.Floor("C16-R18", 1)
	c.Borrow("C16-R18", runC20, func(o an.Obligation) bool { return o.Rule == "C20-R19" })
	classSweep(c, "C16")
	// ---- R17: the location cache's keys keep the address families apart
	c.Floor("C16-R17", 1)
	c16CacheKeyFamilies(c, "C16-R17")
	// ---- R15: the GeoIP caches are emptied after the new databases are in place (shared with C05-R10); R16: the
	// request's start time, which becomes the device's last-activity time, is sampled after the message has arrived
	c.Floor("C16-R15", 2)
	c.Borrow("C16-R15", runC05, func(o an.Obligation) bool { return o.Rule == "C05-R10" })
	if n := c16StartTime(c, "C16-R16"); n < 5 {
		c.Und("C16-R16", "request start times", token.NoPos, "only %d stores to RequestInfo.StartTime found (expected one per transport)", n)
	}
	c.Floor("C16-R12", 5)
	refreshWorkerRules(c, "C16-R12")
	dnssvcWiring(c, "C16-R10", func(dst, src string) bool {
		n := normName(dst) + " " + normName(src)
		return strings.Contains(n, "billstat")
	}, 1)
	// ---- C16-R10: builder wiring of the components this property rests on
	c.Floor("C16-R10", 4)
	builderWiring(c, "C16-R10", map[string][]string{
		"initDNS|dnssvc.HandlersConfig":                {"BillStat"},
		"initBillStat|agdservice.RefreshWorkerConfig":  nil,
		"initBillStat|billstat.RuntimeRecorderConfig":  nil,
		"newBillStatUploader|backendpb.BillStatConfig": nil,
	})
	// ---- R9: time and protocol reported for a query are this query's: request information is built per message and per server
	c.Floor("C16-R9", 2)
	c.Borrow("C16-R9", runC18, func(o an.Obligation) bool { return o.Rule == "C18-R5" && strings.Contains(o.Key, "serveTCPConn") })
	c.Inf("C16-R9", "hand-off sweep", token.NoPos, "%d hand-offs examined", sharedRetainedArgs(c, "C16-R9", "dnssvc.", "cmd."))
	c16Wiring(c)
	// ---- R7: every query attributed to a profile is recorded for billing, whatever its logging settings
	// ---- R13: the request information (start time) attached to a query's context is built for that query, on every
	// transport's accept / stream loop; pool constructors hand out fresh request-information objects
	if n := sharedPerIterationObjects(c, "C16-R13", "dnsserver."); n < 1 {
		c.Und("C16-R13", "per-request objects in accept loops", token.NoPos, "only %d attachments found in loops (expected the QUIC stream loop)", n)
	}
	if n := sharedPoolNewFresh(c, "C16-R13"); n < 10 {
		c.Und("C16-R13", "pool constructors", token.NoPos, "only %d pool constructors found", n)
	}
	// ---- R14: error classes reported by the uploader are known to the metrics that count them (an unknown class panics
	// inside Upload, and the records taken out for the upload are lost)
	c.Floor("C16-R14", 2)
	sharedEnumSync(c, "C16-R14", "backendpb", "metrics", "GRPCErr")
	sharedEnumSync(c, "C16-R14", "backendpb", "metrics", "RemoteKVOp")
	c.Borrow("C16-R11", runC05, func(o an.Obligation) bool { return o.Rule == "C05-R1" && strings.Contains(o.Key, "locFromReq") })
	c.Borrow("C16-R11", runC01, func(o an.Obligation) bool { return o.Rule == "C01-R3" && strings.Contains(o.Key, "dnssvc") })
	c.Floor("C16-R11", 2)
	// ---- R11: a request is served (and billed) once; the country and ASN billed are those of the client's own address
	c.Borrow("C16-R11", runC09, func(o an.Obligation) bool { return o.Rule == "C09-R1" })
	c.Borrow("C16-R11", runC05, func(o an.Obligation) bool { return o.Rule == "C05-R5" && strings.Contains(o.Key, ").location") })
	c.Floor("C16-R7", 1)
	c.Borrow("C16-R7", runC15, func(o an.Obligation) bool { return o.Rule == "C15-R1" && strings.Contains(o.Key, "recordQueryInfo") })
	c.Floor("C16-R1", 6)
	c.Floor("C16-R2", 1)
	c.Floor("C16-R3", 1)
	c.Floor("C16-R4", 1)
	c.Floor("C16-R5", 1)

	// ---- R1
	cache := map[*ssa.Function]map[ssa.Instruction]an.Held{}
	for _, fn := range c.FnsMatching("billstat.") {
		if c.IsTestFile(fn.Pos()) || an.FnKey(fn) == "billstat.NewRuntimeRecorder" {
			continue
		}
		an.Instrs(fn, func(in ssa.Instruction) {
			fa, ok := in.(*ssa.FieldAddr)
			if !ok {
				return
			}
			typ, field, _, ok := an.FieldOf(fa)
			if !ok || typ != "billstat.RuntimeRecorder" || field != "records" {
				return
			}
			c.Analysed(an.FnKey(fn))
			key := an.FnKey(fn) + " touches records"
			if mode, why := c.HeldAt(in, "mu", 2, cache); mode != "w" {
				c.Bad("C16-R1", key, fa.Pos(), "the record map is accessed without the recorder's mutex: %s", why)
			} else {
				c.Ok("C16-R1", key, fa.Pos(), "mu held")
			}
		})
	}

	// ---- R2
	decide(c, "C16-R2", "billstat.(*RuntimeRecorder).Refresh", an.DecideCfg{
		Dom:    an.Domain{"uploaderr": an.Bools},
		Inline: func(f *ssa.Function) bool { return an.FnKey(f) == "billstat.(*RuntimeRecorder).Refresh$1" },
		OnCall: func(it *an.Interp, name string, args []an.AV) (an.AV, bool) {
			switch name {
			case "(*billstat.RuntimeRecorder).resetRecords":
				return an.NonNil("batch"), true
			case "p0.uploader.Upload":
				if it.Feature("uploaderr").IsTrue() {
					return an.NonNil("uploadErr"), true
				}
				return an.Nil(), true
			}
			return an.AV{}, false
		},
		Expect: func(f an.Features, o an.AOutcome) string {
			var uploads, remerges []string
			for _, e := range o.Effects {
				if e.Kind != "call" {
					continue
				}
				switch e.Name {
				case "p0.uploader.Upload":
					uploads = append(uploads, strings.Join(e.Args, ","))
				case "(*billstat.RuntimeRecorder).remergeRecords":
					remerges = append(remerges, strings.Join(e.Args, ","))
				}
			}
			if len(uploads) != 1 || uploads[0] != "p1,nonnil:batch" {
				return "exactly one upload of the map returned by resetRecords"
			}
			if o.Exit != "return" || len(o.Ret) != 1 {
				return "an error result"
			}
			if f.B("uploaderr") {
				if len(remerges) == 1 && remerges[0] == "p0,p1,nonnil:batch" && o.Ret[0].Kind != an.KNil {
					return ""
				}
				return "the failed batch re-merged exactly once and the error returned"
			}
			if len(remerges) == 0 && o.Ret[0].Kind == an.KNil {
				return ""
			}
			return "no re-merge after a successful upload"
		},
	})

	// ---- R3
	decide(c, "C16-R3", "billstat.(*RuntimeRecorder).remergeRecords", an.DecideCfg{
		Dom: an.Domain{"next(range(p2))#0": an.Bools, "next(range(p2))#1": {an.CBool(false)},
			"p0.records[key#0(range(p2))]#ok": an.Bools, "p0.records[key#0(range(p2))]": {an.NonNil("curr")}},
		Expect: func(f an.Features, o an.AOutcome) string {
			st := o.Stores()
			if !f.B("next(range(p2))#0") {
				if len(st) == 0 {
					return ""
				}
				return "no change for an empty batch"
			}
			prev := "nonnil:elem#0(range(p2))"
			if !f.B("p0.records[key#0(range(p2))]#ok") {
				if len(st) == 1 && st[0] == "p0.records[key#0(range(p2))]="+prev {
					return ""
				}
				return "the batch record put back under its device when the live map has none; got " + fmt.Sprint(st)
			}
			if len(st) == 1 && (st[0] == "curr.Queries=(curr.Queries + elem#0(range(p2)).Queries)" || st[0] == "curr.Queries=(elem#0(range(p2)).Queries + curr.Queries)") {
				return ""
			}
			return "only the live record's query count increased by the batch record's; got " + fmt.Sprint(st)
		},
	})

	// ---- R4
	decide(c, "C16-R4", "billstat.(*RuntimeRecorder).Record", an.DecideCfg{
		Dom: an.Domain{"p0.records[p2]": {an.Nil(), an.NonNil("rec")}},
		Expect: func(f an.Features, o an.AOutcome) string {
			if f.IsNil("p0.records[p2]") {
				var put string
				for _, e := range o.Effects {
					if e.Kind == "store" && e.Name == "p0.records[p2]" {
						put = e.Args[0]
					}
				}
				if !strings.HasPrefix(put, "&local#") {
					return "a new record stored under the device"
				}
				k := strings.TrimPrefix(put, "&")
				want := map[string]string{"Queries": "1", "Time": "p5", "Country": "p3", "ASN": "p4", "Proto": "p6"}
				for fld, v := range want {
					if got := o.Mem[k+"."+fld].String(); got != v {
						return fmt.Sprintf("new record %s = %s, got %s", fld, v, got)
					}
				}
				return ""
			}
			want := map[string]string{"rec.Queries": "(rec.Queries + 1)", "rec.Time": "p5", "rec.Country": "p3", "rec.ASN": "p4", "rec.Proto": "p6"}
			got := map[string]string{}
			for _, e := range o.Effects {
				if e.Kind == "store" {
					got[e.Name] = e.Args[0]
				}
			}
			for k, v := range want {
				if got[k] != v {
					return fmt.Sprintf("%s = %s, got %s", k, v, got[k])
				}
			}
			if len(got) != len(want) {
				return "no other stores"
			}
			return ""
		},
	})
	_ = token.NoPos

	// ---- R5: the gRPC uploader reports success only when everything was delivered
	c16Upload(c)
	// ---- R6: the batch handed to the uploader is detached from the live map; the wire record carries the count unchanged
	c.Floor("C16-R6", 2)
	decide(c, "C16-R6", "billstat.(*RuntimeRecorder).resetRecords", an.DecideCfg{
		Dom: an.Domain{"len(p0.records)": an.Ints(0, 3)},
		OnCall: func(it *an.Interp, name string, args []an.AV) (an.AV, bool) {
			if strings.Contains(name, ".metrics.") {
				return an.Nil(), true
			}
			return an.AV{}, false
		},
		Expect: func(f an.Features, o an.AOutcome) string {
			if o.RetString() != "p0.records" {
				return "the map that was live when the lock was taken; got " + o.RetString()
			}
			var st string
			for _, e := range o.Effects {
				if e.Kind == "store" && e.Name == "p0.records" {
					st = e.Args[0]
				}
			}
			if !strings.HasPrefix(st, "nonnil:make#") {
				return "a fresh, empty map installed as the live map on every path (also when the batch is empty: queries recorded during the upload must not land in the map the uploader and the re-merge work on); got " + st
			}
			if o.CallIndex("(*sync.Mutex).Lock") != 0 {
				return "the swap made under the recorder's mutex"
			}
			return ""
		},
	})
	decide(c, "C16-R6", "backendpb.recordToProtobuf", an.DecideCfg{
		Dom: an.Domain{},
		OnCall: func(it *an.Interp, name string, args []an.AV) (an.AV, bool) {
			if strings.HasSuffix(name, "timestamppb.New") {
				return an.NonNil("ts(" + args[0].String() + ")"), true
			}
			return an.AV{}, false
		},
		Expect: func(f an.Features, o an.AOutcome) string {
			if len(o.Ret) != 1 {
				return "a record"
			}
			k := strings.TrimPrefix(o.Ret[0].String(), "&")
			for fld, want := range map[string]string{"Queries": "p0.Queries", "DeviceId": "p1", "ClientCountry": "p0.Country", "Proto": "p0.Proto", "Asn": "p0.ASN",
				"LastActivityTime": "nonnil:ts(p0.Time)"} {
				if got := o.Mem[k+"."+fld].String(); got != want {
					return fmt.Sprintf("%s = %s, unchanged apart from the type conversion (a clamped or recomputed count breaks delivered + held = recorded); got %s", fld, want, got)
				}
			}
			return ""
		},
	})
}

// errKinds are the abstract error values of the uploader table: nil, io.EOF
// (what grpc's Send returns when the stream is already broken) and any other.
var errKinds = []an.AV{an.Nil(), an.NonNil("err:eof"), an.NonNil("err:other")}

// joinErrLabels models wrapping (%w) and errors.Join: the result is non-nil if
// any operand is a non-nil error and "is" io.EOF if any operand is.
func joinErrLabels(args []an.AV, wrapAlways bool) an.AV {
	eof, other := false, false
	for _, a := range args {
		if a.Kind != an.KNonNil || !strings.HasPrefix(a.Key, "err:") {
			continue
		}
		if strings.Contains(a.Key, "eof") {
			eof = true
		} else {
			other = true
		}
	}
	switch {
	case eof:
		return an.NonNil("err:wrapped-eof")
	case other || wrapAlways:
		return an.NonNil("err:other")
	}
	return an.Nil()
}

func c16Upload(c *an.Ctx) {
	flat := func(args []an.AV) (out []an.AV) {
		for _, a := range args {
			if a.Kind == an.KSlice {
				out = append(out, a.Tup...)
			} else {
				out = append(out, a)
			}
		}
		return out
	}
	decide(c, "C16-R5", "backendpb.(*BillStat).Upload", an.DecideCfg{
		Dom: an.Domain{"len(p2)": an.Ints(0, 2), "next(range(p2))#0": an.Bools, "next(range(p2))#1": an.Bools, "next(range(p2))#2": {an.CBool(false)},
			"openerr": an.Bools, "send0": errKinds, "send1": errKinds, "closeerr": errKinds, "io.EOF": {an.NonNil("err:eof")}},
		OnCall: func(it *an.Interp, name string, args []an.AV) (an.AV, bool) {
			switch {
			case strings.HasSuffix(name, ".SaveDevicesBillingStat"):
				if it.Feature("openerr").IsTrue() {
					return an.AV{Kind: an.KTuple, Tup: []an.AV{an.Nil(), an.NonNil("err:other")}}, true
				}
				return an.AV{Kind: an.KTuple, Tup: []an.AV{an.NonNil("stream"), an.Nil()}}, true
			case strings.HasSuffix(name, "stream.Send"):
				i := "0"
				if len(args) > 0 && strings.Contains(args[len(args)-1].String(), "#1") {
					i = "1"
				}
				return it.Feature("send" + i), true
			case strings.HasSuffix(name, "stream.CloseAndRecv"):
				return an.AV{Kind: an.KTuple, Tup: []an.AV{an.Sym("resp"), it.Feature("closeerr")}}, true
			case strings.HasSuffix(name, "backendpb.fixGRPCError"):
				return args[2], true
			case strings.HasSuffix(name, "backendpb.recordToProtobuf"):
				return an.NonNil("pb(" + args[0].String() + ")"), true
			case name == "fmt.Errorf":
				return joinErrLabels(flat(args), true), true
			case name == "errors.Join", strings.HasSuffix(name, "golibs/errors.Join"):
				return joinErrLabels(flat(args), false), true
			case name == "errors.Is", strings.HasSuffix(name, "golibs/errors.Is"):
				return an.CBool(args[0].Kind == an.KNonNil && strings.Contains(args[0].Key, "eof") && strings.Contains(args[1].String(), "eof")), true
			case strings.HasSuffix(name, "backendpb.ctxWithAuthentication"):
				return an.NonNil("ctx"), true
			case strings.HasSuffix(name, "errcoll.Collect"):
				return an.Nil(), true
			}
			return an.AV{}, false
		},
		Expect: func(f an.Features, o an.AOutcome) string {
			if o.Exit != "return" || len(o.Ret) != 1 {
				return "an error result"
			}
			if f.I("len(p2)") == 0 {
				if o.Ret[0].Kind == an.KNil && len(o.Calls()) == 0 {
					return ""
				}
				return "nothing done for an empty batch"
			}
			fail := f.B("openerr")
			sent := 0
			if !fail {
				for i := 0; i < 2; i++ {
					if !f.B(fmt.Sprintf("next(range(p2))#%d", i)) {
						break
					}
					sent++
					if !f.IsNil(fmt.Sprintf("send%d", i)) {
						fail = true
						break
					}
				}
			}
			if !fail && f.Key("closeerr") == "err:other" {
				fail = true
			}
			if fail != (o.Ret[0].Kind != an.KNil) {
				return fmt.Sprintf("error=%v: a nil result only when the stream opened, every Send succeeded and the stream closed with nil or io.EOF (a failed Send reports io.EOF when the stream is broken; the batch must then be kept for the next upload)", fail)
			}
			if !f.B("openerr") {
				n := 0
				for _, e := range o.Effects {
					if e.Kind == "call" && strings.HasSuffix(e.Name, "stream.Send") {
						n++
					}
				}
				if n != sent {
					return fmt.Sprintf("%d records sent, one per record of the batch up to the first failure; got %d", sent, n)
				}
			}
			return ""
		},
	})
}

// c16Wiring checks the construction of the billing pipeline in the builder:
// what is held when the process is told to stop is uploaded, not dropped.
func c16Wiring(c *an.Ctx) {
	c.Floor("C16-R8", 3)
	const k = "cmd.(*builder).initBillStat"
	fn := c.Fn(k)
	if fn == nil {
		c.Und("C16-R8", k, token.NoPos, "anchor not found")
		return
	}
	c.Analysed(k)
	// the recorder built here
	var recorder ssa.Value
	for _, call := range an.CallsTo(fn, "billstat.NewRuntimeRecorder") {
		recorder = call.Value()
	}
	if recorder == nil {
		c.Und("C16-R8", k+" recorder", fn.Pos(), "the runtime recorder's construction was not found")
		return
	}
	same := func(v ssa.Value) bool { return an.Unwrap(v) == recorder }
	// it is what the request path records into
	installed := false
	var onShutdown, refresher ssa.Value
	var cfg ssa.Value
	an.Instrs(fn, func(in ssa.Instruction) {
		st, ok := in.(*ssa.Store)
		if !ok {
			return
		}
		typ, f, base, ok := an.FieldOf(st.Addr)
		if !ok {
			return
		}
		switch {
		case typ == "cmd.builder" && f == "billStat" && same(st.Val):
			installed = true
		case typ == "agdservice.RefreshWorkerConfig" && f == "Refresher" && same(st.Val):
			refresher, cfg = st.Val, base
		}
	})
	an.Instrs(fn, func(in ssa.Instruction) {
		if st, ok := in.(*ssa.Store); ok {
			if typ, f, base, ok := an.FieldOf(st.Addr); ok && typ == "agdservice.RefreshWorkerConfig" && f == "RefreshOnShutdown" && base == cfg {
				onShutdown = st.Val
			}
		}
	})
	c.Check(installed && refresher != nil, "C16-R8", k+" one recorder", fn.Pos(),
		"the recorder given to the request path is the one the refresh worker uploads from",
		"the recorder installed for the request path is not the one the refresh worker flushes: recorded queries are never uploaded")
	isTrue := false
	if cst, ok := onShutdown.(*ssa.Const); ok && cst.Value != nil && cst.Value.String() == "true" {
		isTrue = true
	}
	c.Check(isTrue, "C16-R8", k+" flush on shutdown", fn.Pos(),
		"the billing refresh worker uploads once more when the process is told to stop",
		"the billing refresh worker does not flush on shutdown: everything recorded since the last periodic upload (and everything re-merged after a failed one) is dropped with the process")
	// the worker is started and registered with the signal handler
	var worker ssa.Value
	for _, call := range an.CallsTo(fn, "agdservice.NewRefreshWorker") {
		if len(call.Common().Args) == 1 && call.Common().Args[0] == cfg {
			worker = call.Value()
		}
	}
	added := false
	for _, call := range an.Calls(fn) {
		if strings.HasSuffix(an.CalleeName(call), "SignalHandler).Add") || strings.HasSuffix(an.CalleeName(call), ".Add") {
			for _, a := range call.Common().Args {
				if worker != nil && an.Unwrap(a) == worker {
					added = true
				}
				// variadic arguments: the elements stored into the argument array
				if sl, ok := a.(*ssa.Slice); ok {
					if al, ok := sl.X.(*ssa.Alloc); ok && al.Referrers() != nil {
						for _, r := range *al.Referrers() {
							if ia, ok := r.(*ssa.IndexAddr); ok && ia.Referrers() != nil {
								for _, rr := range *ia.Referrers() {
									if st, ok := rr.(*ssa.Store); ok && worker != nil && an.Unwrap(st.Val) == worker {
										added = true
									}
								}
							}
						}
					}
				}
			}
		}
	}
	c.Check(added, "C16-R8", k+" registered for shutdown", fn.Pos(),
		"the worker is handed to the signal handler, which shuts it down (and thereby flushes) on termination",
		"the billing refresh worker is not registered with the signal handler: nothing flushes the held counts on termination")
}

// c16StartTime: the time reported for a device is the request's start time,
// and that is sampled when the message has arrived, not when the server began
// to wait for it.  Every value stored into dnsserver.RequestInfo.StartTime is
// walked back to its time.Now calls; in the function that makes such a call,
// if anything is read there (a call whose name says Read), some read dominates
// the sampling.
func c16StartTime(c *an.Ctx, rule string) (examined int) {
	for _, fs := range c.Prog.FieldStores("dnsserver.RequestInfo", "StartTime") {
		fn := fs.Store.Parent()
		if c.Prog.IsTestFile(fn.Pos()) {
			continue
		}
		var nows []*ssa.Call
		w := &an.Walker{P: c.Prog, NoFieldJoin: true,
			Visit: func(v ssa.Value) bool {
				if call, ok := v.(*ssa.Call); ok && an.CalleeName(call) == "time.Now" {
					nows = append(nows, call)
					return true
				}
				return false
			}}
		w.Walk(fs.Val)
		examined++
		c.Analysed(an.FnKey(fn))
		bad := ""
		if len(nows) == 0 {
			bad = "the start time does not come from time.Now"
		}
		for _, now := range nows {
			nf := now.Parent()
			var reads []ssa.CallInstruction
			for _, call := range an.Calls(nf) {
				n := an.Short(an.CalleeName(call))
				if i := strings.LastIndexAny(n, ".)"); i >= 0 {
					n = n[i+1:]
				}
				if strings.HasPrefix(strings.ToLower(n), "read") {
					reads = append(reads, call)
				}
			}
			if len(reads) == 0 {
				continue
			}
			dominated := false
			for _, r := range reads {
				if an.Dominates(r, now) {
					dominated = true
				}
			}
			if !dominated {
				bad = fmt.Sprintf("time.Now at %s is sampled before the message is read (%s): the time the server spent waiting for a datagram counts as part of the request", c.Pos(now.Pos()), an.Short(an.CalleeName(reads[0])))
			}
		}
		c.Check(bad == "", rule, an.FnKey(fn)+" stamps the request when its message has arrived", fs.Store.Pos(),
			fmt.Sprintf("%d clock samples feed the start time, each taken after the read in its function", len(nows)), bad)
	}
	return examined
}

// c16CacheKeyFamilies: the per-network location cache holds IPv4 /24 and IPv6
// /56 networks side by side; its keys keep the two apart by their type (a
// three-byte and a seven-byte array in an interface).  With one key type for
// both, the IPv4 network a.b.c.0/24 and the IPv6 network aabb:cc00::/56 are the
// same key, and a device from one is billed with the country and ASN of the
// other.  ipToCacheKey returns an interface value whose dynamic types differ
// between the two address families.
func c16CacheKeyFamilies(c *an.Ctx, rule string) {
	const k = "geoip.ipToCacheKey"
	fn := c.Fn(k)
	key := k + " keeps IPv4 and IPv6 networks apart"
	if fn == nil {
		c.Und(rule, key, token.NoPos, "anchor not found")
		return
	}
	c.Analysed(k)
	dyn := map[string]bool{}
	iface := false
	if res := fn.Signature.Results(); res.Len() == 1 {
		_, iface = res.At(0).Type().Underlying().(*types.Interface)
	}
	for _, r := range an.Returns(fn) {
		for _, v := range r.Results {
			vals := []ssa.Value{v}
			if phi, ok := v.(*ssa.Phi); ok {
				vals = phi.Edges
			}
			for _, x := range vals {
				if mi, ok := x.(*ssa.MakeInterface); ok {
					dyn[mi.X.Type().String()] = true
				} else {
					dyn[x.Type().String()] = true
				}
			}
		}
	}
	var ts []string
	for t := range dyn {
		ts = append(ts, t)
	}
	sort.Strings(ts)
	c.Check(iface && len(ts) >= 2, rule, key, fn.Pos(), "the key is an interface value of "+strings.Join(ts, " or ")+", one type per address family",
		"the key has one type for both families ("+strings.Join(ts, ", ")+"): an IPv4 /24 and the IPv6 /56 with the same leading bytes share a cache entry, so one network's country and ASN are reported for the other")
}

// c16AnsweredIsRecorded: billing counts queries in recordQueryInfo, which mainmw
// calls after the response has been written.  From the success edge of that
// write every path to a return passes the call; an extra exit in between makes
// answered queries uncounted (neither delivered nor held).
func c16AnsweredIsRecorded(c *an.Ctx, rule string) {
	k := "dnssvc/internal/mainmw.(*Middleware).Wrap$1"
	fn := c.Prog.Fn(k)
	key := k + " records every query it has answered"
	if fn == nil {
		c.Und(rule, key, token.NoPos, "anchor not found")
		return
	}
	c.Analysed(k)
	var record ssa.CallInstruction
	for _, call := range an.Calls(fn) {
		if strings.HasSuffix(an.CalleeName(call), "mainmw.Middleware).recordQueryInfo") {
			record = call
		}
	}
	if record == nil {
		c.Und(rule, key, fn.Pos(), "no recordQueryInfo call")
		return
	}
	// the last WriteMsg that can reach the record step
	var write *ssa.Call
	for _, call := range an.Calls(fn) {
		cv, ok := call.(*ssa.Call)
		if ok && call.Common().IsInvoke() && call.Common().Method.Name() == "WriteMsg" && an.CanReach(call, record) {
			write = cv
		}
	}
	if write == nil {
		c.Und(rule, key, fn.Pos(), "no WriteMsg before the record step")
		return
	}
	var errEdges []an.CondEdge
	for _, b := range fn.Blocks {
		if ifi, ok := b.Instrs[len(b.Instrs)-1].(*ssa.If); ok {
			for _, br := range []bool{true, false} {
				if e := (an.CondEdge{If: ifi, Branch: br}); an.ErrNonNilEdgeOf(e, write) {
					errEdges = append(errEdges, e)
				}
			}
		}
	}
	if len(errEdges) == 0 {
		c.Und(rule, key, fn.Pos(), "the error test of the write was not recognised")
		return
	}
	leak := exitAvoiding(write, errEdges, func(in ssa.Instruction) bool { return in == ssa.Instruction(record) })
	c.Check(!leak, rule, key, write.Pos(), "recordQueryInfo lies on every path from a successful write to a return",
		"a path returns after the response has been written without recording the query: the client was served and the query is in no billing record")
}
