package rules

import (
	"fmt"
	"go/constant"
	"go/token"
	"math"
	"strings"

	"adgverif/an"

	"golang.org/x/tools/go/ssa"
)

// c01PostBodyWhole: a DoH POST carries the whole query in its body; the body is
// read entirely, or through a limiter that admits every DNS message (65535
// bytes), never one that cuts well-formed queries.
func c01PostBodyWhole(c *an.Ctx, rule string) {
	k := "dnsserver.httpRequestToMsgPost"
	fn := c.Fn(k)
	key := k + " reads the whole query from the body"
	if fn == nil {
		c.Und(rule, key, token.NoPos, "anchor not found")
		return
	}
	c.Analysed(k)
	maxMsg, _ := c.ConstInt("github.com/miekg/dns", "MaxMsgSize")
	n, bad := 0, ""
	for _, call := range an.Calls(fn) {
		switch an.CalleeName(call) {
		case "io.ReadAll":
			n++
		case "io.LimitReader", "net/http.MaxBytesReader":
			args := call.Common().Args
			lim := args[len(args)-1]
			if v, ok := an.ConstInt(lim); !ok || v < maxMsg {
				bad = fmt.Sprintf("%s: the body is read through a limiter of %v bytes, below the %d bytes a query may have", c.Pos(call.Pos()), lim, maxMsg)
			}
		}
	}
	if n == 0 {
		c.Und(rule, key, fn.Pos(), "no io.ReadAll of the body found")
		return
	}
	c.Check(bad == "", rule, key, fn.Pos(), "the body is read entirely (no limiter below dns.MaxMsgSize)",
		bad+": a well-formed POST query above the limit is cut, fails to unpack and is answered with an HTTP error, while GET and the other transports answer it")
}

// c02HintsSplitOnComma: the ipv4hint / ipv6hint value of an HTTPS record is a
// comma-separated list; every address of it is filtered on its own.
func c02HintsSplitOnComma(c *an.Ctx, rule string) {
	k := "filter/internal/composite.(*Filter).filterSVCBHint"
	fn := c.Fn(k)
	key := k + " filters every address of a hint"
	if fn == nil {
		c.Und(rule, key, token.NoPos, "anchor not found")
		return
	}
	c.Analysed(k)
	ok := false
	for _, call := range an.Calls(fn) {
		n := an.CalleeName(call)
		if n != "strings.Split" && n != "strings.SplitSeq" {
			continue
		}
		args := call.Common().Args
		if len(args) == 2 && len(fn.Params) >= 2 && args[0] == ssa.Value(fn.Params[1]) {
			if kc, isC := args[1].(*ssa.Const); isC && kc.Value != nil && kc.Value.Kind() == constant.String && constant.StringVal(kc.Value) == "," {
				ok = true
			}
		}
	}
	c.Check(ok, rule, key, fn.Pos(), "the hint parameter is split on \",\"",
		"the hint is not split on \",\" (the presentation format of ipv4hint / ipv6hint): an address in second or later position is matched only as part of the whole list, and anchored rules miss it")
}

// c04RoundDiv: the remaining TTL is the rounded quotient, half away from zero,
// for every sign combination (decision table over sample values).
func c04RoundDiv(c *an.Ctx, rule string) {
	nums := []int64{0, 1, 4, 5, 6, 9, 10, 14, 15, 16, -4, -5, -6, -15}
	dens := []int64{10, -10, 3}
	decide(c, rule, "ecscache.roundDiv", an.DecideCfg{
		Dom: an.Domain{"p0": an.Ints(nums...), "p1": an.Ints(dens...)},
		Expect: func(f an.Features, o an.AOutcome) string {
			num, den := f.I("p0"), f.I("p1")
			want := int64(math.Round(float64(num) / float64(den)))
			if len(o.Ret) != 1 || o.RetString() != fmt.Sprint(want) {
				return fmt.Sprintf("%d (the quotient %d/%d rounded to nearest, half away from zero); got %s", want, num, den, o.RetString())
			}
			return ""
		},
	})
}

// c06QuestionFromRequest: a message rebuilt from a stored one for another
// request takes its question from that request (SetReply / SetRcode); nothing
// stores a question section of its own into it afterwards.
func c06QuestionFromRequest(c *an.Ctx, rule string) (sites int) {
	for _, k := range []string{"dnsserver/cache.(*Middleware).fromCacheItem", "ecscache.fromCacheItem", "filter/internal.(*ResultModifiedResponse).CloneForReq"} {
		fn := c.Fn(k)
		key := k + " leaves the question to SetReply"
		if fn == nil {
			c.Und(rule, key, token.NoPos, "anchor not found")
			continue
		}
		c.Analysed(k)
		sites++
		bad := ""
		an.Instrs(fn, func(in ssa.Instruction) {
			st, ok := in.(*ssa.Store)
			if !ok {
				return
			}
			if typ, f, _, ok := an.FieldOf(st.Addr); ok && f == "Question" && strings.HasSuffix(typ, "dns.Msg") {
				bad = c.Pos(st.Pos())
			}
		})
		c.Check(bad == "", rule, key, fn.Pos(), "no store into the question section: it is the asking request's, set by SetReply / SetRcode",
			"the question section is stored at "+bad+": a hit answers with the question as an earlier client spelled it (the key ignores letter case), not with the request's own")
	}
	return sites
}

// c08MaxUDPSizeAsConfigured: the UDP response writer is given the configured
// maximum as it is; zero is not turned into "no limit".
func c08MaxUDPSizeAsConfigured(c *an.Ctx, rule string) {
	key := "dnsserver.udpResponseWriter.maxRespSize is the configured maximum"
	n := 0
	for _, fs := range c.FieldStores("dnsserver.udpResponseWriter", "maxRespSize") {
		if c.IsTestFile(fs.Store.Pos()) {
			continue
		}
		n++
		c.Analysed(an.FnKey(fs.In))
		ap, ok := an.AccessPath(fs.Val)
		c.Check(ok && strings.HasSuffix(ap, ".MaxUDPRespSize"), rule, fmt.Sprintf("%s (%s)", key, an.FnKey(fs.In)), fs.Store.Pos(),
			"a plain load of the MaxUDPRespSize setting",
			"the value is "+fs.Val.String()+", not a plain load of MaxUDPRespSize: an unset maximum must keep the 512-byte floor, not become the largest message size")
	}
	if n == 0 {
		c.Und(rule, key, token.NoPos, "no store into the field found")
	}
}

// c09SetProfilesStoresAsDelivered: the profile database installs the profiles a
// sync delivered as they are; setProfiles writes nothing into them (a rate
// limiter, access settings or filter configuration carried over from the
// previous object would keep enforcing superseded settings).
func c09SetProfilesStoresAsDelivered(c *an.Ctx, rule string) {
	k := "profiledb.(*Default).setProfiles"
	fn := c.Fn(k)
	key := k + " installs the delivered profiles unchanged"
	if fn == nil {
		c.Und(rule, key, token.NoPos, "anchor not found")
		return
	}
	c.Analysed(k)
	bad := ""
	an.Instrs(fn, func(in ssa.Instruction) {
		st, ok := in.(*ssa.Store)
		if !ok {
			return
		}
		if typ, f, _, ok := an.FieldOf(st.Addr); ok && strings.HasSuffix(typ, "agd.Profile") {
			bad = fmt.Sprintf("%s (field %s)", c.Pos(st.Pos()), f)
		}
	})
	c.Check(bad == "", rule, key, fn.Pos(), "no store into a field of a delivered profile",
		"a field of a delivered profile is overwritten at "+bad+": the settings of the new synchronisation are replaced by state of the previous object")
}

// c10HasAddrChecksAll: Server.HasAddr looks at every bound address: inside the
// loops it only ever returns the constant true, and false after them.
func c10HasAddrChecksAll(c *an.Ctx, rule string) {
	k := "agd.(*Server).HasAddr"
	fn := c.Fn(k)
	key := k + " examines every bound address"
	if fn == nil {
		c.Und(rule, key, token.NoPos, "anchor not found")
		return
	}
	c.Analysed(k)
	// every return yields a constant: true where an address matched, false after the last one
	n, bad := 0, ""
	for _, r := range an.Returns(fn) {
		if len(r.Results) != 1 {
			continue
		}
		n++
		for _, l := range phiLeaves(r.Results[0]) {
			kc, ok := l.(*ssa.Const)
			if !ok || kc.Value == nil || kc.Value.Kind() != constant.Bool {
				bad = c.Pos(r.Pos()) + " returns a computed value"
			}
		}
	}
	if n == 0 {
		c.Und(rule, key, fn.Pos(), "no return found")
		return
	}
	c.Check(bad == "", rule, key, fn.Pos(), "every return yields a constant (true on a match, false after the last address)",
		bad+": the first bound address that is looked at decides, and a request to another of the server's own addresses is taken for one to a dedicated address")
}

// c20NeedsTLS: the encrypted protocols, and only they, need a TLS section.
func c20NeedsTLS(c *an.Ctx, rule string) {
	decide(c, rule, "cmd.(serverProto).needsTLS", an.DecideCfg{
		Dom: an.Domain{"p0": an.Strs("dns", "dnscrypt", "https", "quic", "tls", "other")},
		Expect: func(f an.Features, o an.AOutcome) string {
			p := f.S("p0")
			want := p == "https" || p == "quic" || p == "tls"
			if len(o.Ret) != 1 || o.RetString() != fmt.Sprint(want) {
				return fmt.Sprintf("%v for protocol %q (DoH, DoQ and DoT servers need certificates; the others must not have a tls section); got %s", want, p, o.RetString())
			}
			return ""
		},
	})
}

// c01JSONAllSections: the JSON encoding of a DoH response carries what the wire
// encoding carries: DNSMsgToJSONMsg reads the answer, the authority and the
// additional section of the message (the format it follows, Google's, has a
// field for each).
func c01JSONAllSections(c *an.Ctx, rule string) {
	k := "dnsserver.DNSMsgToJSONMsg"
	fn := c.Fn(k)
	key := k + " converts every section of the response"
	if fn == nil {
		c.Und(rule, key, token.NoPos, "anchor not found")
		return
	}
	c.Analysed(k)
	read := map[string]bool{}
	an.Instrs(fn, func(in ssa.Instruction) {
		v, ok := in.(ssa.Value)
		if !ok {
			return
		}
		if typ, f, _, ok := an.FieldOf(v); ok && strings.HasSuffix(typ, "dns.Msg") {
			read[f] = true
		}
	})
	var missing []string
	for _, f := range []string{"Question", "Answer", "Ns", "Extra"} {
		if !read[f] {
			missing = append(missing, f)
		}
	}
	c.Check(len(missing) == 0, rule, key, fn.Pos(), "question, answer, authority and additional sections are all read",
		"the section(s) "+strings.Join(missing, ", ")+" of the response are never read: over the JSON API a client does not get the records the pipeline produced there (the SOA of a negative or blocked answer, a referral), which every other encoding delivers")
}
