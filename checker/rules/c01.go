package rules

import (
	"fmt"
	"go/token"
	"go/types"
	"sort"
	"strings"

	"adgverif/an"

	"golang.org/x/tools/go/ssa"
)

func init() {
	register(&Property{ID: "C01", Technique: "decision-tree extraction (abstract interpretation) of the accept gate and the serve/glue functions; at-most-one-write path counting with interprocedural may-write summaries; defer-recover dominance",
		Run: runC01, Explain: an.Explanation{
			Text: "R1: the decision tree of ServerBase.acceptMsg equals the documented table (response -> ignore; opcode " +
				"other than QUERY/NOTIFY -> NOTIMP; question count != 1, more than one answer, authority or OPT record -> FORMERR; " +
				"else accept, in that priority). R2: serveDNSMsgInternal calls the handler only on the accept edge with this " +
				"request and writer, answers FORMERR / NOTIMP built from this request on the reject edges, writes nothing on " +
				"the ignore edge, and answers SERVFAIL built from this request when the handler fails. R3: in every function " +
				"that receives a dnsserver.ResponseWriter, on every control-flow path at most one write event happens on that " +
				"writer (a WriteMsg call, or handing the writer to a callee that may write, computed with interprocedural " +
				"summaries and class-hierarchy resolution of interface calls); a write after a delegating call is allowed only " +
				"on that call's error edge. R4: the DoQ stream glue writes exactly one message per stream on non-error paths, " +
				"taken from this invocation's recorder or a SERVFAIL built from this request, normalised before packing. " +
				"R5: every per-request entry point in dnsserver has a deferred handlePanicAndRecover that dominates the call " +
				"into the serve functions.",
			NotCovered: "equality of payloads across transports, framing arithmetic, message contents; the DNSCrypt goroutines " +
				"belong to the dnscrypt library.",
			Rules: map[string]string{"C01-R39": "the JSON encoding of a DoH response is built from the question, answer, authority and additional sections of the message: a client of the JSON API gets the same records as one of the wire encodings (the format followed, Google's, has an Authority field)", "C01-R38": "a DoH POST body is read entirely, or through a limiter of at least dns.MaxMsgSize bytes: a well-formed query is not cut to a smaller size (and then refused) on this encoding only", "C01-R37": "the stream writer truncates again after the keep-alive option was added (shared with C08-R22): a response that the option pushes over 65535 bytes is sent truncated, not replaced by a SERVFAIL for a packing error", "C01-R36": "the plain-DNS listener reads UDP datagrams into buffers that hold every well-formed query (dns.MaxMsgSize): a longer datagram is cut by the read, fails to unpack and is dropped without a response (known finding F65: production reads into 512 bytes)", "C01-R35": "the SERVFAIL for a failed handler is written under a context detached from the request's cancellation (the handler's error is typically the expiry of that very context, and the UDP / TCP / DoT writers turn its deadline into the write deadline): a plain-DNS or DoT client gets the same SERVFAIL a DoH, DoQ or DNSCrypt client gets", "C01-R34": "a debug (CHAOS-class) query is resolved as class IN by rewriting the server's request message in place; the handler closure of mainmw defers a function that stores the question class back, so the SERVFAIL the server builds from that message when the pipeline fails carries the client's own question", "C01-R33": "packWithPrefix returns the bytes that PackBuffer returned behind the prefix (shared with C06-R15): a TCP / DoT / DoQ client is not sent the untouched pooled buffer with a correct length in front of it", "C01-R32": "ecscache writeUpstreamResponse stores the cache clone before the requesting client's ECS option is put on the response (shared with C04-R5): no later client is answered with another client's subnet or with an OPT record it did not ask for", "C01-R31": "the cloner copies address records field by field into objects of its own pools (no whole-struct copy that shares the address bytes with the cached original; shared with C07-R5); R32: the ECS cache stores its clone before the client's own ECS data is put on the response (shared with C04-R5)", "C01-R29": "a stream connection is closed only after the wait for its in-flight queries: in serveTCPConn the close runs in the deferred function that waits, after the wait, or in a function deferred earlier (run later); never in the body or in a function deferred later", "C01-R30": "isNonCriticalNetError is true for a deadline error and for every net.Error that reports a timeout (the context.DeadlineExceeded of the DoQ accept poll is one): the accept and read loops go on after a poll that found nothing", "C01-R27": "both cache keys depend on the question's name, type and class (shared with C04-R2)", "C01-R28": "forward.Handler.ServeDNS returns the exchange error whenever there is one, also when a (mismatching) reply came with it (table shared with C17-R1)", "C01-R26": "request-path code does not write into the objects shared by all requests of a server group or profile (DDR record templates; shared with C07-R6)", "C01-R25": "bindtodevice writer: the request's deadline is set on the socket before the write", "C01-R24": "the response code the pipeline produced survives SetReply (Android metric path, cached results)", "C01-R23": "a handler that has written a response returns nil or that write's own error only (the server turns every other handler error into a second, SERVFAIL response)", "C01-RC": "class rules (error chains, shadowed results, character classes, crossed arguments, pool constructors, array pools, loop completeness, loop-carried buffers, replacing setters, complete clones, Grow arithmetic, pooled-buffer escape, sorted searches, fresh decode targets, per-iteration objects, whole-message copies, codec guards) over the packages this property rests on", "C01-R22": "slices.Grow amounts are computed from len(s), never from cap(s) (getTCPBuffer and every other growth site)", "C01-R20": "every Unpack is bounded by the bytes read for this message (shared with C06-R1); pooled RR parts are fully re-initialised by the cloner (shared with C07-R1)", "C01-R18": "the bytes of a received datagram stay the session's own until its response was written (buffer-lifetime rules shared with C06-R2)", "C01-R19": "Android metric-domain path: the pipeline serves a clone under the shared name; the response is made a reply to the client's own message (SetReply, replaceResp) before it is written, with or without answers",
				"C01-R1": "acceptMsg decision table", "C01-R2": "serveDNS (undecodable input dropped) and serveDNSMsgInternal gate/effect tables",
				"C01-R3": "at most one write event per ResponseWriter parameter on every path",
				"C01-R4": "DoQ and DoH glue: one answer per request, from this request's recorder (SERVFAIL / HTTP 500 when nothing was written, HTTP 400 for undecodable requests)", "C01-R5": "defer handlePanicAndRecover dominates serving",
				"C01-R6": "a request context handed to a worker closure is cancelled only by the worker",
				"C01-R7": "responses rebuilt from stored messages are initialised from this request (SetReply/SetRcode)",
				"C01-R8": "response caches store copies and hand out copies", "C01-R9": "the worker pool cannot refuse work (non-blocking implies unbounded)",
			},
		}})
}

const rwType = "dnsserver.ResponseWriter"

// c01MayWrite computes whether calling fn may write through its parameter #pi
// (a dnsserver.ResponseWriter).
type c01Summ struct {
	c    *an.Ctx
	memo map[string]int // 0 unknown/in progress, 1 no, 2 yes
}

func (s *c01Summ) mayWrite(fn *ssa.Function, pi int) bool {
	if fn == nil || fn.Blocks == nil {
		return false
	}
	k := fmt.Sprintf("%s#%d", an.FnKey(fn), pi)
	switch s.memo[k] {
	case 1:
		return false
	case 2:
		return true
	case 3:
		return false // in progress: assume no (least fixpoint)
	}
	s.memo[k] = 3
	res := false
	if pi < len(fn.Params) {
		evs := s.events(fn, fn.Params[pi])
		res = len(evs) > 0
	}
	if res {
		s.memo[k] = 2
	} else {
		s.memo[k] = 1
	}
	return res
}

// aliases returns the values in fn that denote the writer held by root (or a
// wrapper around it).
func (s *c01Summ) aliases(fn *ssa.Function, root ssa.Value) map[ssa.Value]bool {
	al := map[ssa.Value]bool{root: true}
	for changed := true; changed; {
		changed = false
		an.Instrs(fn, func(in ssa.Instruction) {
			v, ok := in.(ssa.Value)
			if !ok || al[v] {
				return
			}
			switch x := in.(type) {
			case *ssa.Phi:
				for _, e := range x.Edges {
					if al[e] {
						al[v] = true
						changed = true
						return
					}
				}
			case *ssa.MakeInterface:
				if al[x.X] {
					al[v], changed = true, true
				}
			case *ssa.ChangeInterface:
				if al[x.X] {
					al[v], changed = true, true
				}
			case *ssa.ChangeType:
				if al[x.X] {
					al[v], changed = true, true
				}
			case *ssa.TypeAssert:
				if al[x.X] {
					al[v], changed = true, true
				}
			case *ssa.Call:
				// wrapper constructors: NewRecorderResponseWriter(rw) and the like
				name := an.Short(an.CalleeName(x))
				if name == "dnsserver.NewRecorderResponseWriter" {
					for _, a := range x.Call.Args {
						if al[a] {
							al[v], changed = true, true
						}
					}
				}
			}
		})
	}
	return al
}

// events returns the write events on root in fn.
func (s *c01Summ) events(fn *ssa.Function, root ssa.Value) map[ssa.Instruction]bool {
	al := s.aliases(fn, root)
	evs := map[ssa.Instruction]bool{}
	for _, call := range an.Calls(fn) {
		cc := call.Common()
		// direct write
		if cc.IsInvoke() && cc.Method.Name() == "WriteMsg" && al[cc.Value] {
			evs[call] = true
			continue
		}
		if f := an.StaticCallee(call); f != nil && f.Name() == "WriteMsg" && len(cc.Args) > 0 && al[cc.Args[0]] {
			evs[call] = true
			continue
		}
		// delegation
		for i, a := range cc.Args {
			if !al[a] {
				continue
			}
			pi := i
			if cc.IsInvoke() {
				pi = i + 1
				if cc.Method.Name() == "ServeDNS" {
					evs[call] = true
					break
				}
				for _, impl := range s.c.Implementations(call) {
					if s.mayWrite(impl, pi) {
						evs[call] = true
					}
				}
				continue
			}
			if f := an.StaticCallee(call); f != nil {
				if f.Blocks == nil || !s.c.InRepo(f) {
					continue
				}
				if s.mayWrite(f, pi) {
					evs[call] = true
				}
				continue
			}
			// call through a function value: a handler-shaped value may write
			if sig, ok := cc.Value.Type().Underlying().(*types.Signature); ok && sig.Params().Len() == 3 {
				evs[call] = true
			}
		}
		// closures capturing the writer and being invoked/submitted
		if mc, ok := cc.Value.(*ssa.MakeClosure); ok {
			if f, ok := mc.Fn.(*ssa.Function); ok {
				for bi, b := range mc.Bindings {
					if al[b] && bi < len(f.FreeVars) {
						if len(s.events(f, f.FreeVars[bi])) > 0 {
							evs[call] = true
						}
					}
				}
			}
		}
	}
	return evs
}

// noWriteOnEdge reports whether conditional edge e tests a boolean result of
// the delegating call and is taken only for result values with which the
// callee never returns after a write event on the delegated writer.
func (s *c01Summ) noWriteOnEdge(e an.CondEdge, call *ssa.Call) bool {
	callee := an.StaticCallee(call)
	if callee == nil || callee.Blocks == nil || !s.c.InRepo(callee) {
		return false
	}
	cond := e.If.Cond
	branch := e.Branch
	if u, ok := cond.(*ssa.UnOp); ok && u.Op == token.NOT {
		cond = u.X
		branch = !branch
	}
	ex, ok := cond.(*ssa.Extract)
	if !ok || ex.Tuple != ssa.Value(call) {
		return false
	}
	if b, ok := ex.Type().Underlying().(*types.Basic); !ok || b.Kind() != types.Bool {
		return false
	}
	// which writer parameter(s) of the callee receive our writer? all of them
	// that are delegated: collect the callee's events over every writer param
	evs := map[ssa.Instruction]bool{}
	for _, pa := range callee.Params {
		if an.TypeName(pa.Type()) == rwType {
			for ev := range s.events(callee, pa) {
				evs[ev] = true
			}
		}
	}
	for _, r := range an.Returns(callee) {
		if ex.Index >= len(r.Results) {
			return false
		}
		canBe := true
		if k, isConst := r.Results[ex.Index].(*ssa.Const); isConst && k.Value != nil {
			canBe = (k.Value.String() == "true") == branch
		}
		if !canBe {
			continue
		}
		for ev := range evs {
			if an.CanReach(ev, r) {
				return false
			}
		}
	}
	return true
}

func runC01(c *an.Ctx) {
	c.Floor("C01-R39", 1)
	c01JSONAllSections(c, "C01-R39")
	c.Floor("C01-R38", 1)
	c01PostBodyWhole(c, "C01-R38")
	c.Floor("C01-R37", 1)
	c.Borrow("C01-R37", runC08, func(o an.Obligation) bool { return o.Rule == "C08-R22" })
	c.Floor("C01-R36", 1)
	c01UDPReadBuffer(c, "C01-R36")
	c.Floor("C01-R35", 1)
	c01ErrorResponseContext(c, "C01-R35")
	c.Floor("C01-R34", 1)
	c01DebugClassRestored(c, "C01-R34")
	// ---- R33: the prefixed message is the packed one (shared with C06-R15)
	c.Floor("C01-R33", 1)
	c06PrefixedIsPacked(c, "C01-R33")
	// ---- R31: cloned answers own their bytes (shared with C07-R5); R32: ECS store order (shared with C04-R5)
	c.Floor("C01-R31", 1)
	c.Borrow("C01-R31", runC07, func(o an.Obligation) bool { return o.Rule == "C07-R5" && strings.Contains(o.Key, "cloneAnswerRR") })
	c.Floor("C01-R32", 1)
	ecsStoreOrder(c, "C01-R32")
	// ---- R29: close after wait; R30: what keeps the accept / read loops going
	c.Floor("C01-R29", 1)
	c01CloseAfterWait(c, "C01-R29")
	c.Floor("C01-R30", 1)
	decide(c, "C01-R30", "dnsserver.isNonCriticalNetError", an.DecideCfg{
		Dom: an.Domain{"isdeadline": an.Bools, "asnet": an.Bools, "timeout": an.Bools},
		OnCall: func(it *an.Interp, name string, args []an.AV) (an.AV, bool) {
			switch {
			case strings.HasSuffix(name, "errors.Is"):
				return it.Feature("isdeadline"), true
			case strings.HasSuffix(name, "errors.As"):
				return it.Feature("asnet"), true
			case strings.HasSuffix(name, ".Timeout"):
				return it.Feature("timeout"), true
			}
			return an.AV{}, false
		},
		Expect: func(f an.Features, o an.AOutcome) string {
			want := f.B("isdeadline") || f.B("asnet") && f.B("timeout")
			if o.RetString() == fmt.Sprint(want) {
				return ""
			}
			return fmt.Sprintf("%v (true for a deadline error and for any net.Error with Timeout() true)", want)
		},
	})
	classSweep(c, "C01")
	// ---- R27: an answer served from a cache belongs to the question's name, type and class (key rules shared with
	// C04-R2); R28: an upstream reply that failed validation is reported as an error, never written (table of the
	// forwarding handler, shared with C17-R1)
	c.Floor("C01-R27", 2)
	c.Borrow("C01-R27", runC04, func(o an.Obligation) bool { return o.Rule == "C04-R2" })
	c.Floor("C01-R28", 1)
	c.Borrow("C01-R28", runC17, func(o an.Obligation) bool { return o.Rule == "C17-R1" })
	// ---- R26: the request path never writes into the record templates and settings shared by a server group or a
	// profile (a DDR answer built in place is rewritten by a concurrent query before it is packed; shared with C07-R6)
	c.Inf("C01-R26", "shared-configuration sweep", token.NoPos, "%d stores into shared server-group / profile data found on the request path (each is reported)",
		sharedConfigImmutable(c, "C01-R26", "dnssvc", "ecscache.", "dnsmsg."))
	dnssvcWiring(c, "C01-R17", nil, 40)
	// ---- C01-R17: builder wiring of the components this property rests on
	c.Floor("C01-R17", 6)
	builderWiring(c, "C01-R17", map[string][]string{
		"initDNS|dnssvc.HandlersConfig": {"Handler", "Messages", "Cloner"},
		"initDNS|dnssvc.Config":         {"Handlers", "HandleTimeout", "Cloner"},
	})
	c01JSONRequest(c)
	// ---- R15: the recycled filtering context never carries the previous request's rewritten question
	c.Floor("C01-R15", 5)
	sharedPoolInitSweep(c, "C01-R15", "dnssvc/internal/mainmw.filteringContext", "filter/internal.Request", "filter/internal.Response", "ecscache.cacheRequest")
	c01Writers(c)
	c01AndroidMetric(c)
	c01InitialMW(c)
	if c.Config.GOOS == "" || c.Config.GOOS == "linux" {
		c.Floor("C01-R25", 1) // the bind-to-device listener exists on Linux only
	}
	c01WriteDeadline(c)
	if n := sharedSetReplyKeepsRcode(c, "C01-R24"); n < 3 {
		c.Und("C01-R24", "SetReply on existing responses", token.NoPos, "only %d SetReply calls found", n)
	}
	c.Floor("C01-R23", 5)
	c01ErrorAfterWrite(c)
	// ---- R22: receive buffers are grown to the announced length (slices.Grow counts from len, not cap)
	if n := sharedGrowArith(c, "C01-R22", "dnsserver", "bindtodevice.", "dnsmsg."); n < 1 {
		c.Und("C01-R22", "buffer growth", token.NoPos, "no slices.Grow call found (anchor: getTCPBuffer)")
	}
	// ---- R20: a query is decoded from exactly the bytes that were received for it (shared with C06-R1); a cloned
	// response record is fully re-initialised (shared with C07-R1 / C04-R10)
	c.Floor("C01-R20", 10)
	c.Borrow("C01-R20", runC06, func(o an.Obligation) bool { return o.Rule == "C06-R1" })
	c.Borrow("C01-R20", runC17, func(o an.Obligation) bool {
		return o.Rule == "C17-R4" && (strings.Contains(o.Key, ").Exchange") || strings.Contains(o.Key, "readValidMsg") || strings.Contains(o.Key, "validatePlainResponse"))
	})
	c04ClonerPools(c, "C01-R20")
	// ---- R18: the bytes of a received datagram stay the session's own until the response was written (shared with C06-R2)
	c.Floor("C01-R18", 2)
	c06BufferLifetime(c, "C01-R18")
	// ---- R13: every wire writer normalises, packs and writes the response it was given, once
	c.Floor("C01-R13", 3)
	c.Borrow("C01-R13", runC08, func(o an.Obligation) bool { return o.Rule == "C08-R1" })
	c.Floor("C01-R12", 2)
	mainmwFilterSteps(c, "C01-R12")
	c01Unvalidated(c)
	c.Floor("C01-R10", 1)
	mainPipeline(c, "C01-R10")
	c.Floor("C01-R1", 1)
	c.Floor("C01-R2", 2)
	c.Floor("C01-R3", 20)
	c.Floor("C01-R4", 2)
	c.Floor("C01-R5", 6)

	dnsConst := func(name string) int64 {
		v, ok := c.ConstInt("github.com/miekg/dns", name)
		if !ok {
			c.Und("C01-R1", "dns."+name, token.NoPos, "constant not found")
		}
		return v
	}
	accept, reject, ignore, notimp := dnsConst("MsgAccept"), dnsConst("MsgReject"), dnsConst("MsgIgnore"), dnsConst("MsgRejectNotImplemented")
	opQuery, opNotify := dnsConst("OpcodeQuery"), dnsConst("OpcodeNotify")
	rcFormErr, rcNotImp, rcServFail := dnsConst("RcodeFormatError"), dnsConst("RcodeNotImplemented"), dnsConst("RcodeServerFailure")

	// ---- R1
	decide(c, "C01-R1", "dnsserver.(*ServerBase).acceptMsg", an.DecideCfg{
		Dom: an.Domain{
			"p1.MsgHdr.Response": an.Bools,
			"p1.MsgHdr.Opcode":   an.Ints(opQuery, opNotify, 1, 2, 5, 6),
			"len(p1.Question)":   an.Ints(0, 1, 2),
			"len(p1.Answer)":     an.Ints(0, 1, 2),
			"len(p1.Ns)":         an.Ints(0, 1, 2),
			// more than one OPT record (RFC 6891, 6.1.1: FORMERR); the helper that counts them is decided on its own (C05-R14)
			"dnsserver.hasMultipleOPT(p1)": an.Bools,
			// an OPT record in the answer or authority section: the handlers look for the client's options in the additional section only
			"dnsserver.hasMisplacedOPT(p1)": an.Bools,
		},
		Expect: func(f an.Features, o an.AOutcome) string {
			var want int64
			switch {
			case f.B("p1.MsgHdr.Response"):
				want = ignore
			case f.I("p1.MsgHdr.Opcode") != opQuery && f.I("p1.MsgHdr.Opcode") != opNotify:
				want = notimp
			case f.I("len(p1.Question)") != 1, f.I("len(p1.Answer)") > 1, f.I("len(p1.Ns)") > 1, f.B("dnsserver.hasMultipleOPT(p1)"), f.B("dnsserver.hasMisplacedOPT(p1)"):
				want = reject
			default:
				want = accept
			}
			if o.Exit == "return" && o.RetString() == fmt.Sprint(want) {
				return ""
			}
			return fmt.Sprintf("action %d (0 accept, 1 reject/FORMERR, 2 ignore, 3 NOTIMP)", want)
		},
	})

	// ---- R2
	decide(c, "C01-R2", "dnsserver.(*ServerBase).serveDNSMsgInternal", an.DecideCfg{
		Dom: an.Domain{"action": an.Ints(accept, reject, ignore, notimp, 7), "herr": an.Bools, "neterr": an.Bools, "werr": an.Bools},
		OnCall: func(it *an.Interp, name string, args []an.AV) (an.AV, bool) {
			switch {
			case strings.HasSuffix(name, ").acceptMsg"):
				if len(args) == 2 && args[1].String() == "p2" {
					return it.Feature("action"), true
				}
				return an.Sym("acceptMsg on another message"), true
			case name == "p0.handler.ServeDNS":
				if it.Feature("herr").IsTrue() {
					return an.NonNil("handlerErr"), true
				}
				return an.Nil(), true
			case strings.HasSuffix(name, "dnsserver.genErrorResponse"):
				return an.NonNil("errResp(" + args[0].String() + "," + args[1].String() + ")"), true
			case strings.HasSuffix(name, "isNonCriticalNetError"):
				return it.Feature("neterr"), true
			case strings.HasSuffix(name, ".WriteMsg"):
				if it.Feature("werr").IsTrue() {
					return an.NonNil("writeErr"), true
				}
				return an.Nil(), true
			}
			return an.AV{}, false
		},
		Expect: func(f an.Features, o an.AOutcome) string {
			var writes, serves []string
			for _, e := range o.Effects {
				if e.Kind != "call" {
					continue
				}
				if strings.HasSuffix(e.Name, ".WriteMsg") {
					writes = append(writes, strings.Join(e.Args, ","))
				}
				if e.Name == "p0.handler.ServeDNS" {
					serves = append(serves, strings.Join(e.Args, ","))
				}
			}
			wantW := func(rc int64) string { return fmt.Sprintf("p3,p1,p2,nonnil:errResp(p2,%d)", rc) }
			check := func(ws []string, ss int) string {
				if len(serves) != ss {
					return fmt.Sprintf("%d handler calls", ss)
				}
				if ss == 1 && serves[0] != "p1,nonnil:p3,p2" {
					return "the handler to be called with this context, this writer and this request"
				}
				if len(writes) != len(ws) {
					return fmt.Sprintf("%d writes %v", len(ws), ws)
				}
				for i := range ws {
					// the SERVFAIL of a failed handler is written under this request's context detached from its
					// cancellation (C01-R35 decides that it is detached; here it only has to be this request's)
					if writes[i] != ws[i] && strings.Replace(writes[i], "context.WithoutCancel(p1)", "p1", 1) != ws[i] {
						return "write of " + ws[i]
					}
				}
				return ""
			}
			switch f.I("action") {
			case reject:
				return check([]string{wantW(rcFormErr)}, 0)
			case notimp:
				return check([]string{wantW(rcNotImp)}, 0)
			case ignore:
				return check(nil, 0)
			default: // accept and any unknown action fall through to the handler
				if f.B("herr") {
					return check([]string{wantW(rcServFail)}, 1)
				}
				return check(nil, 1)
			}
		},
	})

	// ---- R3: at most one write event per ResponseWriter parameter
	summ := &c01Summ{c: c, memo: map[string]int{}}
	for _, fn := range c.AllFns {
		if c.IsTestFile(fn.Pos()) {
			continue
		}
		pk := an.FnPkg(fn)
		if pk != nil && (strings.HasSuffix(pk.Path(), "test") || strings.Contains(pk.Path(), "/dnsservertest")) {
			continue
		}
		for pi, pa := range fn.Params {
			if an.TypeName(pa.Type()) != rwType {
				if an.TypeName(pa.Type()) != "dnsserver.RecorderResponseWriter" {
					continue
				}
			}
			evs := summ.events(fn, pa)
			key := fmt.Sprintf("%s writer %s", an.FnKey(fn), pa.Name())
			_ = pi
			c.Analysed(an.FnKey(fn))
			if len(evs) == 0 {
				continue
			}
			w := an.PathEvents(fn, evs, 1, func(e an.CondEdge, counted []ssa.Instruction) (drop []ssa.Instruction) {
				for _, ev := range counted {
					if call, ok := ev.(*ssa.Call); ok {
						// only delegations can be retracted, never direct writes
						if call.Common().IsInvoke() && call.Common().Method.Name() == "WriteMsg" {
							continue
						}
						if an.ErrNonNilEdgeOf(e, call) || summ.noWriteOnEdge(e, call) {
							drop = append(drop, ev)
						}
					}
				}
				return drop
			})
			if w != nil {
				var ps []string
				for _, in := range w {
					ps = append(ps, c.Pos(in.Pos()))
				}
				c.Bad("C01-R3", key, fn.Pos(), "a path performs more than one write event on the same response writer: %s", strings.Join(ps, " then "))
			} else {
				c.Ok("C01-R3", key, fn.Pos(), "%d write events, at most one on any path", len(evs))
			}
		}
	}

	// ---- R4: DoQ glue
	decide(c, "C01-R4", "dnsserver.(*ServerQUIC).serveQUICStream", an.DecideCfg{
		Dom: an.Domain{"readerr": an.Bools, "valid": an.Bools, "written": an.Bools, "packerr": an.Bools},
		OnCall: func(it *an.Interp, name string, args []an.AV) (an.AV, bool) {
			switch {
			case strings.HasSuffix(name, ").readQUICMsg"):
				if it.Feature("readerr").IsTrue() {
					return an.AV{Kind: an.KTuple, Tup: []an.AV{an.Nil(), an.NonNil("readErr")}}, true
				}
				return an.AV{Kind: an.KTuple, Tup: []an.AV{an.NonNil("msg"), an.Nil()}}, true
			case strings.HasSuffix(name, "validQUICMsg"):
				return it.Feature("valid"), true
			case strings.HasSuffix(name, "NewNonWriterResponseWriter"):
				return an.NonNil("nrw"), true
			case strings.HasSuffix(name, ").serveDNSMsg"):
				if len(args) == 4 && args[2].String() == "nonnil:msg" && args[3].String() == "nonnil:nrw" {
					return it.Feature("written"), true
				}
				return an.Sym("serveDNSMsg with other arguments"), true
			case strings.HasSuffix(name, "genErrorResponse"):
				return an.NonNil("errResp(" + args[0].String() + "," + args[1].String() + ")"), true
			case strings.HasSuffix(name, "NonWriterResponseWriter).Msg"):
				return an.NonNil("recorded(" + args[0].String() + ")"), true
			case strings.HasSuffix(name, "packWithPrefix"):
				if it.Feature("packerr").IsTrue() {
					return an.AV{Kind: an.KTuple, Tup: []an.AV{an.Nil(), an.NonNil("packErr")}}, true
				}
				return an.AV{Kind: an.KTuple, Tup: []an.AV{an.NonNil("packed(" + args[0].String() + ")"), an.Nil()}}, true
			case strings.HasSuffix(name, ".Get"):
				return an.NonNil("bufptr"), true
			}
			return an.AV{}, false
		},
		Expect: func(f an.Features, o an.AOutcome) string {
			var wr []string
			normalized := ""
			for _, e := range o.Effects {
				if e.Kind == "call" && e.Name == "p2.Write" {
					wr = append(wr, strings.Join(e.Args, ","))
				}
				if e.Kind == "call" && strings.HasSuffix(e.Name, "normalizeTCP") && len(e.Args) == 3 && len(wr) == 0 {
					normalized = e.Args[2]
				}
			}
			if f.B("readerr") || !f.B("valid") || f.B("packerr") {
				if len(wr) == 0 {
					return ""
				}
				return "no stream write on an error path"
			}
			resp := "nonnil:recorded(nonnil:nrw)"
			if !f.B("written") {
				resp = fmt.Sprintf("nonnil:errResp(nonnil:msg,%d)", rcServFail)
			}
			if len(wr) == 1 && wr[0] == "nonnil:packed("+resp+")" && normalized == resp {
				return ""
			}
			return "exactly one stream write of the normalised, packed " + resp + "; got writes " + fmt.Sprint(wr) + " normalised " + normalized
		},
	})

	// ---- R2b: undecodable bytes are dropped, decodable ones served with the same writer
	decide(c, "C01-R2", "dnsserver.(*ServerBase).serveDNS", an.DecideCfg{
		Dom: an.Domain{"unpackerr": an.Bools},
		OnCall: func(it *an.Interp, name string, args []an.AV) (an.AV, bool) {
			switch {
			case name == "(*github.com/miekg/dns.Msg).Unpack":
				if args[1].String() != "p2" {
					return an.Sym("decoding other bytes"), true
				}
				if it.Feature("unpackerr").IsTrue() {
					return an.NonNil("unpackErr"), true
				}
				return an.Nil(), true
			case strings.HasSuffix(name, ").serveDNSMsg"):
				return an.Sym("served(" + args[2].String() + "," + args[3].String() + ")"), true
			}
			return an.AV{}, false
		},
		Expect: func(f an.Features, o an.AOutcome) string {
			served := o.HasCall("(*dnsserver.ServerBase).serveDNSMsg")
			if f.B("unpackerr") {
				if !served && o.RetString() == "false" {
					return ""
				}
				return "undecodable input dropped: nothing served, written=false"
			}
			if served && strings.HasPrefix(o.RetString(), "served(&local#") && strings.HasSuffix(o.RetString(), ",p3)") {
				return ""
			}
			return "the decoded message served with the caller's writer; got " + o.RetString()
		},
	})

	// ---- R4b: DoH glue
	decide(c, "C01-R4", "dnsserver.(*httpHandler).serveDoH", an.DecideCfg{
		Dom: an.Domain{"converr": an.Bools, "written": an.Bools, "writeerr": an.Bools},
		OnCall: func(it *an.Interp, name string, args []an.AV) (an.AV, bool) {
			switch {
			case name == "dnsserver.httpRequestToMsg":
				if it.Feature("converr").IsTrue() {
					return an.AV{Kind: an.KTuple, Tup: []an.AV{an.Nil(), an.NonNil("convErr")}}, true
				}
				return an.AV{Kind: an.KTuple, Tup: []an.AV{an.NonNil("bytes"), an.Nil()}}, true
			case name == "dnsserver.NewNonWriterResponseWriter":
				return an.NonNil("nrw"), true
			case strings.HasSuffix(name, ").serveDNS"):
				if len(args) == 4 && args[2].String() == "nonnil:bytes" && args[3].String() == "nonnil:nrw" {
					return it.Feature("written"), true
				}
				return an.Sym("serveDNS with other arguments"), true
			case strings.HasSuffix(name, "NonWriterResponseWriter).Msg"):
				return an.NonNil("recorded"), true
			case strings.HasSuffix(name, ").writeResponse"):
				if it.Feature("writeerr").IsTrue() {
					return an.NonNil("writeErr"), true
				}
				return an.Nil(), true
			case strings.HasSuffix(name, ").remoteAddr"), name == "dnsserver.addRequestInfo":
				return an.NonNil("x"), true
			}
			return an.AV{}, false
		},
		Expect: func(f an.Features, o an.AOutcome) string {
			var httpErrs, writes []string
			disposed := false
			for _, e := range o.Effects {
				if e.Kind != "call" {
					continue
				}
				switch {
				case e.Name == "net/http.Error":
					httpErrs = append(httpErrs, e.Args[2])
				case strings.HasSuffix(e.Name, ").writeResponse"):
					writes = append(writes, e.Args[2])
				case strings.HasSuffix(e.Name, ".Dispose"):
					disposed = true
				}
			}
			switch {
			case f.B("converr"):
				if len(writes) == 0 && len(httpErrs) == 1 && httpErrs[0] == "400" && !o.HasCall("(*dnsserver.ServerBase).serveDNS") {
					return ""
				}
				return "HTTP 400 and nothing served for an undecodable request"
			case !f.B("written"):
				if len(writes) == 0 && len(httpErrs) == 1 && httpErrs[0] == "500" {
					return ""
				}
				return "HTTP 500 when the pipeline wrote nothing"
			case f.B("writeerr"):
				if len(writes) == 1 && writes[0] == "nonnil:recorded" && len(httpErrs) == 1 && !disposed {
					return ""
				}
				return "HTTP 500 (and no disposal) when writing the response failed"
			}
			if len(writes) == 1 && writes[0] == "nonnil:recorded" && len(httpErrs) == 0 && disposed {
				return ""
			}
			return "exactly one response: the one recorded for this request"
		},
	})

	// ---- R5: recover dominance
	entries := []string{
		"dnsserver.(*ServerDNS).serveUDPPacket", "dnsserver.(*ServerDNS).serveTCPMessage", "dnsserver.(*ServerDNS).serveTCPConn",
		"dnsserver.(*ServerQUIC).serveQUICConnAsync", "dnsserver.(*ServerQUIC).serveQUICStreamAsync", "dnsserver.(*httpHandler).ServeHTTP",
	}
	for _, k := range entries {
		fn := c.Fn(k)
		if fn == nil {
			c.Und("C01-R5", k, token.NoPos, "entry point not found")
			continue
		}
		c.Analysed(k)
		var rec ssa.Instruction
		for _, call := range an.Calls(fn) {
			if _, isDefer := call.(*ssa.Defer); isDefer && an.IsCall(call, "(*dnsserver.ServerBase).handlePanicAndRecover") {
				rec = call
			}
		}
		if rec == nil {
			c.Bad("C01-R5", k, fn.Pos(), "no deferred handlePanicAndRecover: a panic while serving one request takes the listener down")
			continue
		}
		bad := ""
		for _, call := range an.Calls(fn) {
			n := an.Short(an.CalleeName(call))
			if _, isDefer := call.(*ssa.Defer); isDefer {
				continue
			}
			if strings.Contains(n, ").serve") || strings.Contains(n, ".serveDNS") || strings.HasSuffix(n, ").acceptTCPMsg") {
				if !an.Dominates(rec, call) {
					bad = c.Pos(call.Pos())
				}
			}
		}
		if bad != "" {
			c.Bad("C01-R5", k, fn.Pos(), "the call at %s is not dominated by the deferred handlePanicAndRecover", bad)
		} else {
			c.Ok("C01-R5", k, rec.Pos(), "deferred handlePanicAndRecover dominates every serving call")
		}
	}
	c.Except("C01-R5", "dnsserver.(*dnsCryptHandler).ServeDNS", "its goroutines belong to the dnscrypt library")

	// ---- R6: a request context handed to an asynchronous worker is cancelled
	// only by that worker
	c.Floor("C01-R6", 2)
	for _, fn := range c.AllFns {
		if c.IsTestFile(fn.Pos()) || !strings.HasPrefix(an.FnKey(fn), "dnsserver.") {
			continue
		}
		for _, call := range an.CallsTo(fn, "(*dnsserver.ServerBase).requestContext") {
			cv, ok := call.(*ssa.Call)
			if !ok {
				continue
			}
			c.Analysed(an.FnKey(fn))
			key := an.FnKey(fn) + " requestContext"
			var ctxV, cancelV ssa.Value
			for _, r := range *cv.Referrers() {
				if ex, ok := r.(*ssa.Extract); ok {
					if ex.Index == 0 {
						ctxV = ex
					} else {
						cancelV = ex
					}
				}
			}
			if ctxV == nil || cancelV == nil {
				c.Und("C01-R6", key, call.Pos(), "results of requestContext are not both used")
				continue
			}
			mc := c01EscapingClosureUsing(fn, ctxV)
			if mc == nil {
				c.Ok("C01-R6", key, call.Pos(), "the request context stays in this function")
				continue
			}
			// cancel invoked by the creator itself?
			bad := ""
			cancelAliases := map[ssa.Value]bool{cancelV: true}
			for _, r := range *cancelV.Referrers() {
				if st, ok := r.(*ssa.Store); ok && st.Val == cancelV {
					// stored into a cell: loads of the cell in this function are aliases
					for _, r2 := range *st.Addr.Referrers() {
						if ld, ok := r2.(*ssa.UnOp); ok && ld.Op == token.MUL {
							cancelAliases[ld] = true
						}
					}
				}
			}
			for _, cc := range an.Calls(fn) {
				if !cancelAliases[cc.Common().Value] {
					continue
				}
				if _, isDefer := cc.(*ssa.Defer); isDefer {
					bad = "deferred at " + c.Pos(cc.Pos())
				} else if an.CanReach(mc, cc) {
					bad = "called at " + c.Pos(cc.Pos())
				}
			}
			if bad != "" {
				c.Bad("C01-R6", key, call.Pos(), "the request context is handed to an asynchronous worker but its cancel function is %s in the creating function: the handler runs with a cancelled context", bad)
			} else {
				c.Ok("C01-R6", key, call.Pos(), "the cancel function of the handed-over request context is only invoked by the worker")
			}
		}
	}

	// ---- R7: a response rebuilt from a stored message takes its ID and question from this request
	c.Floor("C01-R7", 3)
	sharedReplyInit(c, "C01-R7")

	// ---- R8: the response caches store copies, so what a client receives is what the pipeline produced for its question
	c.Floor("C01-R8", 4)
	c07Caches(c, "C01-R8")

	// ---- R9: submitting a query to the worker pool cannot fail under load: a non-blocking pool must be unbounded,
	// because the accept loops treat a submit error as fatal for the listener
	c.Floor("C01-R9", 1)
	for _, fn := range c.FnsMatching("dnsserver.") {
		if c.IsTestFile(fn.Pos()) {
			continue
		}
		for _, call := range an.Calls(fn) {
			if !strings.HasSuffix(an.CalleeName(call), "ants/v2.NewPool") {
				continue
			}
			c.Analysed(an.FnKey(fn))
			size, isConst := an.ConstInt(call.Common().Args[0])
			// is the pool non-blocking?
			nonblocking := false
			an.Instrs(fn, func(in ssa.Instruction) {
				if st, ok := in.(*ssa.Store); ok {
					if _, f, _, ok := an.FieldOf(st.Addr); ok && f == "Nonblocking" {
						if k, isK := st.Val.(*ssa.Const); isK && k.Value != nil && k.Value.String() == "true" {
							nonblocking = true
						}
					}
				}
			})
			key := an.FnKey(fn) + " worker pool"
			switch {
			case !nonblocking:
				c.Ok("C01-R9", key, call.Pos(), "blocking pool: Submit waits instead of failing")
			case isConst && size <= 0:
				c.Ok("C01-R9", key, call.Pos(), "non-blocking and unbounded: Submit cannot fail with an overload error")
			default:
				c.Bad("C01-R9", key, call.Pos(), "the worker pool is non-blocking and bounded: under a burst Submit fails, the accept loop returns that error and the listener goes down")
			}
		}
	}
}

// c01EscapingClosureUsing returns a closure creation in fn that captures v (or
// a cell that v is stored into) and is passed to another function or started
// with go.
func c01EscapingClosureUsing(fn *ssa.Function, v ssa.Value) *ssa.MakeClosure {
	cells := map[ssa.Value]bool{v: true}
	// values derived from v by calls (ContextWithRequestInfo(ctx, …)) and cells they are stored in
	for changed := true; changed; {
		changed = false
		an.Instrs(fn, func(in ssa.Instruction) {
			switch x := in.(type) {
			case *ssa.Store:
				if cells[x.Val] && !cells[x.Addr] {
					cells[x.Addr] = true
					changed = true
				}
			case *ssa.Call:
				if cells[ssa.Value(x)] {
					return
				}
				if t := x.Type(); an.TypeName(t) == "context.Context" {
					for _, a := range x.Call.Args {
						if cells[a] {
							cells[x] = true
							changed = true
						}
					}
				}
			case *ssa.UnOp:
				if x.Op == token.MUL && cells[x.X] && !cells[ssa.Value(x)] {
					if _, isAlloc := x.X.(*ssa.Alloc); isAlloc {
						cells[x] = true
						changed = true
					}
				}
			}
		})
	}
	var res *ssa.MakeClosure
	an.Instrs(fn, func(in ssa.Instruction) {
		mc, ok := in.(*ssa.MakeClosure)
		if !ok || res != nil {
			return
		}
		captures := false
		for _, b := range mc.Bindings {
			if cells[b] {
				captures = true
			}
		}
		if !captures {
			return
		}
		for _, r := range *mc.Referrers() {
			switch u := r.(type) {
			case *ssa.Go:
				res = mc
			case *ssa.Call:
				if u.Call.Value != ssa.Value(mc) {
					res = mc
				}
			}
		}
	})
	return res
}

// c01Unvalidated is the rule for the code that sees messages before (or
// regardless of) the accept check: everything the server base reaches without
// going through the handler (metrics listeners, writers, normalisation, error
// responses) may be given a message with no or several questions, so an access
// to Question[k] there must be guarded by a check of the section's length.  A
// panic at such a place is recovered, but the response is lost on the transports
// that write after the call returns.
func c01Unvalidated(c *an.Ctx) {
	c.Floor("C01-R11", 2)
	var roots []*ssa.Function
	for _, k := range []string{"dnsserver.(*ServerBase).serveDNSMsgInternal", "dnsserver.(*ServerBase).serveDNSMsg", "dnsserver.(*ServerBase).serveDNS"} {
		if fn := c.Fn(k); fn != nil {
			roots = append(roots, fn)
		} else {
			c.Und("C01-R11", k, token.NoPos, "anchor not found")
		}
	}
	reach := c.ReachableFrom(roots, func(call ssa.CallInstruction) bool {
		cc := call.Common()
		return cc.IsInvoke() && cc.Method.Name() == "ServeDNS"
	})
	var fns []*ssa.Function
	for fn := range reach {
		fns = append(fns, fn)
	}
	sort.Slice(fns, func(i, j int) bool { return an.FnKey(fns[i]) < an.FnKey(fns[j]) })
	isQuestion := func(v ssa.Value) (string, bool) {
		ap, ok := an.AccessPath(v)
		return ap, ok && strings.HasSuffix(ap, ".Question")
	}
	for _, fn := range fns {
		if c.IsTestFile(fn.Pos()) {
			continue
		}
		if pk := an.FnPkg(fn); pk != nil && strings.HasSuffix(pk.Path(), "test") {
			continue
		}
		k := an.FnKey(fn)
		an.Instrs(fn, func(in ssa.Instruction) {
			ia, ok := in.(*ssa.IndexAddr)
			if !ok {
				return
			}
			if _, isConst := an.ConstInt(ia.Index); !isConst {
				return
			}
			ap, isQ := isQuestion(ia.X)
			if !isQ {
				return
			}
			c.Analysed(k)
			guarded := false
			for _, e := range an.DominatingConds(ia.Block()) {
				b, isBin := e.If.Cond.(*ssa.BinOp)
				if !isBin {
					continue
				}
				for _, side := range []ssa.Value{b.X, b.Y} {
					if call, isCall := side.(*ssa.Call); isCall && an.CalleeName(call) == "builtin.len" && len(call.Call.Args) == 1 {
						if ap2, ok2 := isQuestion(call.Call.Args[0]); ok2 && ap2 == ap {
							guarded = true
						}
					}
				}
			}
			key := fmt.Sprintf("%s reads %s[k]", k, ap)
			if guarded {
				c.Ok("C01-R11", key, ia.Pos(), "guarded by a check of the section's length")
			} else if why := c01ValidatedOnly[k]; why != "" {
				c.Ok("C01-R11", key, ia.Pos(), "exception: %s", why)
			} else {
				c.Bad("C01-R11", key, ia.Pos(), "a question is read without a length check in code that also runs for messages rejected by the accept check (no or several questions): the resulting panic loses the FORMERR on the transports that write after the handler returns")
			}
		})
	}
}

// c01ValidatedOnly lists the functions reached from the server base that are
// only given messages with exactly one question, with the reason.
var c01ValidatedOnly = map[string]string{}

// c01Writers holds the tables of the plain-DNS wire writers: the response given
// to WriteMsg is normalised, packed and written exactly once, and every failure
// is reported to the caller.
func c01Writers(c *an.Ctx) {
	c.Floor("C01-R14", 2)
	for _, w := range []struct{ fn, pack, write, proto string }{
		{"dnsserver.(*udpResponseWriter).WriteMsg", "dns.Msg).PackBuffer", "netext.WriteToSession", "udp"},
		{"dnsserver.(*tcpResponseWriter).WriteMsg", "dnsserver.packWithPrefix", "p0.conn.Write", "tcp"},
	} {
		w := w
		decide(c, "C01-R14", w.fn, an.DecideCfg{
			Dom: an.Domain{"packerr": an.Bools, "writeerr": an.Bools},
			Inline: func(f *ssa.Function) bool {
				k := an.FnKey(f)
				return k == "dnsserver.withWriteDeadline" || strings.HasPrefix(k, w.fn+"$") || strings.HasPrefix(k, "dnsserver.withWriteDeadline$")
			},
			OnCall: func(it *an.Interp, name string, args []an.AV) (an.AV, bool) {
				switch {
				case strings.HasSuffix(name, "dnsserver.MustServerInfoFromContext"):
					return an.NonNil("si"), true
				case strings.HasSuffix(name, "dnsserver.normalize"), strings.HasSuffix(name, "dnsserver.normalizeTCP"), strings.HasSuffix(name, ").addTCPKeepAlive"):
					return an.Nil(), true
				case strings.HasSuffix(name, ".respPool.Get"), strings.Contains(name, "syncutil.Pool") && strings.HasSuffix(name, ".Get"):
					return an.NonNil("bufptr"), true
				case strings.Contains(name, "syncutil.Pool") && strings.HasSuffix(name, ".Put"):
					return an.Nil(), true
				case strings.HasSuffix(name, w.pack):
					if it.Feature("packerr").IsTrue() {
						return an.AV{Kind: an.KTuple, Tup: []an.AV{an.Nil(), an.NonNil("packErr")}}, true
					}
					return an.AV{Kind: an.KTuple, Tup: []an.AV{an.NonNil("packed"), an.Nil()}}, true
				case strings.HasSuffix(name, w.write):
					e := an.Nil()
					if it.Feature("writeerr").IsTrue() {
						e = an.NonNil("writeErr")
					}
					return an.AV{Kind: an.KTuple, Tup: []an.AV{an.Sym("n"), e}}, true
				case name == "context.WithTimeout":
					return an.AV{Kind: an.KTuple, Tup: []an.AV{an.NonNil("tctx"), an.NonNil("cancel")}}, true
				case strings.HasSuffix(name, ".Deadline"):
					return an.AV{Kind: an.KTuple, Tup: []an.AV{an.Sym("dl"), an.CBool(true)}}, true
				case strings.HasSuffix(name, ".SetWriteDeadline"):
					return an.Nil(), true
				case name == "fmt.Errorf":
					return an.NonNil("wrapped"), true
				}
				return an.AV{}, false
			},
			Expect: func(f an.Features, o an.AOutcome) string {
				if o.Exit != "return" || len(o.Ret) != 1 {
					return "an error result"
				}
				var packs, writes []string
				norm, pack := -1, -1
				for i, e := range o.Effects {
					if e.Kind != "call" {
						continue
					}
					switch {
					case strings.HasSuffix(e.Name, "dnsserver.normalize") || strings.HasSuffix(e.Name, "dnsserver.normalizeTCP"):
						norm = i
					case strings.HasSuffix(e.Name, w.pack):
						pack = i
						packs = append(packs, strings.Join(e.Args, ","))
					case strings.HasSuffix(e.Name, w.write):
						writes = append(writes, strings.Join(e.Args, ","))
					}
				}
				if norm < 0 || pack < norm || len(packs) != 1 || !strings.HasPrefix(packs[0], "p3") {
					return "the given response normalised and then packed once; got packs " + strings.Join(packs, " / ")
				}
				if f.B("packerr") {
					if len(writes) == 0 && o.Ret[0].Kind != an.KNil {
						return ""
					}
					return "a packing error reported and nothing written"
				}
				if len(writes) != 1 || !strings.Contains(writes[0], "nonnil:packed") {
					return "the packed bytes written exactly once; got " + strings.Join(writes, " / ")
				}
				if f.B("writeerr") != (o.Ret[0].Kind != an.KNil) {
					return fmt.Sprintf("a write failure reported to the caller (error=%v); got %s", f.B("writeerr"), o.RetString())
				}
				return ""
			},
		})
	}
}

// c01JSONRequest is the table of the JSON API's request construction: the
// question is built from the query parameters as they were sent (the name only
// made fully qualified, so that the response's question equals the request's on
// this transport as on every other), and each malformed parameter is an error.
func c01JSONRequest(c *an.Ctx) {
	c.Floor("C01-R16", 1)
	decide(c, "C01-R16", "dnsserver.httpRequestToMsgJSON", an.DecideCfg{
		Dom: an.Domain{`(name == "")`: an.Bools, "typeerr": an.Bools, "classerr": an.Bools, "cderr": an.Bools, "doerr": an.Bools, "sdeerr": an.Bools},
		OnCall: func(it *an.Interp, name string, args []an.AV) (an.AV, bool) {
			tup := func(v an.AV, k string) an.AV {
				if it.Feature(k).IsTrue() {
					return an.AV{Kind: an.KTuple, Tup: []an.AV{an.CInt(0), an.NonNil("paramErr")}}
				}
				return an.AV{Kind: an.KTuple, Tup: []an.AV{v, an.Nil()}}
			}
			switch {
			case name == "(*net/url.URL).Query":
				return an.NonNil("q"), true
			case name == "(net/url.Values).Get":
				if args[1].String() == `"name"` {
					return an.Sym("name"), true
				}
				return an.Sym("param(" + args[1].String() + ")"), true
			case strings.HasSuffix(name, "dnsserver.urlQueryParameterToUint16"):
				switch args[1].String() {
				case `"type"`:
					return tup(an.Sym("qtype"), "typeerr"), true
				case `"qc"`:
					return tup(an.Sym("qclass"), "classerr"), true
				}
				return an.Sym("another numeric parameter"), true
			case strings.HasSuffix(name, "dnsserver.urlQueryParameterToBoolean"):
				k := map[string]string{`"cd"`: "cderr", `"do"`: "doerr", `"sde"`: "sdeerr"}[args[1].String()]
				if k == "" {
					return an.Sym("another boolean parameter"), true
				}
				return tup(an.Sym("flag("+args[1].String()+")"), k), true
			case strings.HasSuffix(name, "dns.Fqdn"):
				return an.Sym("fqdn(" + args[0].String() + ")"), true
			case strings.HasSuffix(name, "dns.Id"):
				return an.Sym("newid"), true
			case strings.HasSuffix(name, "dnsserver.setEDNSFromQuery"):
				return an.Nil(), true
			case strings.HasSuffix(name, "dns.Msg).Pack"):
				return an.AV{Kind: an.KTuple, Tup: []an.AV{an.NonNil("packed(" + args[0].String() + ")"), an.Nil()}}, true
			}
			return an.AV{}, false
		},
		Expect: func(f an.Features, o an.AOutcome) string {
			if len(o.Ret) != 2 {
				return "a (bytes, err) result"
			}
			bad := f.B(`(name == "")`)
			if !bad {
				for _, k := range []string{"typeerr", "classerr", "cderr", "doerr", "sdeerr"} {
					if f.B(k) {
						bad = true
						break
					}
				}
			}
			if bad {
				if o.Ret[0].Kind == an.KNil && o.Ret[1].Kind != an.KNil {
					return ""
				}
				return "an error for a missing name or a malformed parameter; got " + o.RetString()
			}
			// the message that is packed
			var msg string
			for _, e := range o.Effects {
				if e.Kind == "call" && strings.HasSuffix(e.Name, "dns.Msg).Pack") {
					msg = strings.TrimPrefix(e.Args[0], "&")
				}
			}
			if msg == "" {
				return "the built message packed"
			}
			var q string
			for k, v := range o.Mem {
				if strings.HasSuffix(k, ".Name") && strings.Contains(v.String(), "name") {
					q = strings.TrimSuffix(k, ".Name")
					if v.String() != "fqdn(name)" {
						return "the question name taken from the name parameter unchanged apart from the trailing dot (no case folding: the response must carry the question as asked); got " + v.String()
					}
				}
			}
			if q == "" {
				return "the question name set from the name parameter"
			}
			if o.Mem[q+".Qtype"].String() != "qtype" || o.Mem[q+".Qclass"].String() != "qclass" {
				return "question type and class from the type and qc parameters; got " + o.Mem[q+".Qtype"].String() + ", " + o.Mem[q+".Qclass"].String()
			}
			if got := o.Mem[msg+".MsgHdr.CheckingDisabled"].String(); got != `flag("cd")` {
				return "the CD flag from the cd parameter; got " + got
			}
			return ""
		},
	})
}

// c01AndroidMetric holds the table of the Android metric-domain path of the
// pre-upstream middleware: the query is resolved under a shared replacement
// name, so the response must be turned back into a reply to the client's own
// message (ID and question through SetReply, answer names through replaceResp)
// on every path that writes it, whatever the response contains.
func c01AndroidMetric(c *an.Ctx) {
	c.Floor("C01-R19", 3)
	decide(c, "C01-R19", "dnssvc/internal/preupstream.(*Middleware).Wrap$1", an.DecideCfg{
		Dom: an.Domain{"android": an.Bools, "serveerr": an.Bools, "writeerr": an.Bools},
		OnCall: func(it *an.Interp, name string, args []an.AV) (an.AV, bool) {
			errOr := func(feat, tag string) an.AV {
				if it.Feature(feat).IsTrue() {
					return an.NonNil(tag)
				}
				return an.Nil()
			}
			switch {
			case strings.HasSuffix(name, "agdnet.AndroidMetricDomainReplacement"):
				if args[0].String() != "p2.Question[0].Name" {
					return an.Sym("replacement looked up for " + args[0].String()), true
				}
				if it.Feature("android").IsTrue() {
					return an.CStr("repl."), true
				}
				return an.CStr(""), true
			case strings.HasSuffix(name, ").serveAndroidMetric"):
				return an.Sym("android(" + strings.Join(avStrings(args[1:]), ",") + ")"), true
			case strings.HasSuffix(name, "internal.MakeNonWriter"):
				return an.NonNil("nwrw(" + args[0].String() + ")"), true
			case strings.HasSuffix(name, ".ServeDNS"):
				return errOr("serveerr", "serveErr"), true
			case strings.HasSuffix(name, "NonWriterResponseWriter).Msg"):
				return an.NonNil("resp"), true
			case strings.HasSuffix(name, "MustRequestInfoFromContext"):
				return an.NonNil("ri"), true
			case strings.HasSuffix(name, ".db.Record"):
				return an.Nil(), true
			case name == "p1.WriteMsg":
				return errOr("writeerr", "writeErr"), true
			case strings.HasSuffix(name, "errors.Annotate"):
				return args[0], true
			case name == "fmt.Errorf":
				return an.NonNil("wrapped"), true
			}
			return an.AV{}, false
		},
		Expect: func(f an.Features, o an.AOutcome) string {
			find := func(suffix string) (an.Effect, bool) {
				for _, e := range o.Effects {
					if e.Kind == "call" && strings.HasSuffix(e.Name, suffix) {
						return e, true
					}
				}
				return an.Effect{}, false
			}
			serve, served := find(".ServeDNS")
			write, written := find("p1.WriteMsg")
			rec, recorded := find(".db.Record")
			if f.B("android") {
				if served || written || recorded || o.RetString() != `android(p0,*fv:next,p1,p2,"repl.")` {
					return "a metric-domain query is handed to serveAndroidMetric with this context, handler, writer, request and the replacement name, and nothing else happens; got " + o.RetString()
				}
				return ""
			}
			if !served || strings.Join(serve.Args, ",") != "p0,nonnil:nwrw(p1),p2" {
				return "the next handler serves this request through a non-writer; got " + strings.Join(serve.Args, ",")
			}
			if f.B("serveerr") {
				if written || recorded || len(o.Ret) != 1 || o.Ret[0].Kind == an.KNil {
					return "a handler error is returned; nothing is recorded or written"
				}
				return ""
			}
			if !recorded || rec.Args[1] != "nonnil:resp" {
				return "the recorded response is the one the handler produced"
			}
			if !written || strings.Join(write.Args, ",") != "p0,p2,nonnil:resp" {
				return "the handler's response is written once for this request; got " + strings.Join(write.Args, ",")
			}
			if f.B("writeerr") != (len(o.Ret) == 1 && o.Ret[0].Kind != an.KNil) {
				return "a write error is returned; got " + o.RetString()
			}
			return ""
		},
	})
	decide(c, "C01-R19", "dnssvc/internal/preupstream.(*Middleware).replaceResp", an.DecideCfg{
		Dom: an.Domain{"len(p2.Answer)": an.Ints(0, 1, 2), "metric:0": an.Bools, "metric:1": an.Bools},
		OnCall: func(it *an.Interp, name string, args []an.AV) (an.AV, bool) {
			switch {
			case strings.HasSuffix(name, ".Header"):
				for i := 0; i < 2; i++ {
					if name == fmt.Sprintf("p2.Answer[%d].Header", i) {
						return an.NonNil(fmt.Sprintf("hdr%d", i)), true
					}
				}
			case strings.HasSuffix(name, "agdnet.AndroidMetricDomainReplacement"):
				for i := 0; i < 2; i++ {
					if args[0].String() == fmt.Sprintf("hdr%d.Name", i) {
						if it.Feature(fmt.Sprintf("metric:%d", i)).IsTrue() {
							return an.CStr("repl."), true
						}
						return an.CStr(""), true
					}
				}
				return an.Sym("replacement looked up for " + args[0].String()), true
			}
			return an.AV{}, false
		},
		Expect: func(f an.Features, o an.AOutcome) string {
			var want []string
			for i := int64(0); i < f.I("len(p2.Answer)"); i++ {
				if f.B(fmt.Sprintf("metric:%d", i)) {
					want = append(want, fmt.Sprintf("hdr%d.Name=p1", i))
				}
			}
			got := o.Stores()
			if strings.Join(got, " ") != strings.Join(want, " ") {
				return "every answer owned by the shared metric name (and no other) is renamed to the client's name: " + strings.Join(want, " ") + "; got " + strings.Join(got, " ")
			}
			return ""
		},
	})
	decide(c, "C01-R19", "dnssvc/internal/preupstream.(*Middleware).serveAndroidMetric", an.DecideCfg{
		Dom: an.Domain{"serveerr": an.Bools, "writeerr": an.Bools},
		OnCall: func(it *an.Interp, name string, args []an.AV) (an.AV, bool) {
			errOr := func(feat, tag string) an.AV {
				if it.Feature(feat).IsTrue() {
					return an.NonNil(tag)
				}
				return an.Nil()
			}
			switch {
			case strings.HasSuffix(name, "dnsmsg.Clone"):
				return an.NonNil("clone(" + args[0].String() + ")"), true
			case strings.HasSuffix(name, "internal.MakeNonWriter"):
				return an.NonNil("nwrw(" + args[0].String() + ")"), true
			case name == "p2.ServeDNS":
				return errOr("serveerr", "serveErr"), true
			case strings.HasSuffix(name, "NonWriterResponseWriter).Msg"):
				return an.NonNil("resp"), true
			case strings.HasSuffix(name, "dns.Msg).SetReply"):
				return args[0], true
			case strings.HasSuffix(name, ").replaceResp"):
				return an.Nil(), true
			case name == "p3.WriteMsg":
				return errOr("writeerr", "writeErr"), true
			case strings.HasSuffix(name, "errors.Annotate"):
				return args[0], true
			case name == "fmt.Errorf":
				return an.NonNil("wrapped"), true
			}
			return an.AV{}, false
		},
		Expect: func(f an.Features, o an.AOutcome) string {
			idx := func(n string) int {
				for i, e := range o.Effects {
					if e.Kind == "call" && e.Name == n {
						return i
					}
				}
				return -1
			}
			for _, e := range o.Effects {
				if e.Kind == "store" && strings.Contains(e.Name, "Question") && !strings.HasPrefix(e.Name, "clone(p4).") {
					return "only the clone's question is rewritten; got a store to " + e.Name
				}
			}
			serve, setReply, repl, write := idx("p2.ServeDNS"), idx("(*github.com/miekg/dns.Msg).SetReply"), idx("(*dnssvc/internal/preupstream.Middleware).replaceResp"), idx("p3.WriteMsg")
			if serve < 0 {
				return "the rest of the pipeline is asked"
			}
			if a := o.Effects[serve].Args; len(a) != 3 || a[0] != "p1" || !strings.HasPrefix(a[1], "nonnil:nwrw(p3)") || a[2] != "nonnil:clone(p4)" {
				return "the pipeline serves a clone of the request (the client's message keeps its own name) through a non-writer; got " + strings.Join(a, ",")
			}
			if f.B("serveerr") {
				if write >= 0 || len(o.Ret) != 1 || o.Ret[0].Kind == an.KNil {
					return "an error from the pipeline is returned and nothing is written"
				}
				return ""
			}
			if write < 0 || setReply < 0 || repl < 0 || !(serve < setReply && setReply < write && repl < write) {
				return fmt.Sprintf("ServeDNS, then SetReply and replaceResp, then WriteMsg (calls at %d, %d, %d, %d): ID and question are restored for every response, with or without answers", serve, setReply, repl, write)
			}
			if a := o.Effects[setReply].Args; len(a) != 2 || a[0] != "nonnil:resp" || a[1] != "p4" {
				return "the response made a reply to the client's own message; got SetReply(" + strings.Join(a, ",") + ")"
			}
			if a := o.Effects[repl].Args; len(a) != 3 || a[1] != "p4.Question[0].Name" || a[2] != "nonnil:resp" {
				return "answer names replaced by the client's own name; got replaceResp(" + strings.Join(a, ",") + ")"
			}
			if a := o.Effects[write].Args; len(a) != 3 || a[0] != "p1" || a[1] != "p4" || a[2] != "nonnil:resp" {
				return "the response written for the client's own request; got WriteMsg(" + strings.Join(a, ",") + ")"
			}
			if f.B("writeerr") != (len(o.Ret) == 1 && o.Ret[0].Kind != an.KNil) {
				return "a write error is returned; got " + o.RetString()
			}
			return ""
		},
	})
}

func avStrings(as []an.AV) (ss []string) {
	for _, a := range as {
		ss = append(ss, a.String())
	}
	return ss
}

// c01InitialMW holds the table of the outermost middleware: a special-domain
// handler, when there is one, answers alone; otherwise the rest of the pipeline
// serves this request through a non-writer and its response is written once for
// this request, with the AD bit kept only when the client asked for it (AD or
// DO set in the request).
func c01InitialMW(c *an.Ctx) {
	c.Floor("C01-R21", 1)
	decide(c, "C01-R21", "dnssvc/internal/initial.(*Middleware).Wrap$1", an.DecideCfg{
		Dom: an.Domain{"special": an.Bools, "serveerr": an.Bools, "writeerr": an.Bools, "p2.MsgHdr.AuthenticatedData": an.Bools, "do": an.Bools, "resp.MsgHdr.AuthenticatedData": an.Bools},
		OnCall: func(it *an.Interp, name string, args []an.AV) (an.AV, bool) {
			errOr := func(feat, tag string) an.AV {
				if it.Feature(feat).IsTrue() {
					return an.NonNil(tag)
				}
				return an.Nil()
			}
			switch {
			case strings.HasSuffix(name, "dnsmsg.IsDO"):
				if args[0].String() != "p2" {
					return an.Sym("DO of another message"), true
				}
				return it.Feature("do"), true
			case strings.HasSuffix(name, "MustRequestInfoFromContext"):
				return an.NonNil("ri"), true
			case strings.HasSuffix(name, ").reqInfoSpecialHandler"):
				if it.Feature("special").IsTrue() {
					return an.AV{Kind: an.KTuple, Tup: []an.AV{an.NonNil("spec"), an.CStr("name")}}, true
				}
				return an.AV{Kind: an.KTuple, Tup: []an.AV{an.Nil(), an.CStr("")}}, true
			case name == "nonnil:spec" || name == "dynamic" || strings.HasPrefix(name, "spec"):
				return an.Sym("special(" + strings.Join(avStrings(args), ",") + ")"), true
			case strings.HasSuffix(name, "internal.MakeNonWriter"):
				return an.NonNil("nwrw(" + args[0].String() + ")"), true
			case strings.HasSuffix(name, ".ServeDNS"):
				return errOr("serveerr", "serveErr"), true
			case strings.HasSuffix(name, "NonWriterResponseWriter).Msg"):
				return an.NonNil("resp"), true
			case name == "p1.WriteMsg":
				return errOr("writeerr", "writeErr"), true
			case strings.HasSuffix(name, "errors.Annotate"):
				return args[0], true
			}
			return an.AV{}, false
		},
		Expect: func(f an.Features, o an.AOutcome) string {
			find := func(suffix string) (an.Effect, bool) {
				for _, e := range o.Effects {
					if e.Kind == "call" && strings.HasSuffix(e.Name, suffix) {
						return e, true
					}
				}
				return an.Effect{}, false
			}
			serve, served := find(".ServeDNS")
			write, written := find("p1.WriteMsg")
			if f.B("special") {
				if served || written || o.RetString() != "dyn:nonnil:spec(p0, p1, p2, nonnil:ri)" {
					return "the special-domain handler answers alone, with this context, writer, request and request information; got " + o.RetString()
				}
				return ""
			}
			if !served || strings.Join(serve.Args, ",") != "p0,nonnil:nwrw(p1),p2" {
				return "the rest of the pipeline serves this request through a non-writer; got " + strings.Join(serve.Args, ",")
			}
			// the pipeline (upstream, caches) always sees AD set, whoever asks: what is cached does not depend on the
			// first requester's AD bit
			fwdAD := ""
			for _, st := range o.Stores() {
				if strings.HasPrefix(st, "p2.MsgHdr.AuthenticatedData=") {
					fwdAD = strings.TrimPrefix(st, "p2.MsgHdr.AuthenticatedData=")
				}
			}
			if fwdAD != "true" {
				return fmt.Sprintf("AD set unconditionally in the request handed to the pipeline (the caches keep the upstream's AD for every later requester); got %q", fwdAD)
			}
			if f.B("serveerr") {
				if written || len(o.Ret) != 1 || o.Ret[0].Kind == an.KNil {
					return "a pipeline error is returned and nothing is written"
				}
				return ""
			}
			if !written || strings.Join(write.Args, ",") != "p0,p2,nonnil:resp" {
				return "the pipeline's response is written once for this request; got " + strings.Join(write.Args, ",")
			}
			wantAD := f.B("resp.MsgHdr.AuthenticatedData") && (f.B("p2.MsgHdr.AuthenticatedData") || f.B("do"))
			gotAD := ""
			for _, st := range o.Stores() {
				if strings.HasPrefix(st, "resp.MsgHdr.AuthenticatedData=") {
					gotAD = strings.TrimPrefix(st, "resp.MsgHdr.AuthenticatedData=")
				}
			}
			if gotAD != fmt.Sprint(wantAD) {
				return fmt.Sprintf("AD in the response = %v (kept only when the response is authenticated and the request had AD or DO); got %q", wantAD, gotAD)
			}
			if f.B("writeerr") != (len(o.Ret) == 1 && o.Ret[0].Kind != an.KNil) {
				return "a write error is returned; got " + o.RetString()
			}
			return ""
		},
	})
}

// c01ErrorAfterWrite is the "one response" rule for handlers that answer by
// themselves: the server writes a SERVFAIL whenever the handler chain returns
// an error (serveDNSMsgInternal), so a handler that has already written a
// response must not return an error other than the error of that write.  For
// every WriteMsg call in the request path, every return that the call can reach
// returns nil or a value built from the write's own error only (wrapped with
// fmt.Errorf / errors.Annotate / errors.WithDeferred); an error that was
// computed before the write and is still returned after it yields a second
// response with the same ID.
func c01ErrorAfterWrite(c *an.Ctx) {
	errT := types.Universe.Lookup("error").Type()
	n := 0
	for _, fn := range c.AllFns {
		if fn.Blocks == nil || c.IsTestFile(fn.Pos()) {
			continue
		}
		k := an.FnKey(fn)
		if !(strings.HasPrefix(k, "dnssvc") || strings.HasPrefix(k, "ecscache.") || strings.HasPrefix(k, "dnsserver/cache.") || strings.HasPrefix(k, "dnsserver/ratelimit.")) {
			continue
		}
		res := fn.Signature.Results()
		if res.Len() == 0 || !types.Identical(res.At(res.Len()-1).Type(), errT) {
			continue
		}
		for _, call := range an.Calls(fn) {
			cc := call.Common()
			if !cc.IsInvoke() || cc.Method.Name() != "WriteMsg" {
				continue
			}
			if _, isDefer := call.(*ssa.Defer); isDefer {
				continue
			}
			w, ok := call.(*ssa.Call)
			if !ok {
				continue
			}
			n++
			c.Analysed(k)
			bad := ""
			// is v built from the write's error (and constants) only?
			var fromWrite func(v ssa.Value, d int) bool
			seen := map[ssa.Value]bool{}
			fromWrite = func(v ssa.Value, d int) bool {
				if d > 20 {
					return false
				}
				if an.IsNilConst(v) || v == ssa.Value(w) {
					return true
				}
				if seen[v] {
					return true // a cycle through a result cell adds nothing new
				}
				seen[v] = true
				switch x := v.(type) {
				case *ssa.Const:
					return true
				case *ssa.Phi:
					for _, e := range x.Edges {
						if !fromWrite(e, d+1) {
							return false
						}
					}
					return true
				case *ssa.MakeInterface:
					return !types.Implements(x.X.Type(), errT.Underlying().(*types.Interface)) || fromWrite(x.X, d+1)
				case *ssa.ChangeInterface:
					return fromWrite(x.X, d+1)
				case *ssa.Call:
					// a wrapper: all its error-typed arguments (also inside the variadic slice) come from the write
					okAll := true
					var args []ssa.Value
					for _, a := range x.Call.Args {
						args = append(args, a)
						if sl, isSl := a.(*ssa.Slice); isSl {
							if arr, isArr := sl.X.(*ssa.Alloc); isArr && arr.Referrers() != nil {
								for _, r := range *arr.Referrers() {
									if ia, isIA := r.(*ssa.IndexAddr); isIA && ia.Referrers() != nil {
										for _, rr := range *ia.Referrers() {
											if st, isSt := rr.(*ssa.Store); isSt {
												args = append(args, st.Val)
											}
										}
									}
								}
							}
						}
					}
					for _, a := range args {
						at := a.Type()
						if mi, isMI := a.(*ssa.MakeInterface); isMI {
							at = mi.X.Type()
						}
						if types.Identical(a.Type(), errT) || types.Implements(at, errT.Underlying().(*types.Interface)) {
							if !fromWrite(a, d+1) {
								okAll = false
							}
						}
					}
					return okAll
				case *ssa.UnOp:
					if x.Op == token.MUL {
						// a named result kept in a cell: the stores that the write can reach, or the write's own
						if al, isAl := x.X.(*ssa.Alloc); isAl {
							any := false
							for _, st := range an.Stores(al) {
								if st.Val == ssa.Value(w) || an.CanReach(w, st) {
									any = true
									if !fromWrite(st.Val, d+1) {
										return false
									}
								}
							}
							return any
						}
					}
				}
				return false
			}
			for _, r := range an.Returns(fn) {
				if !an.CanReach(w, r) || len(r.Results) == 0 {
					continue
				}
				v := r.Results[len(r.Results)-1]
				if !fromWrite(v, 0) {
					bad = "a return after the write yields an error that does not come from the write"
				}
			}
			c.Check(bad == "", "C01-R23", k+" returns no foreign error after it has written a response", call.Pos(),
				"after WriteMsg only nil or the write's own error is returned",
				bad+": the server answers every handler error with SERVFAIL, so the client receives two responses with the same ID")
		}
	}
	if n < 5 {
		c.Und("C01-R23", "handlers that write responses", token.NoPos, "only %d WriteMsg calls found in the request path", n)
	}
}

// c01WriteDeadline: the interface listener's writer sets the write request's
// own deadline on the socket before it writes it.  A request whose sender has
// already given up (and whose buffer may have been recycled) has an expired
// deadline, so the write fails instead of sending another response's bytes.
func c01WriteDeadline(c *an.Ctx) {
	const k = "bindtodevice.(*interfaceListener).writeUDP"
	fn := c.Fn(k)
	if fn == nil {
		if c.Config.GOOS == "" || c.Config.GOOS == "linux" {
			c.Und("C01-R25", k+" sets the request's deadline before writing", token.NoPos, "anchor not found")
		}
		return
	}
	c.Analysed(k)
	var set, write ssa.CallInstruction
	for _, call := range an.Calls(fn) {
		n := an.CalleeName(call)
		switch {
		case strings.HasSuffix(n, ").SetWriteDeadline") && set == nil:
			if ap, _ := an.AccessPath(call.Common().Args[len(call.Common().Args)-1]); strings.HasSuffix(ap, ".deadline") {
				set = call
			}
		case strings.HasSuffix(n, ").writeToUDPConn"):
			write = call
		}
	}
	c.Check(set != nil && write != nil && an.Dominates(set, write), "C01-R25", k+" sets the request's deadline before writing", fn.Pos(),
		"SetWriteDeadline(req.deadline) dominates the write", "the write is not preceded by SetWriteDeadline(req.deadline): an abandoned request whose buffer was recycled is still sent, with another response's bytes")
}

// c01CloseAfterWait: serveTCPConn starts a goroutine per query of a connection
// and counts them in a wait group.  When the read loop ends (the client
// half-closed, the idle timeout passed, the server stops), the queries still
// being processed must be answered before the connection is closed.  Deferred
// functions run in reverse order of registration: the close of the connection
// is either in the deferred function that waits, after the wait, or in a
// function deferred before it.
func c01CloseAfterWait(c *an.Ctx, rule string) {
	k := "dnsserver.(*ServerDNS).serveTCPConn"
	fn := c.Prog.Fn(k)
	key := k + " closes the connection only after waiting for its queries"
	if fn == nil {
		c.Und(rule, key, token.NoPos, "anchor not found")
		return
	}
	c.Analysed(k)
	isClose := func(call ssa.CallInstruction) bool {
		cc := call.Common()
		if strings.HasSuffix(an.CalleeName(call), "golibs/log.OnCloserError") {
			return true
		}
		return cc.IsInvoke() && cc.Method.Name() == "Close" && strings.HasSuffix(cc.Value.Type().String(), "net.Conn")
	}
	isWait := func(call ssa.CallInstruction) bool { return an.CalleeName(call) == "(*sync.WaitGroup).Wait" }
	// what a function does itself or, one level down, through a static callee of the repository
	type info struct {
		wait, close ssa.CallInstruction
	}
	scan := func(f *ssa.Function) (inf info) {
		for _, call := range an.Calls(f) {
			switch {
			case isWait(call) && strings.Contains(call.Common().Args[0].Type().String(), "WaitGroup"):
				// the per-connection group is a local or captured variable, not the server's own s.wg
				if p, ok := an.AccessPath(call.Common().Args[0]); !ok || !strings.Contains(p, ".wg") {
					inf.wait = call
				}
			case isClose(call):
				inf.close = call
			}
		}
		return inf
	}
	var defers []ssa.CallInstruction
	an.Instrs(fn, func(in ssa.Instruction) {
		if d, ok := in.(*ssa.Defer); ok {
			defers = append(defers, d)
		}
	})
	waitIdx, bad := -1, ""
	infos := make([]info, len(defers))
	for i, d := range defers {
		callee := an.StaticCallee(d)
		if callee == nil || callee.Blocks == nil {
			continue
		}
		infos[i] = scan(callee)
		if infos[i].wait != nil {
			waitIdx = i
		}
	}
	if waitIdx < 0 {
		c.Und(rule, key, fn.Pos(), "no deferred function of serveTCPConn waits for the connection's wait group")
		return
	}
	closes := 0
	if body := scan(fn); body.close != nil {
		closes++
		bad = "the connection is closed in the body at " + c.Pos(body.close.Pos()) + ", before any deferred wait"
	}
	for i, inf := range infos {
		if inf.close == nil {
			continue
		}
		closes++
		switch {
		case i == waitIdx:
			if !an.Dominates(inf.wait, inf.close) {
				bad = "the close at " + c.Pos(inf.close.Pos()) + " is not preceded by the wait in the same deferred function"
			}
		case i > waitIdx:
			bad = "the close at " + c.Pos(inf.close.Pos()) + " is in a function deferred after the one that waits, so it runs first: the queries still in flight write to a closed connection and get no answer"
		}
	}
	if closes == 0 {
		c.Und(rule, key, fn.Pos(), "no close of the connection found in serveTCPConn or its deferred functions")
		return
	}
	c.Check(bad == "", rule, key, fn.Pos(), fmt.Sprintf("%d close site(s), each after the wait", closes), bad)
}
