package rules

import (
	"fmt"
	"go/token"
	"go/types"
	"sort"
	"strconv"
	"strings"

	"adgverif/an"

	"golang.org/x/tools/go/ssa"
)

func init() {
	register(&Property{ID: "C10", Technique: "abstract interpretation (decision-tree extraction) of the access decision functions and of the middleware closure, with effect-order checks", Run: runC10, Explain: an.Explanation{
		Text: "Decides the access-control decision functions completely and the silence of the blocked edge. " +
			"R1: the decision trees of access.(*DefaultProfile).isBlockedByNets (= not(allowedASN or allowedNet) and " +
			"(blockedASN or blockedNet), each atom bound to the right field and argument), matchASNs, " +
			"(*DefaultProfile).IsBlocked (= nets or hosts) and ratelimitmw.(*Middleware).isBlockedByAccess (global IP, " +
			"global host, then the profile's access settings, only when a profile is present, called with this " +
			"request's message, address and location) equal the reference tables. R2: in the rate-limit middleware's " +
			"handler the access decision is taken after the request's location has been stored into the request " +
			"information, and on the blocked edge nothing observable happens: no response is written, no later stage " +
			"is called and the request information is not published to the context; on the other edge the request " +
			"proceeds to rate limiting. The single exception is the FORMERR answer for a malformed ECS option, which " +
			"C05 demands and which is written before any access decision.",
		NotCovered: "what the urlfilter engines behind IsBlockedHost / blockedHostsEng match; effects inside third-party libraries reached from the access decision.",
		Rules: map[string]string{"C10-R30": "agd.Server.HasAddr examines every bound address and interface prefix: returns reached from its loops yield only constants, so a request to any of the server's own addresses is not taken for one to a dedicated address (and dropped without the access rules being asked)", "C10-R29": "every server of a group gets a device finder built for that server (shared with C03-R12): the profile whose access settings apply is looked up with the server's own protocol, linked-IP and bind-data settings", "C10-R28": "entries of the address indexes are deleted only by the functions that check whose entry it is (shared with C14-R2): a linked address that moved to another device is not left linked to nobody", "C10-R27": "the device ID in an EDNS option is found whatever other options precede or follow it (shared with C03-R11): a profile's access settings are not bypassed by a resolver that adds another local option in front", "C10-R26": "the TLS server name is matched against the device domains without regard to letter case (table shared with C03-R15), and every refresh stores the file cache only after a full synchronisation (table shared with C14-R8): a client is not judged without its profile (whose access rules would reject it) because of how it spelled the server name or because a restart loaded a partial snapshot", "C10-R24": "the client address of a DoH request is the peer address of the connection (http.Request.RemoteAddr): remoteAddr and what it calls read no request header, so no client-chosen header decides which address the access rules judge", "C10-R23": "a full synchronisation clears and refills the profile database's indexes in one critical section (shared with C14-R3): no lookup sees an empty database in between and treats a client of a profile that rejects it as anonymous", "C10-R21": "the profile map of the profile database is written by the synchronisation (setProfiles) only: no other function, in particular not the request path (CreateAutoDevice), stores a profile object of its own there, which would put an older access configuration back after a newer one was synchronised", "C10-R22": "geoip.ipToCacheKey: the location cache keys an IPv4 address by its first three bytes (the /24 it belongs to) and an IPv6 address by its first seven: two clients share a cached location (and its ASN, which access rules test) only inside one such network", "C10-R20": "agdnet.NormalizeQueryDomain keeps the root name \".\" as it is (decided on the argument itself, before any normalisation empties it) and normalises every other name", "C10-R19": "the name handed to the global blocked-name rules (access.Interface.IsBlockedHost) is the question name normalised by agdnet.NormalizeQueryDomain, as for the profile's rules: the root stays \".\" (the empty string that NormalizeDomain makes of it matches no rule)", "C10-R18": "geoip.File.Refresh clears both location caches after it has installed the new databases (shared with C05-R10)", "C10-R16": "no call in package dnsserver passes same-typed arguments crossed (local and remote address of a connection, by the names of the getters that produced them)", "C10-R17": "builder.initAccess creates and assigns the global access manager on every successful path, empty lists included (a nil *access.Global wrapped in the service's interface field panics on the first request)", "C10-R14": "conversion loops of backendpb and filecachepb leave no element out silently (a skipped element has been reported or failed a conversion)", "C10-R15": "GeoIP data is looked up and cached under one read lock, so a refresh cannot leave a location of the previous database in the cache (shared with C05-R7)", "C10-R13": "newRequestInfo always stores the finder's answer; methods of the shared access objects do not write to their receiver", "C10-RC": "class rules (error chains, shadowed results, character classes, crossed arguments, pool constructors, array pools, loop completeness, loop-carried buffers, replacing setters, complete clones, Grow arithmetic, pooled-buffer escape, sorted searches, fresh decode targets, per-iteration objects, whole-message copies, codec guards) over the packages this property rests on", "C10-R12": "agdnet.NormalizeDomain is ToLower(TrimSuffix(name, \".\")); hand-written ASCII classes use inclusive boundaries", "C10-R11": "early (default) returns of the profile converters are guarded only by nil / Enabled tests of the input, never by its contents", "C10-R10": "codecs return a nil sub-message only for a nil input; access.Global keeps the whole configured subnet list and IsBlockedIP is a membership test on it",
			"C10-R1": "decision tables of isBlockedByNets, matchASNs, IsBlocked, isBlockedByAccess",
			"C10-R2": "Wrap closure: location stored before the decision; blocked edge silent; other edge proceeds",
			"C10-R4": "question names are normalised before they are matched against access rules",
			"C10-R3": "call-graph reachability: the access decision itself reaches no answering/resolving/logging/billing/caching sink",
		},
	}})
}

func runC10(c *an.Ctx) {
	c.Floor("C10-R30", 1)
	c10HasAddrChecksAll(c, "C10-R30")
	c.Floor("C10-R29", 1)
	c.Borrow("C10-R29", runC03, func(o an.Obligation) bool { return o.Rule == "C03-R12" })
	c.Floor("C10-R28", 1)
	c.Borrow("C10-R28", runC14, func(o an.Obligation) bool { return o.Rule == "C14-R2" })
	c.Floor("C10-R27", 1)
	c.Borrow("C10-R27", runC03, func(o an.Obligation) bool { return o.Rule == "C03-R11" })
	// ---- R26: a request finds its profile (shared with C03-R15 and C14-R8)
	c.Floor("C10-R26", 2)
	c.Borrow("C10-R26", runC03, func(o an.Obligation) bool { return o.Rule == "C03-R15" && strings.Contains(o.Key, "matchDomain") })
	c.Borrow("C10-R26", runC14, func(o an.Obligation) bool { return o.Rule == "C14-R8" && strings.Contains(o.Key, "Default).Refresh") })
	// ---- R24: the DoH client address is the connection's peer, not a header
	c.Floor("C10-R24", 1)
	c10DoHPeerAddress(c, "C10-R24")
	// ---- R23: clear and refill in one critical section (shared with C14-R3)
	c.Floor("C10-R23", 1)
	c.Borrow("C10-R23", runC14, func(o an.Obligation) bool { return o.Rule == "C14-R3" })
	// ---- R21: who may write the profile map; R22: the key of the location cache
	c.Floor("C10-R21", 1)
	c10ProfileMapWriters(c, "C10-R21")
	c.Floor("C10-R22", 1)
	c10LocationCacheKey(c, "C10-R22")
	// ---- R20: the root name survives the query normaliser
	c.Floor("C10-R20", 1)
	decide(c, "C10-R20", "agdnet.NormalizeQueryDomain", an.DecideCfg{
		Dom: an.Domain{"p0": an.Strs(".", "Example.ORG.", "")},
		OnCall: func(it *an.Interp, name string, args []an.AV) (an.AV, bool) {
			if name == "agdnet.NormalizeDomain" {
				// lower-cased, final dot removed: the root becomes the empty string
				switch args[0].String() {
				case `"."`, `""`:
					return an.CStr(""), true
				case `"Example.ORG."`:
					return an.CStr("example.org"), true
				}
				return an.Sym("normalised(" + args[0].String() + ")"), true
			}
			return an.AV{}, false
		},
		Expect: func(f an.Features, o an.AOutcome) string {
			want := map[string]string{".": `"."`, "Example.ORG.": `"example.org"`, "": `""`}[f.S("p0")]
			if o.RetString() == want {
				return ""
			}
			return want + " for " + strconv.Quote(f.S("p0"))
		},
	})
	// ---- R19: the global blocked-name rules are asked about the question's name with the root kept as "."
	if n := c10GlobalHostNormalised(c, "C10-R19"); n < 1 {
		c.Und("C10-R19", "host argument of the global blocked-name check", token.NoPos, "no call of access.Interface.IsBlockedHost found")
	}
	classSweep(c, "C10")
	// ---- R18: a GeoIP refresh empties the per-network location cache, so ASN rules are applied to the new data (shared with C05-R10)
	c.Floor("C10-R18", 2)
	c.Borrow("C10-R18", runC05, func(o an.Obligation) bool { return o.Rule == "C05-R10" })
	// ---- R16: the transports hand the client's address to the pipeline as the remote address (crossed local /
	// remote arguments make every access rule judge the server's own address); R17: the global access manager (and
	// every other builder component handed on as an interface) is assigned on every successful path of its initialiser
	c.Inf("C10-R16", "crossed arguments in the transports", token.NoPos, "%d call sites with two same-typed named arguments examined in package dnsserver", sharedSwappedArgs(c, "C10-R16", "dnsserver."))
	c.Floor("C10-R17", 1)
	decide(c, "C10-R17", "cmd.(*builder).initAccess", an.DecideCfg{
		Dom: an.Domain{"newerr": an.Bools},
		OnCall: func(it *an.Interp, name string, args []an.AV) (an.AV, bool) {
			switch {
			case strings.HasSuffix(name, "access.NewGlobal"):
				if it.Feature("newerr").IsTrue() {
					return an.AV{Kind: an.KTuple, Tup: []an.AV{an.Nil(), an.NonNil("newErr")}}, true
				}
				return an.AV{Kind: an.KTuple, Tup: []an.AV{an.NonNil("global"), an.Nil()}}, true
			case strings.HasSuffix(name, "netutil.UnembedPrefixes"):
				return an.Sym("subnets"), true
			case name == "fmt.Errorf":
				return an.NonNil("wrapped"), true
			}
			return an.AV{}, false
		},
		Expect: func(f an.Features, o an.AOutcome) string {
			set := false
			for _, s := range o.Stores() {
				if s == "p0.access=nonnil:global" {
					set = true
				}
			}
			if len(o.Ret) != 1 || f.B("newerr") != (o.Ret[0].Kind != an.KNil) || !f.B("newerr") && !set {
				return "the global access manager is created and assigned whatever the lists contain (the service wraps the field in an interface, so a nil pointer would pass as a manager and panic on the first request); got " + o.RetString() + " stores " + strings.Join(o.Stores(), ", ")
			}
			return ""
		},
	})
	// ---- R14: the converters of access settings (backend -> internal -> file cache -> internal) keep every subnet,
	// /0 included; R15: a GeoIP lookup and the cache entry made from it happen under one read lock (shared with C05-R7)
	if n := sharedNoSilentSkip(c, "C10-R14", "backendpb.", "profiledb/internal/filecachepb."); n < 5 {
		c.Und("C10-R14", "conversion loops", token.NoPos, "only %d conversion loops found in backendpb and filecachepb", n)
	}
	c.Floor("C10-R15", 1)
	c.Borrow("C10-R15", runC05, func(o an.Obligation) bool { return o.Rule == "C05-R7" && strings.Contains(o.Key, "geoip") })
	dnssvcWiring(c, "C10-R9", func(dst, src string) bool {
		n := normName(dst) + " " + normName(src)
		return strings.Contains(n, "accessmanager") || strings.Contains(n, "geoip")
	}, 2)
	// ---- C10-R9: builder wiring of the components this property rests on
	c.Floor("C10-R9", 1)
	builderWiring(c, "C10-R9", map[string][]string{
		"initDNS|dnssvc.HandlersConfig": {"AccessManager", "GeoIP"},
	})
	c10AccessCodec(c)
	// ---- R10: the file cache's encoders drop a sub-message only when it is absent (access settings with name rules
	// alone are still settings); the global access list is the whole configured list
	if n := sharedNilOnlyAbsent(c, "C10-R10", nilWhenDisabled, "profiledb/internal/filecachepb.", "backendpb."); n >= 3 {
		c.Ok("C10-R10", "optional sub-messages are nil only when absent", token.NoPos, "%d nil returns of pointer-to-pointer converters examined", n)
	} else {
		c.Und("C10-R10", "optional sub-messages are nil only when absent", token.NoPos, "only %d nil returns found", n)
	}
	c10Global(c)
	c.Floor("C10-R13", 2)
	c10DeviceResultSet(c)
	if n := sharedReadOnlyMethods(c, "C10-R13", "access.Global", "access.DefaultProfile", "access.EmptyProfile"); n < 3 {
		c.Und("C10-R13", "methods of the shared access objects", token.NoPos, "only %d methods found", n)
	}
	// ---- R12: the name that the blocked-name rules are matched against is the lower-cased question name
	c.Floor("C10-R12", 1)
	decide(c, "C10-R12", "agdnet.NormalizeDomain", an.DecideCfg{
		Dom: an.Domain{},
		OnCall: func(it *an.Interp, name string, args []an.AV) (an.AV, bool) {
			switch name {
			case "strings.ToLower":
				return an.Sym("lower(" + args[0].String() + ")"), true
			case "strings.TrimSuffix":
				return an.Sym("trim(" + args[0].String() + "," + args[1].String() + ")"), true
			}
			return an.AV{}, false
		},
		Expect: func(f an.Features, o an.AOutcome) string {
			if got := o.RetString(); got != `lower(trim(p0,"."))` && got != `trim(lower(p0),".")` {
				return "the name without its trailing dot, lower-cased as a whole; got " + got
			}
			return ""
		},
	})
	c.Inf("C10-R12", "character classes", token.NoPos, "%d comparisons of a character with a class boundary examined in the whole repository", sharedCharRanges(c, "C10-R12", ""))
	// ---- R11: converters of profile settings return a default early only for absent or disabled input
	if n := sharedCodecGuards(c, "C10-R11", nil, "backendpb.", "profiledb/internal/filecachepb."); n < 5 {
		c.Und("C10-R11", "early returns of the profile codecs", token.NoPos, "only %d early returns found", n)
	}
	// ---- R7: the location handed to the access check is not an object shared with the GeoIP cache that later code modifies
	c.Floor("C10-R7", 1)
	c.Borrow("C10-R7", runC05, func(o an.Obligation) bool { return o.Rule == "C05-R1" && strings.Contains(o.Key, "locFromReq") })
	c10Access(c)
	c.Inf("C10-R5", "pooled buffers", token.NoPos, "%d Pool.Get sites of byte buffers / string builders in the access code checked for Reset-before-use",
		sharedPoolBufferReset(c, "C10-R5", "access.", "dnssvc/internal/ratelimitmw."))
	sharedErrorsAs(c, "C10-R2", 1, "dnssvc/internal/ratelimitmw.")
	if n := sharedLoopCompleteness(c, "C10-R5", "backendpb.", "access.", "dnssvc/internal/ratelimitmw."); n > 0 {
		c.Ok("C10-R5", "element-wise loops", token.NoPos, "%d range loops of the access-list conversion and matching code examined: no element ends a scan early", n)
	}
	c.Floor("C10-R1", 5)
	c.Floor("C10-R2", 1)

	// ---- R1a isBlockedByNets
	netsCall := func(it *an.Interp, name string, args []an.AV) (an.AV, bool) {
		if len(args) != 2 {
			return an.AV{}, false
		}
		switch {
		case strings.HasSuffix(name, "access.matchASNs"):
			if args[1].String() != "p2" {
				return an.Sym("matchASNs called with " + args[1].String() + " instead of the location"), true
			}
			return it.Feature("asn:" + args[0].String()), true
		case strings.HasSuffix(name, "access.matchNets"):
			if args[1].String() != "p1" {
				return an.Sym("matchNets called with " + args[1].String() + " instead of the address"), true
			}
			return it.Feature("net:" + args[0].String()), true
		}
		return an.AV{}, false
	}
	decide(c, "C10-R1", "access.(*DefaultProfile).isBlockedByNets", an.DecideCfg{
		Dom: an.Domain{
			"asn:p0.allowedASN": an.Bools, "net:p0.allowedNets": an.Bools,
			"asn:p0.blockedASN": an.Bools, "net:p0.blockedNets": an.Bools,
		},
		OnCall: netsCall,
		Expect: func(f an.Features, o an.AOutcome) string {
			allowed := f.B("asn:p0.allowedASN") || f.B("net:p0.allowedNets")
			want := !allowed && (f.B("asn:p0.blockedASN") || f.B("net:p0.blockedNets"))
			if o.Exit == "return" && o.RetString() == fmt.Sprint(want) {
				return ""
			}
			return fmt.Sprintf("%v = not(allowedASN or allowedNet) and (blockedASN or blockedNet)", want)
		},
	})

	// ---- R1b matchASNs: a missing location never matches
	decide(c, "C10-R1", "access.matchASNs", an.DecideCfg{
		Dom: an.Domain{"p1": an.NilOrNot, "contains": an.Bools},
		OnCall: func(it *an.Interp, name string, args []an.AV) (an.AV, bool) {
			if strings.HasPrefix(name, "slices.Contains") {
				if len(args) == 2 && args[0].String() == "p0" && args[1].String() == "p1.ASN" {
					return it.Feature("contains"), true
				}
				return an.Sym("slices.Contains called with unexpected arguments " + args[0].String() + ", " + args[1].String()), true
			}
			return an.AV{}, false
		},
		Expect: func(f an.Features, o an.AOutcome) string {
			want := !f.IsNil("p1") && f.B("contains")
			if o.Exit == "return" && o.RetString() == fmt.Sprint(want) {
				return ""
			}
			return fmt.Sprintf("%v = location present and its ASN is in the list", want)
		},
	})

	// ---- R1c IsBlocked = nets or hosts
	decide(c, "C10-R1", "access.(*DefaultProfile).IsBlocked", an.DecideCfg{
		Dom: an.Domain{"nets": an.Bools, "hosts": an.Bools},
		OnCall: func(it *an.Interp, name string, args []an.AV) (an.AV, bool) {
			switch {
			case strings.HasSuffix(name, ").isBlockedByNets"):
				if len(args) == 3 && args[2].String() == "p3" && strings.Contains(args[1].String(), "Addr(p2)") {
					return it.Feature("nets"), true
				}
				return an.Sym("isBlockedByNets called with unexpected arguments"), true
			case strings.HasSuffix(name, ").isBlockedByHostsEng"):
				if len(args) == 2 && args[1].String() == "p1" {
					return it.Feature("hosts"), true
				}
				return an.Sym("isBlockedByHostsEng called with unexpected arguments"), true
			}
			return an.AV{}, false
		},
		Expect: func(f an.Features, o an.AOutcome) string {
			want := f.B("nets") || f.B("hosts")
			if o.Exit == "return" && o.RetString() == fmt.Sprint(want) {
				return ""
			}
			return fmt.Sprintf("%v = blocked by subnets/ASNs or by host rules", want)
		},
	})

	// ---- R1d isBlockedByAccess
	decide(c, "C10-R1", "dnssvc/internal/ratelimitmw.(*Middleware).isBlockedByAccess", an.DecideCfg{
		Dom: an.Domain{"gip": an.Bools, "ghost": an.Bools, "prof": an.NilOrNot, "pblocked": an.Bools},
		OnCall: func(it *an.Interp, name string, args []an.AV) (an.AV, bool) {
			switch {
			case name == "p0.accessManager.IsBlockedIP":
				if len(args) == 1 && strings.Contains(args[0].String(), "Addr(p4)") {
					return it.Feature("gip"), true
				}
				return an.Sym("IsBlockedIP called with " + args[0].String()), true
			case name == "p0.accessManager.IsBlockedHost":
				// the question's own name, normalised with the root kept (R19 decides the normaliser), and its type
				if len(args) == 2 && args[0].String() == "agdnet.NormalizeQueryDomain(p3.Question[0].Name)" && args[1].String() == "p2.QType" {
					return it.Feature("ghost"), true
				}
				return an.Sym("IsBlockedHost called with unexpected arguments"), true
			case strings.HasSuffix(name, "(*agd.RequestInfo).DeviceData"):
				if args[0].String() != "p2" {
					return an.Sym("DeviceData of another request"), true
				}
				p := it.Feature("prof")
				if p.Kind == an.KNonNil {
					p.Key = "prof"
				}
				return an.AV{Kind: an.KTuple, Tup: []an.AV{p, an.Sym("dev")}}, true
			case name == "prof.Access.IsBlocked":
				if len(args) == 3 && args[0].String() == "p3" && args[1].String() == "p4" && args[2].String() == "p2.Location" {
					return it.Feature("pblocked"), true
				}
				return an.Sym("profile access consulted with other data than this request's: " + fmt.Sprint(args)), true
			}
			return an.AV{}, false
		},
		Expect: func(f an.Features, o an.AOutcome) string {
			want := f.B("gip") || f.B("ghost") || (!f.IsNil("prof") && f.B("pblocked"))
			if o.Exit == "return" && o.RetString() == fmt.Sprint(want) {
				return ""
			}
			return fmt.Sprintf("%v = global IP or global host or (profile present and profile access blocks)", want)
		},
	})

	// ---- R2 the middleware closure
	sinks := []string{"WriteMsg", "ServeDNS", "serveWithRatelimiting", "ContextWithRequestInfo"}
	isSink := func(n string) bool {
		for _, s := range sinks {
			if strings.HasSuffix(n, "."+s) || strings.HasSuffix(n, ")."+s) {
				return true
			}
		}
		return false
	}
	decide(c, "C10-R2", "dnssvc/internal/ratelimitmw.(*Middleware).Wrap$1", an.DecideCfg{
		Dom: an.Domain{"port0": an.Bools, "locerr": an.Bools, "cont": an.Bools, "blocked": an.Bools},
		OnCall: func(it *an.Interp, name string, args []an.AV) (an.AV, bool) {
			switch {
			case strings.HasSuffix(name, "AddrPort).Port"):
				if it.Feature("port0").IsTrue() {
					return an.CInt(0), true
				}
				return an.CInt(53000), true
			case strings.HasSuffix(name, ").location"):
				e := an.Nil()
				if it.Feature("locerr").IsTrue() {
					e = an.NonNil("locerr")
				}
				return an.AV{Kind: an.KTuple, Tup: []an.AV{an.NonNil("loc"), an.NonNil("ecs"), e}}, true
			case strings.HasSuffix(name, ").newRequestInfo"):
				return an.NonNil("ri"), true
			case strings.HasSuffix(name, ").handleDeviceResult"):
				return an.AV{Kind: an.KTuple, Tup: []an.AV{it.Feature("cont"), an.Sym("hdrErr")}}, true
			case strings.HasSuffix(name, ").isBlockedByAccess"):
				return it.Feature("blocked"), true
			}
			return an.AV{}, false
		},
		Expect: func(f an.Features, o an.AOutcome) string {
			if o.Exit != "return" {
				return "a normal return"
			}
			calls := o.Calls()
			idxBlocked := -1
			for i, n := range calls {
				if strings.HasSuffix(n, ").isBlockedByAccess") {
					idxBlocked = i
				}
			}
			var sinkCalls []string
			for _, n := range calls {
				if isSink(n) {
					sinkCalls = append(sinkCalls, n)
				}
			}
			switch {
			case f.B("port0"):
				if len(sinkCalls) == 0 && idxBlocked < 0 {
					return ""
				}
				return "a spoofed (port 0) request to be dropped without any later stage"
			case f.B("locerr"):
				// processLocationErr: the documented FORMERR carve-out
				if len(sinkCalls) == 0 && o.HasCall("(*dnssvc/internal/ratelimitmw.Middleware).processLocationErr") {
					return ""
				}
				return "only processLocationErr on a location error"
			case !f.B("cont"):
				if len(sinkCalls) == 0 && idxBlocked < 0 {
					return ""
				}
				return "no later stage when the device result stops the request"
			}
			// the access decision must see this request's location
			locStored := false
			for _, e := range o.Effects {
				if e.Kind == "call" && strings.HasSuffix(e.Name, ").isBlockedByAccess") {
					break
				}
				if e.Kind == "store" && e.Name == "ri.Location" && len(e.Args) == 1 && e.Args[0] == "nonnil:loc" {
					locStored = true
				}
			}
			if idxBlocked < 0 {
				return "the access decision to be taken"
			}
			if !locStored {
				return "the request's location to be stored into the request information before the access decision"
			}
			if f.B("blocked") {
				if len(sinkCalls) == 0 && len(o.Ret) == 1 && o.Ret[0].Kind == an.KNil {
					return ""
				}
				return fmt.Sprintf("silence on the blocked edge (no write, no next stage, nil error); got calls %v", sinkCalls)
			}
			if len(sinkCalls) == 2 && strings.HasSuffix(sinkCalls[0], "ContextWithRequestInfo") && strings.HasSuffix(sinkCalls[1], "serveWithRatelimiting") {
				return ""
			}
			return fmt.Sprintf("an unblocked request to proceed to rate limiting; got %v", sinkCalls)
		},
	})
	// ---- R1e: the decision sees the connecting client's own location
	sharedLocation(c, "C10-R1")

	// ---- R4: names are normalised before they are matched against access rules
	c.Floor("C10-R4", 2)
	normalised := func(fnKey, what string, find func(fn *ssa.Function) ssa.Value) {
		fn := c.Fn(fnKey)
		if fn == nil {
			c.Und("C10-R4", fnKey, token.NoPos, "anchor not found")
			return
		}
		c.Analysed(fnKey)
		v := find(fn)
		if v == nil {
			c.Und("C10-R4", fnKey, fn.Pos(), "the %s was not found", what)
			return
		}
		ok := false
		w := &an.Walker{P: c.Prog, NoFieldJoin: true, Opaque: func(*ssa.Function) bool { return true }}
		w.Visit = func(u ssa.Value) bool {
			if call, isCall := u.(*ssa.Call); isCall {
				n := an.Short(an.CalleeName(call))
				if n == "agdnet.NormalizeQueryDomain" || n == "agdnet.NormalizeDomain" {
					ok = true
					return true
				}
			}
			return false
		}
		w.ThroughCalls = func(call *ssa.Call) ([]ssa.Value, bool) { return call.Call.Args, true }
		w.Walk(v)
		c.Check(ok, "C10-R4", fnKey+" "+what, v.Pos(), "passes through agdnet's domain normalisation (lower case, no trailing dot)",
			"the name is matched without normalisation: a query in mixed case (0x20 encoding) or with a trailing dot bypasses every blocked-name rule")
	}
	normalised("access.(*blockedHostEngine).isBlocked", "host name given to the profile's rule engine", func(fn *ssa.Function) ssa.Value {
		for _, fs := range c.FieldStores("github.com/AdguardTeam/urlfilter.DNSRequest", "Hostname") {
			if fs.In == fn {
				return fs.Val
			}
		}
		return nil
	})
	normalised("dnssvc/internal/ratelimitmw.(*Middleware).newRequestInfo", "request host used by the global rules", func(fn *ssa.Function) ssa.Value {
		for _, fs := range c.FieldStores("agd.RequestInfo", "Host") {
			if fs.In == fn {
				return fs.Val
			}
		}
		return nil
	})

	// ---- R3: nothing that leaves a trace is reachable from the access decision
	c.Floor("C10-R3", 1)
	if root := c.Fn("dnssvc/internal/ratelimitmw.(*Middleware).isBlockedByAccess"); root == nil {
		c.Und("C10-R3", "isBlockedByAccess reachability", token.NoPos, "anchor not found")
	} else {
		reach := c.ReachableFrom([]*ssa.Function{root}, nil)
		sinkSuffix := []string{"(querylog.Interface).Write", "(billstat.Recorder).Record", "(rulestat.Interface).Collect", "(dnsdb.Interface).Record",
			"(filter.Storage).ForConfig", "(dnsserver/forward.Upstream).Exchange", "(dnsserver.ResponseWriter).WriteMsg", "(dnsserver.Handler).ServeDNS"}
		var hits []string
		n := 0
		for fn := range reach {
			n++
			for _, call := range an.Calls(fn) {
				name := an.Short(an.CalleeName(call))
				for _, sfx := range sinkSuffix {
					if name == sfx {
						hits = append(hits, an.FnKey(fn)+" calls "+name+" ("+c.Pos(call.Pos())+")")
					}
				}
				if strings.HasSuffix(name, ".SetWithExpire") || (strings.HasPrefix(name, "(agdcache.Interface") && strings.HasSuffix(name, ".Set")) {
					hits = append(hits, an.FnKey(fn)+" stores into a cache ("+c.Pos(call.Pos())+")")
				}
			}
		}
		if len(hits) > 0 {
			c.Bad("C10-R3", "isBlockedByAccess reachability", root.Pos(), "the access decision can reach a stage that answers, resolves, filters, caches, logs or bills: %s", strings.Join(hits, "; "))
		} else {
			c.Ok("C10-R3", "isBlockedByAccess reachability", root.Pos(), "%d repository functions reachable from the access decision (static calls, closures, class-hierarchy-resolved interface calls); none calls a response writer, handler, upstream, filter storage, cache store, query log, billing, rule statistics or DNSDB", n)
		}
	}

	c.Except("C10-R2", "ratelimitmw.(*Middleware).processLocationErr",
		"a malformed ECS option is answered with FORMERR before any access decision (C05 demands it)")
}

// c10Access holds further tables of package access: the engine verdicts, the
// subnet matcher and the constructor's field map.
func c10Access(c *an.Ctx) {
	c.Floor("C10-R6", 6)
	verdict := func(fnKey, engine string) {
		decide(c, "C10-R6", fnKey, an.DecideCfg{
			Dom:    an.Domain{"matched": an.Bools, "res.NetworkRule": {an.Nil(), an.NonNil("rule")}, "rule.Whitelist": an.Bools},
			Inline: func(f *ssa.Function) bool { return false },
			OnCall: func(it *an.Interp, name string, args []an.AV) (an.AV, bool) {
				switch {
				case strings.HasSuffix(name, "DNSEngine).MatchRequest"):
					return an.AV{Kind: an.KTuple, Tup: []an.AV{an.NonNil("res"), it.Feature("matched")}}, true
				case strings.HasSuffix(name, "sync.Once).Do"), strings.HasSuffix(name, "agdnet.NormalizeQueryDomain"):
					return an.Sym("x"), true
				}
				return an.AV{}, false
			},
			Expect: func(f an.Features, o an.AOutcome) string {
				want := f.B("matched")
				if f.B("matched") && !f.IsNil("res.NetworkRule") {
					want = !f.B("rule.Whitelist")
				}
				if o.RetString() != fmt.Sprint(want) {
					return fmt.Sprintf("%v (blocked iff a rule matches and it is not an allow rule); got %s", want, o.RetString())
				}
				return ""
			},
		})
	}
	verdict("access.(*Global).IsBlockedHost", "p0.blockedHostsEng")
	verdict("access.(*blockedHostEngine).isBlocked", "p0.lazyEngine")
	decide(c, "C10-R6", "access.matchNets", an.DecideCfg{
		Dom: an.Domain{"len(p0)": an.Ints(0, 2), "in0": an.Bools, "in1": an.Bools},
		OnCall: func(it *an.Interp, name string, args []an.AV) (an.AV, bool) {
			if name == "(net/netip.Prefix).Contains" {
				if args[1].String() != "p1" {
					return an.Sym("containment of another address"), true
				}
				if strings.Contains(args[0].String(), "[1]") {
					return it.Feature("in1"), true
				}
				return it.Feature("in0"), true
			}
			return an.AV{}, false
		},
		Expect: func(f an.Features, o an.AOutcome) string {
			want := f.I("len(p0)") == 2 && (f.B("in0") || f.B("in1"))
			if o.RetString() != fmt.Sprint(want) {
				return fmt.Sprintf("%v (true iff some subnet of the list contains the address); got %s", want, o.RetString())
			}
			return ""
		},
	})
	checkFieldMap(c, "C10-R6", "access.NewDefaultProfile", "access.DefaultProfile", map[string]string{
		"allowedNets": ".AllowedNets", "blockedNets": ".BlockedNets", "allowedASN": ".AllowedASN", "blockedASN": ".BlockedASN",
		"blocklistDomainRules": ".BlocklistDomainRules"})
	// the profile's engine is built from the profile's own rules
	if fn := c.Fn("access.NewDefaultProfile"); fn != nil {
		ok := false
		for _, call := range an.CallsTo(fn, "access.newBlockedHostEngine") {
			if ap, isPath := an.AccessPath(call.Common().Args[0]); isPath && strings.HasSuffix(ap, ".BlocklistDomainRules") {
				ok = true
			}
		}
		c.Check(ok, "C10-R6", "access.NewDefaultProfile engine rules", fn.Pos(), "the host engine is built from the profile's blocklist rules",
			"the profile's host engine is not built from its own blocklist rules")
	}
}

// c10AccessCodec holds the tables of the two decoders of a profile's access
// settings: an absent message means "no restrictions"; a present one is turned
// into a default profile with all five lists, whatever is in them.
func c10AccessCodec(c *an.Ctx) {
	c.Floor("C10-R8", 3)
	for _, fnKey := range []string{"profiledb/internal/filecachepb.(*Access).toInternal", "backendpb.(*AccessSettings).toInternal"} {
		dom := an.Domain{"p0": an.NilOrNot}
		hasFlag := strings.HasPrefix(fnKey, "backendpb.")
		if hasFlag {
			// the backend's message carries an explicit switch
			dom["p0.Enabled"] = an.Bools
		}
		decide(c, "C10-R8", fnKey, an.DecideCfg{
			Dom: dom,
			OnCall: func(it *an.Interp, name string, args []an.AV) (an.AV, bool) {
				switch {
				case strings.HasSuffix(name, "access.NewDefaultProfile"):
					return an.NonNil("default(" + args[0].String() + ")"), true
				case strings.HasSuffix(name, "ToInternal"), strings.HasSuffix(name, "UnsafelyConvertStrSlice"), strings.Contains(name, "unsafelyConvertStrSlice"):
					return an.Sym("conv(" + args[0].String() + ")"), true
				}
				return an.AV{}, false
			},
			Expect: func(f an.Features, o an.AOutcome) string {
				if len(o.Ret) != 1 {
					return "a profile"
				}
				if f.IsNil("p0") || (hasFlag && !f.B("p0.Enabled")) {
					if o.Ret[0].Dyn == "access.EmptyProfile" {
						return ""
					}
					return "the empty profile for absent settings; got " + o.RetString()
				}
				if !strings.HasPrefix(o.Ret[0].String(), "nonnil:default(") {
					return "a default profile built from the stored settings whenever they are present (name rules alone are a restriction too); got " + o.RetString() + " " + o.Ret[0].Dyn
				}
				return ""
			},
		})
	}
	checkFieldMap(c, "C10-R8", "profiledb/internal/filecachepb.(*Access).toInternal", "access.ProfileConfig", map[string]string{
		"AllowedNets": ".AllowlistCidr", "BlockedNets": ".BlocklistCidr", "AllowedASN": ".AllowlistAsn", "BlockedASN": ".BlocklistAsn",
		"BlocklistDomainRules": ".BlocklistDomainRules"})
}

// c10Global: the global blocklist of client subnets.
func c10Global(c *an.Ctx) {
	decide(c, "C10-R10", "access.(*Global).IsBlockedIP", an.DecideCfg{
		Dom: an.Domain{"contains": an.Bools},
		OnCall: func(it *an.Interp, name string, args []an.AV) (an.AV, bool) {
			if name == "p0.blockedNets.Contains" {
				if args[0].String() != "p1" {
					return an.Sym("membership of " + args[0].String()), true
				}
				return it.Feature("contains"), true
			}
			return an.AV{}, false
		},
		Expect: func(f an.Features, o an.AOutcome) string {
			if len(o.Ret) == 1 && o.Ret[0].Kind == an.KConst && o.Ret[0].IsTrue() == f.B("contains") {
				return ""
			}
			return "blocked exactly when the configured subnet set contains the address; got " + o.RetString()
		},
	})
	fn := c.Fn("access.NewGlobal")
	if fn == nil {
		c.Und("C10-R10", "access.NewGlobal keeps the whole subnet list", token.NoPos, "anchor not found")
		return
	}
	c.Analysed("access.NewGlobal")
	n := 0
	bad := ""
	an.Instrs(fn, func(in ssa.Instruction) {
		st, ok := in.(*ssa.Store)
		if !ok {
			return
		}
		if typ, field, _, ok := an.FieldOf(st.Addr); ok && typ == "access.Global" && field == "blockedNets" {
			n++
			v := st.Val
			for {
				switch x := v.(type) {
				case *ssa.MakeInterface:
					v = x.X
					continue
				case *ssa.ChangeType:
					v = x.X
					continue
				}
				break
			}
			if pa, isP := v.(*ssa.Parameter); !isP || an.ParamIndex(pa) != 1 {
				bad = "the set is built from " + v.String() + ", not directly from the configured list"
			}
		}
	})
	c.Check(n == 1 && bad == "", "C10-R10", "access.NewGlobal keeps the whole subnet list", fn.Pos(),
		"the subnet set is the configured list itself", fmt.Sprintf("%d stores; %s", n, bad))
}

// nilWhenDisabled lists the converters that also return nil for a present but
// switched-off message, confirmed by reading: the decoder of the same message
// maps nil to "disabled".
var nilWhenDisabled = map[string]string{
	"profiledb/internal/filecachepb.authToProtobuf": "p0.Enabled=false",
}

// c10DeviceResultSet: the request information always carries what the device
// finder said (also when the profile's message constructor cannot be built):
// the access check and the drop decisions read it.
func c10DeviceResultSet(c *an.Ctx) {
	const k = "dnssvc/internal/ratelimitmw.(*Middleware).newRequestInfo"
	fn := c.Fn(k)
	if fn == nil {
		c.Und("C10-R13", k+" always records the device result", token.NoPos, "anchor not found")
		return
	}
	c.Analysed(k)
	isStore := func(in ssa.Instruction) bool {
		st, ok := in.(*ssa.Store)
		if !ok {
			return false
		}
		typ, field, _, ok := an.FieldOf(st.Addr)
		if !ok || typ != "agd.RequestInfo" || field != "DeviceResult" {
			return false
		}
		// the finder's own answer, not a constant
		_, isConst := st.Val.(*ssa.Const)
		return !isConst
	}
	var find ssa.Instruction
	for _, call := range an.Calls(fn) {
		if call.Common().IsInvoke() && call.Common().Method.Name() == "Find" {
			find = call
		}
	}
	if find == nil {
		c.Und("C10-R13", k+" always records the device result", fn.Pos(), "no call of the device finder")
		return
	}
	leak := exitAvoiding(find, nil, isStore)
	c.Check(!leak, "C10-R13", k+" always records the device result", fn.Pos(),
		"every path from the finder's answer to the return stores it into RequestInfo.DeviceResult",
		"a path returns without storing the finder's answer: the request is treated as profile-less and the profile's access settings are not applied")
}

// c10GlobalHostNormalised: urlfilter matches nothing for an empty host name.
// agdnet.NormalizeDomain turns the root name "." into "", NormalizeQueryDomain
// keeps it: the profile's blocked-name engine uses the latter on the question
// name.  The host argument of every IsBlockedHost call on the access manager is
// walked back; every source must be a result of NormalizeQueryDomain.
func c10GlobalHostNormalised(c *an.Ctx, rule string) (sites int) {
	for _, fn := range c.AllFns {
		if fn.Blocks == nil || c.IsTestFile(fn.Pos()) || !c.Prog.InRepo(fn) {
			continue
		}
		inFn := 0
		for _, call := range an.Calls(fn) {
			cc := call.Common()
			if !cc.IsInvoke() || cc.Method.Name() != "IsBlockedHost" || !strings.HasSuffix(cc.Value.Type().String(), "internal/access.Interface") || len(cc.Args) < 1 {
				continue
			}
			sites++
			inFn++
			c.Analysed(an.FnKey(fn))
			good := 0
			var bad []string
			w := &an.Walker{P: c.Prog,
				Visit: func(v ssa.Value) bool {
					if x, ok := v.(*ssa.Call); ok {
						switch n := an.CalleeName(x); {
						case strings.HasSuffix(n, "agdnet.NormalizeQueryDomain"):
							good++
							return true
						case strings.HasSuffix(n, "agdnet.NormalizeDomain"), n == "strings.ToLower", n == "strings.TrimSuffix":
							bad = append(bad, fmt.Sprintf("%s at %s", an.Short(n), c.Pos(x.Pos())))
							return true
						}
					}
					return false
				},
				Leaf: func(v ssa.Value, why string) {
					if _, isConst := v.(*ssa.Const); isConst {
						return
					}
					bad = append(bad, fmt.Sprintf("%s (%s)", v.String(), why))
				},
			}
			w.Walk(cc.Args[0])
			sort.Strings(bad)
			c.Check(good > 0 && len(bad) == 0, rule, fmt.Sprintf("%s: global blocked-name check %d is asked about the name with the root kept", an.FnKey(fn), inFn), call.Pos(),
				"the host argument is a result of agdnet.NormalizeQueryDomain",
				"the host argument comes from "+strings.Join(bad, ", ")+", not from agdnet.NormalizeQueryDomain: for a question about the root the global rules are asked about the empty name, which matches nothing, while the profile's rules are asked about \".\"")
		}
	}
	return sites
}

// c10ProfileMapWriters: profiles (with their access managers) reach the map
// Default.profiles through the synchronisation alone.  A function of the request
// path that stores its own (copied, possibly outdated) profile there can undo a
// synchronisation that happened while it was waiting for the backend.
func c10ProfileMapWriters(c *an.Ctx, rule string) {
	allowed := map[string]bool{"profiledb.(*Default).setProfiles": true}
	writers := map[string]token.Pos{}
	for _, fn := range c.AllFns {
		k := an.FnKey(fn)
		if fn.Blocks == nil || c.IsTestFile(fn.Pos()) || !strings.HasPrefix(k, "profiledb.") {
			continue
		}
		an.Instrs(fn, func(in ssa.Instruction) {
			mu, ok := in.(*ssa.MapUpdate)
			if !ok {
				return
			}
			ld, ok := mu.Map.(*ssa.UnOp)
			if !ok {
				return
			}
			if t, f, _, ok := an.FieldOf(ld.X); ok && strings.HasSuffix(t, "profiledb.Default") && f == "profiles" {
				// closures count for the function they are written in
				owner := fn
				for owner.Parent() != nil {
					owner = owner.Parent()
				}
				writers[an.FnKey(owner)] = mu.Pos()
			}
		})
	}
	if len(writers) == 0 {
		c.Und(rule, "writers of profiledb.Default.profiles", token.NoPos, "no store into the profile map found")
		return
	}
	var ks []string
	for k := range writers {
		ks = append(ks, k)
	}
	sort.Strings(ks)
	for _, k := range ks {
		c.Analysed(k)
		c.Check(allowed[k], rule, k+" may store into the profile map", writers[k], "the synchronisation's own writer",
			k+" stores a profile into Default.profiles at "+c.Pos(writers[k])+"; only the synchronisation (setProfiles) does: a profile object put there by another path can be older than the one a synchronisation has just stored, and its access rules are then applied to every device of the profile")
	}
}

// c10LocationCacheKey: table of geoip.ipToCacheKey over representative addresses.
func c10LocationCacheKey(c *an.Ctx, rule string) {
	k := "geoip.ipToCacheKey"
	fn := c.Prog.Fn(k)
	key := k + " keys by the leading bytes of the address"
	if fn == nil {
		c.Und(rule, key, token.NoPos, "anchor not found")
		return
	}
	c.Analysed(k)
	// every array-from-slice conversion ([3]byte(x), [7]byte(x)) takes a slice that starts at index 0 of the address
	// bytes (As4 for the three-byte key, As16 for the seven-byte one)
	n := 0
	bad := ""
	an.Instrs(fn, func(in ssa.Instruction) {
		cv, ok := in.(*ssa.SliceToArrayPointer)
		if !ok {
			return
		}
		n++
		sl, ok := cv.X.(*ssa.Slice)
		if !ok {
			bad = "the key bytes at " + c.Pos(cv.Pos()) + " are not a slice of the address array"
			return
		}
		if sl.Low != nil {
			if k, isK := sl.Low.(*ssa.Const); !isK || k.Int64() != 0 {
				bad = "the key at " + c.Pos(cv.Pos()) + " starts at offset " + sl.Low.String() + " of the address bytes, not at the first byte"
			}
		}
		arr := cv.Type().(*types.Pointer).Elem().Underlying().(*types.Array)
		src := ""
		if al, ok := sl.X.(*ssa.Alloc); ok {
			if st := an.SingleStore(al); st != nil {
				if call, ok := st.Val.(*ssa.Call); ok {
					src = an.CalleeName(call)
				}
			}
		}
		want := map[int64]string{3: "(net/netip.Addr).As4", 7: "(net/netip.Addr).As16"}[arr.Len()]
		if want == "" || src != want {
			bad = fmt.Sprintf("the %d-byte key at %s is cut from %s (expected %s)", arr.Len(), c.Pos(cv.Pos()), src, want)
		}
	})
	if n < 2 {
		c.Und(rule, key, fn.Pos(), "expected the two array conversions of the key, found %d", n)
		return
	}
	c.Check(bad == "", rule, key, fn.Pos(), "3 leading bytes of As4, 7 leading bytes of As16",
		bad+": addresses of different networks share one cached location, so the ASN and country that access rules test are those of whichever of them was looked up first")
}

// c10DoHPeerAddress: the global and profile access rules, rate limits and GeoIP
// all judge the address that httpHandler.remoteAddr returns.  Forwarding headers
// (X-Real-IP, X-Forwarded-For) are chosen by the client; without a list of
// trusted proxies they must not enter that address.  remoteAddr, and every
// repository function it calls, reads neither http.Request.Header nor calls a
// method of http.Header.
func c10DoHPeerAddress(c *an.Ctx, rule string) {
	k := "dnsserver.(*httpHandler).remoteAddr"
	fn := c.Prog.Fn(k)
	key := k + " takes the client address from the connection only"
	if fn == nil {
		c.Und(rule, key, token.NoPos, "anchor not found")
		return
	}
	bad := ""
	seen := map[*ssa.Function]bool{}
	var scan func(f *ssa.Function, depth int)
	scan = func(f *ssa.Function, depth int) {
		if f == nil || f.Blocks == nil || seen[f] || depth > 4 {
			return
		}
		seen[f] = true
		c.Analysed(an.FnKey(f))
		an.Instrs(f, func(in ssa.Instruction) {
			switch x := in.(type) {
			case *ssa.FieldAddr:
				if t, fld, _, ok := an.FieldOf(x); ok && t == "net/http.Request" && fld == "Header" {
					bad = "the request's Header is read at " + c.Pos(x.Pos())
				}
			case ssa.CallInstruction:
				if strings.HasPrefix(an.CalleeName(x), "(net/http.Header).") {
					bad = an.Short(an.CalleeName(x)) + " is called at " + c.Pos(x.Pos())
				}
				if callee := an.StaticCallee(x); callee != nil && c.InRepo(callee) {
					scan(callee, depth+1)
				}
			}
		})
	}
	scan(fn, 0)
	c.Check(bad == "", rule, key, fn.Pos(), "no request header is read on the way to the client address",
		bad+": the address that the access rules, the rate limiter and GeoIP judge can be chosen by the client (a blocked client names an allowed address)")
}
