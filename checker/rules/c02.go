package rules

import (
	"fmt"
	"go/token"
	"sort"
	"strings"

	"adgverif/an"

	"golang.org/x/tools/go/ssa"
)

func init() {
	register(&Property{ID: "C02", Technique: "decision-tree extraction (abstract interpretation, loops unrolled over one or two abstract list elements) of the composite filter, the verdict conversion, the filter selection and the response shaping, with call-order and provenance tables; sum-type exhaustiveness",
		Run: runC02, Explain: an.Explanation{
			Text: "R1: composite.New registers the request filters in the documented order (dangerous domains, adult, general safe " +
				"search, YouTube safe search, newly registered). R2: composite.FilterRequest consults the rule lists first; a block or " +
				"rewrite verdict, or an allow verdict from the profile's own rules, is returned without consulting the safety " +
				"filters; otherwise the safety filters are consulted in order and the first verdict (or error) wins; otherwise the " +
				"rule-list verdict stands. R3: filterReqWithRuleLists consults the profile's custom rules first (with the device " +
				"name), then the shared lists in configured order (without it), then the blocked-service lists; a DNS rewrite of an " +
				"earlier source is returned before any later source is consulted; everything else is merged and converted. " +
				"R4: URLFilterResult.ToInternal decides by the highest-priority network rule (allow beats block inside " +
				"GetDNSBasicRule) before hosts-style rules. R5: mainmw.filter selects the group's filter for requests without a " +
				"profile, the profile's filter only when filtering is enabled for both profile and device, and no filter otherwise. " +
				"R6: setFilteredResponse lets the request verdict decide whenever there is one and the response verdict only " +
				"otherwise; a blocked answer is NewBlockedResp of the requester's own constructor for the original request (the " +
				"upstream answer only if that construction fails); every switch over the verdict and blocking-mode sum types names " +
				"all members or panics. R7: the constructor used for a recognised device is built from that profile's blocking mode " +
				"and filtered-response TTL. R8: every rule-list engine (shared lists, blocked services, safe search) has a result cache of its own, so a cached verdict of one source is never returned for another.",
			NotCovered: "what the urlfilter engine matches and the allow/block priority inside GetDNSBasicRule (library); equality of verdicts over all rule-list contents.",
			Rules: map[string]string{"C02-R36": "filterSVCBHint splits the ipv4hint / ipv6hint value on commas and filters each address on its own: a blocked address in second or later position blocks the answer like one in first position", "C02-R35": "ConstructorConfig.validate accepts exactly the configurations with a cloner, a blocking mode and a non-negative filtered-response TTL: a profile whose TTL is 0 gets its own constructor, hence its own blocking mode, not the server-wide fallback", "C02-R34": "the update time handed to the profile conversion is the time of the fetch, not the request's sync point (shared with C12-R10): a full sync, requested with the zero time, does not leave the profile's custom rules looking older than the compiled copy in the cache", "C02-R33": "backendpb.blockingModeToInternal maps every blocking mode of the backend to the mode of the same name (NXDOMAIN, null IP, REFUSED as constants, custom IP through its own converter; no mode at all is null IP): each case of the type switch returns the mode its case type names", "C02-R32": "the file-cache codec writes the parental switches field to field (shared with C14-R6): after a restart a profile has the safe-search filters it had before", "C02-R31": "ConfigSchedule.Contains (the parental pause): the moment is taken in the profile's time zone, the interval is the one of that local weekday, an absent or empty interval contains nothing, and the interval is closed at its start and open at its end, both counted in minutes from that local day's midnight", "C02-R30": "hashableSubdomains checks the whole private domain space when the public suffix is not an ICANN one (shared with C11-R7): a name under a private suffix is still looked up in the hash lists", "C02-R29": "the backend decoder files a custom blocking address under IPv4 only after Is4 and under IPv6 only after Is6 (the constructor cannot build a blocked answer from an address of the wrong family, and the middleware then serves the upstream's answer)", "C02-R28": "reqInfoToFltReq fills the filter request from the request information: the requester's own message constructor, address, host, type and class", "C02-R27": "filterDNSRewrite: a $dnsrewrite match without values for the question type is answered with an empty NOERROR response, never with an error that lets the query fall through", "C02-R26": "tables of setParental, setRuleLists and setSafeBrowsing: nothing is installed for a switched-off (or paused) section; inside an enabled one every selected filter is installed under its own switch, rule lists in the profile's order", "C02-R24": "a name handed to a rule list is lower-cased; no domain-name field of an upstream record reaches DNSResult as spelled", "C02-R25": "the hash-prefix verdict cache, shared by all requesters, holds no message made by one requester's constructor (blocking mode, TTL)", "C02-R23": "hash-prefix refresh: publish, then clear the verdict cache, only after success (shared with C13-R3)", "C02-R22": "a domain name built by concatenation and stored into a record's domain-name field is guarded by a length comparison (SOA mbox of blocked answers)", "C02-R21": "SetReply on a message that already is a response is followed by restoring its response code (cached blocked answers in NXDOMAIN / REFUSED mode)", "C02-RC": "class rules (error chains, shadowed results, character classes, crossed arguments, pool constructors, array pools, loop completeness, loop-carried buffers, replacing setters, complete clones, Grow arithmetic, pooled-buffer escape, sorted searches, fresh decode targets, per-iteration objects, whole-message copies, codec guards) over the packages this property rests on", "C02-R20": "the result-cache key is an injective packing of host, full question type, class and direction (shared with C12-R7)", "C02-R19": "response side of the composite filter: first answer with a verdict decides; every rule source consulted with the response's own data as an answer; answer-type dispatch", "C02-R18": "objects built per filtering group / profile in conversion loops take no slice carried across iterations (shared backing array or accumulation)", "C02-R1": "request-filter order", "C02-R2": "FilterRequest precedence", "C02-R17": "pooled per-request filtering state is fully re-initialised; rule-list gathering loops skip (never stop at) an unknown element", "C02-R15": "the profile's rule-list IDs keep the configured order through the backend conversion (the first list with a matching rewrite wins, so reordering changes verdicts)", "C02-R13": "blocking-mode fields (custom IPv4 / IPv6 answers) are converted name-to-name by the backend and file-cache codecs", "C02-R11": "mainmw.filterRequest / filterResponse: the filter is asked about this request and this upstream answer; a CNAME rewrite makes the rewritten question go upstream and restores ID, question and a leading CNAME on the way back instead of response filtering", "C02-R10": "in-place refreshable lists (safe search): engine swap and cache clear in one write-locked section, queries under the lock (shared with C12-R1/R2)", "C02-R3": "rule-list consultation order and rewrite priority",
				"C02-R4": "network rules before hosts rules", "C02-R5": "filter selection", "C02-R6": "response shaping and exhaustiveness", "C02-R7": "profile constructor provenance", "C02-R8": "one result cache per rule-list engine"},
		}})
}

func runC02(c *an.Ctx) {
	c.Floor("C02-R36", 1)
	c02HintsSplitOnComma(c, "C02-R36")
	c.Floor("C02-R35", 1)
	decide(c, "C02-R35", "dnsmsg.(*ConstructorConfig).validate", an.DecideCfg{
		Dom:    an.Domain{"p0.Cloner": an.NilOrNot, "p0.BlockingMode": an.NilOrNot, "p0.FilteredResponseTTL": an.Ints(-1, 0, 1)},
		OnCall: func(it *an.Interp, name string, args []an.AV) (an.AV, bool) {
			if strings.HasSuffix(name, "errors.Join") && len(args) == 1 && args[0].Kind == an.KNil {
				return an.Nil(), true
			}
			return c20Call(c)(it, name, args)
		},
		Expect: func(f an.Features, o an.AOutcome) string {
			ok := !f.IsNil("p0.Cloner") && !f.IsNil("p0.BlockingMode") && f.I("p0.FilteredResponseTTL") >= 0
			if len(o.Ret) != 1 || ok != (o.Ret[0].Kind == an.KNil) {
				return fmt.Sprintf("accepted=%v (cloner and blocking mode present, TTL not negative; zero is the default a profile gets when the backend sends none); got %s", ok, o.RetString())
			}
			return ""
		},
	})
	c.Floor("C02-R34", 1)
	c.Borrow("C02-R34", runC12, func(o an.Obligation) bool { return o.Rule == "C12-R10" })
	// ---- R33: the backend's blocking modes keep their names
	c.Floor("C02-R33", 4)
	c02BlockingModeNames(c, "C02-R33")
	// ---- R32: parental switches survive the file cache (shared with C14-R6)
	c.Floor("C02-R32", 1)
	c.Borrow("C02-R32", runC14, func(o an.Obligation) bool { return o.Rule == "C14-R6" && strings.Contains(o.Key, "Parental") })
	// ---- R31: the pause schedule of parental protection
	c.Floor("C02-R31", 1)
	decide(c, "C02-R31", "filter.(*ConfigSchedule).Contains", an.DecideCfg{
		Dom: an.Domain{"p0.Week[wd]": an.NilOrNot, "beforestart": an.Bools, "beforeend": an.Bools},
		OnCall: func(it *an.Interp, name string, args []an.AV) (an.AV, bool) {
			a := func(i int) string {
				if i < len(args) {
					return args[i].String()
				}
				return "?"
			}
			switch name {
			case "(time.Time).In":
				if a(0) == "p1" && a(1) == "&p0.TimeZone.Location" {
					return an.Sym("local"), true
				}
				return an.Sym("in(" + a(0) + "," + a(1) + ")"), true
			case "(time.Time).Weekday":
				if a(0) == "local" {
					return an.Sym("wd"), true
				}
				return an.Sym("weekday(" + a(0) + ")"), true
			case "(time.Time).Year", "(time.Time).Month", "(time.Time).Day":
				return an.Sym(strings.TrimPrefix(name, "(time.Time).") + "(" + a(0) + ")"), true
			case "time.Date":
				var as []string
				for i := range args {
					as = append(as, a(i))
				}
				return an.Sym("date(" + strings.Join(as, ",") + ")"), true
			case "(time.Time).Add":
				return an.Sym("add(" + a(0) + "," + a(1) + ")"), true
			case "(time.Time).Before":
				want := map[string]string{"beforestart": "p0.Week[wd].Start", "beforeend": "p0.Week[wd].End"}
				for f, fld := range want {
					if a(0) == "local" && a(1) == "add(date(Year(local),Month(local),Day(local),0,0,0,0,&p0.TimeZone.Location),("+fld+" * 60000000000))" {
						return it.Feature(f), true
					}
				}
				return an.Sym("before(" + a(0) + "," + a(1) + ")"), true
			}
			return an.AV{}, false
		},
		Expect: func(f an.Features, o an.AOutcome) string {
			// the comparison of the interval with the empty one is a comparison of struct values: a free atom
			empty, _ := f.FreeAtom("(*nonnil:p0.Week[wd] == zero:filter.DayInterval)")
			want := !f.IsNil("p0.Week[wd]") && !empty && !f.B("beforestart") && f.B("beforeend")
			if o.RetString() == fmt.Sprint(want) {
				return ""
			}
			return fmt.Sprintf("%v (inside [start, end) of the local weekday's interval, in the profile's time zone)", want)
		},
	})
	// ---- R30: the set of names looked up in the hash lists (shared with C11-R7)
	c.Floor("C02-R30", 1)
	c.Borrow("C02-R30", runC11, func(o an.Obligation) bool { return o.Rule == "C11-R7" && strings.Contains(o.Key, "hashableSubdomains") })
	classSweep(c, "C02")
	// ---- C02-R16: builder wiring of the components this property rests on
	c.Floor("C02-R16", 8)
	builderWiring(c, "C02-R16", map[string][]string{
		"initDNS|dnssvc.HandlersConfig":                           {"FilterStorage", "FilteringGroups", "Messages", "EDEEnabled", "StructuredErrors"},
		"initFilterStorage|filter/filterstorage.ConfigHashPrefix": nil,
		"initMsgConstructor|dnsmsg.ConstructorConfig":             nil,
	})
	c02ListOrder(c)
	c02ResponseSide(c)
	c02ProfileGates(c, "C02-R26")
	c.Floor("C02-R29", 1)
	c02CustomIPFamilies(c, "C02-R29")
	// ---- R28: the filters answer with the requester's own message constructor (its profile's blocking mode and TTL)
	c.Floor("C02-R28", 1)
	checkFieldMap(c, "C02-R28", "dnssvc/internal/mainmw.(*Middleware).reqInfoToFltReq", "filter/internal.Request", map[string]string{
		"Messages": "p2.Messages", "RemoteIP": "p2.RemoteIP", "Host": "p2.Host", "QType": "p2.QType", "QClass": "p2.QClass", "DNS": "p1"})
	c02RewriteAnswer(c, "C02-R27")
	// ---- R24: names taken from the upstream's records are lower-cased before they are matched
	if n := c02NormalisedNames(c, "C02-R24"); n < 3 {
		c.Und("C02-R24", "names handed to the rule lists", token.NoPos, "only %d DNSResult calls found in the composite filter", n)
	}
	// ---- R25: the verdict cache shared by all requesters holds nothing made by one requester's constructor
	if n := c02SharedCacheValues(c, "C02-R25"); n < 2 {
		c.Und("C02-R25", "values of the hash-prefix verdict cache", token.NoPos, "only %d stores to cacheItem.res found", n)
	}
	// ---- R23: a hash list is published and its verdict cache cleared in the order and under the conditions of C13-R3
	c.Floor("C02-R23", 2)
	c.Borrow("C02-R23", runC13, func(o an.Obligation) bool { return o.Rule == "C13-R3" && strings.Contains(o.Key, "hashprefix") })
	// ---- R22: blocked answers stay decodable for the longest question names
	if n := sharedDomainConcatBounded(c, "C02-R22", map[string]string{
		"dnssvc/internal/initial.(*Middleware).newRespDDR SVCB.Target": "the operands are a validated device ID (at most eight characters) and a device domain from the validated configuration; nothing of the request",
	}, "dnsmsg.", "dnssvc", "filter", "dnsserver"); n < 1 {
		c.Und("C02-R22", "concatenated domain names", token.NoPos, "no concatenation into a domain-name field found (anchor: newSOARecords)")
	}
	// ---- R21: a blocked answer keeps the response code of the requester's blocking mode when it is served again
	if n := sharedSetReplyKeepsRcode(c, "C02-R21"); n < 3 {
		c.Und("C02-R21", "SetReply on existing responses", token.NoPos, "only %d SetReply calls found", n)
	}
	// ---- R20: verdicts are cached under a key that keeps the whole question type and class
	c.Floor("C02-R20", 5)
	c12Key(c, "C02-R20", "filter/internal.NewCacheKey", []string{"p0", "p1", "p2", "p3"})
	// ---- R17: per-request filtering state comes out of its pool fully re-initialised (no verdict of a
	// previous request survives), and the loops that gather a profile's rule lists visit every configured list
	c.Floor("C02-R17", 3)
	sharedPoolInitSweep(c, "C02-R17", "dnssvc/internal/mainmw.filteringContext", "filter/internal.Request", "filter/internal.Response")
	if n := sharedLoopCompleteness(c, "C02-R17", "filter/internal/serviceblock.", "filter/filterstorage.", "filter/internal/composite.", "filter/internal/rulelist.", "filter/custom."); n > 0 {
		c.Ok("C02-R17", "rule-list gathering and matching loops skip, never stop at, an unknown element", token.NoPos, "%d range loops examined", n)
	} else {
		c.Und("C02-R17", "rule-list gathering and matching loops skip, never stop at, an unknown element", token.NoPos, "no loop found in the filter packages")
	}
	// ---- R14: the hash-prefix verdict cache stores and hands out copies (a cached block page is not overwritten by pool reuse)
	c.Floor("C02-R14", 4)
	c07Caches(c, "C02-R14")
	// ---- R13: the blocking mode's addresses survive the backend and file-cache conversions under their own family
	c.Floor("C02-R13", 4)
	c14CodecNames(c, "C02-R13", func(dst, src string) bool {
		n := normName(dst) + " " + normName(src)
		return strings.Contains(n, "ipv4") || strings.Contains(n, "ipv6") || strings.Contains(n, "blocking")
	}, 4)
	// ---- R12: a profile's custom rules are compiled anew when the profile was updated
	c.Floor("C02-R12", 1)
	c.Borrow("C02-R12", runC12, func(o an.Obligation) bool { return o.Rule == "C12-R5" })
	c.Floor("C02-R11", 2)
	mainmwFilterSteps(c, "C02-R11")
	c.Floor("C02-R10", 3)
	ruleListRefreshLocking(c, "C02-R10", "C02-R10", map[*ssa.Function]map[ssa.Instruction]an.Held{})
	c.Floor("C02-R9", 1)
	mainPipeline(c, "C02-R9")
	c.Floor("C02-R1", 1)
	c.Floor("C02-R2", 1)
	c.Floor("C02-R3", 1)
	c.Floor("C02-R4", 1)
	c.Floor("C02-R5", 1)
	c.Floor("C02-R6", 5)
	c.Floor("C02-R7", 10)
	const cp = "filter/internal/composite."

	// ---- R1
	decide(c, "C02-R1", cp+"New", an.DecideCfg{
		Dom:    an.Domain{},
		Inline: func(*ssa.Function) bool { return false },
		OnCall: func(it *an.Interp, name string, args []an.AV) (an.AV, bool) {
			if strings.HasPrefix(name, cp+"appendReqFilter") {
				return an.Sym("append(" + args[0].String() + "," + args[1].String() + ")"), true
			}
			return an.AV{}, false
		},
		Expect: func(f an.Features, o an.AOutcome) string {
			var order []string
			for _, e := range o.Effects {
				if e.Kind == "call" && strings.HasPrefix(e.Name, cp+"appendReqFilter") {
					order = append(order, e.Args[1])
				}
			}
			want := []string{"p0.SafeBrowsing", "p0.AdultBlocking", "p0.GeneralSafeSearch", "p0.YouTubeSafeSearch", "p0.NewRegisteredDomains"}
			if strings.Join(order, ",") == strings.Join(want, ",") {
				return ""
			}
			return "request filters registered in the order " + strings.Join(want, ", ") + "; got " + strings.Join(order, ", ")
		},
	})

	// ---- R2
	idCustom, _ := c.ConstStr("filter/internal", "IDCustom")
	decide(c, "C02-R2", cp+"(*Filter).FilterRequest", an.DecideCfg{
		Dom: an.Domain{"rl": an.Strs("nil", "allowed", "blocked", "modreq", "modresp"), "(rlAllowed.List == " + fmt.Sprintf("%q", idCustom) + ")": an.Bools,
			"len(p0.reqFilters)": an.Ints(0, 1, 2), "rf0": an.Strs("nil", "res", "err"), "rf1": an.Strs("nil", "res", "err")},
		OnCall: func(it *an.Interp, name string, args []an.AV) (an.AV, bool) {
			switch {
			case strings.HasSuffix(name, ").filterReqWithRuleLists"):
				switch it.Feature("rl").String() {
				case `"nil"`:
					return an.Nil(), true
				case `"allowed"`:
					a := an.NonNil("rlAllowed")
					a.Dyn = "*filter/internal.ResultAllowed"
					return a, true
				case `"blocked"`:
					a := an.NonNil("rlBlocked")
					a.Dyn = "*filter/internal.ResultBlocked"
					return a, true
				case `"modreq"`:
					a := an.NonNil("rlModReq")
					a.Dyn = "*filter/internal.ResultModifiedRequest"
					return a, true
				default:
					a := an.NonNil("rlModResp")
					a.Dyn = "*filter/internal.ResultModifiedResponse"
					return a, true
				}
			case strings.HasSuffix(name, ".FilterRequest"):
				i := "0"
				if strings.Contains(name, "[1]") {
					i = "1"
				}
				switch it.Feature("rf" + i).String() {
				case `"nil"`:
					return an.AV{Kind: an.KTuple, Tup: []an.AV{an.Nil(), an.Nil()}}, true
				case `"res"`:
					return an.AV{Kind: an.KTuple, Tup: []an.AV{an.NonNil("rfRes" + i), an.Nil()}}, true
				default:
					return an.AV{Kind: an.KTuple, Tup: []an.AV{an.Nil(), an.NonNil("rfErr" + i)}}, true
				}
			}
			return an.AV{}, false
		},
		Args: nil,
		Expect: func(f an.Features, o an.AOutcome) string {
			rl := f.S("rl")
			rlVal := map[string]string{"nil": "nil", "allowed": "nonnil:rlAllowed",
				"blocked": "nonnil:rlBlocked", "modreq": "nonnil:rlModReq", "modresp": "nonnil:rlModResp"}[rl]
			consulted := 0
			for _, cn := range o.Calls() {
				if strings.HasSuffix(cn, ".FilterRequest") {
					consulted++
				}
			}
			early := rl == "blocked" || rl == "modreq" || rl == "modresp" || (rl == "allowed" && f.B("(rlAllowed.List == "+fmt.Sprintf("%q", idCustom)+")"))
			if early {
				if consulted == 0 && o.RetString() == rlVal+", nil" {
					return ""
				}
				return "the rule-list verdict returned without consulting the safety filters"
			}
			want := rlVal + ", nil"
			wantConsulted := int(f.I("len(p0.reqFilters)"))
			for i := 0; i < int(f.I("len(p0.reqFilters)")); i++ {
				v := f.S(fmt.Sprintf("rf%d", i))
				if v == "res" {
					want = fmt.Sprintf("nonnil:rfRes%d, nil", i)
					wantConsulted = i + 1
					break
				}
				if v == "err" {
					want = fmt.Sprintf("nil, nonnil:rfErr%d", i)
					wantConsulted = i + 1
					break
				}
			}
			if o.RetString() == want && consulted == wantConsulted {
				return ""
			}
			return fmt.Sprintf("%s after consulting %d safety filters in order; got %s after %d", want, wantConsulted, o.RetString(), consulted)
		},
	})
	_ = idCustom

	// ---- R3
	decide(c, "C02-R3", cp+"(*Filter).filterReqWithRuleLists", an.DecideCfg{
		Dom: an.Domain{"p0.custom": {an.Nil(), an.NonNil("custom")}, "len(p0.ruleLists)": an.Ints(0, 1, 2), "len(p0.svcLists)": an.Ints(0, 1),
			"mod:custom": an.Bools, "mod:rl0": an.Bools, "mod:rl1": an.Bools},
		OnCall: func(it *an.Interp, name string, args []an.AV) (an.AV, bool) {
			src := func(a an.AV) string {
				s := a.String()
				switch {
				case strings.Contains(s, "custom"):
					return "custom"
				case strings.Contains(s, "ruleLists[0]"):
					return "rl0"
				case strings.Contains(s, "ruleLists[1]"):
					return "rl1"
				case strings.Contains(s, "svcLists[0]"):
					return "svc0"
				}
				return "?" + s
			}
			switch {
			case strings.HasSuffix(name, ").DNSResult"):
				return an.NonNil("dr:" + src(args[0])), true
			case strings.HasSuffix(name, ").DNSRewrites"):
				return an.Sym("rw:" + strings.TrimPrefix(args[0].Key, "dr:")), true
			case strings.HasSuffix(name, "rulelist.ProcessDNSRewrites"):
				s := strings.TrimPrefix(args[1].String(), "rw:")
				if it.Feature("mod:" + s).IsTrue() {
					a := an.NonNil("mod:" + s + ":" + args[2].String())
					a.Dyn = "*filter/internal.ResultModifiedRequest"
					return a, true
				}
				return an.Nil(), true
			case strings.HasSuffix(name, ").ID"):
				return an.AV{Kind: an.KTuple, Tup: []an.AV{an.Sym("id:" + src(args[0])), an.Sym("svc")}}, true
			case strings.HasSuffix(name, "URLFilterResult).ToInternal"):
				return an.Sym("merged"), true
			}
			return an.AV{}, false
		},
		Expect: func(f an.Features, o an.AOutcome) string {
			var consulted, added []string
			for _, e := range o.Effects {
				if e.Kind != "call" {
					continue
				}
				if strings.HasSuffix(e.Name, ").DNSResult") {
					who := "?"
					switch {
					case strings.Contains(e.Args[0], "custom"):
						who = "custom"
						if e.Args[2] != "p1.ClientName" {
							return "the custom rules consulted with the device name"
						}
					case strings.Contains(e.Args[0], "ruleLists[0]"):
						who = "rl0"
					case strings.Contains(e.Args[0], "ruleLists[1]"):
						who = "rl1"
					case strings.Contains(e.Args[0], "svcLists[0]"):
						who = "svc0"
					}
					if who != "custom" && e.Args[2] != `""` {
						return "shared and service lists consulted without a client name"
					}
					if e.Args[1] != "p1.RemoteIP" || e.Args[3] != "p1.Host" || e.Args[4] != "p1.QType" || e.Args[5] != "false" {
						return "every list consulted with this request's address, host and type"
					}
					consulted = append(consulted, who)
				}
				if strings.HasSuffix(e.Name, "URLFilterResult).Add") {
					added = append(added, strings.TrimPrefix(e.Args[1], "nonnil:dr:"))
				}
			}
			var want []string
			ret := "merged"
			done := false
			if !f.IsNil("p0.custom") {
				want = append(want, "custom")
				if f.B("mod:custom") {
					ret = "nonnil:mod:custom:" + fmt.Sprintf("%q", idCustom)
					done = true
				}
			}
			for i := 0; !done && i < int(f.I("len(p0.ruleLists)")); i++ {
				k := fmt.Sprintf("rl%d", i)
				want = append(want, k)
				if f.B("mod:" + k) {
					ret = "nonnil:mod:" + k + ":id:" + k
					done = true
				}
			}
			if !done && f.I("len(p0.svcLists)") == 1 {
				want = append(want, "svc0")
			}
			if strings.Join(consulted, ",") != strings.Join(want, ",") {
				return fmt.Sprintf("sources consulted in the order %v; got %v", want, consulted)
			}
			if o.RetString() != ret {
				return ret + "; got " + o.RetString()
			}
			if !done && strings.Join(added, ",") != strings.Join(want, ",") {
				return fmt.Sprintf("every consulted source merged into the result (%v); got %v", want, added)
			}
			return ""
		},
	})

	// ---- R4
	decide(c, "C02-R4", "filter/internal/rulelist.(*URLFilterResult).ToInternal", an.DecideCfg{
		Dom: an.Domain{"nr": an.NilOrNot},
		OnCall: func(it *an.Interp, name string, args []an.AV) (an.AV, bool) {
			switch {
			case strings.HasSuffix(name, "rules.GetDNSBasicRule"):
				if args[0].String() != "p0.networkRules" {
					return an.Sym("basic rule of other data"), true
				}
				v := it.Feature("nr")
				if v.Kind == an.KNonNil {
					v.Key = "nr"
				}
				return v, true
			case strings.HasSuffix(name, "rulelist.ruleDataToResult"):
				return an.Sym("netresult(" + args[1].String() + "," + args[3].String() + ")"), true
			case strings.HasSuffix(name, ").hostsRulesToResult"):
				return an.Sym("hostsresult"), true
			}
			return an.AV{}, false
		},
		Expect: func(f an.Features, o an.AOutcome) string {
			want := "hostsresult"
			if !f.IsNil("nr") {
				want = "netresult(nr.FilterListID,nr.Whitelist)"
			}
			if o.RetString() == want {
				return ""
			}
			return want + " (network rules decide before hosts-style rules; an allow rule yields an allow verdict)"
		},
	})

	// ---- R4b: hosts-style rules, verdict construction and $dnsrewrite priority
	c02Rewrites(c)

	// ---- R5
	decide(c, "C02-R5", "dnssvc/internal/mainmw.(*Middleware).filter", an.DecideCfg{
		Dom: an.Domain{"prof": an.NilOrNot, "prof.FilteringEnabled": an.Bools, "dev.FilteringEnabled": an.Bools},
		OnCall: func(it *an.Interp, name string, args []an.AV) (an.AV, bool) {
			switch {
			case strings.HasSuffix(name, "(*agd.RequestInfo).DeviceData"):
				p := it.Feature("prof")
				if p.Kind == an.KNonNil {
					p.Key = "prof"
				}
				return an.AV{Kind: an.KTuple, Tup: []an.AV{p, an.NonNil("dev")}}, true
			case name == "p0.fltStrg.ForConfig":
				return an.Sym("filter(" + args[1].String() + ")"), true
			}
			return an.AV{}, false
		},
		Expect: func(f an.Features, o an.AOutcome) string {
			want := "filter(nil)"
			switch {
			case f.IsNil("prof"):
				want = "filter(nonnil:p2.FilteringGroup.FilterConfig)"
			case f.B("prof.FilteringEnabled") && f.B("dev.FilteringEnabled"):
				want = "filter(nonnil:prof.FilterConfig)"
			}
			got := o.RetString()
			if got == want || strings.ReplaceAll(got, "nonnil:", "") == strings.ReplaceAll(want, "nonnil:", "") {
				return ""
			}
			return want + " (group filter without a profile; profile filter only when enabled for profile and device; otherwise none); got " + got
		},
	})

	// ---- R6
	const mm = "dnssvc/internal/mainmw.(*Middleware)."
	resTypes := an.Strs("*filter/internal.ResultAllowed", "*filter/internal.ResultBlocked", "*filter/internal.ResultModifiedRequest", "*filter/internal.ResultModifiedResponse")
	shape := func(fnKey, field string, noReq bool) {
		decide(c, "C02-R6", fnKey, an.DecideCfg{
			Dom: an.Domain{"type(p2." + field + ")": append(append([]an.AV{}, resTypes...), an.Nil()), "blkerr": an.Bools},
			OnCall: func(it *an.Interp, name string, args []an.AV) (an.AV, bool) {
				switch {
				case name == "(*dnsmsg.Constructor).NewBlockedResp":
					if args[0].String() != "p3.Messages" || args[1].String() != "p2.originalRequest" {
						return an.Sym("blocked response built from other data: " + args[0].String() + "," + args[1].String()), true
					}
					if it.Feature("blkerr").IsTrue() {
						return an.AV{Kind: an.KTuple, Tup: []an.AV{an.Nil(), an.NonNil("blkErr")}}, true
					}
					return an.AV{Kind: an.KTuple, Tup: []an.AV{an.NonNil("blocked"), an.Nil()}}, true
				case strings.HasSuffix(name, ").setFilteredResponseNoReq"):
					return an.AV{Kind: an.KTuple}, true
				}
				return an.AV{}, false
			},
			Expect: func(f an.Features, o an.AOutcome) string {
				t := ""
				if !f.IsNil("type(p2." + field + ")") {
					t = f.S("type(p2." + field + ")")
				}
				final := ""
				for _, e := range o.Effects {
					if e.Kind == "store" && e.Name == "p2.filteredResponse" {
						final = e.Args[0]
					}
				}
				deleg := o.HasCall("(*dnssvc/internal/mainmw.Middleware).setFilteredResponseNoReq")
				switch t {
				case "":
					if !noReq {
						if deleg && final == "" {
							return ""
						}
						return "the response verdict to decide when there is no request verdict"
					}
					if final == "p2.originalResponse" {
						return ""
					}
					return "the upstream answer when nothing was filtered"
				case "*filter/internal.ResultBlocked":
					want := "nonnil:blocked"
					if f.B("blkerr") {
						want = "p2.originalResponse"
					}
					if final == want && !deleg {
						return ""
					}
					return "a blocked answer built by the requester's constructor for the original request (" + want + "); got " + final
				case "*filter/internal.ResultAllowed":
					if final == "p2.originalResponse" && !deleg {
						return ""
					}
					return "the upstream answer for an allowed query"
				case "*filter/internal.ResultModifiedRequest":
					if noReq {
						if o.Exit == "panic" {
							return ""
						}
						return "a panic: rewrites are never response verdicts"
					}
					if final == "p2.originalResponse" && !deleg {
						return ""
					}
					return "the answer of the rewritten query"
				default:
					if noReq {
						if o.Exit == "panic" {
							return ""
						}
						return "a panic: rewrites are never response verdicts"
					}
					if final == "p2.requestResult.Msg" && !deleg {
						return ""
					}
					return "the rewritten response of the request verdict; got " + final
				}
			},
		})
	}
	shape(mm+"setFilteredResponse", "requestResult", false)
	shape(mm+"setFilteredResponseNoReq", "responseResult", true)
	checkSumSwitch(c, "C02-R6", mm+"setFilteredResponse", "filter/internal.Result")
	checkSumSwitch(c, "C02-R6", mm+"setFilteredResponseNoReq", "filter/internal.Result")
	checkSumSwitch(c, "C02-R6", "dnsmsg.(*Constructor).NewBlockedResp", "dnsmsg.BlockingMode")
	// the custom-IP shape: the configured addresses of the question's own family, NODATA (never an error, which
	// would make the caller fall back to the upstream answer) for every other type or an empty family
	typeA, _ := c.ConstInt("github.com/miekg/dns", "TypeA")
	typeAAAA, _ := c.ConstInt("github.com/miekg/dns", "TypeAAAA")
	typeHTTPS, _ := c.ConstInt("github.com/miekg/dns", "TypeHTTPS")
	decide(c, "C02-R6", "dnsmsg.(*Constructor).newBlockedCustomIPResp", an.DecideCfg{
		Dom: an.Domain{"p1.Question[0].Qtype": an.Ints(typeA, typeAAAA, typeHTTPS), "len(p2.IPv4)": an.Ints(0, 1), "len(p2.IPv6)": an.Ints(0, 1)},
		OnCall: func(it *an.Interp, name string, args []an.AV) (an.AV, bool) {
			switch {
			case strings.HasSuffix(name, "Constructor).NewBlockedRespIP"):
				var as []string
				for _, a := range args[1:] {
					as = append(as, a.String())
				}
				return an.AV{Kind: an.KTuple, Tup: []an.AV{an.NonNil("ipresp(" + strings.Join(as, ",") + ")"), an.Nil()}}, true
			case strings.HasSuffix(name, "Constructor).NewBlockedRespRCode"):
				return an.NonNil("rcoderesp(" + args[1].String() + "," + args[2].String() + ")"), true
			case strings.HasSuffix(name, "Constructor).newSOARecords"):
				return an.Sym("soa(" + args[1].String() + ")"), true
			}
			return an.AV{}, false
		},
		Expect: func(f an.Features, o an.AOutcome) string {
			qt := f.I("p1.Question[0].Qtype")
			want := "nonnil:rcoderesp(p1,0), nil"
			switch {
			case qt == typeA && f.I("len(p2.IPv4)") > 0:
				want = "nonnil:ipresp(p1,p2.IPv4), nil"
			case qt == typeAAAA && f.I("len(p2.IPv6)") > 0:
				want = "nonnil:ipresp(p1,p2.IPv6), nil"
			}
			if o.RetString() != want {
				return want + " (addresses only for their own question type; every other case is NODATA, not an error); got " + o.RetString()
			}
			return ""
		},
	})
	// ---- R18: rule-list IDs of one filtering group are not built in a buffer shared with the next group
	if n := sharedNoLoopCarried(c, "C02-R18", "cmd.", "filter/filterstorage.", "filter."); n >= 0 {
		c.Ok("C02-R18", "per-group and per-profile filter configurations take no buffer carried over from the previous element", token.NoPos, "%d loops with a slice carried across iterations examined", n)
	}

	// ---- R8: one result cache per rule-list engine (a shared cache serves one list's verdict for another)
	c.Floor("C02-R8", 3)
	cachePerEngine(c, "C02-R8")

	// the recycled request information is fully reset, so the default constructor is restored for requests without a profile
	sharedPoolInit(c, "C02-R7", "dnssvc/internal/ratelimitmw.(*Middleware).newRequestInfo")

	// ---- R7 constructor provenance in newRequestInfo
	if fn := c.Fn("dnssvc/internal/ratelimitmw.(*Middleware).newRequestInfo"); fn == nil {
		c.Und("C02-R7", "newRequestInfo", token.NoPos, "anchor not found")
	} else {
		c.Analysed(an.FnKey(fn))
		want := map[string]string{"BlockingMode": ".Profile.BlockingMode", "FilteredResponseTTL": ".Profile.FilteredResponseTTL"}
		got := map[string]bool{}
		for _, fld := range []string{"BlockingMode", "FilteredResponseTTL"} {
			for _, fs := range c.FieldStores("dnsmsg.ConstructorConfig", fld) {
				if fs.In != fn {
					continue
				}
				if ap, ok := an.AccessPath(fs.Val); ok && strings.HasSuffix(ap, want[fld]) {
					got[fld] = true
				}
			}
			c.Check(got[fld], "C02-R7", "newRequestInfo constructor "+fld, fn.Pos(), "taken from the recognised profile",
				"the per-request constructor's "+fld+" is not taken from the recognised profile")
		}
	}
}

// c02Rewrites holds the tables of the rule-data conversions of package rulelist.
func c02Rewrites(c *an.Ctx) {
	dt := func(n string) int64 { v, _ := c.ConstInt("github.com/miekg/dns", n); return v }
	tA, tAAAA := dt("TypeA"), dt("TypeAAAA")
	const rl = "filter/internal/rulelist."
	decide(c, "C02-R4", rl+"(*URLFilterResult).hostsRulesToResult", an.DecideCfg{
		Dom: an.Domain{"len(p0.hostRules4)": an.Ints(0, 2), "len(p0.hostRules6)": an.Ints(0, 2), "p2": an.Ints(tA, tAAAA, dt("TypeTXT"))},
		OnCall: func(it *an.Interp, name string, args []an.AV) (an.AV, bool) {
			if strings.HasSuffix(name, "rulelist.ruleDataToResult") {
				return an.NonNil("result(" + args[0].String() + "," + args[1].String() + "," + args[2].String() + "," + args[3].String() + ")"), true
			}
			return an.AV{}, false
		},
		Expect: func(f an.Features, o an.AOutcome) string {
			n4, n6, qt := f.I("len(p0.hostRules4)"), f.I("len(p0.hostRules6)"), f.I("p2")
			if n4 == 0 && n6 == 0 {
				if o.RetString() == "nil" {
					return ""
				}
				return "no verdict without hosts-style rules"
			}
			src := "p0.hostRules6[0]"
			if (qt == tA && n4 > 0) || (!(qt == tAAAA && n6 > 0) && n4 > 0) {
				src = "p0.hostRules4[0]"
			}
			want := fmt.Sprintf("nonnil:result(p1,%s.FilterListID,%s.RuleText,false)", src, src)
			if o.RetString() != want {
				return "a block verdict from the first hosts rule of the question's family, else of the other family (" + want + "); got " + o.RetString()
			}
			return ""
		},
	})
	bs, _ := c.ConstStr("filter/internal", "IDBlockedService")
	eq := fmt.Sprintf("(p0.Map(p1)#0 == %q)", bs)
	decide(c, "C02-R4", rl+"ruleDataToResult", an.DecideCfg{
		Dom: an.Domain{eq: an.Bools, "p3": an.Bools},
		Expect: func(f an.Features, o an.AOutcome) string {
			if o.Exit != "return" || len(o.Ret) != 1 {
				return "a result"
			}
			wantT := "*filter/internal.ResultBlocked"
			if f.B("p3") {
				wantT = "*filter/internal.ResultAllowed"
			}
			if o.Ret[0].Dyn != wantT {
				return wantT + " (an allow-list rule allows, every other rule blocks); got " + o.Ret[0].Dyn
			}
			k := strings.TrimPrefix(o.Ret[0].String(), "&")
			wantRule := "p2"
			if f.B(eq) {
				wantRule = "p0.Map(p1)#1"
			}
			if got := o.Mem[k+".List"].String(); got != "p0.Map(p1)#0" {
				return "the verdict attributed to the list the rule came from; got " + got
			}
			if got := o.Mem[k+".Rule"].String(); got != wantRule {
				return "the rule text (the service ID for blocked services) " + wantRule + "; got " + got
			}
			return ""
		},
	})
	// $dnsrewrite priority: the first CNAME or non-success rcode wins at once, else the values are collected per type
	decide(c, "C02-R4", rl+"processDNSRewriteRules", an.DecideCfg{
		Dom: an.Domain{"len(p0)": an.Ints(0, 1, 2), `(p0[0].DNSRewrite.NewCNAME == "")`: an.Bools, `(p0[1].DNSRewrite.NewCNAME == "")`: an.Bools,
			"p0[0].DNSRewrite.RCode": an.Ints(0, 5), "p0[1].DNSRewrite.RCode": an.Ints(0, 5)},
		Expect: func(f an.Features, o an.AOutcome) string {
			if o.Exit != "return" || len(o.Ret) != 1 {
				return "a result"
			}
			k := strings.TrimPrefix(o.Ret[0].String(), "&")
			n := int(f.I("len(p0)"))
			for i := 0; i < n; i++ {
				r := fmt.Sprintf("p0[%d]", i)
				if !f.B(fmt.Sprintf(`(%s.DNSRewrite.NewCNAME == "")`, r)) {
					if o.Mem[k+".CanonName"].String() == r+".DNSRewrite.NewCNAME" && o.Mem[k+".ResRuleText"].String() == r+".RuleText" {
						return ""
					}
					return "the first CNAME rule decides alone (canonical name and rule text of " + r + "); got " + o.Mem[k+".CanonName"].String()
				}
				if f.I(r+".DNSRewrite.RCode") != 0 {
					if rc := o.Mem[k+".RCode"].String(); (rc == r+".DNSRewrite.RCode" || rc == fmt.Sprint(f.I(r+".DNSRewrite.RCode"))) && o.Mem[k+".ResRuleText"].String() == r+".RuleText" && o.Mem[k+".CanonName"].String() != r+".DNSRewrite.NewCNAME" {
						return ""
					}
					return "the first non-success rcode rule decides alone (" + r + "); got rcode " + o.Mem[k+".RCode"].String()
				}
			}
			if cn := o.Mem[k+".CanonName"].String(); cn != "" && cn != `""` {
				return "no canonical name without a CNAME rule; got " + cn
			}
			// collected rules
			var appended int
			for _, e := range o.Effects {
				if e.Kind == "store" && strings.Contains(e.Name, ".DNSRewrite.RRType]") && len(e.Args) == 1 && strings.Contains(e.Args[0], ".DNSRewrite.Value") {
					appended++
				}
			}
			if appended != n {
				return fmt.Sprintf("every success rule's value collected under its record type (%d); got %d", n, appended)
			}
			return ""
		},
	})
	decide(c, "C02-R4", rl+"ProcessDNSRewrites", an.DecideCfg{
		Dom: an.Domain{"len(p1)": an.Ints(0, 2), `(rr.CanonName == "")`: an.Bools, "self": an.Bools, "rr.RCode": an.Ints(0, 3), "fderr": an.Bools},
		OnCall: func(it *an.Interp, name string, args []an.AV) (an.AV, bool) {
			switch {
			case strings.HasSuffix(name, "rulelist.processDNSRewriteRules"):
				if args[0].String() != "p1" {
					return an.Sym("rewrites of other rules"), true
				}
				return an.NonNil("rr"), true
			case name == "strings.EqualFold":
				a, b := args[0].String(), args[1].String()
				if (a == "rr.CanonName" && b == "p0.Host") || (b == "rr.CanonName" && a == "p0.Host") {
					return it.Feature("self"), true
				}
				return an.Sym("comparison of " + a + " and " + b), true
			case strings.HasSuffix(name, "dnsmsg.Clone"):
				return an.NonNil("clone(" + args[0].String() + ")"), true
			case strings.HasSuffix(name, "dns.Fqdn"):
				return an.Sym("fqdn(" + args[0].String() + ")"), true
			case strings.HasSuffix(name, "Constructor).NewBlockedRespRCode"):
				return an.NonNil("rcoderesp(" + args[0].String() + "," + args[1].String() + "," + args[2].String() + ")"), true
			case strings.HasSuffix(name, "rulelist.filterDNSRewrite"):
				if it.Feature("fderr").IsTrue() {
					return an.AV{Kind: an.KTuple, Tup: []an.AV{an.Nil(), an.NonNil("fdErr")}}, true
				}
				return an.AV{Kind: an.KTuple, Tup: []an.AV{an.NonNil("rewritten(" + args[0].String() + "," + args[1].String() + ")"), an.Nil()}}, true
			}
			return an.AV{}, false
		},
		Expect: func(f an.Features, o an.AOutcome) string {
			if o.Exit != "return" || len(o.Ret) != 1 {
				return "a result"
			}
			k := strings.TrimPrefix(o.Ret[0].String(), "&")
			mem := func(fld string) string { return o.Mem[k+"."+fld].String() }
			switch {
			case f.I("len(p1)") == 0:
				if o.RetString() == "nil" {
					return ""
				}
				return "no verdict without $dnsrewrite rules"
			case !f.B(`(rr.CanonName == "")`):
				if f.B("self") {
					if o.RetString() == "nil" {
						return ""
					}
					return "no verdict for a rewrite of a host to itself"
				}
				if o.Ret[0].Dyn != "*filter/internal.ResultModifiedRequest" || mem("Msg") != "nonnil:clone(p0.DNS)" || mem("List") != "p2" || mem("Rule") != "rr.ResRuleText" {
					return "a rewritten copy of this request attributed to this list and rule; got " + o.Ret[0].Dyn + " " + mem("Msg")
				}
				if got := o.Mem["clone(p0.DNS).Question[0].Name"].String(); got != "fqdn(rr.CanonName)" {
					return "the copy's question renamed to the canonical name; got " + got
				}
				return ""
			case f.I("rr.RCode") != 0:
				if o.Ret[0].Dyn != "*filter/internal.ResultModifiedResponse" || (mem("Msg") != "nonnil:rcoderesp(p0.Messages,p0.DNS,rr.RCode)" && mem("Msg") != fmt.Sprintf("nonnil:rcoderesp(p0.Messages,p0.DNS,%d)", f.I("rr.RCode"))) || mem("List") != "p2" || mem("Rule") != "rr.ResRuleText" {
					return "a response with the rule's rcode built by the requester's constructor for this request; got " + mem("Msg")
				}
				return ""
			case f.B("fderr"):
				if o.RetString() == "nil" {
					return ""
				}
				return "no verdict when the rewrite cannot be built"
			}
			if o.Ret[0].Dyn != "*filter/internal.ResultModifiedResponse" || mem("Msg") != "nonnil:rewritten(p0,nonnil:rr)" || mem("List") != "p2" {
				return "the rewritten response attributed to this list; got " + mem("Msg")
			}
			return ""
		},
	})
}

// c02ListOrder is the table of the backend conversion of a profile's rule-list
// IDs: valid IDs are kept in the order sent, invalid ones skipped, nothing is
// sorted or removed otherwise.
func c02ListOrder(c *an.Ctx) {
	c.Floor("C02-R15", 1)
	decide(c, "C02-R15", "backendpb.(*RuleListsSettings).toInternal", an.DecideCfg{
		Dom: an.Domain{"p0": {an.Nil(), an.NonNil("x")}, "len(x.Ids)": an.Ints(0, 2), "e0": an.Bools, "e1": an.Bools},
		OnCall: func(it *an.Interp, name string, args []an.AV) (an.AV, bool) {
			switch {
			case strings.HasSuffix(name, "filter/internal.NewID"), strings.HasSuffix(name, "filter.NewID"):
				i := "0"
				if strings.Contains(args[0].String(), "[1]") {
					i = "1"
				}
				if it.Feature("e" + i).IsTrue() {
					return an.AV{Kind: an.KTuple, Tup: []an.AV{an.CStr(""), an.NonNil("idErr")}}, true
				}
				return an.AV{Kind: an.KTuple, Tup: []an.AV{an.Sym("id" + i), an.Nil()}}, true
			case name == "fmt.Errorf":
				return an.NonNil("wrapped"), true
			case strings.HasSuffix(name, "errcoll.Collect"):
				return an.Nil(), true
			}
			return an.AV{}, false
		},
		Expect: func(f an.Features, o an.AOutcome) string {
			if len(o.Ret) != 1 {
				return "a configuration"
			}
			for _, e := range o.Effects {
				if e.Kind == "call" && (strings.HasPrefix(e.Name, "slices.") || strings.HasPrefix(e.Name, "sort.")) {
					return "the IDs left in the order the backend sent them (rule lists are consulted in this order and the first matching rewrite wins); got a call of " + e.Name
				}
			}
			k := strings.TrimPrefix(o.Ret[0].String(), "&")
			if f.IsNil("p0") {
				return ""
			}
			var want []string
			for i := 0; i < int(f.I("len(x.Ids)")); i++ {
				if !f.B(fmt.Sprintf("e%d", i)) {
					want = append(want, fmt.Sprintf("id%d", i))
				}
			}
			ids := o.Mem[k+".IDs"]
			var got []string
			for _, t := range ids.Tup {
				got = append(got, t.String())
			}
			if strings.Join(got, ",") != strings.Join(want, ",") {
				return "the valid IDs in order [" + strings.Join(want, ",") + "]; got [" + strings.Join(got, ",") + "] (" + ids.String() + ")"
			}
			if o.Mem[k+".Enabled"].String() != "x.Enabled" {
				return "the enabled flag copied"
			}
			return ""
		},
	})
}

// c02ResponseSide holds the tables of response filtering in the composite
// filter: every answer record is examined until the first verdict; address and
// CNAME answers go through every rule source (shared lists, the profile's own
// rules with the device name, blocked-service lists) with this response's
// client address, as a response (isAns = true); HTTPS answers go through the
// same sources once per address hint.
func c02ResponseSide(c *an.Ctx) {
	const cp = "filter/internal/composite."
	c.Floor("C02-R19", 3)
	decide(c, "C02-R19", cp+"(*Filter).FilterResponse", an.DecideCfg{
		Dom: an.Domain{"len(p2.DNS.Answer)": an.Ints(0, 1, 2, 3), "hit:0": an.Bools, "hit:1": an.Bools, "hit:2": an.Bools},
		OnCall: func(it *an.Interp, name string, args []an.AV) (an.AV, bool) {
			if strings.HasSuffix(name, ").filterAnswer") {
				for i := 0; i < 3; i++ {
					if args[2].String() == fmt.Sprintf("p2.DNS.Answer[%d]", i) && args[1].String() == "p2" {
						if it.Feature(fmt.Sprintf("hit:%d", i)).IsTrue() {
							return an.NonNil(fmt.Sprintf("verdict%d", i)), true
						}
						return an.Nil(), true
					}
				}
				return an.Sym("filterAnswer(" + args[1].String() + "," + args[2].String() + ")"), true
			}
			return an.AV{}, false
		},
		Expect: func(f an.Features, o an.AOutcome) string {
			want := "nil, nil"
			for i := int64(0); i < f.I("len(p2.DNS.Answer)"); i++ {
				if f.B(fmt.Sprintf("hit:%d", i)) {
					want = fmt.Sprintf("nonnil:verdict%d, nil", i)
					break
				}
			}
			if o.RetString() != want {
				return want + " (the first answer record with a verdict decides; every record before it was examined); got " + o.RetString()
			}
			return ""
		},
	})
	decide(c, "C02-R19", cp+"(*Filter).filterRespWithRuleLists", an.DecideCfg{
		Dom: an.Domain{"p0.custom": {an.Nil(), an.NonNil("custom")}, "len(p0.ruleLists)": an.Ints(0, 1, 2), "len(p0.svcLists)": an.Ints(0, 1, 2)},
		OnCall: func(it *an.Interp, name string, args []an.AV) (an.AV, bool) {
			switch {
			case strings.HasSuffix(name, ").DNSResult"):
				return an.NonNil("dr:" + args[0].String()), true
			case strings.HasSuffix(name, "URLFilterResult).Add"):
				return an.Nil(), true
			case strings.HasSuffix(name, "URLFilterResult).ToInternal"):
				return an.Sym("merged(" + args[2].String() + ")"), true
			}
			return an.AV{}, false
		},
		Expect: func(f an.Features, o an.AOutcome) string {
			var want, got []string
			for i := int64(0); i < f.I("len(p0.ruleLists)"); i++ {
				want = append(want, fmt.Sprintf("p0.ruleLists[%d]", i))
			}
			if !f.IsNil("p0.custom") {
				want = append(want, "custom")
			}
			for i := int64(0); i < f.I("len(p0.svcLists)"); i++ {
				want = append(want, fmt.Sprintf("p0.svcLists[%d]", i))
			}
			adds := 0
			for _, e := range o.Effects {
				if e.Kind != "call" {
					continue
				}
				if strings.HasSuffix(e.Name, "URLFilterResult).Add") {
					adds++
				}
				if !strings.HasSuffix(e.Name, ").DNSResult") {
					continue
				}
				who := e.Args[0]
				name := `""`
				if strings.Contains(who, "custom") {
					who, name = "custom", "p1.ClientName"
				}
				got = append(got, strings.TrimSuffix(strings.TrimPrefix(who, "nonnil:"), ".filter"))
				if e.Args[1] != "p1.RemoteIP" || e.Args[2] != name || e.Args[3] != "p2" || e.Args[4] != "p3" || e.Args[5] != "true" {
					return "every source consulted with this response's client address, the device name for the profile's own rules only, the answer's host and type, as an answer; got " + strings.Join(e.Args[1:], ",")
				}
			}
			if strings.Join(got, " ") != strings.Join(want, " ") || adds != len(want) {
				return fmt.Sprintf("every rule source consulted and merged: %v; got %v (%d merged)", want, got, adds)
			}
			if o.RetString() != "merged(p3)" {
				return "the merged verdict for the answer's type; got " + o.RetString()
			}
			return ""
		},
	})
	decide(c, "C02-R19", cp+"parseRespAnswer", an.DecideCfg{
		Dom: an.Domain{"type(p0)": an.Strs("*github.com/miekg/dns.A", "*github.com/miekg/dns.AAAA", "*github.com/miekg/dns.CNAME", "*github.com/miekg/dns.TXT")},
		OnCall: func(it *an.Interp, name string, args []an.AV) (an.AV, bool) {
			switch {
			case name == "(net.IP).String":
				return an.Sym("str(" + args[0].String() + ")"), true
			case name == "strings.TrimSuffix":
				return an.Sym("trim(" + args[0].String() + ")"), true
			}
			return an.AV{}, false
		},
		Expect: func(f an.Features, o an.AOutcome) string {
			tA, _ := c.ConstInt("github.com/miekg/dns", "TypeA")
			tAAAA, _ := c.ConstInt("github.com/miekg/dns", "TypeAAAA")
			tCNAME, _ := c.ConstInt("github.com/miekg/dns", "TypeCNAME")
			if len(o.Ret) != 3 {
				return "three results"
			}
			want := map[string]string{
				"*github.com/miekg/dns.A":     fmt.Sprintf("%d, true", tA),
				"*github.com/miekg/dns.AAAA":  fmt.Sprintf("%d, true", tAAAA),
				"*github.com/miekg/dns.CNAME": fmt.Sprintf("%d, true", tCNAME),
				"*github.com/miekg/dns.TXT":   "0, false",
			}[f.S("type(p0)")]
			if got := o.Ret[1].String() + ", " + o.Ret[2].String(); got != want {
				return "type and ok = " + want + " (addresses and CNAME targets are filtered, each under its own type); got " + got
			}
			return ""
		},
	})
}

// c02NormalisedNames: a host name that is matched against the rule lists is
// lower-cased first.  The request side gets its name from Request.Host, which
// the initial middleware normalises; on the response side the names come from
// the records of the upstream's answer, which spells them as it likes.  Every
// string handed to a rule list's DNSResult is walked back to its sources: a
// domain-name field of a miekg/dns record reached without passing
// strings.ToLower or one of the agdnet normalisers is a violation.
func c02NormalisedNames(c *an.Ctx, rule string) (sinks int) {
	nameFields := map[string]bool{"Target": true, "Name": true, "Ns": true, "Mbox": true, "Ptr": true, "Mx": true}
	for _, fn := range c.Prog.AllFns {
		if !c.Prog.InRepo(fn) || c.Prog.IsTestFile(fn.Pos()) || !strings.HasPrefix(an.FnKey(fn), "filter/internal/composite.") {
			continue
		}
		for _, call := range an.Calls(fn) {
			name := an.CalleeName(call)
			if !strings.Contains(name, "filter/internal/rulelist.") || !strings.HasSuffix(name, ").DNSResult") {
				continue
			}
			args := call.Common().Args
			if len(args) < 4 {
				continue
			}
			sinks++
			c.Analysed(an.FnKey(fn))
			var raw []string
			leaves := 0
			w := &an.Walker{P: c.Prog, NoFieldJoin: true,
				Visit: func(v ssa.Value) bool {
					switch x := v.(type) {
					case *ssa.Call:
						n := an.CalleeName(x)
						if n == "strings.ToLower" || strings.Contains(n, "agdnet.Normalize") || strings.HasSuffix(n, "netip.Addr).String") || strings.HasSuffix(n, "net.IP).String") {
							leaves++
							return true
						}
					case *ssa.UnOp:
						if typ, field, _, ok := an.FieldOf(x.X); ok && x.Op == token.MUL {
							if strings.HasPrefix(typ, "github.com/miekg/dns.") && nameFields[field] {
								raw = append(raw, fmt.Sprintf("%s.%s (%s)", an.Short(typ), field, c.Prog.Pos(x.Pos())))
								return true
							}
							leaves++
							return true
						}
					}
					return false
				},
				Leaf: func(ssa.Value, string) { leaves++ },
				ThroughCalls: func(cl *ssa.Call) ([]ssa.Value, bool) {
					switch an.CalleeName(cl) {
					case "strings.TrimSuffix", "strings.TrimPrefix", "strings.Split", "strings.TrimSpace", "strings.Clone":
						return cl.Call.Args[:1], true
					}
					return nil, false
				},
			}
			w.Walk(args[3])
			sort.Strings(raw)
			key := fmt.Sprintf("%s: the name matched by %s is lower-cased", an.FnKey(fn), an.Short(name))
			c.Check(len(raw) == 0, rule, key, call.Pos(),
				fmt.Sprintf("%d sources of the name examined; none is a domain-name field of an upstream record taken as spelled", leaves),
				"the name comes from "+strings.Join(raw, ", ")+" without strings.ToLower or an agdnet normaliser: an upstream that spells the name with capitals evades every rule for it")
		}
	}
	return sinks
}

// c02SharedCacheValues: a cache that is shared by all requesters must not hold
// values built from one requester's own state.  For every store into a value
// field of the hash-prefix filters' cache items the stored value is walked
// back; a message made by a method of the requester's *dnsmsg.Constructor
// (Request.Messages: blocking mode, TTL, error texts of that profile) is such
// a value unless the cache key is built from the request's constructor too.
func c02SharedCacheValues(c *an.Ctx, rule string) (n int) {
	stores := c.Prog.FieldStores("filter/hashprefix.cacheItem", "res")
	for _, fs := range stores {
		fn := fs.Store.Parent()
		if c.Prog.IsTestFile(fn.Pos()) {
			continue
		}
		n++
		c.Analysed(an.FnKey(fn))
		made := map[string]bool{}
		storedType := an.TypeName(an.Deref(an.Unwrap(fs.Val).Type()))
		w := &an.Walker{P: c.Prog, NoFieldJoin: true,
			Visit: func(v ssa.Value) bool {
				if ex, ok := v.(*ssa.Extract); ok {
					v = ex.Tuple
				}
				if al, ok := v.(*ssa.Alloc); ok {
					// the type switch in front of the store has selected one kind of result
					if tn := an.TypeName(an.Deref(al.Type())); strings.HasPrefix(tn, "filter/internal.Result") && tn != storedType {
						return true
					}
				}
				if call, ok := v.(*ssa.Call); ok {
					name := an.CalleeName(call)
					if strings.Contains(name, "dnsmsg.Constructor).") {
						if len(call.Call.Args) > 0 {
							if ap, ok := an.AccessPath(call.Call.Args[0]); ok && strings.HasSuffix(ap, ".Messages") {
								made[fmt.Sprintf("%s (%s)", an.Short(name), c.Prog.Pos(call.Pos()))] = true
								return true
							}
						}
					}
				}
				return false
			},
			Opaque: func(callee *ssa.Function) bool {
				k := an.FnKey(callee)
				return strings.HasSuffix(k, ").Clone") || strings.HasSuffix(k, ").CloneForReq")
			},
			ThroughCalls: func(cl *ssa.Call) ([]ssa.Value, bool) {
				k := an.CalleeName(cl)
				if strings.HasSuffix(k, ").Clone") || strings.HasSuffix(k, ").CloneForReq") {
					return cl.Call.Args, true
				}
				return nil, false
			},
		}
		w.Walk(fs.Val)
		var ms []string
		for m := range made {
			ms = append(ms, m)
		}
		sort.Strings(ms)
		key := fmt.Sprintf("%s: the shared verdict cache holds nothing built by one requester's constructor (%s stored)", an.FnKey(fn), storedType)
		c.Check(len(ms) == 0, rule, key, fs.Store.Pos(), "the cached value does not depend on Request.Messages",
			"the cached value contains a message made by "+strings.Join(ms, ", ")+": the cache key is host, type and class only, so every later requester is served the first requester's blocking-mode shape and TTL")
	}
	return n
}

// c02ProfileGates holds the tables of the three functions that turn a
// profile's (or a filtering group's) settings into the filters of its composite
// filter: nothing is installed for a switched-off section, and inside an
// enabled section every selected filter is installed, each under its own
// switch.
func c02ProfileGates(c *an.Ctx, rule string) {
	const st = "filter/filterstorage.(*Default)."
	decide(c, rule, st+"setSafeBrowsing", an.DecideCfg{
		Dom: an.Domain{"p2.Enabled": an.Bools, "p2.DangerousDomainsEnabled": an.Bools, "p2.NewlyRegisteredDomainsEnabled": an.Bools},
		Expect: func(f an.Features, o an.AOutcome) string {
			var want []string
			if f.B("p2.Enabled") && f.B("p2.DangerousDomainsEnabled") {
				want = append(want, "p1.SafeBrowsing=p0.dangerous")
			}
			if f.B("p2.Enabled") && f.B("p2.NewlyRegisteredDomainsEnabled") {
				want = append(want, "p1.NewRegisteredDomains=p0.newlyRegistered")
			}
			return sameStores(want, o)
		},
	})
	decide(c, rule, st+"setRuleLists", an.DecideCfg{
		Dom: an.Domain{"p2.Enabled": an.Bools, "len(p2.IDs)": an.Ints(0, 1, 2),
			"p0.ruleLists[p2.IDs[0]]": an.NilOrNot, "p0.ruleLists[p2.IDs[1]]": an.NilOrNot},
		Expect: func(f an.Features, o an.AOutcome) string {
			// the final value of the composite's lists: the selected lists that exist, in the profile's order
			want := "p1.RuleLists"
			n := 0
			if f.B("p2.Enabled") {
				for i := int64(0); i < f.I("len(p2.IDs)"); i++ {
					if !f.IsNil(fmt.Sprintf("p0.ruleLists[p2.IDs[%d]]", i)) {
						want = fmt.Sprintf("builtin.append(%s, [nonnil:p0.ruleLists[p2.IDs[%d]]])", want, i)
						n++
					}
				}
			}
			got := "p1.RuleLists"
			if ss := o.Stores(); len(ss) > 0 {
				got = strings.TrimPrefix(ss[len(ss)-1], "p1.RuleLists=")
			}
			if o.Exit != "return" || got != want || len(o.Stores()) != n {
				return fmt.Sprintf("rule lists %s (nothing when the section is switched off; otherwise every selected list that exists, in order)", want)
			}
			return ""
		},
	})
	decide(c, rule, st+"setParental", an.DecideCfg{
		Dom: an.Domain{"p3.Enabled": an.Bools, "p3.PauseSchedule": an.NilOrNot, "paused": an.Bools, "p3.AdultBlockingEnabled": an.Bools,
			"p3.SafeSearchGeneralEnabled": an.Bools, "p3.SafeSearchYouTubeEnabled": an.Bools, "len(p3.BlockedServices)": an.Ints(0, 1), "p0.services": an.NilOrNot},
		OnCall: func(it *an.Interp, name string, args []an.AV) (an.AV, bool) {
			switch {
			case strings.HasSuffix(name, "ConfigSchedule).Contains"):
				return an.CBool(it.Feature("paused").IsTrue()), true
			case strings.HasSuffix(name, ".Now"):
				return an.Sym("now"), true
			case strings.HasSuffix(name, "serviceblock.Filter).RuleLists"):
				return an.Sym("serviceLists"), true
			}
			return an.AV{}, false
		},
		Expect: func(f an.Features, o an.AOutcome) string {
			var want []string
			if f.B("p3.Enabled") && !(!f.IsNil("p3.PauseSchedule") && f.B("paused")) {
				if f.B("p3.AdultBlockingEnabled") {
					want = append(want, "p2.AdultBlocking=p0.adult")
				}
				if f.B("p3.SafeSearchGeneralEnabled") {
					want = append(want, "p2.GeneralSafeSearch=p0.safeSearchGeneral")
				}
				if f.B("p3.SafeSearchYouTubeEnabled") {
					want = append(want, "p2.YouTubeSafeSearch=p0.safeSearchYouTube")
				}
				if f.I("len(p3.BlockedServices)") > 0 && !f.IsNil("p0.services") {
					want = append(want, "p2.ServiceLists=serviceLists")
				}
			}
			return sameStores(want, o)
		},
	})
}

// sameStores compares the store effects of an outcome with the wanted set.
func sameStores(want []string, o an.AOutcome) string {
	got := o.Stores()
	sort.Strings(got)
	sort.Strings(want)
	if o.Exit != "return" || strings.Join(got, "; ") != strings.Join(want, "; ") {
		return "exactly the stores [" + strings.Join(want, "; ") + "]"
	}
	return ""
}

// c02RewriteAnswer holds the table of filterDNSRewrite: a $dnsrewrite match
// with record values answers the question whatever its type; without values
// for the question's type the answer is empty (NOERROR), not an error that
// would let the query fall through to lower-priority rules.  Only a missing
// value table and a value that cannot be converted are errors.
func c02RewriteAnswer(c *an.Ctx, rule string) {
	decide(c, rule, "filter/internal/rulelist.filterDNSRewrite", an.DecideCfg{
		Dom: an.Domain{"p1.Response": an.NilOrNot, "converr": an.Bools, "ansnil": an.Bools,
			"len(nonnil:p1.Response[p0.DNS.Question[0].Qtype])": an.Ints(0, 1, 2)},
		OnCall: func(it *an.Interp, name string, args []an.AV) (an.AV, bool) {
			switch {
			case strings.HasSuffix(name, "rulelist.filterDNSRewriteResponse"):
				if it.Feature("converr").IsTrue() {
					return an.AV{Kind: an.KTuple, Tup: []an.AV{an.Nil(), an.NonNil("convErr")}}, true
				}
				if it.Feature("ansnil").IsTrue() {
					return an.AV{Kind: an.KTuple, Tup: []an.AV{an.Nil(), an.Nil()}}, true
				}
				return an.AV{Kind: an.KTuple, Tup: []an.AV{an.NonNil("ans"), an.Nil()}}, true
			case strings.HasSuffix(name, "Constructor).NewBlockedRespRCode"):
				return an.NonNil("resp"), true
			case name == "fmt.Errorf":
				return an.NonNil("wrapped"), true
			}
			return an.AV{}, false
		},
		Expect: func(f an.Features, o an.AOutcome) string {
			if len(o.Ret) != 2 {
				return "two results"
			}
			n := f.I("len(nonnil:p1.Response[p0.DNS.Question[0].Qtype])")
			fail := f.IsNil("p1.Response") || n > 0 && f.B("converr")
			if fail != (o.Ret[0].Kind == an.KNil && o.Ret[1].Kind != an.KNil) || !fail && (o.Ret[0].String() != "nonnil:resp" || o.Ret[1].Kind != an.KNil) {
				return fmt.Sprintf("error=%v (only without a value table or for a value that cannot be converted; no values for the question's type is an empty answer); got %s", fail, o.RetString())
			}
			return ""
		},
	})
}

// c02CustomIPFamilies: a custom blocking address is filed under the family it
// belongs to.  The constructor builds the blocked A answer from the IPv4 list
// and refuses an address of the other family; the main middleware then falls
// back to the upstream's answer, so a blocked name resolves.  In the backend
// decoder every store into the IPv4 (IPv6) list of a custom blocking mode is
// dominated by an Is4 (Is6) test of the stored address.
func c02CustomIPFamilies(c *an.Ctx, rule string) {
	const k = "backendpb.(*BlockingModeCustomIP).toInternal"
	fn := c.Fn(k)
	key := k + " files custom addresses under their own family"
	if fn == nil {
		c.Und(rule, key, token.NoPos, "anchor not found")
		return
	}
	c.Analysed(k)
	n := 0
	var bad []string
	an.Instrs(fn, func(in ssa.Instruction) {
		st, ok := in.(*ssa.Store)
		if !ok {
			return
		}
		typ, f, _, ok := an.FieldOf(st.Addr)
		if !ok || !strings.HasSuffix(typ, "dnsmsg.BlockingModeCustomIP") || f != "IPv4" && f != "IPv6" {
			return
		}
		n++
		want := map[string]string{"IPv4": "Is4", "IPv6": "Is6"}[f]
		tested := false
		for _, e := range an.DominatingConds(st.Block()) {
			w := &an.Walker{P: c.Prog, NoFieldJoin: true, Opaque: func(*ssa.Function) bool { return true },
				Visit: func(v ssa.Value) bool {
					if call, ok := v.(*ssa.Call); ok && strings.HasSuffix(an.CalleeName(call), "netip.Addr)."+want) {
						tested = true
						return true
					}
					return false
				}}
			w.Walk(e.If.Cond)
		}
		if !tested {
			bad = append(bad, fmt.Sprintf("%s is filled at %s without an %s test", f, c.Pos(st.Pos()), want))
		}
	})
	sort.Strings(bad)
	c.Check(n >= 2 && len(bad) == 0, rule, key, fn.Pos(), fmt.Sprintf("%d stores into the address lists, each behind a test of the address family", n),
		strings.Join(bad, "; ")+": an address of the other family is accepted, the blocked answer for that question type cannot be built, and the client is given the upstream's answer for a blocked name")
}

// c02BlockingModeNames: blockingModeToInternal is a type switch over the
// generated oneof wrappers DNSProfile_BlockingMode{CustomIp,Nxdomain,NullIp,
// Refused}.  On the edge where the value has the wrapper type X, the function
// returns, as its first result, a new dnsmsg.BlockingMode<X> (names compared
// without case and punctuation), or for CustomIp the result of the wrapped
// message's own toInternal.
func c02BlockingModeNames(c *an.Ctx, rule string) {
	k := "backendpb.blockingModeToInternal"
	fn := c.Prog.Fn(k)
	if fn == nil {
		c.Und(rule, k, token.NoPos, "anchor not found")
		return
	}
	c.Analysed(k)
	norm := func(s string) string {
		s = strings.ToLower(s)
		s = strings.NewReplacer("_", "", "blockingmode", "", "dnsprofile", "", "*", "").Replace(s)
		if i := strings.LastIndex(s, "."); i >= 0 {
			s = s[i+1:]
		}
		return s
	}
	an.Instrs(fn, func(in ssa.Instruction) {
		ta, ok := in.(*ssa.TypeAssert)
		if !ok || !ta.CommaOk {
			return
		}
		caseName := norm(ta.AssertedType.String())
		key := fmt.Sprintf("%s: case %s returns the mode of that name", k, an.Short(ta.AssertedType.String()))
		// the block entered when the assertion holds
		var okBlock *ssa.BasicBlock
		for _, r := range *ta.Referrers() {
			ex, isEx := r.(*ssa.Extract)
			if !isEx || ex.Index != 1 {
				continue
			}
			for _, r2 := range *ex.Referrers() {
				if ifi, isIf := r2.(*ssa.If); isIf {
					okBlock = ifi.Block().Succs[0]
				}
			}
		}
		if okBlock == nil {
			c.Und(rule, key, ta.Pos(), "the branch of the type-switch case was not found")
			return
		}
		ret, isRet := okBlock.Instrs[len(okBlock.Instrs)-1].(*ssa.Return)
		if !isRet || len(ret.Results) != 2 {
			c.Und(rule, key, ta.Pos(), "the case does not return directly")
			return
		}
		got := ""
		switch v := ret.Results[0].(type) {
		case *ssa.MakeInterface:
			got = norm(v.X.Type().String())
		case *ssa.Extract:
			if call, isCall := v.Tuple.(*ssa.Call); isCall {
				// the wrapped message's own converter
				if callee := an.StaticCallee(call); callee != nil && callee.Name() == "toInternal" && callee.Signature.Recv() != nil {
					got = norm(callee.Signature.Recv().Type().String())
				}
			}
		}
		c.Check(got == caseName, rule, key, ta.Pos(), "returns "+got,
			fmt.Sprintf("the case for %s returns the mode %q, not %q: profiles that chose one blocking mode are answered in another", an.Short(ta.AssertedType.String()), got, caseName))
	})
}
