// Package rules holds the per-property rule tables.
package rules

import (
	"sort"

	"adgverif/an"
)

// Property is the registration record of one property's rules.
type Property struct {
	ID        string
	Run       func(c *an.Ctx)
	Explain   an.Explanation
	Technique string
}

var registry = map[string]*Property{}

func register(p *Property) { registry[p.ID] = p }

// Get returns the property with the given id, or nil.
func Get(id string) *Property { return registry[id] }

// IDs returns all registered property ids.
func IDs() (ids []string) {
	for id := range registry {
		ids = append(ids, id)
	}
	sort.Strings(ids)
	return ids
}
