package rules

import (
	"fmt"
	"go/constant"
	"go/token"
	"sort"
	"strings"

	"adgverif/an"

	"golang.org/x/tools/go/ssa"
)

// phiLeaves returns the non-phi values v can stand for.
func phiLeaves(v ssa.Value) (ls []ssa.Value) {
	seen := map[ssa.Value]bool{}
	var walk func(ssa.Value)
	walk = func(x ssa.Value) {
		if seen[x] {
			return
		}
		seen[x] = true
		if p, ok := x.(*ssa.Phi); ok {
			for _, e := range p.Edges {
				walk(e)
			}
			return
		}
		ls = append(ls, x)
	}
	walk(v)
	return ls
}

// c12FilterPerRequest: the composite filter of a request is asked of the filter
// storage for this very request.  Everything mainmw's filter returns is the
// result of a ForConfig call made in the same invocation; a filter remembered
// from an earlier request keeps the rule lists, engines and result caches of the
// storage state before the last refresh.
func c12FilterPerRequest(c *an.Ctx, rule string) {
	k := "dnssvc/internal/mainmw.(*Middleware).filter"
	fn := c.Fn(k)
	key := k + " returns a filter built for this request"
	if fn == nil {
		c.Und(rule, key, token.NoPos, "anchor not found")
		return
	}
	c.Analysed(k)
	bad, n := "", 0
	for _, r := range an.Returns(fn) {
		if len(r.Results) != 1 {
			continue
		}
		for _, l := range phiLeaves(r.Results[0]) {
			n++
			call, ok := l.(*ssa.Call)
			if !ok || !call.Common().IsInvoke() || call.Common().Method.Name() != "ForConfig" {
				bad = fmt.Sprintf("%s returns %s", c.Pos(r.Pos()), l.String())
			}
		}
	}
	if n == 0 {
		c.Und(rule, key, fn.Pos(), "no returned value found")
		return
	}
	c.Check(bad == "", rule, key, fn.Pos(),
		fmt.Sprintf("all %d returned values are results of filter.Storage.ForConfig calls of this invocation", n),
		bad+": a filter that does not come from a ForConfig call of this request outlives the refresh of the lists it was built from")
}

// c03SyncTimeWriters: the synchronisation point of the profile database moves
// only when a fetch succeeded (refresh) or a file cache was loaded; the code
// that prepares a request does not touch it.  A failed full sync must leave the
// point where it was, or the next partial sync asks for everything, gets no
// deletions and advances the point past them.
func c03SyncTimeWriters(c *an.Ctx, rule string) {
	allowed := map[string]string{
		"profiledb.New":                      "initial zero value",
		"profiledb.(*Default).refresh":       "after a successful fetch",
		"profiledb.(*Default).Refresh":       "after a successful fetch",
		"profiledb.(*Default).loadFileCache": "the cache's own sync point",
	}
	n := 0
	for _, fs := range c.FieldStores("profiledb.Default", "syncTime") {
		if c.IsTestFile(fs.Store.Pos()) {
			continue
		}
		n++
		k := an.FnKey(fs.In)
		c.Analysed(k)
		why, ok := allowed[k]
		key := k + " writes the sync point"
		if ok {
			c.Ok(rule, key, fs.Store.Pos(), "allowed writer: %s", why)
		} else {
			c.Bad(rule, key, fs.Store.Pos(), "the sync point is written outside the successful-fetch and cache-load paths: a failed synchronisation loses it, and the partial sync that follows skips the deletions made meanwhile")
		}
	}
	if n == 0 {
		c.Und(rule, "profiledb.Default.syncTime writers", token.NoPos, "no store into the field found")
	}
}

// c04MinTTLPerRecord: SetMinTTL raises each record's TTL to the minimum and to
// nothing else: the stored value is max(the record's own TTL, the parameter).
func c04MinTTLPerRecord(c *an.Ctx, rule string) {
	k := "dnsmsg.SetMinTTL"
	fn := c.Fn(k)
	key := k + " stores max(own TTL, minimum)"
	if fn == nil {
		c.Und(rule, key, token.NoPos, "anchor not found")
		return
	}
	c.Analysed(k)
	n, bad := 0, ""
	an.Instrs(fn, func(in ssa.Instruction) {
		st, ok := in.(*ssa.Store)
		if !ok {
			return
		}
		_, field, base, ok := an.FieldOf(st.Addr)
		if !ok || field != "Ttl" {
			return
		}
		n++
		call, isCall := st.Val.(*ssa.Call)
		if !isCall {
			bad = c.Pos(st.Pos()) + ": the stored value is not a max(...) call"
			return
		}
		b, isB := call.Call.Value.(*ssa.Builtin)
		if !isB || b.Name() != "max" || len(call.Call.Args) != 2 {
			bad = c.Pos(st.Pos()) + ": the stored value is not max of two values"
			return
		}
		own, param := false, false
		for _, a := range call.Call.Args {
			if p, isP := a.(*ssa.Parameter); isP && len(fn.Params) == 2 && p == fn.Params[1] {
				param = true
			}
			if u, isU := a.(*ssa.UnOp); isU && u.Op == token.MUL {
				if _, f2, b2, ok2 := an.FieldOf(u.X); ok2 && f2 == "Ttl" && b2 == base {
					own = true
				}
			}
		}
		if !own || !param {
			bad = c.Pos(st.Pos()) + ": the arguments of max are not the record's own TTL and the minimum parameter (a value carried over from another record raises this record's TTL above max(original, minimum))"
		}
	})
	if n == 0 {
		c.Und(rule, key, fn.Pos(), "no store into a TTL found")
		return
	}
	c.Check(bad == "", rule, key, fn.Pos(), fmt.Sprintf("%d TTL store(s): max(own TTL, parameter)", n), bad)
}

// c05FamilyFields: SubnetByLocation reads the per-family tables of the family it
// was asked for: a field with ipv4 in its name only behind fam == AddrFamilyIPv4,
// one with ipv6 only behind fam == AddrFamilyIPv6.
func c05FamilyFields(c *an.Ctx, rule string) (sites int) {
	k := "geoip.(*File).SubnetByLocation"
	fn := c.Fn(k)
	if fn == nil {
		c.Und(rule, k, token.NoPos, "anchor not found")
		return 0
	}
	c.Analysed(k)
	v4, ok4 := c.ConstInt("github.com/AdguardTeam/golibs/netutil", "AddrFamilyIPv4")
	v6, ok6 := c.ConstInt("github.com/AdguardTeam/golibs/netutil", "AddrFamilyIPv6")
	if !ok4 || !ok6 || len(fn.Params) != 3 {
		c.Und(rule, k, fn.Pos(), "address family constants or the family parameter not found")
		return 0
	}
	fam := fn.Params[2]
	famAt := func(b *ssa.BasicBlock) int64 {
		for _, e := range an.DominatingConds(b) {
			bo, ok := e.If.Cond.(*ssa.BinOp)
			if !ok || bo.Op != token.EQL || !e.Branch {
				continue
			}
			var other ssa.Value
			switch {
			case bo.X == fam:
				other = bo.Y
			case bo.Y == fam:
				other = bo.X
			default:
				continue
			}
			if k, isC := other.(*ssa.Const); isC && k.Value != nil && k.Value.Kind() == constant.Int {
				v, _ := constant.Int64Val(k.Value)
				return v
			}
		}
		return -1
	}
	an.Instrs(fn, func(in ssa.Instruction) {
		fa, ok := in.(*ssa.FieldAddr)
		if !ok {
			return
		}
		typ, field, _, ok := an.FieldOf(fa)
		if !ok || !strings.HasSuffix(typ, "geoip.File") {
			return
		}
		var want int64
		switch {
		case strings.Contains(field, "ipv4"):
			want = v4
		case strings.Contains(field, "ipv6"):
			want = v6
		default:
			return
		}
		sites++
		key := fmt.Sprintf("%s reads %s for its own family (%s)", k, field, c.Pos(fa.Pos()))
		key = fmt.Sprintf("%s reads %s #%d", k, field, sites)
		got := famAt(fa.Block())
		c.Check(got == want, rule, key, fa.Pos(),
			"read behind the comparison of the family with the field's own family",
			fmt.Sprintf("the table %s is read on the path of address family %d, not %d: a client of one family is given a subnet, and the cache entries, of the other", field, got, want))
	})
	return sites
}

// sharedNoGlobalMutation: code of the request path does not write through a
// package-level variable: a store whose address is reached from a global
// (fields of a global struct, or of the object a global pointer refers to) is a
// write into an object every goroutine shares.  Assigning the variable itself
// (initialisation, setters) is not covered; init functions are exempt.
func sharedNoGlobalMutation(c *an.Ctx, rule string, prefixes ...string) (scanned int) {
	var rootGlobal func(v ssa.Value, depth int) *ssa.Global
	rootGlobal = func(v ssa.Value, depth int) *ssa.Global {
		if depth > 8 {
			return nil
		}
		switch x := v.(type) {
		case *ssa.FieldAddr:
			if g, ok := x.X.(*ssa.Global); ok {
				return g
			}
			return rootGlobal(x.X, depth+1)
		case *ssa.IndexAddr:
			if g, ok := x.X.(*ssa.Global); ok {
				return g
			}
			return rootGlobal(x.X, depth+1)
		case *ssa.UnOp:
			if x.Op == token.MUL {
				if g, ok := x.X.(*ssa.Global); ok {
					return g
				}
				return rootGlobal(x.X, depth+1)
			}
		}
		return nil
	}
	type hit struct {
		fn, g string
		pos   token.Pos
	}
	var hits []hit
	for _, fn := range c.AllFns {
		k := an.FnKey(fn)
		if fn.Blocks == nil || c.IsTestFile(fn.Pos()) || fn.Name() == "init" || strings.HasPrefix(fn.Name(), "init#") {
			continue
		}
		match := false
		for _, p := range prefixes {
			if strings.HasPrefix(k, p) {
				match = true
			}
		}
		if !match {
			continue
		}
		scanned++
		an.Instrs(fn, func(in ssa.Instruction) {
			st, ok := in.(*ssa.Store)
			if !ok {
				return
			}
			if _, direct := st.Addr.(*ssa.Global); direct {
				return
			}
			if g := rootGlobal(st.Addr, 0); g != nil {
				if g.Pkg != nil && g.Pkg.Pkg != nil && !strings.Contains(g.Pkg.Pkg.Path(), "AdGuardDNS") {
					return
				}
				hits = append(hits, hit{k, g.Name(), st.Pos()})
			}
		})
	}
	sort.Slice(hits, func(i, j int) bool { return hits[i].fn+hits[i].g < hits[j].fn+hits[j].g })
	for _, h := range hits {
		c.Analysed(h.fn)
		c.Bad(rule, h.fn+" writes through package-level "+h.g, h.pos,
			"a store through a package-level variable outside init: the object is shared by every request and goroutine (a record template filled in per request is seen, half-written, by the others)")
	}
	if len(hits) == 0 {
		c.Ok(rule, fmt.Sprintf("no store through a package-level variable (%s)", strings.Join(prefixes, " ")), token.NoPos,
			"%d functions scanned; stores whose address is reached from a global: none", scanned)
	}
	return scanned
}

// c11ClientHeaders: the HTTP client sets only the headers it is meant to set.
// In particular it never sets Accept-Encoding itself: the transport then stops
// decompressing, and the raw gzip bytes of a list would be written to the cache
// file and parsed as its lines.
func c11ClientHeaders(c *an.Ctx, rule string) (sites int) {
	k := "agdhttp.(*Client).do"
	fn := c.Fn(k)
	if fn == nil {
		c.Und(rule, k, token.NoPos, "anchor not found")
		return 0
	}
	c.Analysed(k)
	allowed := map[string]bool{"Content-Type": true, "X-Request-Id": true, "User-Agent": true}
	for _, call := range an.Calls(fn) {
		n := an.CalleeName(call)
		if n != "(net/http.Header).Set" && n != "(net/http.Header).Add" {
			continue
		}
		sites++
		args := call.Common().Args
		name := "?"
		if len(args) >= 2 {
			if kc, ok := args[1].(*ssa.Const); ok && kc.Value != nil && kc.Value.Kind() == constant.String {
				name = constant.StringVal(kc.Value)
			}
		}
		key := fmt.Sprintf("%s sets header %s", k, name)
		c.Check(allowed[name], rule, key, call.Pos(),
			"one of the headers the client is meant to set (content type, request ID, user agent)",
			"the client sets "+name+" itself: with an explicit Accept-Encoding the transport no longer decompresses the body, and the compressed bytes are stored and parsed as the list")
	}
	return sites
}

// c11TXTAllStrings: NewAnswerTXT puts all the strings it was given into the
// record: newTXT gets the parameter itself, not a part of it.
func c11TXTAllStrings(c *an.Ctx, rule string) {
	k := "dnsmsg.(*Constructor).NewAnswerTXT"
	fn := c.Fn(k)
	key := k + " answers with every string given"
	if fn == nil {
		c.Und(rule, key, token.NoPos, "anchor not found")
		return
	}
	c.Analysed(k)
	var found ssa.CallInstruction
	for _, call := range an.Calls(fn) {
		if strings.HasSuffix(an.CalleeName(call), "dnsmsg.newTXT") {
			found = call
		}
	}
	if found == nil || len(fn.Params) != 3 || len(found.Common().Args) != 2 {
		c.Und(rule, key, fn.Pos(), "newTXT call not found")
		return
	}
	c.Check(found.Common().Args[1] == ssa.Value(fn.Params[2]), rule, key, found.Pos(),
		"the record is built from the strings parameter itself",
		"the record is built from "+found.Common().Args[1].String()+", not from the whole strings parameter: hashes that matched are silently left out of a NOERROR answer")
}

// c17PackReqBounded: packReq writes the query into the caller's pooled buffer;
// PackBuffer allocates a new slice when the buffer is too small, and the bytes
// would then not be in the buffer that is sent.  Every PackBuffer call is behind
// a comparison of the message length with the buffer length.
func c17PackReqBounded(c *an.Ctx, rule string) (sites int) {
	k := "dnsserver/forward.(*UpstreamPlain).packReq"
	fn := c.Fn(k)
	if fn == nil {
		c.Und(rule, k, token.NoPos, "anchor not found")
		return 0
	}
	c.Analysed(k)
	dependsOn := func(v ssa.Value, pred func(ssa.Value) bool) bool {
		hit := false
		w := &an.Walker{P: c.Prog, NoFieldJoin: true,
			Visit: func(x ssa.Value) bool {
				if pred(x) {
					hit = true
					return true
				}
				return false
			},
			Leaf: func(ssa.Value, string) {},
		}
		w.Walk(v)
		return hit
	}
	isMsgLen := func(x ssa.Value) bool {
		call, ok := x.(*ssa.Call)
		return ok && an.CalleeName(call) == "(*github.com/miekg/dns.Msg).Len"
	}
	isBufLen := func(x ssa.Value) bool {
		call, ok := x.(*ssa.Call)
		if !ok {
			return false
		}
		b, isB := call.Call.Value.(*ssa.Builtin)
		return isB && b.Name() == "len" && len(call.Call.Args) == 1 && len(fn.Params) == 4 && call.Call.Args[0] == ssa.Value(fn.Params[2])
	}
	for _, call := range an.Calls(fn) {
		if an.CalleeName(call) != "(*github.com/miekg/dns.Msg).PackBuffer" {
			continue
		}
		sites++
		guarded := false
		for _, e := range an.DominatingConds(call.Block()) {
			bo, ok := e.If.Cond.(*ssa.BinOp)
			if !ok {
				continue
			}
			if dependsOn(bo.X, isMsgLen) && dependsOn(bo.Y, isBufLen) || dependsOn(bo.Y, isMsgLen) && dependsOn(bo.X, isBufLen) {
				guarded = true
			}
		}
		key := fmt.Sprintf("%s PackBuffer #%d is behind a length check against the buffer", k, sites)
		c.Check(guarded, rule, key, call.Pos(),
			"a comparison of the message length with len(buf) dominates the call",
			"no comparison of the message length with the buffer length dominates the call: for a larger query PackBuffer allocates, and what is sent from the pooled buffer is not the whole query")
	}
	return sites
}

// c01DebugClassRestored: mainmw resolves a CHAOS-class (debug) query as class IN
// by rewriting the class in the server's own request message.  The server builds
// its SERVFAIL from that message when the pipeline fails, so the rewrite has to
// be undone on every exit of the handler: if newFilteringContext stores into the
// request's question class, the handler closure defers a function that stores
// the question class back.  (A pipeline that works on a copy has nothing to
// restore and satisfies the rule as well.)
func c01DebugClassRestored(c *an.Ctx, rule string) {
	k := "dnssvc/internal/mainmw.(*Middleware).newFilteringContext"
	fn := c.Fn(k)
	key := "dnssvc/internal/mainmw: the request's question class is the client's again when the handler returns"
	if fn == nil {
		c.Und(rule, key, token.NoPos, "anchor not found")
		return
	}
	c.Analysed(k)
	isReqClassStore := func(st *ssa.Store, root func(ssa.Value) bool) bool {
		typ, field, base, ok := an.FieldOf(st.Addr)
		if !ok || field != "Qclass" || !strings.HasSuffix(typ, "dns.Question") {
			return false
		}
		// base: &req.Question[i]
		for depth := 0; base != nil && depth < 8; depth++ {
			if root(base) {
				return true
			}
			switch x := base.(type) {
			case *ssa.IndexAddr:
				base = x.X
			case *ssa.FieldAddr:
				base = x.X
			case *ssa.UnOp:
				base = x.X
			default:
				base = nil
			}
		}
		return false
	}
	rewrites := 0
	an.Instrs(fn, func(in ssa.Instruction) {
		if st, ok := in.(*ssa.Store); ok && isReqClassStore(st, func(v ssa.Value) bool {
			p, isP := v.(*ssa.Parameter)
			return isP && strings.HasSuffix(an.TypeName(an.Deref(p.Type())), "dns.Msg")
		}) {
			rewrites++
		}
	})
	if rewrites == 0 {
		c.Ok(rule, key, fn.Pos(), "newFilteringContext does not write into the request's question")
		return
	}
	wrap := c.Fn("dnssvc/internal/mainmw.(*Middleware).Wrap$1")
	if wrap == nil {
		c.Und(rule, key, fn.Pos(), "handler closure of Wrap not found")
		return
	}
	c.Analysed(an.FnKey(wrap))
	restored := ""
	an.Instrs(wrap, func(in ssa.Instruction) {
		d, ok := in.(*ssa.Defer)
		if !ok {
			return
		}
		mc, ok := d.Call.Value.(*ssa.MakeClosure)
		if !ok {
			return
		}
		cl, ok := mc.Fn.(*ssa.Function)
		if !ok {
			return
		}
		an.Instrs(cl, func(in2 ssa.Instruction) {
			if st, ok := in2.(*ssa.Store); ok && isReqClassStore(st, func(v ssa.Value) bool {
				switch x := v.(type) {
				case *ssa.FreeVar:
					return strings.HasSuffix(an.TypeName(an.Deref(an.Deref(x.Type()))), "dns.Msg")
				case *ssa.Parameter:
					return strings.HasSuffix(an.TypeName(an.Deref(x.Type())), "dns.Msg")
				}
				return false
			}) {
				restored = c.Pos(st.Pos())
			}
		})
	})
	c.Check(restored != "", rule, key, fn.Pos(),
		"the class rewritten by newFilteringContext is stored back by a function the handler defers ("+restored+")",
		"newFilteringContext rewrites the class of the server's request message in place and nothing the handler defers stores it back: when the pipeline fails, the SERVFAIL built from that message carries the question 'name IN type' to a client that asked 'name CH type'")
}

// c01ErrorResponseContext: when the handler fails, the server writes a SERVFAIL.
// The handler's error is often the expiry of the request's own context (handle
// timeout below the upstream timeout), and the stream and datagram writers turn
// the context's deadline into the write deadline: under the request's context
// the SERVFAIL of an expired request can never be sent.  The write on the
// handler-error path gets a context that is detached from the request's
// cancellation (context.WithoutCancel or a context derived from Background).
func c01ErrorResponseContext(c *an.Ctx, rule string) {
	k := "dnsserver.(*ServerBase).serveDNSMsgInternal"
	fn := c.Fn(k)
	key := k + " writes the SERVFAIL of a failed handler under a context that has not expired with the request"
	if fn == nil {
		c.Und(rule, key, token.NoPos, "anchor not found")
		return
	}
	c.Analysed(k)
	var serve ssa.CallInstruction
	for _, call := range an.Calls(fn) {
		if call.Common().IsInvoke() && call.Common().Method.Name() == "ServeDNS" {
			serve = call
		}
	}
	if serve == nil || len(fn.Params) < 2 {
		c.Und(rule, key, fn.Pos(), "handler invocation not found")
		return
	}
	n, bad := 0, ""
	for _, call := range an.Calls(fn) {
		if !strings.HasSuffix(an.CalleeName(call), "RecorderResponseWriter).WriteMsg") || !an.Dominates(serve, call) {
			continue
		}
		args := call.Common().Args
		if len(args) < 2 {
			continue
		}
		n++
		detached := false
		w := &an.Walker{P: c.Prog, NoFieldJoin: true,
			Visit: func(x ssa.Value) bool {
				if cl, ok := x.(*ssa.Call); ok {
					switch an.CalleeName(cl) {
					case "context.WithoutCancel", "context.Background":
						detached = true
						return true
					}
				}
				return false
			},
			Leaf: func(ssa.Value, string) {},
		}
		w.Walk(args[1])
		if !detached {
			bad = c.Pos(call.Pos())
		}
	}
	if n == 0 {
		c.Und(rule, key, fn.Pos(), "no response write after the handler invocation found")
		return
	}
	c.Check(bad == "", rule, key, serve.Pos(),
		fmt.Sprintf("%d write(s) after the handler: the context is detached from the request's cancellation", n),
		"the write at "+bad+" runs under the request's own context: when the handler failed because that context expired, the write deadline derived from it is already past and the plain-DNS / DoT client gets no response at all (DoH, DoQ and DNSCrypt clients get the SERVFAIL)")
}

// c01UDPReadBuffer: a plain-DNS query is read from the socket into a pooled
// buffer of ConfigDNS.UDPSize bytes; a datagram longer than the buffer is cut
// by the read, fails to unpack and is dropped without a response.  Every
// well-formed query (up to 65535 bytes) is answered only if the buffer the
// production listener is built with holds a whole datagram: dnssvc.NewListener
// sets UDPSize to dns.MaxMsgSize, or leaves it to a default of that size.
func c01UDPReadBuffer(c *an.Ctx, rule string) {
	key := "dnssvc.NewListener: the UDP read buffer of the plain-DNS server holds every well-formed query"
	maxMsg, ok := c.ConstInt("github.com/miekg/dns", "MaxMsgSize")
	fnL, fnS := c.Fn("dnssvc.NewListener"), c.Fn("dnsserver.newServerDNS")
	if !ok || fnL == nil || fnS == nil {
		c.Und(rule, key, token.NoPos, "anchors (dns.MaxMsgSize, dnssvc.NewListener, dnsserver.newServerDNS) not found")
		return
	}
	c.Analysed("dnssvc.NewListener")
	c.Analysed("dnsserver.newServerDNS")
	// the size NewListener passes, if any
	set, size := false, int64(0)
	for _, fs := range c.FieldStores("dnsserver.ConfigDNS", "UDPSize") {
		if fs.In != fnL {
			continue
		}
		set = true
		if v, isC := an.ConstInt(fs.Val); isC {
			size = v
		}
	}
	// the default of newServerDNS: cmp.Or(conf.UDPSize, <const>)
	def := int64(0)
	for _, call := range an.Calls(fnS) {
		if !strings.HasPrefix(an.CalleeName(call), "cmp.Or") {
			continue
		}
		uses := false
		var consts []int64
		for _, a := range call.Common().Args {
			an.Instrs(fnS, func(in ssa.Instruction) {
				// variadic arguments: stores of constants into the slice that is passed
				if st, isSt := in.(*ssa.Store); isSt {
					if ia, isIA := st.Addr.(*ssa.IndexAddr); isIA {
						if sl, isSl := a.(*ssa.Slice); isSl && ia.X == sl.X {
							if v, isC := an.ConstInt(st.Val); isC {
								consts = append(consts, v)
							} else if u, isU := st.Val.(*ssa.UnOp); isU {
								if _, f, _, ok := an.FieldOf(u.X); ok && f == "UDPSize" {
									uses = true
								}
							}
						}
					}
				}
			})
		}
		if uses && len(consts) == 1 {
			def = consts[0]
		}
	}
	eff := def
	if set {
		eff = size
	}
	if eff == 0 {
		c.Und(rule, key, fnL.Pos(), "neither the size passed by NewListener nor the default of newServerDNS is a constant")
		return
	}
	c.Check(eff >= maxMsg, rule, key, fnL.Pos(),
		fmt.Sprintf("UDP datagrams are read into %d-byte buffers", eff),
		fmt.Sprintf("UDP datagrams are read into %d-byte buffers (set by NewListener: %v; default of newServerDNS: %d): a well-formed query longer than that is cut by the read, fails to unpack and gets no response over plain UDP, while every other transport answers it", eff, set, def))
}

// c09WindowLifetimeCoversInterval: the sliding windows of the backoff limiter
// live in an expiring cache.  A window that expires sooner than the counting
// interval after its last use forgets events that still count, so the lifetime
// given to that cache in NewBackoff is computed from both counting intervals
// (not from the backoff period alone, which configuration allows to be shorter).
func c09WindowLifetimeCoversInterval(c *an.Ctx, rule string) {
	k := "dnsserver/ratelimit.NewBackoff"
	fn := c.Fn(k)
	key := k + ": the lifetime of the request windows covers both counting intervals"
	if fn == nil {
		c.Und(rule, key, token.NoPos, "anchor not found")
		return
	}
	c.Analysed(k)
	var lifetime ssa.Value
	an.Instrs(fn, func(in ssa.Instruction) {
		st, ok := in.(*ssa.Store)
		if !ok {
			return
		}
		if _, f, _, ok := an.FieldOf(st.Addr); !ok || f != "reqCounters" {
			return
		}
		if call, isCall := st.Val.(*ssa.Call); isCall && strings.HasSuffix(an.CalleeName(call), "go-cache.New") && len(call.Call.Args) == 2 {
			lifetime = call.Call.Args[0]
		}
	})
	if lifetime == nil {
		c.Und(rule, key, fn.Pos(), "the constructor call of the reqCounters cache was not found")
		return
	}
	fields := map[string]bool{}
	seen := map[ssa.Value]bool{}
	var walk func(v ssa.Value, depth int)
	walk = func(v ssa.Value, depth int) {
		if v == nil || seen[v] || depth > 12 {
			return
		}
		seen[v] = true
		if _, f, _, ok := an.FieldOf(v); ok {
			fields[f] = true
		}
		if in, ok := v.(ssa.Instruction); ok {
			for _, op := range in.Operands(nil) {
				if op != nil && *op != nil {
					walk(*op, depth+1)
				}
			}
		}
	}
	walk(lifetime, 0)
	var got []string
	for f := range fields {
		got = append(got, f)
	}
	sort.Strings(got)
	c.Check(fields["IPv4Interval"] && fields["IPv6Interval"], rule, key, fn.Pos(),
		"the lifetime is computed from "+strings.Join(got, ", "),
		"the lifetime of the request windows is computed from ["+strings.Join(got, ", ")+"] only: with a backoff period shorter than a counting interval a subnet that pauses for longer than the period starts with an empty window, and more than the configured number of queries is answered within one interval")
}

// c17PackedBytesAreSent: dns.Msg.PackBuffer packs into the given buffer only
// when the buffer is longer than the message by at least one byte; otherwise it
// allocates and returns a new slice.  packReq sends from the pooled buffer, so
// the slice PackBuffer returned must not be discarded: it is copied into the
// buffer (a no-op when it is the buffer).  A query exactly as long as the buffer
// would otherwise go out as whatever the pooled buffer held before.
func c17PackedBytesAreSent(c *an.Ctx, rule string) (sites int) {
	k := "dnsserver/forward.(*UpstreamPlain).packReq"
	fn := c.Fn(k)
	if fn == nil {
		c.Und(rule, k, token.NoPos, "anchor not found")
		return 0
	}
	c.Analysed(k)
	for _, call := range an.Calls(fn) {
		if an.CalleeName(call) != "(*github.com/miekg/dns.Msg).PackBuffer" {
			continue
		}
		sites++
		key := fmt.Sprintf("%s PackBuffer #%d: the returned bytes are the ones in the send buffer", k, sites)
		v, ok := call.(*ssa.Call)
		copied := false
		if ok {
			for _, ref := range *v.Referrers() {
				ex, isEx := ref.(*ssa.Extract)
				if !isEx || ex.Index != 0 {
					continue
				}
				for _, r2 := range *ex.Referrers() {
					if cc, isCall := r2.(*ssa.Call); isCall {
						if b, isB := cc.Call.Value.(*ssa.Builtin); isB && b.Name() == "copy" && len(cc.Call.Args) == 2 && cc.Call.Args[1] == ssa.Value(ex) {
							copied = true
						}
					}
				}
			}
		}
		c.Check(copied, rule, key, call.Pos(),
			"the slice returned by PackBuffer is copied into the buffer",
			"the slice returned by PackBuffer is discarded: for a query exactly as long as the buffer (PackBuffer needs one byte more and allocates) the pooled buffer's previous contents, another query or reply, are sent to the upstream and the query goes unanswered by a healthy upstream")
	}
	return sites
}
