package rules

import (
	"fmt"
	"go/token"
	"go/types"
	"sort"
	"strings"

	"adgverif/an"

	"golang.org/x/tools/go/ssa"
)

func init() {
	register(&Property{ID: "C12", Technique: "lock-held dataflow for engine swap + cache clear; ordering (dominance) rules for refresh; value-provenance taint from per-request data to shared-cache Set; decision-tree extraction of collision and staleness gates; cache-key dependence and bit-range injectivity; cache-per-engine ownership rule",
		Run: runC12, Explain: an.Explanation{
			Text: "R1: rulelist.Refreshable swaps its engine and clears its result cache inside one critical section of its write lock. " +
				"R2: every use of the embedded filter's engine and cache from Refreshable's methods happens while that lock is held. " +
				"R3: every type in the filter packages that owns a result cache and refreshes the data its results are computed from " +
				"clears the cache after (never before) installing the new data, and does both under a write lock that its query path " +
				"holds; hashprefix.Filter has no such lock - recorded as known finding F9. R4: nothing derived from the request message " +
				"or the requester's message constructor reaches a shared cache Set; hashprefix.Filter caches the requester-shaped " +
				"response - recorded as known finding F8. R5: custom.Filters.get serves the cached engine only when it is not older " +
				"than the profile's update time, and set stores that update time. R6: every itemFromCache returns an item only " +
				"when found and its stored host equals the queried host. R7: the filter cache key depends on host, type, class and " +
				"the answer flag, each written to its own byte range (no overlapping shifts). R8: every rule-list engine constructor " +
				"receives the empty cache or a result cache created for it alone, once per engine.",
			NotCovered: "equality of verdicts with and without caches over all list contents; client-specific modifiers ($client), which the property excludes.",
			Rules: map[string]string{"C12-R23": "mainmw's filter returns, on every path, the result of a filter.Storage.ForConfig call of the same invocation: no composite filter is remembered across requests, so the one in use never holds the rule lists, engines or result caches from before the last refresh", "C12-R22": "filterstorage.resetRuleLists installs exactly the lists it was given: it never reads the map it replaces and never writes into its argument (a list kept from the previous refresh because it looks unchanged keeps its old engine and result cache)", "C12-R21": "hash-prefix refresh: once Storage.Reset has published the new hash set, every path to a return clears the result cache (no early return between the two)", "C12-R20": "filterstorage forGroup and forClient hand out a composite filter built in this call from the lists that are current now (composite.New on every path): no filter assembled earlier, with the lists and result caches of an older refresh, is kept and handed out again", "C12-R19": "hashprefix.FilterRequest looks its verdict up and stores it under one cache key, computed from the request's own host, type and class", "C12-R17": "the clone functions of dnsmsg put no object of the source message into the clone (every option, record and slice is taken from a pool or copied)", "C12-R16": "hash-prefix storage and filter publish new state only after a successful load (shared with C13-R3)", "C12-R15": "an answer served from a result cache has the response code of the answer that was stored (SetReply resets it)", "C12-RC": "class rules (error chains, shadowed results, character classes, crossed arguments, pool constructors, array pools, loop completeness, loop-carried buffers, replacing setters, complete clones, Grow arithmetic, pooled-buffer escape, sorted searches, fresh decode targets, per-iteration objects, whole-message copies, codec guards) over the packages this property rests on", "C12-R14": "serviceblock.Filter.Refresh computes the new service map from the new index alone (never reads the map it replaces)", "C12-R13": "slices of a (possibly cached, shared) urlfilter.DNSResult are only read or copied, never stored or appended to", "C12-R1": "swap+clear in one write-locked section", "C12-R2": "query path read-holds the lock",
				"C12-R3": "generalised refresh discipline (F9)", "C12-R4": "no per-request data in shared caches (F8)", "C12-R5": "custom engine staleness gate", "C12-R9": "caches store clones and hand out clones (shared with C07-R4)",
				"C12-R10": "custom rules received from the backend are stamped with the time of reception (time.Now), the only stamp that is newer than every cached engine",
				"C12-R6":  "collision checks", "C12-R7": "cache key dependence and injective packing", "C12-R8": "one result cache per engine"},
		}})
}

func runC12(c *an.Ctx) {
	c.Floor("C12-R23", 1)
	c12FilterPerRequest(c, "C12-R23")
	// ---- R22: a refresh installs the new rule lists as they are
	c.Floor("C12-R22", 1)
	c12InstallsAsGiven(c, "C12-R22")
	// ---- R21: nothing returns between publishing the new hashes and clearing the result cache
	c.Floor("C12-R21", 1)
	c12ClearAfterReset(c, "C12-R21")
	// ---- R20: composite filters are assembled per request, not remembered across refreshes
	c.Floor("C12-R20", 2)
	c12FreshComposite(c, "C12-R20")
	classSweep(c, "C12")
	// ---- R19: the hash-prefix filter reads and fills its cache under the request's own key only
	c.Floor("C12-R19", 1)
	c12OneKeyPerRequest(c, "C12-R19")
	// ---- R17: a response cloned out of a cache shares no option object with the cached message
	if n := sharedCloneOwnsItsParts(c, "C12-R17", func(k string) bool {
		return strings.HasPrefix(k, "dnsmsg.(*") && (strings.Contains(k, "Cloner).clone") || strings.Contains(k, "Cloner).Clone") || strings.Contains(k, "Cloner).append"))
	}); n < 3 {
		c.Und("C12-R17", "clone functions of dnsmsg", token.NoPos, "only %d reference values stored by clone functions found", n)
	}
	// ---- C12-R12: builder wiring of the components this property rests on
	c.Floor("C12-R12", 10)
	builderWiring(c, "C12-R12", map[string][]string{
		"initFilterStorage|filter/filterstorage.ConfigRuleLists":       {"ResultCacheCount", "ResultCacheEnabled"},
		"initFilterStorage|filter/filterstorage.ConfigBlockedServices": {"ResultCacheCount", "ResultCacheEnabled"},
		"initFilterStorage|filter/filterstorage.ConfigCustom":          nil,
		"newSafeSearchConfig|filter/filterstorage.ConfigSafeSearch":    {"ResultCacheCount"},
		"initSafeBrowsing|filter/hashprefix.FilterConfig":              {"CacheTTL", "CacheCount", "Cloner"},
		"initAdultBlocking|filter/hashprefix.FilterConfig":             {"CacheTTL", "CacheCount", "Cloner"},
		"initNewRegDomains|filter/hashprefix.FilterConfig":             {"CacheTTL", "CacheCount", "Cloner"},
		"initFilterStorage|agdservice.RefreshWorkerConfig":             {"Refresher"},
	})
	// ---- R11: an answer served from a result cache is initialised from the current request
	c.Floor("C12-R11", 1)
	sharedReplyInit(c, "C12-R11")
	c.Floor("C12-R1", 2)
	c.Floor("C12-R2", 2)
	c.Floor("C12-R3", 2)
	c.Floor("C12-R4", 3)
	c.Floor("C12-R5", 2)
	c.Floor("C12-R6", 3)
	c.Floor("C12-R7", 5)
	c.Floor("C12-R8", 3)
	c.Floor("C12-R9", 4)
	c.Floor("C12-R10", 2)
	// ---- R9: result caches store and hand out copies
	c07Caches(c, "C12-R9")
	c07Cloner(c, "C12-R9")
	// ---- R14: a refresh of the blocked-service lists replaces all of them (no list of the previous version, with its
	// result cache, is carried over)
	c.Floor("C12-R14", 1)
	sharedStateNotRead(c, "C12-R14", "filter/internal/serviceblock.(*Filter).Refresh", "filter/internal/serviceblock.Filter", "services")
	if n := sharedSetReplyKeepsRcode(c, "C12-R15"); n < 3 {
		c.Und("C12-R15", "SetReply on existing responses", token.NoPos, "only %d SetReply calls found", n)
	}
	// ---- R16: a failed list update publishes nothing (shared with C13-R3)
	c.Floor("C12-R16", 2)
	c.Borrow("C12-R16", runC13, func(o an.Obligation) bool { return o.Rule == "C13-R3" && strings.Contains(o.Key, "hashprefix") })
	// ---- R13: a cached urlfilter result is never aliased by a per-request accumulator
	c.Floor("C12-R13", 3)
	c12NoAliasCached(c, "C12-R13")
	// ---- R10: every version of a profile's custom rules gets a newer update time
	c12UpdateTime(c)

	cache := map[*ssa.Function]map[ssa.Instruction]an.Held{}
	const rl = "filter/internal/rulelist."

	ruleListRefreshLocking(c, "C12-R1", "C12-R2", cache)

	// ---- R3 generalised: types owning a result cache and a refresh
	type owner struct{ typ, refresh, query, dataCall string }
	owners := []owner{
		{"filter/hashprefix.Filter", "filter/hashprefix.(*Filter).refresh", "filter/hashprefix.(*Filter).FilterRequest", "(*filter/hashprefix.Storage).Reset"},
	}
	for _, o := range owners {
		fn := c.Fn(o.refresh)
		if fn == nil {
			c.Und("C12-R3", o.refresh, token.NoPos, "anchor not found")
			continue
		}
		c.Analysed(an.FnKey(fn))
		var reset, clear ssa.CallInstruction
		for _, call := range an.Calls(fn) {
			if an.IsCall(call, o.dataCall) {
				reset = call
			}
			if call.Common().IsInvoke() && call.Common().Method.Name() == "Clear" {
				clear = call
			}
		}
		if reset == nil || clear == nil {
			c.Bad("C12-R3", o.refresh+" order", fn.Pos(), "refresh no longer installs the new data and clears the result cache")
		} else {
			c.Check(an.Dominates(reset, clear), "C12-R3", o.refresh+" order", clear.Pos(),
				"the result cache is cleared after the new data is installed",
				"the result cache is cleared before the new data is installed: results computed from the old data during the reset are cached and never cleared")
			mr, _ := c.HeldAt(reset, "mu", 0, cache)
			mc, _ := c.HeldAt(clear, "mu", 0, cache)
			if mr == "w" && mc == "w" {
				c.Ok("C12-R3", o.refresh+" atomicity", fn.Pos(), "data swap and cache clear under one write lock")
			} else {
				c.Bad("C12-R3", o.refresh+" atomicity", fn.Pos(),
					"data swap and cache clear are not done under a write lock held by the query path: a query can compute a verdict from the old list, and store it after the clear")
			}
		}
	}

	// ---- R4: per-request data into shared caches
	for _, fn := range c.AllFns {
		k := an.FnKey(fn)
		if c.IsTestFile(fn.Pos()) || !strings.HasPrefix(k, "filter/") {
			continue
		}
		for _, call := range an.Calls(fn) {
			cc := call.Common()
			if !cc.IsInvoke() || cc.Method.Name() != "Set" && cc.Method.Name() != "SetWithExpire" {
				continue
			}
			if !strings.HasPrefix(an.TypeName(cc.Value.Type()), "agdcache.Interface") {
				continue
			}
			c.Analysed(k)
			key := k + " cache Set"
			var tainted []string
			w := &an.Walker{P: c.Prog}
			w.Visit = func(v ssa.Value) bool {
				ld, ok := v.(*ssa.UnOp)
				if !ok || ld.Op != token.MUL {
					return false
				}
				if typ, field, _, ok := an.FieldOf(ld.X); ok && typ == "filter/internal.Request" && (field == "DNS" || field == "Messages") {
					tainted = append(tainted, "Request."+field+" at "+c.Pos(ld.Pos()))
					return true
				}
				return false
			}
			w.Opaque = func(f *ssa.Function) bool {
				return strings.HasPrefix(an.FnKey(f), "dnsmsg.") // cloners and constructors: result depends on the arguments
			}
			w.ThroughCalls = func(call *ssa.Call) ([]ssa.Value, bool) {
				// results of opaque calls depend on their arguments
				return call.Call.Args, true
			}
			// the cached value: last argument before expiry; walk the stored object's fields
			val := cc.Args[1]
			w.Walk(val)
			if len(tainted) > 0 {
				sort.Strings(tainted)
				c.Bad("C12-R4", key, call.Pos(), "a value derived from the requester's own message or message constructor is stored in a cache shared by all clients: %s", strings.Join(uniq(tainted), "; "))
			} else {
				c.Ok("C12-R4", key, call.Pos(), "the cached value does not derive from Request.DNS or Request.Messages")
			}
		}
	}

	// ---- R5 custom staleness
	decide(c, "C12-R5", "filter/internal/custom.(*Filters).get", an.DecideCfg{
		Dom: an.Domain{"found": an.Bools, "before": an.Bools},
		OnCall: func(it *an.Interp, name string, args []an.AV) (an.AV, bool) {
			switch {
			case name == "p0.cache.Get":
				if len(args) == 1 && args[0].String() == "p1.ID" {
					return an.AV{Kind: an.KTuple, Tup: []an.AV{an.NonNil("item"), it.Feature("found")}}, true
				}
				return an.Sym("cache consulted with another key"), true
			case name == "(time.Time).Before":
				if len(args) == 2 && args[0].String() == "item.updTime" && args[1].String() == "p1.UpdateTime" {
					return it.Feature("before"), true
				}
				return an.Sym("other time comparison " + args[0].String() + " vs " + args[1].String()), true
			}
			return an.AV{}, false
		},
		Expect: func(f an.Features, o an.AOutcome) string {
			want := "nil"
			if f.B("found") && !f.B("before") {
				want = "item.ruleList"
			}
			if o.RetString() == want {
				return ""
			}
			return want + " (the cached engine only when it is not older than the profile's update time)"
		},
	})
	if fn := c.Fn("filter/internal/custom.(*Filters).set"); fn == nil {
		c.Und("C12-R5", "filter/internal/custom.(*Filters).set", token.NoPos, "anchor not found")
	} else {
		ok := false
		an.Instrs(fn, func(in ssa.Instruction) {
			if st, isStore := in.(*ssa.Store); isStore {
				if typ, field, _, isF := an.FieldOf(st.Addr); isF && typ == "filter/internal/custom.cacheItem" && field == "updTime" {
					if ap, isPath := an.AccessPath(st.Val); isPath && ap == "p1.UpdateTime" {
						ok = true
					}
				}
			}
		})
		c.Check(ok, "C12-R5", "filter/internal/custom.(*Filters).set", fn.Pos(), "the cached item records the profile's update time",
			"the cached item does not record the configuration's update time: staleness cannot be detected")
	}

	// ---- R6 collision checks
	for _, it := range []struct{ fn, get, item, host string }{
		{rl + "itemFromCache", "p0.Get", "item.host", "p2"},
		{"filter/hashprefix.(*Filter).itemFromCache", "p0.resCache.Get", "item.host", "p3"},
		{"ecscache.(*Middleware).itemFromCache", "p2.Get", "item.host", "p4.host"},
	} {
		it := it
		eq := "(" + it.item + " == " + it.host + ")"
		decide(c, "C12-R6", it.fn, an.DecideCfg{
			Dom: an.Domain{"found": an.Bools, eq: an.Bools},
			OnCall: func(in *an.Interp, name string, args []an.AV) (an.AV, bool) {
				if name == it.get {
					return an.AV{Kind: an.KTuple, Tup: []an.AV{an.NonNil("item"), in.Feature("found")}}, true
				}
				return an.AV{}, false
			},
			Expect: func(f an.Features, o an.AOutcome) string {
				want := "nil, false"
				if f.B("found") && f.B(eq) {
					want = "nonnil:item, true"
				}
				if o.RetString() == want {
					return ""
				}
				return want + " (an item only when found and stored for the same host)"
			},
		})
	}

	// ---- R7 cache keys
	c12Key(c, "C12-R7", "filter/internal.NewCacheKey", []string{"p0", "p1", "p2", "p3"})

	cachePerEngine(c, "C12-R8")
}

// cachePerEngine checks that every rule-list engine gets its own result cache.
func cachePerEngine(c *an.Ctx, rule string) {
	const rl = "filter/internal/rulelist."
	// ---- R8 one cache per engine
	ctors := map[string]int{ // constructor -> index of the cache argument
		rl + "NewImmutable": 3, rl + "NewFromString": 3, rl + "newFilter": 3, rl + "NewRefreshable": 1,
		"filter/internal/safesearch.New": 1,
	}
	// functions that forward a cache parameter to a constructor are constructors too
	for changed := true; changed; {
		changed = false
		for _, fn := range c.AllFns {
			if c.IsTestFile(fn.Pos()) {
				continue
			}
			if _, done := ctors[an.FnKey(fn)]; done {
				continue
			}
			for _, call := range an.Calls(fn) {
				f := an.StaticCallee(call)
				if f == nil {
					continue
				}
				idx, ok := ctors[an.FnKey(f)]
				if !ok || idx >= len(call.Common().Args) {
					continue
				}
				if pa, isParam := an.Unwrap(call.Common().Args[idx]).(*ssa.Parameter); isParam {
					ctors[an.FnKey(fn)] = an.ParamIndex(pa)
					changed = true
				}
			}
		}
	}
	for _, fn := range c.AllFns {
		if c.IsTestFile(fn.Pos()) {
			continue
		}
		for _, call := range an.Calls(fn) {
			f := an.StaticCallee(call)
			if f == nil {
				continue
			}
			idx, ok := ctors[an.FnKey(f)]
			if !ok || idx >= len(call.Common().Args) {
				continue
			}
			c.Analysed(an.FnKey(fn))
			key := an.FnKey(fn) + " -> " + f.Name()
			arg := call.Common().Args[idx]
			v := an.Unwrap(arg)
			switch x := v.(type) {
			case *ssa.Parameter:
				c.Ok(rule, key, call.Pos(), "passes its own cache parameter on to exactly this engine (checked at its callers)")
				// a parameter may only be forwarded to one constructor call in this function
				n := 0
				for _, c2 := range an.Calls(fn) {
					if f2 := an.StaticCallee(c2); f2 != nil {
						if i2, ok := ctors[an.FnKey(f2)]; ok && i2 < len(c2.Common().Args) && an.Unwrap(c2.Common().Args[i2]) == v {
							n++
						}
					}
				}
				if n > 1 || an.CanReach(call, call) {
					c.Bad(rule, key+" shared", call.Pos(), "one cache parameter is handed to several engines")
				}
			case *ssa.Call:
				name := an.Short(an.CalleeName(x))
				if !strings.Contains(name, "ResultCache") && !strings.Contains(name, "NewLRU") {
					c.Und(rule, key, call.Pos(), "cache argument comes from %s", name)
					continue
				}
				users := 0
				for _, r := range *x.Referrers() {
					if _, isDbg := r.(*ssa.DebugRef); !isDbg {
						users++
					}
				}
				shared := an.CanReach(call, call) && !an.CanReach(x, x)
				if shared {
					c.Bad(rule, key, call.Pos(), "the result cache created at %s outside the loop is shared by every engine built in the loop; the cache key does not identify the list, so one list's verdict is served for another", c.Pos(x.Pos()))
				} else {
					c.Ok(rule, key, call.Pos(), "result cache created for this engine by %s", name)
				}
			default:
				if strings.HasSuffix(an.TypeName(arg.Type()), "ResultCacheEmpty") || isEmptyCache(v) {
					c.Ok(rule, key, call.Pos(), "no result cache (ResultCacheEmpty)")
				} else if fv, isFV := v.(*ssa.FreeVar); isFV {
					_ = fv
					c.Bad(rule, key, call.Pos(), "the result cache is captured from an enclosing function and shared by the engines built here")
				} else {
					c.Und(rule, key, call.Pos(), "cannot identify where the cache argument (%T) comes from", v)
				}
			}
		}
	}
}

func isEmptyCache(v ssa.Value) bool {
	return strings.HasSuffix(an.TypeName(v.Type()), "ResultCacheEmpty") ||
		strings.Contains(types.TypeString(v.Type(), nil), "ResultCacheEmpty") || strings.Contains(types.TypeString(v.Type(), nil), "agdcache.Empty")
}

// c12Key checks that the key function's result depends on every listed
// parameter and that the inputs are written to disjoint, wide-enough ranges.
func c12Key(c *an.Ctx, rule, fnKey string, params []string) {
	fn := c.Fn(fnKey)
	if fn == nil {
		c.Und(rule, fnKey, token.NoPos, "anchor not found")
		return
	}
	c.Analysed(fnKey)
	// forward taint per parameter
	for i, pa := range fn.Params {
		t := forwardTaint(fn, pa)
		reaches := false
		for _, r := range an.Returns(fn) {
			for _, res := range r.Results {
				if t[res] {
					reaches = true
				}
			}
		}
		key := fmt.Sprintf("%s depends on %s", fnKey, pa.Name())
		_ = i
		c.Check(reaches, rule, key, fn.Pos(), "the key depends on this input",
			"the key does not depend on this input: entries for different "+pa.Name()+" values collide")
	}
	// lossy combinations of two inputs
	bad := keyPackingProblems(c, fn)
	if len(bad) > 0 {
		c.Bad(rule, fnKey+" packing", fn.Pos(), "key inputs overlap: %s", strings.Join(bad, "; "))
	} else {
		c.Ok(rule, fnKey+" packing", fn.Pos(), "every input is written to its own byte range of sufficient width; no overlapping shifts")
	}
	sharedKeyPacking(c, rule, fnKey, 1)
}

// forwardTaint returns the values of fn that (may) depend on src, propagating
// through instructions, through writes into local buffers/objects and through
// method calls on local objects (hasher state).
func forwardTaint(fn *ssa.Function, src ssa.Value) map[ssa.Value]bool {
	t := map[ssa.Value]bool{src: true}
	baseOf := func(v ssa.Value) ssa.Value {
		for {
			switch x := v.(type) {
			case *ssa.Slice:
				v = x.X
			case *ssa.IndexAddr:
				v = x.X
			case *ssa.FieldAddr:
				v = x.X
			case *ssa.UnOp:
				if x.Op == token.MUL {
					v = x.X
					continue
				}
				return v
			default:
				return v
			}
		}
	}
	for changed := true; changed; {
		changed = false
		mark := func(v ssa.Value) {
			if v != nil && !t[v] {
				t[v] = true
				changed = true
			}
		}
		// blocks whose execution is decided by a tainted condition
		ctl := map[*ssa.BasicBlock]bool{}
		for _, b := range fn.Blocks {
			ifi, ok := b.Instrs[len(b.Instrs)-1].(*ssa.If)
			if !ok || !t[ifi.Cond] || b.Succs[0] == b.Succs[1] {
				continue
			}
			for _, x := range fn.Blocks {
				if an.EdgeDominates(b, b.Succs[0], x) || an.EdgeDominates(b, b.Succs[1], x) {
					ctl[x] = true
				}
			}
		}
		an.Instrs(fn, func(in ssa.Instruction) {
			anyOp := false
			for _, op := range in.Operands(nil) {
				if *op != nil && (t[*op] || t[baseOf(*op)]) {
					anyOp = true
				}
			}
			if ctl[in.Block()] {
				switch in.(type) {
				case *ssa.Store, ssa.CallInstruction:
					anyOp = true
				}
			}
			if phi, ok := in.(*ssa.Phi); ok {
				// a phi at the join of a tainted branch
				for _, p := range phi.Block().Preds {
					if ctl[p] {
						anyOp = true
					}
				}
			}
			if !anyOp {
				return
			}
			if v, ok := in.(ssa.Value); ok {
				mark(v)
			}
			switch x := in.(type) {
			case *ssa.Store:
				mark(baseOf(x.Addr))
			case ssa.CallInstruction:
				// the call may write into any local object it receives
				for _, a := range x.Common().Args {
					if b := baseOf(a); b != nil {
						if _, isAlloc := b.(*ssa.Alloc); isAlloc {
							mark(b)
						}
					}
				}
			}
		})
	}
	return t
}

// keyPackingProblems looks for overlapping writes of inputs into a local
// buffer and for OR/ADD/XOR combinations of shifted inputs whose bit ranges
// overlap.
func keyPackingProblems(c *an.Ctx, fn *ssa.Function) (bad []string) {
	width := func(t types.Type) int64 {
		if b, ok := t.Underlying().(*types.Basic); ok {
			switch b.Kind() {
			case types.Bool, types.Uint8, types.Int8:
				return 8
			case types.Uint16, types.Int16:
				return 16
			case types.Uint32, types.Int32:
				return 32
			case types.Uint64, types.Int64, types.Int, types.Uint:
				return 64
			}
		}
		return 0
	}
	// bit range of an operand of a combining op: (origin width, shift)
	var rng func(v ssa.Value) (lo, hi int64, ok bool)
	rng = func(v ssa.Value) (int64, int64, bool) {
		switch x := v.(type) {
		case *ssa.Convert:
			if _, isConst := x.X.(*ssa.Const); isConst {
				return 0, 0, false
			}
			lo, hi, ok := rng(x.X)
			if ok {
				return lo, hi, true
			}
			w := width(x.X.Type())
			return 0, w, w > 0
		case *ssa.BinOp:
			if x.Op == token.SHL {
				if k, ok := an.ConstInt(x.Y); ok {
					lo, hi, ok2 := rng(x.X)
					if ok2 {
						return lo + k, hi + k, true
					}
				}
			}
			return 0, 0, false
		case *ssa.Call:
			w := width(x.Type())
			return 0, w, w > 0
		case *ssa.Parameter:
			w := width(x.Type())
			return 0, w, w > 0
		}
		return 0, 0, false
	}
	an.Instrs(fn, func(in ssa.Instruction) {
		b, ok := in.(*ssa.BinOp)
		if !ok || (b.Op != token.OR && b.Op != token.ADD && b.Op != token.XOR) {
			return
		}
		if !an.IsIntType(b.Type()) {
			return
		}
		// flatten the chain
		var leaves []ssa.Value
		var flat func(v ssa.Value)
		flat = func(v ssa.Value) {
			if bb, ok := v.(*ssa.BinOp); ok && bb.Op == b.Op {
				flat(bb.X)
				flat(bb.Y)
				return
			}
			leaves = append(leaves, v)
		}
		flat(b)
		type r struct{ lo, hi int64 }
		var rs []r
		for _, l := range leaves {
			if _, isConst := l.(*ssa.Const); isConst {
				continue
			}
			lo, hi, ok := rng(l)
			if !ok {
				continue
			}
			rs = append(rs, r{lo, hi})
		}
		for i := range rs {
			for j := i + 1; j < len(rs); j++ {
				if rs[i].lo < rs[j].hi && rs[j].lo < rs[i].hi {
					bad = append(bad, fmt.Sprintf("bits [%d,%d) and [%d,%d) combined with %s at %s", rs[i].lo, rs[i].hi, rs[j].lo, rs[j].hi, b.Op, c.Pos(b.Pos())))
				}
			}
		}
	})
	// writes into local buffers with constant ranges
	type wr struct {
		lo, hi int64
		pos    token.Pos
	}
	bufWrites := map[*ssa.Alloc][]wr{}
	for _, call := range an.Calls(fn) {
		n := an.CalleeName(call)
		if !strings.Contains(n, "PutUint16") && !strings.Contains(n, "PutUint32") && !strings.Contains(n, "PutUint64") {
			continue
		}
		args := call.Common().Args
		sl, ok := args[len(args)-2].(*ssa.Slice)
		if !ok {
			continue
		}
		al, ok := sl.X.(*ssa.Alloc)
		if !ok {
			continue
		}
		lo, hi := int64(0), int64(-1)
		if sl.Low != nil {
			lo, _ = an.ConstInt(sl.Low)
		}
		if sl.High != nil {
			hi, _ = an.ConstInt(sl.High)
		}
		need := int64(2)
		if strings.Contains(n, "32") {
			need = 4
		} else if strings.Contains(n, "64") {
			need = 8
		}
		if hi >= 0 && hi-lo < need {
			bad = append(bad, fmt.Sprintf("%d-byte value written into %d bytes at %s", need, hi-lo, c.Pos(call.Pos())))
		}
		bufWrites[al] = append(bufWrites[al], wr{lo, lo + need, call.Pos()})
	}
	an.Instrs(fn, func(in ssa.Instruction) {
		st, ok := in.(*ssa.Store)
		if !ok {
			return
		}
		ia, ok := st.Addr.(*ssa.IndexAddr)
		if !ok {
			return
		}
		al, ok := ia.X.(*ssa.Alloc)
		if !ok {
			return
		}
		if k, ok := an.ConstInt(ia.Index); ok {
			bufWrites[al] = append(bufWrites[al], wr{k, k + 1, st.Pos()})
		}
	})
	for _, ws := range bufWrites {
		for i := range ws {
			for j := i + 1; j < len(ws); j++ {
				if ws[i].lo < ws[j].hi && ws[j].lo < ws[i].hi {
					bad = append(bad, fmt.Sprintf("buffer bytes [%d,%d) and [%d,%d) overlap (%s, %s)", ws[i].lo, ws[i].hi, ws[j].lo, ws[j].hi, c.Pos(ws[i].pos), c.Pos(ws[j].pos)))
				}
			}
		}
	}
	sort.Strings(bad)
	return bad
}

// c12UpdateTime checks the provenance of the update time that invalidates the
// per-profile custom-filter cache: custom.Filters.get serves a cached engine
// unless it is older than the configuration's UpdateTime, so every new version
// received from the backend must carry a time later than the previous
// version's; the time of reception (time.Now at conversion) is, a time taken
// from the request (the previous synchronisation's time) is not.
func c12UpdateTime(c *an.Ctx) {
	const conv = "backendpb.(*DNSProfile).toInternal"
	fn := c.Fn(conv)
	if fn == nil {
		c.Und("C12-R10", conv, token.NoPos, "anchor not found")
		return
	}
	c.Analysed(conv)
	// the conversion stores its updTime parameter into ConfigCustom.UpdateTime
	var pidx = -1
	for _, fs := range c.FieldStores("filter/internal.ConfigCustom", "UpdateTime") {
		if fs.In != fn {
			continue
		}
		if pa, ok := an.Unwrap(fs.Val).(*ssa.Parameter); ok {
			pidx = an.ParamIndex(pa)
		}
	}
	if pidx < 0 {
		c.Bad("C12-R10", conv+" sets ConfigCustom.UpdateTime", fn.Pos(), "the custom rules' update time is not the conversion's time argument")
		return
	}
	c.Ok("C12-R10", conv+" sets ConfigCustom.UpdateTime", fn.Pos(), "from parameter #%d", pidx)
	sites, escapes := c.ArgSites(fn, pidx)
	n := 0
	for _, s := range sites {
		if c.IsTestFile(s.Val.Pos()) || (s.Call != nil && c.IsTestFile(s.Call.Pos())) {
			continue
		}
		n++
		where := "?"
		var pos token.Pos
		if s.Call != nil {
			where, pos = an.FnKey(s.Call.Parent()), s.Call.Pos()
		}
		key := where + " update time passed to the profile conversion"
		var bad []string
		w := &an.Walker{P: c.Prog, NoFieldJoin: true,
			Visit: func(v ssa.Value) bool {
				if call, ok := v.(*ssa.Call); ok && an.CalleeName(call) == "time.Now" {
					return true
				}
				return false
			},
			ThroughCalls: func(call *ssa.Call) ([]ssa.Value, bool) {
				switch an.CalleeName(call) {
				case "(time.Time).UTC", "(time.Time).Local", "(time.Time).Round", "(time.Time).Truncate":
					return call.Call.Args[:1], true
				}
				return nil, false
			},
			Leaf: func(v ssa.Value, why string) {
				bad = append(bad, fmt.Sprintf("%s (%s) at %s", v.Name(), why, c.Pos(v.Pos())))
			},
		}
		w.Walk(s.Val)
		if len(bad) > 0 {
			c.Bad("C12-R10", key, pos, "the update time is not the time of reception: %s; a time that is not later than the previous version's leaves the custom-filter cache serving the old rules", strings.Join(uniq(bad), "; "))
		} else {
			c.Ok("C12-R10", key, pos, "time.Now() taken when the profile is received")
		}
	}
	if n == 0 || escapes {
		c.Und("C12-R10", conv+" call sites", fn.Pos(), "call sites of the conversion cannot be enumerated (%d found, escapes=%v)", n, escapes)
	}
}

// ruleListRefreshLocking checks the locking of the in-place refreshable rule
// lists (the safe-search lists): the engine swap and the cache clear happen in
// one write-locked section (r1), and every lookup-match-store sequence runs with
// the lock held (r2).
func ruleListRefreshLocking(c *an.Ctx, r1, r2 string, cache map[*ssa.Function]map[ssa.Instruction]an.Held) {
	const rl = "filter/internal/rulelist."
	// ---- R1
	if fn := c.Fn(rl + "(*Refreshable).Refresh"); fn == nil {
		c.Und(r1, rl+"(*Refreshable).Refresh", token.NoPos, "anchor not found")
	} else {
		c.Analysed(an.FnKey(fn))
		var swap, clear ssa.Instruction
		an.Instrs(fn, func(in ssa.Instruction) {
			switch x := in.(type) {
			case *ssa.Store:
				if typ, field, _, ok := an.FieldOf(x.Addr); ok && typ == "filter/internal/rulelist.filter" && field == "engine" {
					swap = x
				}
			case *ssa.Call:
				if x.Call.IsInvoke() && x.Call.Method.Name() == "Clear" {
					clear = x
				}
			}
		})
		for _, it := range []struct {
			what string
			in   ssa.Instruction
		}{{"engine swap", swap}, {"cache clear", clear}} {
			key := "Refreshable.Refresh " + it.what
			if it.in == nil {
				c.Bad(r1, key, fn.Pos(), "Refresh no longer performs the %s: results computed with the old list stay reachable", it.what)
				continue
			}
			if m, _ := c.HeldAt(it.in, "mu", 0, cache); m != "w" {
				c.Bad(r1, key, it.in.Pos(), "the %s happens outside the write lock: a concurrent query can cache a result of the old engine after the clear", it.what)
			} else {
				c.Ok(r1, key, it.in.Pos(), "under mu.Lock, same critical section")
			}
		}
	}

	// ---- R2
	for _, fn := range c.FnsMatching(rl + "(*Refreshable).") {
		if c.IsTestFile(fn.Pos()) || fn.Parent() != nil {
			continue
		}
		for _, call := range an.Calls(fn) {
			f := an.StaticCallee(call)
			if f == nil || f.Signature.Recv() == nil || an.TypeName(f.Signature.Recv().Type()) != "filter/internal/rulelist.filter" {
				continue
			}
			// methods that read engine or cache
			touches := false
			an.Instrs(f, func(in ssa.Instruction) {
				if fa, ok := in.(*ssa.FieldAddr); ok {
					if typ, field, _, ok := an.FieldOf(fa); ok && typ == "filter/internal/rulelist.filter" && (field == "engine" || field == "cache") {
						touches = true
					}
				}
			})
			if !touches {
				continue
			}
			c.Analysed(an.FnKey(fn))
			key := an.FnKey(fn) + " -> filter." + f.Name()
			if m, _ := c.HeldAt(call, "mu", 0, cache); m == "" {
				c.Bad(r2, key, call.Pos(), "the engine/cache of a refreshable list is used without holding its lock: the lookup-match-store sequence can straddle a refresh")
			} else {
				c.Ok(r2, key, call.Pos(), "mu held (%s) across the lookup, match and store", m)
			}
		}
	}

}

// c12NoAliasCached: a *urlfilter.DNSResult may come out of a result cache and
// is then shared by every request (of every profile) that hits the entry.  Its
// rule slices may be read and copied (append(dst, src...)), never stored into
// another object or used as the destination of an append: a per-request
// accumulator that aliases them writes its own rules into the shared backing
// array.
func c12NoAliasCached(c *an.Ctx, rule string) {
	n := 0
	for _, fn := range c.AllFns {
		if fn.Blocks == nil || c.IsTestFile(fn.Pos()) || !strings.HasPrefix(an.FnKey(fn), "filter/") {
			continue
		}
		k := an.FnKey(fn)
		an.Instrs(fn, func(in ssa.Instruction) {
			ld, ok := in.(*ssa.UnOp)
			if !ok || ld.Op != token.MUL {
				return
			}
			typ, field, _, ok := an.FieldOf(ld.X)
			if !ok || typ != "github.com/AdguardTeam/urlfilter.DNSResult" {
				return
			}
			if _, isSl := ld.Type().Underlying().(*types.Slice); !isSl || ld.Referrers() == nil {
				return
			}
			n++
			c.Analysed(k)
			bad := ""
			for _, r := range *ld.Referrers() {
				switch u := r.(type) {
				case *ssa.Store:
					if u.Val == ssa.Value(ld) {
						bad = "stored into another object"
					}
				case *ssa.Call:
					if b, isB := u.Call.Value.(*ssa.Builtin); isB && b.Name() == "append" && u.Call.Args[0] == ssa.Value(ld) {
						bad = "used as the destination of an append"
					}
				case *ssa.Return:
					// handing the slice to the caller is the caller's obligation; the callers in scope are checked too
				}
			}
			c.Check(bad == "", rule, fmt.Sprintf("%s reads DNSResult.%s without aliasing it", k, field), ld.Pos(),
				"the cached result's slice is only read or copied", "the slice of a possibly cached, shared DNSResult is "+bad+": later appends write into memory shared with other requests")
		})
	}
	if n < 3 {
		c.Und(rule, "reads of urlfilter.DNSResult slices", token.NoPos, "only %d reads found (anchor: rulelist.URLFilterResult.Add)", n)
	}
}

// c12OneKeyPerRequest: a request reads and fills the verdict cache under one
// key, the key of its own question.  The cached value is built for this request
// (owner names of the answer records, the SOA), so storing it under the key of
// another name (the matched parent domain, say) makes a later query for that
// name receive records owned by this one.  In FilterRequest of the hash-prefix
// filter every cache key handed to itemFromCache, setInCache or the cache's Set
// is the one value computed from the request.
func c12OneKeyPerRequest(c *an.Ctx, rule string) {
	const k = "filter/hashprefix.(*Filter).FilterRequest"
	fn := c.Fn(k)
	key := k + " uses one cache key, the request's own"
	if fn == nil {
		c.Und(rule, key, token.NoPos, "anchor not found")
		return
	}
	c.Analysed(k)
	keys := map[ssa.Value]bool{}
	n := 0
	for _, call := range an.Calls(fn) {
		callee := an.StaticCallee(call)
		for i, a := range call.Common().Args {
			if !strings.HasSuffix(an.TypeName(a.Type()), "filter/internal.CacheKey") {
				continue
			}
			if callee != nil && strings.HasSuffix(an.FnKey(callee), "internal.NewCacheKey") {
				continue
			}
			_ = i
			n++
			keys[a] = true
		}
	}
	bad := ""
	if len(keys) > 1 {
		bad = fmt.Sprintf("%d different key values are used", len(keys))
	}
	for kv := range keys {
		call, ok := kv.(*ssa.Call)
		if !ok || !strings.HasSuffix(an.CalleeName(call), "internal.NewCacheKey") {
			bad = "a key does not come from NewCacheKey"
			continue
		}
		if ap, ok := an.AccessPath(call.Call.Args[0]); !ok || !strings.HasSuffix(ap, ".Host") {
			bad = "the key is not computed from the request's host"
		}
	}
	c.Check(n >= 2 && bad == "", rule, key, fn.Pos(), fmt.Sprintf("%d uses of a cache key, all of the one value computed from the request's host, type and class", n),
		bad+": a value built for this request is stored under another name's key, and a later query for that name is answered with records owned by this one")
}

// c12FreshComposite: the storage publishes new rule lists by replacing the
// objects that forGroup / forClient pick up; a composite filter that outlives
// the call that assembled it keeps the lists (and their result caches) of the
// refresh it was assembled under.  Every value the two functions return is, on
// every phi edge, the result of a composite.New call of this very invocation.
func c12FreshComposite(c *an.Ctx, rule string) {
	for _, k := range []string{"filter/filterstorage.(*Default).forGroup", "filter/filterstorage.(*Default).forClient"} {
		fn := c.Prog.Fn(k)
		key := k + " returns a filter assembled in this call"
		if fn == nil {
			c.Und(rule, key, token.NoPos, "anchor not found")
			continue
		}
		c.Analysed(k)
		bad := ""
		n := 0
		var check func(v ssa.Value, pos token.Pos, d int)
		check = func(v ssa.Value, pos token.Pos, d int) {
			switch x := v.(type) {
			case *ssa.Phi:
				if d > 4 {
					bad = "the returned value could not be followed"
					return
				}
				for _, e := range x.Edges {
					check(e, pos, d+1)
				}
			case *ssa.MakeInterface:
				check(x.X, pos, d+1)
			case *ssa.ChangeInterface:
				check(x.X, pos, d+1)
			case *ssa.Call:
				n++
				if !strings.HasSuffix(an.CalleeName(x), "composite.New") {
					bad = "the value returned at " + c.Pos(pos) + " comes from " + an.Short(an.CalleeName(x)) + ", not from composite.New"
				}
			default:
				n++
				bad = "the value returned at " + c.Pos(pos) + " (" + v.String() + ") was not assembled by this call"
			}
		}
		for _, r := range an.Returns(fn) {
			if len(r.Results) == 1 {
				check(r.Results[0], r.Pos(), 0)
			}
		}
		if n == 0 {
			c.Und(rule, key, fn.Pos(), "no returned value found")
			continue
		}
		c.Check(bad == "", rule, key, fn.Pos(), "every returned value is a composite.New result of this invocation",
			bad+": a filter kept from an earlier call holds the rule lists, services and result caches that were current then, and requests go on being answered from them after a refresh")
	}
}

// c12ClearAfterReset: Storage.Reset installs the new hash set before it returns.
// From its success edge every path of Filter.refresh to a return passes the
// Clear of the result cache; a return in between (a check of the new list's
// size, say) leaves verdicts of the old list in the cache while uncached hosts
// are judged by the new one.
func c12ClearAfterReset(c *an.Ctx, rule string) {
	k := "filter/hashprefix.(*Filter).refresh"
	fn := c.Prog.Fn(k)
	key := k + " clears the result cache on every path after a successful Reset"
	if fn == nil {
		c.Und(rule, key, token.NoPos, "anchor not found")
		return
	}
	c.Analysed(k)
	var reset *ssa.Call
	for _, call := range an.Calls(fn) {
		if cv, ok := call.(*ssa.Call); ok && strings.HasSuffix(an.CalleeName(call), "hashprefix.Storage).Reset") {
			reset = cv
		}
	}
	if reset == nil {
		c.Und(rule, key, fn.Pos(), "no Storage.Reset call")
		return
	}
	var errEdges []an.CondEdge
	for _, b := range fn.Blocks {
		if ifi, ok := b.Instrs[len(b.Instrs)-1].(*ssa.If); ok {
			for _, br := range []bool{true, false} {
				if e := (an.CondEdge{If: ifi, Branch: br}); an.ErrNonNilEdgeOf(e, reset) {
					errEdges = append(errEdges, e)
				}
			}
		}
	}
	if len(errEdges) == 0 {
		c.Und(rule, key, fn.Pos(), "the error test of Reset was not recognised")
		return
	}
	leak := exitAvoiding(reset, errEdges, func(in ssa.Instruction) bool {
		call, ok := in.(ssa.CallInstruction)
		return ok && call.Common().IsInvoke() && call.Common().Method.Name() == "Clear"
	})
	c.Check(!leak, rule, key, reset.Pos(), "Clear lies on every path from a successful Reset to a return",
		"a path returns after Storage.Reset has succeeded (the new hash set is already in use) without clearing the result cache: hosts that were cached keep the old list's verdict, the others get the new one")
}

// c12InstallsAsGiven: resetRuleLists is the publication step of a rule-list
// refresh.  It stores its parameter into Default.ruleLists; it neither loads the
// field (to compare with or keep previous lists) nor updates the parameter map.
func c12InstallsAsGiven(c *an.Ctx, rule string) {
	k := "filter/filterstorage.(*Default).resetRuleLists"
	fn := c.Prog.Fn(k)
	key := k + " installs the new lists without looking at the old ones"
	if fn == nil {
		c.Und(rule, key, token.NoPos, "anchor not found")
		return
	}
	c.Analysed(k)
	stored, bad := false, ""
	an.Instrs(fn, func(in ssa.Instruction) {
		switch x := in.(type) {
		case *ssa.Store:
			if _, f, _, ok := an.FieldOf(x.Addr); ok && f == "ruleLists" {
				if pa, isPa := x.Val.(*ssa.Parameter); isPa && pa == fn.Params[1] {
					stored = true
				} else {
					bad = "the value stored into ruleLists at " + c.Pos(x.Pos()) + " is not the parameter itself"
				}
			}
		case *ssa.UnOp:
			if x.Op == token.MUL {
				if _, f, _, ok := an.FieldOf(x.X); ok && f == "ruleLists" {
					bad = "the map being replaced is read at " + c.Pos(x.Pos())
				}
			}
		case *ssa.MapUpdate:
			bad = "a map is updated at " + c.Pos(x.Pos())
		}
	})
	c.Check(stored && bad == "", rule, key, fn.Pos(), "one store of the parameter, no read of the old map",
		bad+": a list object of the previous refresh (with its old engine and its old result cache) can survive the publication of a new version")
}
