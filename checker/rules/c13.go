package rules

import (
	"fmt"
	"go/constant"
	"go/token"
	"go/types"
	"sort"
	"strings"

	"adgverif/an"

	"golang.org/x/tools/go/ssa"
)

func init() {
	register(&Property{ID: "C13", Technique: "commit-only-after-success path rule (no path from the failure edge of any fallible step to the commit; unchecked fallible steps flagged); decision-tree extraction of the download/replace protocol and of the index conversion; who-may-mutate-files rule",
		Run: runC13, Explain: an.Explanation{
			Text: "R1: refreshFromURL registers the temp-file finaliser as soon as the temp file exists, returns a nil error only after " +
				"the request, the status check (200), the bounded copy (golibs LimitReader, which fails at the limit) and the non-empty " +
				"check all succeeded; withDeferredTmpCleanup atomically replaces the cache file only when the returned error is nil and " +
				"cleans the temp file up otherwise. R2: in the filter, profile-database and query-log packages files are created or " +
				"replaced only through renameio (atomic) plus os.Chtimes / append-only log writes; no os.WriteFile/Create/Rename/Remove. " +
				"R3: every commit of live filtering state (engine swap and cache clear of a rule list, hash-set publication, blocked-" +
				"service map, the storage's rule-list map, a new list's entry in the round's map) is unreachable from the failure edge " +
				"of every fallible step that precedes it in its function, and every such step's error is checked; addRuleList keeps " +
				"the previous list on each error edge. R4: the index conversion skips invalid entries and keeps converting the rest.",
			NotCovered: "behaviour of the HTTP client under each fault kind; atomicity of renameio itself (trusted); disk-full and fsync semantics.",
			Rules: map[string]string{"C13-R23": "validateHTTPURLs: every URL of the environment is required (and so checked to be an HTTP(S) URL) under its own switch: the Enabled field with the URL field's name prefix, a nil test of the same URL, or never; a list whose URL escapes the check can be a file: URI, for which a missing file reads as an empty list", "C13-R22": "hashprefix.Storage.Hashes reads the published table once: count and data come from the same version (shared with C11-R5)", "C13-R21": "every use of an element of a JSON-decoded slice of pointers (rule-list index, blocked-service index) comes after a nil test of the element or after the success of a method that rejects a nil receiver: a `null` entry is an invalid entry, not a panic that ends the refresh loop", "C13-R20": "the JSON entry types of the rule-list and blocked-service indexes have only string (or list-of-string) fields, so a malformed entry cannot fail the decoding of the whole index", "C13-R19": "setRuleLists installs a selected rule list only when a loaded version exists, so a list whose first download failed cannot reach a composite filter as nil (table shared with C02-R26)", "C13-R18": "the fixed cache-file names of the indexes, the safe-search and the hash-prefix lists are refused as rule-list keys by the index validation (all copies share one directory)", "C13-R17": "RefreshInitial accepts stale copies on disk (true), the periodic Refresh does not (false), for the storage and the hash-prefix filters", "C13-R16": "a consumer that can reject downloaded text does so before the text replaces the cache file (otherwise the rejected file is what the next start loads)", "C13-R15": "loadIndex (rule lists and blocked services): any load or decoding error rejects the whole index", "C13-R14": "builder wiring of the hash-prefix filters: own ID, cache file, storage and URL each (shared with C11-R11)", "C13-RC": "class rules (error chains, shadowed results, character classes, crossed arguments, pool constructors, array pools, loop completeness, loop-carried buffers, replacing setters, complete clones, Grow arithmetic, pooled-buffer escape, sorted searches, fresh decode targets, per-iteration objects, whole-message copies, codec guards) over the packages this property rests on", "C13-R13": "loadIndex only sorts the decoded entries; none is removed before validation", "C13-R12": "in-place list refresh: engine swap and cache clear under one write lock; same-typed arguments (acceptStale vs cache switches) are not crossed", "C13-R11": "the periodic refresh worker: the loop ends only on shutdown, refreshes on every uninterrupted tick, survives a failed refresh; shutdown refresh exactly when configured; constructor field map", "C13-R9": "an index key is converted to filter.ID only where the same field is validated by filter.NewID in the package", "C13-R10": "components with RefreshInitial are started through it in package cmd, never through their periodic Refresh", "C13-R1": "download / replace protocol tables", "C13-R2": "who may mutate files",
				"C13-R3": "commit only after success", "C13-R4": "invalid index entries skipped, not aborting",
				"C13-R7": "exact HTTP status check; only the size-limited reader that fails at the limit is used on a list's path",
				"C13-R6": "blocked-service index: any invalid entry rejects the whole update",
				"C13-R5": "configuration wiring: each kind of list (rule lists, their index, blocked-service index, safe search) gets its own size limit, staleness, timeout and URL"},
		}})
}

func isErrorType(t types.Type) bool {
	n, ok := t.(*types.Named)
	return ok && n.Obj().Pkg() == nil && n.Obj().Name() == "error"
}

// errorResult returns the value holding the error result of call, or nil.
func errorResult(call *ssa.Call) (v ssa.Value, has bool) {
	res := call.Common().Signature().Results()
	if res.Len() == 0 || !isErrorType(res.At(res.Len()-1).Type()) {
		return nil, false
	}
	if res.Len() == 1 {
		return call, true
	}
	for _, r := range *call.Referrers() {
		if ex, ok := r.(*ssa.Extract); ok && ex.Index == res.Len()-1 {
			return ex, true
		}
	}
	return nil, true
}

// reachesAvoidingEdges reports whether some path from just after `from` reaches
// instruction `to` without traversing any of the given conditional edges.
func reachesAvoidingEdges(from, to ssa.Instruction, avoid []an.CondEdge) bool {
	blocked := func(b, succ *ssa.BasicBlock) bool {
		for _, e := range avoid {
			if e.If.Block() == b && e.To() == succ {
				// both branches to the same block cannot be told apart
				return b.Succs[0] != b.Succs[1]
			}
		}
		return false
	}
	blk, i := an.After(from)
	for j := i; j < len(blk.Instrs); j++ {
		if blk.Instrs[j] == to {
			return true
		}
	}
	seen := map[*ssa.BasicBlock]bool{}
	work := []*ssa.BasicBlock{}
	push := func(b *ssa.BasicBlock) {
		for _, s := range b.Succs {
			if !blocked(b, s) && !seen[s] {
				seen[s] = true
				work = append(work, s)
			}
		}
	}
	push(blk)
	for len(work) > 0 {
		b := work[len(work)-1]
		work = work[:len(work)-1]
		for _, in := range b.Instrs {
			if in == to {
				return true
			}
		}
		push(b)
	}
	return false
}

// exitAvoiding reports whether some path from just after `from` reaches a
// return of the function without traversing any of the given conditional edges
// and without executing an instruction for which barrier is true.
func exitAvoiding(from ssa.Instruction, avoid []an.CondEdge, barrier func(ssa.Instruction) bool) bool {
	blocked := func(b, succ *ssa.BasicBlock) bool {
		for _, e := range avoid {
			if e.If.Block() == b && e.To() == succ && b.Succs[0] != b.Succs[1] {
				return true
			}
		}
		return false
	}
	type st struct {
		b *ssa.BasicBlock
		i int
	}
	blk, i := an.After(from)
	seen := map[*ssa.BasicBlock]bool{}
	work := []st{{blk, i}}
	for len(work) > 0 {
		s := work[len(work)-1]
		work = work[:len(work)-1]
		stopped := false
		for j := s.i; j < len(s.b.Instrs); j++ {
			in := s.b.Instrs[j]
			if barrier(in) {
				stopped = true
				break
			}
			if _, isRet := in.(*ssa.Return); isRet {
				return true
			}
		}
		if stopped {
			continue
		}
		for _, succ := range s.b.Succs {
			if !blocked(s.b, succ) && !seen[succ] {
				seen[succ] = true
				work = append(work, st{succ, 0})
			}
		}
	}
	return false
}

// c13Commit checks one commit instruction.
func c13Commit(c *an.Ctx, rule string, fn *ssa.Function, what string, commit ssa.Instruction, ignorable func(name string) bool) {
	key := an.FnKey(fn) + " commit: " + what
	var problems []string
	for _, ci := range an.Calls(fn) {
		call, ok := ci.(*ssa.Call)
		if !ok || call == commit {
			continue
		}
		ev, fallible := errorResult(call)
		if !fallible || !an.CanReach(call, commit) {
			continue
		}
		name := an.Short(an.CalleeName(call))
		if ignorable(name) {
			continue
		}
		// find the conditional edges that test this error
		var succEdges []an.CondEdge
		if ev != nil {
			for _, b := range fn.Blocks {
				ifi, ok := b.Instrs[len(b.Instrs)-1].(*ssa.If)
				if !ok {
					continue
				}
				for _, br := range []bool{true, false} {
					e := an.CondEdge{If: ifi, Branch: br}
					if an.ErrNonNilEdgeOf(e, call) {
						succEdges = append(succEdges, an.CondEdge{If: ifi, Branch: !br})
					}
				}
			}
		}
		if len(succEdges) == 0 {
			problems = append(problems, fmt.Sprintf("the error of %s (%s) is not checked before the commit", name, c.Pos(call.Pos())))
			continue
		}
		// every path from the call to the commit must take the success edge of
		// the check: neither the failure edge nor a path that commits before the
		// check may reach it
		if reachesAvoidingEdges(call, commit, succEdges) {
			problems = append(problems, fmt.Sprintf("reachable from %s (%s) without passing the success branch of its error check", name, c.Pos(call.Pos())))
		}
	}
	// the function must not be able to fail after the commit: a caller that sees
	// the error keeps treating the previous version as current
	for _, ci := range an.Calls(fn) {
		call, ok := ci.(*ssa.Call)
		if !ok || call == commit {
			continue
		}
		_, fallible := errorResult(call)
		if !fallible || !an.CanReach(commit, call) || an.CanReach(call, commit) {
			continue
		}
		name := an.Short(an.CalleeName(call))
		if ignorable(name) {
			continue
		}
		for _, b := range fn.Blocks {
			ifi, ok := b.Instrs[len(b.Instrs)-1].(*ssa.If)
			if !ok {
				continue
			}
			for _, br := range []bool{true, false} {
				e := an.CondEdge{If: ifi, Branch: br}
				if !an.ErrNonNilEdgeOf(e, call) {
					continue
				}
				if _, reaches := an.ReachesExitAvoiding(e.To(), 0, func(ssa.Instruction) bool { return false }, false); reaches {
					problems = append(problems, fmt.Sprintf("%s (%s) can still fail after the commit: the new content is live although the update is reported as failed", name, c.Pos(call.Pos())))
				}
			}
		}
	}
	if len(problems) > 0 {
		c.Bad(rule, key, commit.Pos(), "live state is committed although a step may have failed: %s", strings.Join(problems, "; "))
	} else {
		c.Ok(rule, key, commit.Pos(), "unreachable from every failure edge; every preceding fallible step is checked")
	}
}

func runC13(c *an.Ctx) {
	// ---- R23: each list URL is validated under its own switch
	if n := c13URLSwitches(c, "C13-R23"); n < 10 {
		c.Und("C13-R23", "URL entries of validateHTTPURLs", token.NoPos, "only %d entries found (10 confirmed by reading)", n)
	}
	// ---- R22: one snapshot of the hash table per lookup (shared with C11-R5)
	c.Floor("C13-R22", 1)
	c.Borrow("C13-R22", runC11, func(o an.Obligation) bool { return o.Rule == "C11-R5" && strings.Contains(o.Key, "Hashes") })
	// ---- R21: a `null` element of a downloaded index is rejected, not dereferenced
	if n := sharedDecodedElementsNilSafe(c, "C13-R21", "filter/"); n < 3 {
		c.Und("C13-R21", "uses of the elements of the decoded indexes", token.NoPos, "only %d uses of elements of json-tagged []*T fields found under internal/filter (3 confirmed by reading: validate and DownloadURL/Key of the rule-list index, toInternal of the service index)", n)
	}
	classSweep(c, "C13")
	// ---- R19: a rule list that has no loaded version is never installed in a composite filter (table of setRuleLists, shared with C02-R26)
	c.Floor("C13-R19", 1)
	c.Borrow("C13-R19", runC02, func(o an.Obligation) bool { return o.Rule == "C02-R26" && strings.Contains(o.Key, "setRuleLists") })
	c.Floor("C13-R11", 5)
	refreshWorkerRules(c, "C13-R11")
	// ---- R12: an in-place refresh swaps engine and cache in one write-locked section (shared with C02-R10); the
	// refresh helpers get acceptStale and the cache switches in their own positions
	c.Floor("C13-R12", 3)
	ruleListRefreshLocking(c, "C13-R12", "C13-R12", map[*ssa.Function]map[ssa.Instruction]an.Held{})
	c.Inf("C13-R12", "crossed arguments", token.NoPos, "%d call sites with two same-typed named arguments examined in the filter packages and cmd", sharedSwappedArgs(c, "C13-R12", "filter", "cmd."))
	c.Floor("C13-R13", 1)
	c13IndexEntries(c)
	// ---- R14: each hash-prefix filter has its own cache file (shared with C11-R11)
	c.Floor("C13-R14", 9)
	c.Borrow("C13-R14", runC11, func(o an.Obligation) bool { return o.Rule == "C11-R11" })
	c.Floor("C13-R15", 2)
	c13IndexDecode(c)
	c.Floor("C13-R16", 4)
	c13AcceptedBeforeCommit(c)
	c13CacheNames(c, "C13-R18")
	c.Floor("C13-R20", 2)
	c13IndexFieldsPlain(c, "C13-R20")
	if n := c13StaleFlags(c, "C13-R17"); n < 4 {
		c.Und("C13-R17", "stale-copy flags of the refreshes", token.NoPos, "only %d refresh calls with a constant acceptStale found (expected the storage and the hash-prefix filters, start-up and periodic)", n)
	}
	// ---- R10: the storage (and every other component with a RefreshInitial) is started from what is cached
	if n := sharedInitialRefresh(c, "C13-R10"); n < 4 {
		c.Und("C13-R10", "start-up refreshes", token.NoPos, "only %d RefreshInitial calls found in package cmd (expected the rule-list storage and the three hash-prefix filters)", n)
	}
	// ---- R9: an index entry becomes a list (and a cache-file name) only with a key that passed filter.NewID
	if n := sharedValidatedConversions(c, "C13-R9", "filter/internal.ID", ".NewID", "filter/filterstorage."); n >= 1 {
		c.Ok("C13-R9", "unchecked conversions to filter.ID in the storage", token.NoPos, "%d conversions of a field examined", n)
	} else {
		c.Und("C13-R9", "unchecked conversions to filter.ID in the storage", token.NoPos, "no conversion found (anchor: indexResp.toInternal)")
	}
	// ---- C13-R8: builder wiring of the components this property rests on
	c.Floor("C13-R8", 25)
	builderWiring(c, "C13-R8", map[string][]string{
		"initFilterStorage|filter/filterstorage.ConfigRuleLists":       {"IndexURL", "IndexMaxSize", "MaxSize", "IndexRefreshTimeout", "IndexStaleness", "RefreshTimeout", "Staleness"},
		"initFilterStorage|filter/filterstorage.ConfigBlockedServices": {"IndexURL", "IndexMaxSize", "IndexStaleness"},
		"initFilterStorage|filter/filterstorage.Config":                nil,
		"newSafeSearchConfig|filter/filterstorage.ConfigSafeSearch":    {"URL", "ID", "MaxSize", "RefreshTimeout", "Staleness"},
		"initSafeBrowsing|filter/hashprefix.FilterConfig":              {"Staleness", "RefreshTimeout", "MaxSize"},
		"initAdultBlocking|filter/hashprefix.FilterConfig":             {"Staleness", "RefreshTimeout", "MaxSize"},
		"initNewRegDomains|filter/hashprefix.FilterConfig":             {"Staleness", "RefreshTimeout", "MaxSize"},
		"initFilterStorage|agdservice.RefreshWorkerConfig":             nil,
		"initSafeBrowsing|agdservice.RefreshWorkerConfig":              nil,
		"initAdultBlocking|agdservice.RefreshWorkerConfig":             nil,
		"initNewRegDomains|agdservice.RefreshWorkerConfig":             nil,
	})
	// ---- R7: the status check is exact; no silently truncating reader on a list's path
	c.Floor("C13-R7", 2)
	decide(c, "C13-R7", "agdhttp.CheckStatus", an.DecideCfg{
		Dom: an.Domain{"(p0.StatusCode == p1)": an.Bools},
		OnCall: func(it *an.Interp, name string, args []an.AV) (an.AV, bool) {
			if strings.HasSuffix(name, ".Get") || strings.HasSuffix(name, "fmt.Errorf") {
				return an.Sym("x"), true
			}
			return an.AV{}, false
		},
		Expect: func(f an.Features, o an.AOutcome) string {
			if len(o.Ret) != 1 {
				return "an error result"
			}
			if f.B("(p0.StatusCode == p1)") != (o.Ret[0].Kind == an.KNil) {
				return fmt.Sprintf("nil exactly when the status code equals the expected one (a 206 or 203 answer carries a partial or transformed body); got %s for equal=%v", o.RetString(), f.B("(p0.StatusCode == p1)"))
			}
			return ""
		},
	})
	nLim := 0
	for _, fn := range c.AllFns {
		k := an.FnKey(fn)
		if fn.Blocks == nil || c.IsTestFile(fn.Pos()) || !(strings.HasPrefix(k, "filter/") || strings.HasPrefix(k, "agdhttp.")) {
			continue
		}
		for _, call := range an.Calls(fn) {
			switch an.CalleeName(call) {
			case "io.LimitReader":
				c.Bad("C13-R7", k+" io.LimitReader", call.Pos(), "the standard library's LimitReader ends the stream silently at the limit: a list longer than the limit is read back cut in the middle of a line with no error")
			case "github.com/AdguardTeam/golibs/ioutil.LimitReader":
				nLim++
				c.Ok("C13-R7", k+" size-limited reader", call.Pos(), "the reader that fails at the limit")
			}
		}
	}
	if nLim == 0 {
		c.Und("C13-R7", "size-limited readers", token.NoPos, "no use of the failing size-limited reader found in the filter packages")
	}
	// ---- R6: an invalid entry of the blocked-service index rejects the whole update (the previous service map stays)
	c.Floor("C13-R6", 1)
	decide(c, "C13-R6", "filter/internal/serviceblock.(*indexResp).toInternal", an.DecideCfg{
		Dom: an.Domain{"len(p0.BlockedServices)": an.Ints(0, 1, 2), "e0": an.Bools, "e1": an.Bools},
		OnCall: func(it *an.Interp, name string, args []an.AV) (an.AV, bool) {
			switch {
			case strings.HasSuffix(name, "indexRespService).toInternal"):
				i := "0"
				if strings.Contains(args[0].String(), "[1]") {
					i = "1"
				}
				if it.Feature("e" + i).IsTrue() {
					return an.AV{Kind: an.KTuple, Tup: []an.AV{an.Sym("id" + i), an.Nil(), an.NonNil("entryErr" + i)}}, true
				}
				return an.AV{Kind: an.KTuple, Tup: []an.AV{an.Sym("id" + i), an.NonNil("list" + i), an.Nil()}}, true
			case name == "fmt.Errorf":
				return an.NonNil("wrapped"), true
			case strings.HasSuffix(name, "errors.Join"):
				// non-nil iff some element of the joined slice was set to a non-nil error
				for _, a := range args {
					if a.Kind == an.KNonNil && strings.HasPrefix(a.Key, "make#") {
						for _, pre := range []string{a.Key + "[", a.String() + "["} {
							for _, v := range it.MemWithPrefix(pre) {
								if v.Kind == an.KNonNil {
									return an.NonNil("joined"), true
								}
							}
						}
					}
					if a.Kind == an.KSlice {
						for _, v := range a.Tup {
							if v.Kind == an.KNonNil {
								return an.NonNil("joined"), true
							}
						}
					}
				}
				return an.Nil(), true
			case strings.HasSuffix(name, "errcoll.Collect"):
				return an.Nil(), true
			}
			return an.AV{}, false
		},
		Expect: func(f an.Features, o an.AOutcome) string {
			n := int(f.I("len(p0.BlockedServices)"))
			if n == 0 {
				if o.RetString() == "nil, nil" {
					return ""
				}
				return "nothing for an empty index; got " + o.RetString()
			}
			bad := false
			for i := 0; i < n; i++ {
				if f.B(fmt.Sprintf("e%d", i)) {
					bad = true
				}
			}
			if len(o.Ret) != 2 {
				return "a (services, err) result"
			}
			if bad {
				if o.Ret[0].Kind == an.KNil && o.Ret[1].Kind != an.KNil {
					return ""
				}
				return "an error and no service map when any entry (first, middle or last) is invalid: a partial map would silently stop blocking the other services; got " + o.RetString()
			}
			if o.Ret[1].Kind != an.KNil || o.Ret[0].Kind == an.KNil {
				return "the service map for a valid index; got " + o.RetString()
			}
			return ""
		},
	})
	// ---- R5: the size limit, staleness and timeout of each kind of list reach the downloader built for that kind
	c.Floor("C13-R5", 12)
	const fs = "filter/filterstorage."
	checkFieldMap(c, "C13-R5", fs+"New", "filter/filterstorage.Default", map[string]string{
		"ruleListMaxSize": ".RuleLists.MaxSize", "ruleListStaleness": ".RuleLists.Staleness", "ruleListRefreshTimeout": ".RuleLists.RefreshTimeout"})
	checkFieldMap(c, "C13-R5", fs+"(*Default).addRuleList", "filter/internal/refreshable.Config", map[string]string{
		"MaxSize": ".ruleListMaxSize", "Staleness": ".ruleListStaleness", "Timeout": ".ruleListRefreshTimeout", "URL": ".url"})
	checkFieldMap(c, "C13-R5", fs+"(*Default).initRuleListRefr", "filter/internal/refreshable.Config", map[string]string{
		"MaxSize": ".IndexMaxSize", "Staleness": ".IndexStaleness", "Timeout": ".IndexRefreshTimeout", "URL": ".IndexURL"})
	checkFieldMap(c, "C13-R5", fs+"(*Default).initBlockedServices", "filter/internal/refreshable.Config", map[string]string{
		"MaxSize": ".IndexMaxSize", "Staleness": ".IndexStaleness", "Timeout": ".IndexRefreshTimeout", "URL": ".IndexURL"})
	checkFieldMap(c, "C13-R5", "filter/hashprefix.NewFilter", "filter/internal/refreshable.Config", map[string]string{
		"MaxSize": ".MaxSize", "Staleness": ".Staleness", "Timeout": ".RefreshTimeout", "URL": ".URL", "CachePath": ".CachePath"})
	checkFieldMap(c, "C13-R5", fs+"newSafeSearch", "filter/internal/refreshable.Config", map[string]string{
		"MaxSize": ".MaxSize", "Staleness": ".Staleness", "Timeout": ".RefreshTimeout", "URL": ".URL"})
	if n := sharedLoopCompleteness(c, "C13-R4", "filter/filterstorage.", "filter/internal/serviceblock."); n > 0 {
		c.Ok("C13-R4", "element-wise loops", token.NoPos, "%d range loops of the index conversions examined: no invalid entry ends a conversion early", n)
	}
	c.Floor("C13-R1", 3)
	c.Floor("C13-R2", 3)
	c.Floor("C13-R3", 9)
	c.Floor("C13-R4", 1)

	const rf = "filter/internal/refreshable.(*Refreshable)."
	// ---- R1a
	decide(c, "C13-R1", rf+"withDeferredTmpCleanup", an.DecideCfg{
		Dom: an.Domain{"p1": an.NilOrNot, "replaceerr": an.Bools},
		OnCall: func(it *an.Interp, name string, args []an.AV) (an.AV, bool) {
			switch {
			case strings.HasSuffix(name, "PendingFile).CloseAtomicallyReplace"):
				if it.Feature("replaceerr").IsTrue() {
					return an.NonNil("replaceErr"), true
				}
				return an.Nil(), true
			case strings.HasSuffix(name, "errors.WithDeferred"):
				if args[0].Kind != an.KNil {
					return args[0], true
				}
				return args[1], true
			}
			return an.AV{}, false
		},
		Expect: func(f an.Features, o an.AOutcome) string {
			repl := o.CallIndex("(*github.com/google/renameio/v2.PendingFile).CloseAtomicallyReplace")
			clean := o.CallIndex("(*github.com/google/renameio/v2.PendingFile).Cleanup")
			cht := o.CallIndex("os.Chtimes")
			if !f.IsNil("p1") {
				if repl < 0 && clean >= 0 && cht < 0 {
					return ""
				}
				return "only Cleanup of the temp file when the refresh failed (the previous cache file stays)"
			}
			if repl < 0 || clean >= 0 {
				return "an atomic replace (and no Cleanup) after a successful refresh"
			}
			if f.B("replaceerr") != (cht < 0) {
				return "Chtimes only after a successful replace"
			}
			return ""
		},
	})
	// ---- R1b
	decide(c, "C13-R1", rf+"refreshFromURL", an.DecideCfg{
		Dom: an.Domain{"tmperr": an.Bools, "geterr": an.Bools, "statuserr": an.Bools, "copyerr": an.Bools, "empty": an.Bools},
		Inline: func(f *ssa.Function) bool {
			k := an.FnKey(f)
			return strings.HasPrefix(k, rf+"refreshFromURL$")
		},
		OnCall: func(it *an.Interp, name string, args []an.AV) (an.AV, bool) {
			errOr := func(k, e string) an.AV {
				if it.Feature(k).IsTrue() {
					return an.NonNil(e)
				}
				return an.Nil()
			}
			switch {
			case strings.HasSuffix(name, "renameio/v2.TempFile"):
				if it.Feature("tmperr").IsTrue() {
					return an.AV{Kind: an.KTuple, Tup: []an.AV{an.Nil(), an.NonNil("tmpErr")}}, true
				}
				return an.AV{Kind: an.KTuple, Tup: []an.AV{an.NonNil("tmpFile"), an.Nil()}}, true
			case strings.HasSuffix(name, "agdhttp.Client).Get"):
				if it.Feature("geterr").IsTrue() {
					return an.AV{Kind: an.KTuple, Tup: []an.AV{an.Nil(), an.NonNil("getErr")}}, true
				}
				return an.AV{Kind: an.KTuple, Tup: []an.AV{an.NonNil("resp"), an.Nil()}}, true
			case strings.HasSuffix(name, "agdhttp.CheckStatus"):
				if len(args) == 2 && args[0].String() == "nonnil:resp" && args[1].String() == "200" {
					return errOr("statuserr", "statusErr"), true
				}
				return an.Sym("status checked against " + args[1].String()), true
			case name == "io.Copy":
				return an.AV{Kind: an.KTuple, Tup: []an.AV{an.Sym("n"), errOr("copyerr", "copyErr")}}, true
			case name == "(*strings.Builder).Len":
				if it.Feature("empty").IsTrue() {
					return an.CInt(0), true
				}
				return an.CInt(10), true
			case name == "(*strings.Builder).String":
				return an.Sym("text"), true
			case strings.HasSuffix(name, "agdhttp.WrapServerError"), name == "fmt.Errorf":
				return an.NonNil("wrapped"), true
			case strings.HasSuffix(name, "errors.WithDeferred"):
				if args[0].Kind != an.KNil {
					return args[0], true
				}
				return args[1], true
			case strings.HasSuffix(name, ").withDeferredTmpCleanup"):
				return args[1], true // pass the returned error through; its own table is R1a
			case strings.HasSuffix(name, ".Close"):
				return an.Nil(), true
			}
			return an.AV{}, false
		},
		Expect: func(f an.Features, o an.AOutcome) string {
			if o.Exit != "return" || len(o.Ret) != 2 {
				return "a (text, err) result"
			}
			fail := f.B("tmperr") || f.B("geterr") || f.B("statuserr") || f.B("copyerr") || f.B("empty")
			if fail != (o.Ret[1].Kind != an.KNil) {
				return fmt.Sprintf("error=%v (success only after request, status 200, complete bounded copy and non-empty text)", fail)
			}
			// finaliser: called exactly when the temp file exists, with the function's final error
			var fin []string
			limited := false
			for _, e := range o.Effects {
				if (e.Kind == "call" || e.Kind == "defer") && strings.HasSuffix(e.Name, ").withDeferredTmpCleanup") {
					fin = append(fin, e.Args[1])
				}
				if e.Kind == "call" && strings.HasSuffix(e.Name, "golibs/ioutil.LimitReader") {
					limited = true
				}
				if e.Kind == "call" && e.Name == "io.LimitReader" {
					return "the size-limited reader that fails at the limit (golibs ioutil.LimitReader), not io.LimitReader which silently truncates"
				}
			}
			if f.B("tmperr") {
				if len(fin) == 0 {
					return ""
				}
				return "no finaliser without a temp file"
			}
			if len(fin) != 1 {
				return "the temp-file finaliser to run exactly once"
			}
			if fail != (fin[0] != "nil") {
				return "the finaliser to see the refresh's error (got " + fin[0] + ")"
			}
			if !fail && !limited {
				return "the body copied through the size-limited reader"
			}
			return ""
		},
	})

	// ---- R1d: when the cache file counts as fresh
	decide(c, "C13-R1", rf+"refreshFromFile", an.DecideCfg{
		Dom:    an.Domain{"open": an.Strs("ok", "notexist", "other"), "p1": an.Bools, "staterr": an.Bools, "fresh": an.Bools, "copyerr": an.Bools},
		Inline: func(f *ssa.Function) bool { return strings.HasPrefix(an.FnKey(f), rf+"refreshFromFile$") },
		OnCall: func(it *an.Interp, name string, args []an.AV) (an.AV, bool) {
			switch {
			case name == "os.Open":
				if args[0].String() != "p2" {
					return an.Sym("another file opened"), true
				}
				switch avStr(it.Feature("open")) {
				case "ok":
					return an.AV{Kind: an.KTuple, Tup: []an.AV{an.NonNil("file"), an.Nil()}}, true
				case "notexist":
					return an.AV{Kind: an.KTuple, Tup: []an.AV{an.Nil(), an.NonNil("err:notexist")}}, true
				}
				return an.AV{Kind: an.KTuple, Tup: []an.AV{an.Nil(), an.NonNil("err:other")}}, true
			case strings.HasSuffix(name, "errors.Is"):
				return an.CBool(args[0].Kind == an.KNonNil && args[0].Key == "err:notexist"), true
			case name == "(*os.File).Stat":
				if it.Feature("staterr").IsTrue() {
					return an.AV{Kind: an.KTuple, Tup: []an.AV{an.Nil(), an.NonNil("statErr")}}, true
				}
				return an.AV{Kind: an.KTuple, Tup: []an.AV{an.NonNil("fi"), an.Nil()}}, true
			case strings.HasSuffix(name, ".ModTime"):
				return an.Sym("mtime"), true
			case name == "(time.Time).Add":
				return an.Sym("add(" + args[0].String() + "," + args[1].String() + ")"), true
			case name == "(time.Time).After":
				if args[0].String() == "add(mtime,p0.staleness)" && args[1].String() == "p3" {
					return it.Feature("fresh"), true
				}
				return an.Sym("another freshness comparison: " + args[0].String() + " after " + args[1].String()), true
			case name == "(time.Time).Before":
				return an.Sym("another freshness comparison (Before)"), true
			case name == "io.Copy":
				if it.Feature("copyerr").IsTrue() {
					return an.AV{Kind: an.KTuple, Tup: []an.AV{an.Sym("n"), an.NonNil("copyErr")}}, true
				}
				return an.AV{Kind: an.KTuple, Tup: []an.AV{an.Sym("n"), an.Nil()}}, true
			case name == "(*strings.Builder).String":
				return an.Sym("content"), true
			case name == "(*os.File).Close":
				return an.Nil(), true
			case strings.HasSuffix(name, "errors.WithDeferred"):
				if args[0].Kind != an.KNil {
					return args[0], true
				}
				return args[1], true
			case name == "fmt.Errorf":
				return an.NonNil("wrapped"), true
			}
			return an.AV{}, false
		},
		Expect: func(f an.Features, o an.AOutcome) string {
			if o.Exit != "return" || len(o.Ret) != 2 {
				return "a (text, err) result"
			}
			switch f.S("open") {
			case "notexist":
				if o.RetString() == `"", nil` {
					return ""
				}
				return `"", nil (a missing cache file means: download)`
			case "other":
				if o.Ret[1].Kind != an.KNil {
					return ""
				}
				return "an error when the cache file cannot be opened"
			}
			if !f.B("p1") {
				if f.B("staterr") {
					if o.Ret[1].Kind != an.KNil {
						return ""
					}
					return "an error when the file's age cannot be read"
				}
				if !f.B("fresh") {
					if o.RetString() == `"", nil` {
						return ""
					}
					return `"", nil for a file older than the staleness period relative to the update time (a stale list must be downloaded again); got ` + o.RetString()
				}
			}
			if f.B("copyerr") {
				if o.Ret[1].Kind != an.KNil {
					return ""
				}
				return "an error when the file cannot be read"
			}
			if o.RetString() != "content, nil" {
				return "the file's content; got " + o.RetString()
			}
			return ""
		},
	})

	// ---- R1d: the scheme decides the source: a file URI is read directly (always accepted, whatever its age),
	// anything else goes through the cache file with the caller's staleness policy
	decide(c, "C13-R1", rf+"Refresh", an.DecideCfg{
		Dom: an.Domain{"isfile": an.Bools, "srcerr": an.Bools},
		OnCall: func(it *an.Interp, name string, args []an.AV) (an.AV, bool) {
			res := func(tag string) an.AV {
				if it.Feature("srcerr").IsTrue() {
					return an.AV{Kind: an.KTuple, Tup: []an.AV{an.CStr(""), an.NonNil("srcErr")}}
				}
				return an.AV{Kind: an.KTuple, Tup: []an.AV{an.Sym(tag), an.Nil()}}
			}
			switch {
			case name == "strings.EqualFold":
				a, b := args[0].String(), args[1].String()
				if (a == "p0.url.Scheme" && b == `"file"`) || (b == "p0.url.Scheme" && a == `"file"`) {
					return it.Feature("isfile"), true
				}
				return an.Sym("scheme test on " + a + "," + b), true
			case strings.HasSuffix(name, ").refreshFromFileOnly"):
				return res("filetext"), true
			case strings.HasSuffix(name, ").useCachedOrRefreshFromURL"):
				if args[2].String() != "p2" {
					return an.Sym("staleness policy replaced by " + args[2].String()), true
				}
				return res("urltext"), true
			case strings.HasSuffix(name, "errors.Annotate"):
				return args[0], true
			}
			return an.AV{}, false
		},
		Expect: func(f an.Features, o an.AOutcome) string {
			file, url := o.HasCall("(*filter/internal/refreshable.Refreshable).refreshFromFileOnly"), o.HasCall("(*filter/internal/refreshable.Refreshable).useCachedOrRefreshFromURL")
			if f.B("isfile") != file || f.B("isfile") == url {
				return fmt.Sprintf("file URI -> direct read only, otherwise cache/URL only (file=%v url=%v)", file, url)
			}
			if len(o.Ret) != 2 {
				return "a (text, err) result"
			}
			if f.B("srcerr") {
				if o.Ret[1].Kind != an.KNil && o.Ret[0].String() == `""` {
					return ""
				}
				return "no text and an error when the source fails; got " + o.RetString()
			}
			want := "urltext, nil"
			if f.B("isfile") {
				want = "filetext, nil"
			}
			if o.RetString() != want {
				return want + "; got " + o.RetString()
			}
			return ""
		},
	})
	decide(c, "C13-R1", rf+"refreshFromFileOnly", an.DecideCfg{
		Dom: an.Domain{"fileerr": an.Bools},
		OnCall: func(it *an.Interp, name string, args []an.AV) (an.AV, bool) {
			switch {
			case strings.HasSuffix(name, ").refreshFromFile"):
				if !args[1].IsTrue() || args[2].String() != "p0.url.Path" {
					return an.Sym("file read with " + args[1].String() + "," + args[2].String()), true
				}
				if it.Feature("fileerr").IsTrue() {
					return an.AV{Kind: an.KTuple, Tup: []an.AV{an.CStr(""), an.NonNil("fileErr")}}, true
				}
				return an.AV{Kind: an.KTuple, Tup: []an.AV{an.Sym("filetext"), an.Nil()}}, true
			case name == "fmt.Errorf":
				return an.NonNil("wrapped"), true
			}
			return an.AV{}, false
		},
		Expect: func(f an.Features, o an.AOutcome) string {
			if len(o.Ret) != 2 {
				return "a (text, err) result"
			}
			if f.B("fileerr") {
				if o.Ret[1].Kind != an.KNil && o.Ret[0].String() == `""` {
					return ""
				}
				return "no text and an error; got " + o.RetString()
			}
			if o.RetString() != "filetext, nil" {
				return "the file's text (read from the URL's path, accepted whatever its age); got " + o.RetString()
			}
			return ""
		},
	})
	// ---- R1c: the cache file is preferred when fresh, the URL used only when it yields nothing
	decide(c, "C13-R1", rf+"useCachedOrRefreshFromURL", an.DecideCfg{
		Dom: an.Domain{"fileerr": an.Bools, `(filetext == "")`: an.Bools, "urlerr": an.Bools},
		OnCall: func(it *an.Interp, name string, args []an.AV) (an.AV, bool) {
			switch {
			case strings.HasSuffix(name, ").refreshFromFile"):
				if args[1].String() != "p2" || args[2].String() != "p0.cachePath" {
					return an.Sym("cache file read with other arguments"), true
				}
				e := an.Nil()
				if it.Feature("fileerr").IsTrue() {
					e = an.NonNil("fileErr")
				}
				return an.AV{Kind: an.KTuple, Tup: []an.AV{an.Sym("filetext"), e}}, true
			case strings.HasSuffix(name, ").refreshFromURL"):
				if it.Feature("urlerr").IsTrue() {
					return an.AV{Kind: an.KTuple, Tup: []an.AV{an.CStr(""), an.NonNil("urlErr")}}, true
				}
				return an.AV{Kind: an.KTuple, Tup: []an.AV{an.Sym("urltext"), an.Nil()}}, true
			case name == "fmt.Errorf":
				return an.NonNil("wrapped"), true
			case name == "time.Now":
				return an.Sym("now"), true
			}
			return an.AV{}, false
		},
		Expect: func(f an.Features, o an.AOutcome) string {
			url := o.HasCall("(*filter/internal/refreshable.Refreshable).refreshFromURL")
			switch {
			case f.B("fileerr"):
				if !url && o.Ret[1].Kind != an.KNil {
					return ""
				}
				return "an error when the cache file cannot be read"
			case !f.B(`(filetext == "")`):
				if !url && o.RetString() == "filetext, nil" {
					return ""
				}
				return "the fresh cache file's content without a download"
			case f.B("urlerr"):
				if url && o.Ret[1].Kind != an.KNil && o.Ret[0].String() == `""` {
					return ""
				}
				return "an error and no text when the download fails"
			}
			if url && o.RetString() == "urltext, nil" {
				return ""
			}
			return "the downloaded text"
		},
	})

	// ---- R2 who may mutate files
	sharedFileMutators(c, "C13-R2", "filter/", "profiledb", "querylog.")

	// ---- R3 commits
	ignorable := func(name string) bool {
		return strings.Contains(name, "Logger).") || strings.HasPrefix(name, "fmt.") || strings.Contains(name, ".Close") ||
			strings.HasSuffix(name, "errors.Annotate") || strings.HasSuffix(name, "errors.WithDeferred")
	}
	type commitSpec struct {
		fn, what string
		find     func(fn *ssa.Function) []ssa.Instruction
	}
	storeTo := func(typ, field string) func(fn *ssa.Function) []ssa.Instruction {
		return func(fn *ssa.Function) (out []ssa.Instruction) {
			an.Instrs(fn, func(in ssa.Instruction) {
				if st, ok := in.(*ssa.Store); ok {
					if t, f, _, ok := an.FieldOf(st.Addr); ok && t == typ && f == field {
						out = append(out, st)
					}
				}
			})
			return out
		}
	}
	callTo := func(pred func(call ssa.CallInstruction) bool) func(fn *ssa.Function) []ssa.Instruction {
		return func(fn *ssa.Function) (out []ssa.Instruction) {
			for _, call := range an.Calls(fn) {
				if _, isDefer := call.(*ssa.Defer); !isDefer && pred(call) {
					out = append(out, call)
				}
			}
			return out
		}
	}
	isClear := func(call ssa.CallInstruction) bool {
		return call.Common().IsInvoke() && call.Common().Method.Name() == "Clear"
	}
	specs := []commitSpec{
		{"filter/internal/rulelist.(*Refreshable).Refresh", "engine swap", storeTo("filter/internal/rulelist.filter", "engine")},
		{"filter/internal/rulelist.(*Refreshable).Refresh", "cache clear", callTo(isClear)},
		{"filter/hashprefix.(*Filter).refresh", "hash set reset", callTo(func(call ssa.CallInstruction) bool { return an.IsCall(call, "(*filter/hashprefix.Storage).Reset") })},
		{"filter/hashprefix.(*Filter).refresh", "cache clear", callTo(isClear)},
		{"filter/hashprefix.(*Storage).Reset", "publish hash set", callTo(func(call ssa.CallInstruction) bool {
			return strings.HasSuffix(an.CalleeName(call), ".Store") && strings.Contains(an.CalleeName(call), "atomic.Pointer")
		})},
		{"filter/internal/serviceblock.(*Filter).Refresh", "service map swap", storeTo("filter/internal/serviceblock.Filter", "services")},
		{"filter/filterstorage.(*Default).refresh", "rule-list map swap", callTo(func(call ssa.CallInstruction) bool {
			return an.IsCall(call, "(*filter/filterstorage.Default).resetRuleLists")
		})},
		{"filter/filterstorage.(*Default).addRuleList", "new list enters the round's map", func(fn *ssa.Function) (out []ssa.Instruction) {
			an.Instrs(fn, func(in ssa.Instruction) {
				if mu, ok := in.(*ssa.MapUpdate); ok {
					out = append(out, mu)
				}
			})
			return out
		}},
		{"filter/internal/refreshable.(*Refreshable).withDeferredTmpCleanup", "atomic replace of the cache file", callTo(func(call ssa.CallInstruction) bool {
			return strings.HasSuffix(an.CalleeName(call), "PendingFile).CloseAtomicallyReplace")
		})},
	}
	listed := map[ssa.Instruction]bool{}
	for _, sp := range specs {
		if fn := c.Fn(sp.fn); fn != nil {
			for _, in := range sp.find(fn) {
				listed[in] = true
			}
		}
	}
	// coverage: every write to receiver state in a refresh-like function of the
	// filter packages is one of the listed commits (or a named exception)
	commitExceptions := map[string]string{
		"filter/filterstorage.(*Default).resetRuleLists store p0.ruleLists": "the body of the rule-list map swap; its call sites are checked to be exactly the listed commit in refresh",
	}
	if fn := c.Fn("filter/filterstorage.(*Default).resetRuleLists"); fn != nil {
		for _, s := range c.Callers(fn) {
			from := an.FnKey(s.In)
			if c.IsTestFile(s.In.Pos()) {
				continue
			}
			c.Check(from == "filter/filterstorage.(*Default).refresh", "C13-R3", "resetRuleLists called from "+from, fn.Pos(),
				"only the storage's refresh swaps the rule-list map", "the rule-list map is swapped from a function whose failure paths are not checked")
		}
	}
	for _, fn := range c.FnsMatching("filter/") {
		k := an.FnKey(fn)
		if c.IsTestFile(fn.Pos()) || fn.Signature.Recv() == nil || fn.Parent() != nil {
			continue
		}
		if pk := an.FnPkg(fn); pk != nil && strings.HasSuffix(pk.Path(), "test") {
			continue
		}
		ln := strings.ToLower(fn.Name())
		if !(strings.HasPrefix(ln, "refresh") || ln == "reset" || strings.HasPrefix(ln, "resetrulelists")) {
			continue
		}
		an.Instrs(fn, func(in ssa.Instruction) {
			var what string
			switch x := in.(type) {
			case *ssa.Store:
				ap, ok := an.AccessPath(x.Addr)
				if !ok || !strings.HasPrefix(ap, "p0.") {
					return
				}
				what = "store " + ap
			case *ssa.MapUpdate:
				ap, ok := an.AccessPath(x.Map)
				if !ok || !strings.HasPrefix(ap, "p0.") {
					return
				}
				what = "map update " + ap
			case *ssa.Call:
				n := an.CalleeName(x)
				if !(strings.Contains(n, "atomic.") && strings.HasSuffix(n, ".Store")) {
					return
				}
				what = "atomic store"
			default:
				return
			}
			key := k + " writes receiver state: " + what
			switch {
			case listed[in]:
				c.Ok("C13-R3", key, in.Pos(), "one of the listed commits (checked below)")
			case commitExceptions[k+" "+what] != "":
				c.Ok("C13-R3", key, in.Pos(), "exception: %s", commitExceptions[k+" "+what])
			default:
				c.Bad("C13-R3", key, in.Pos(), "a refresh function writes live state at a point that is not one of the commits checked for success-only reachability")
			}
		})
	}
	for _, sp := range specs {
		fn := c.Fn(sp.fn)
		if fn == nil {
			c.Und("C13-R3", sp.fn+" commit: "+sp.what, token.NoPos, "anchor function not found")
			continue
		}
		c.Analysed(sp.fn)
		ins := sp.find(fn)
		if len(ins) == 0 {
			c.Und("C13-R3", sp.fn+" commit: "+sp.what, fn.Pos(), "the commit instruction was not found in the function")
			continue
		}
		for _, in := range ins {
			c13Commit(c, "C13-R3", fn, sp.what, in, ignorable)
		}
	}
	// sc.Err() in Storage.Reset is a method returning error, covered by the generic rule above
	// addRuleList keeps the previous list on each error edge
	if fn := c.Fn("filter/filterstorage.(*Default).addRuleList"); fn != nil {
		for _, ci := range an.Calls(fn) {
			call, ok := ci.(*ssa.Call)
			if !ok {
				continue
			}
			name := an.Short(an.CalleeName(call))
			if name != "filter/internal/rulelist.NewRefreshable" && name != "(*filter/internal/rulelist.Refreshable).Refresh" {
				continue
			}
			key := "addRuleList keeps previous on failure of " + name
			// the success edges of the call's error check
			var succ []an.CondEdge
			for _, b := range fn.Blocks {
				ifi, isIf := b.Instrs[len(b.Instrs)-1].(*ssa.If)
				if !isIf {
					continue
				}
				for _, br := range []bool{true, false} {
					e := an.CondEdge{If: ifi, Branch: br}
					if an.ErrNonNilEdgeOf(e, call) {
						succ = append(succ, an.CondEdge{If: ifi, Branch: !br})
					}
				}
			}
			// every path from the call to the function's exit either takes the
			// success edge or re-installs the previous version: no exit is
			// reachable while avoiding both (this also covers failure branches
			// that test the error in another way, e.g. errors.Is)
			ok2 := len(succ) > 0 && !exitAvoiding(call, succ, func(in ssa.Instruction) bool {
				cc, isCall := in.(ssa.CallInstruction)
				return isCall && an.IsCall(cc, "(*filter/filterstorage.Default).setPrevRuleList")
			})
			c.Check(ok2, "C13-R3", key, call.Pos(), "every failure path re-installs the previous version of the list",
				"a failure path leaves the round's map without the previous version of this list: after a failed download the list stops filtering")
		}
	}

	// ---- R4 index conversion
	decide(c, "C13-R4", "filter/filterstorage.(*indexResp).toInternal", an.DecideCfg{
		Dom: an.Domain{"len(p0.Filters)": an.Ints(0, 1, 2), "v0": an.Bools, "v1": an.Bools, "u0": an.Bools, "u1": an.Bools},
		OnCall: func(it *an.Interp, name string, args []an.AV) (an.AV, bool) {
			idx := func(a an.AV) string {
				if strings.Contains(a.String(), "[0]") {
					return "0"
				}
				return "1"
			}
			switch {
			case strings.HasSuffix(name, "indexRespFilter).validate"):
				if it.Feature("v" + idx(args[0])).IsTrue() {
					return an.Nil(), true
				}
				return an.NonNil("invalid"), true
			case strings.HasSuffix(name, "agdhttp.ParseHTTPURL"):
				i := idx(args[0])
				if it.Feature("u" + i).IsTrue() {
					return an.AV{Kind: an.KTuple, Tup: []an.AV{an.NonNil("url" + i), an.Nil()}}, true
				}
				return an.AV{Kind: an.KTuple, Tup: []an.AV{an.Nil(), an.NonNil("badurl")}}, true
			case name == "fmt.Errorf":
				return an.NonNil("wrapped"), true
			}
			return an.AV{}, false
		},
		Expect: func(f an.Features, o an.AOutcome) string {
			n := f.I("len(p0.Filters)")
			want := 0
			for i := int64(0); i < n; i++ {
				if f.B(fmt.Sprintf("v%d", i)) && f.B(fmt.Sprintf("u%d", i)) {
					want++
				}
			}
			if o.Exit != "return" || len(o.Ret) != 1 {
				return "a list result"
			}
			got := 0
			if o.Ret[0].Kind == an.KSlice {
				got = len(o.Ret[0].Tup)
			} else if s := o.Ret[0].String(); s != "nil" && !strings.HasPrefix(s, "nonnil:make#") {
				return "a list of the valid entries; got " + s
			}
			if got == want {
				return ""
			}
			return fmt.Sprintf("%d valid entries kept (invalid ones skipped, the rest still converted); got %d", want, got)
		},
	})
}

// c13IndexEntries: between decoding and validation the entries of the rule-list
// index are only reordered; nothing removes one before each has been
// validated on its own (a damaged entry that is dropped or that displaces a
// valid one with the same key makes a served list disappear).
func c13IndexEntries(c *an.Ctx) {
	const k = "filter/filterstorage.(*Default).loadIndex"
	fn := c.Fn(k)
	if fn == nil {
		c.Und("C13-R13", k+" keeps every index entry", token.NoPos, "anchor not found")
		return
	}
	c.Analysed(k)
	bad := ""
	n := 0
	for _, call := range an.Calls(fn) {
		name := an.CalleeName(call)
		if i := strings.Index(name, "["); i >= 0 {
			name = name[:i]
		}
		if !strings.HasPrefix(name, "slices.") {
			continue
		}
		n++
		switch name {
		case "slices.SortStableFunc", "slices.SortFunc":
		default:
			bad = name + " is applied to the index entries"
		}
	}
	an.Instrs(fn, func(in ssa.Instruction) {
		if st, ok := in.(*ssa.Store); ok {
			if typ, field, _, ok := an.FieldOf(st.Addr); ok && typ == "filter/filterstorage.indexResp" && field == "Filters" {
				bad = "the list of entries is replaced after decoding"
			}
		}
	})
	c.Check(bad == "", "C13-R13", k+" keeps every index entry", fn.Pos(),
		fmt.Sprintf("the decoded entries are only sorted (%d slices.* calls)", n), bad+": an entry can be removed before it was validated")
}

// c13IndexDecode: an index (rule lists, blocked services) that cannot be
// decoded is rejected as a whole, whatever the kind of the decoding error; a
// partially decoded index is never applied.
func c13IndexDecode(c *an.Ctx) {
	for _, k := range []string{"filter/internal/serviceblock.(*Filter).loadIndex", "filter/filterstorage.(*Default).loadIndex"} {
		decide(c, "C13-R15", k, an.DecideCfg{
			Dom: an.Domain{"loaderr": an.Bools, "decodeerr": an.Bools},
			OnCall: func(it *an.Interp, name string, args []an.AV) (an.AV, bool) {
				switch {
				case strings.HasSuffix(name, "refreshable.Refreshable).Refresh"):
					if it.Feature("loaderr").IsTrue() {
						return an.AV{Kind: an.KTuple, Tup: []an.AV{an.CStr(""), an.NonNil("loadErr")}}, true
					}
					return an.AV{Kind: an.KTuple, Tup: []an.AV{an.Sym("text"), an.Nil()}}, true
				case strings.HasSuffix(name, "json.Decoder).Decode"):
					if it.Feature("decodeerr").IsTrue() {
						return an.NonNil("decodeErr"), true
					}
					return an.Nil(), true
				case strings.HasSuffix(name, "json.NewDecoder"):
					return an.NonNil("decoder"), true
				case strings.HasSuffix(name, "strings.NewReader"):
					return an.NonNil("reader"), true
				case name == "fmt.Errorf":
					return an.NonNil("wrapped"), true
				case strings.HasPrefix(name, "slices.Sort"):
					return an.Nil(), true
				}
				return an.AV{}, false
			},
			Expect: func(f an.Features, o an.AOutcome) string {
				if len(o.Ret) != 2 {
					return "two results"
				}
				fail := f.B("loaderr") || f.B("decodeerr")
				if fail != (o.Ret[0].Kind == an.KNil && o.Ret[1].Kind != an.KNil) {
					return fmt.Sprintf("rejected=%v (any load or decoding error rejects the whole index); got %s", fail, o.RetString())
				}
				return ""
			},
		})
	}
}

// c13AcceptedBeforeCommit: refreshFromURL replaces the cache file as soon as a
// non-empty body of acceptable size has arrived.  A consumer that can still
// reject that text afterwards (a decoder, a scanner) keeps its previous state
// in memory, but the rejected text is what a restart will load (RefreshInitial
// accepts the cache file whatever its age).  Unless the download routine hands
// the text to the consumer before it returns success, every consumer whose
// error result depends on the text is such a site.
func c13AcceptedBeforeCommit(c *an.Ctx) {
	const rule = "C13-R16"
	const refrKey = "filter/internal/refreshable.(*Refreshable).refreshFromURL"
	refr := c.Fn(refrKey)
	if refr == nil {
		c.Und(rule, "download routine", token.NoPos, "anchor %s not found", refrKey)
		return
	}
	c.Analysed(refrKey)
	// a say for the consumer: a dynamic call (function-typed field or interface method of the refreshable) that is
	// given the text or its bytes before the routine returns
	hook := ""
	for _, call := range an.Calls(refr) {
		if an.StaticCallee(call) != nil || call.Common().IsInvoke() && len(call.Common().Args) == 0 {
			continue
		}
		if _, isGo := call.(*ssa.Go); isGo {
			continue
		}
		for _, a := range call.Common().Args {
			if b, ok := a.Type().Underlying().(*types.Basic); ok && b.Kind() == types.String {
				hook = c.Prog.Pos(call.Pos())
			} else if s, ok := a.Type().Underlying().(*types.Slice); ok && isBasicKind(s.Elem(), types.Uint8) {
				hook = c.Prog.Pos(call.Pos())
			}
		}
	}
	// the calls whose error does not depend on the text
	contentIndependent := map[string]string{
		"filterlist.NewRuleStorage": "fails only for two lists with the same ID; the text is compiled lazily, rule by rule, and bad rules are skipped",
	}
	n := 0
	for _, fn := range c.Prog.AllFns {
		if !c.Prog.InRepo(fn) || c.Prog.IsTestFile(fn.Pos()) || !strings.HasPrefix(an.FnKey(fn), "filter/") {
			continue
		}
		for _, call := range an.Calls(fn) {
			if !strings.HasSuffix(an.CalleeName(call), "refreshable.Refreshable).Refresh") {
				continue
			}
			cv, ok := call.(*ssa.Call)
			if !ok {
				continue
			}
			n++
			c.Analysed(an.FnKey(fn))
			key := an.FnKey(fn) + " cannot reject a download that has already replaced the cache file"
			rejects := c13TextRejections(fn, cv)
			var bad []string
			for _, r := range rejects {
				name := an.CalleeName(r)
				exc := false
				for suffix, why := range contentIndependent {
					if strings.HasSuffix(name, suffix) {
						exc = true
						c.Except(rule, name+" in "+an.FnKey(fn), why)
					}
				}
				if !exc {
					bad = append(bad, fmt.Sprintf("%s (%s)", an.Short(name), c.Prog.Pos(r.Pos())))
				}
			}
			sort.Strings(bad)
			switch {
			case len(bad) == 0:
				c.Ok(rule, key, call.Pos(), "no step after the download can fail on the text (%d fallible steps fed by it, all independent of its content)", len(rejects))
			case hook != "":
				c.Ok(rule, key, call.Pos(), "the download routine hands the text to the consumer before it returns (%s); later rejections: %s", hook, strings.Join(bad, ", "))
			default:
				c.Bad(rule, key, call.Pos(), "the text is rejected after refreshFromURL has committed it: %s; the rejected file is what the next start loads (acceptStale)", strings.Join(bad, ", "))
			}
		}
	}
	if n < 4 {
		c.Und(rule, "consumers of the refreshable", token.NoPos, "only %d callers of (*Refreshable).Refresh found in the filter packages (expected rule lists, hash prefixes and the two indexes)", n)
	}
}

func isBasicKind(t types.Type, k types.BasicKind) bool {
	b, ok := t.Underlying().(*types.Basic)
	return ok && b.Kind() == k
}

// c13TextRejections returns the calls in fn that are fed (directly or through
// values built from it) by the first result of call and have an error result
// that is used.
func c13TextRejections(fn *ssa.Function, call *ssa.Call) (out []ssa.CallInstruction) {
	tainted := map[ssa.Value]bool{}
	root := func(v ssa.Value) ssa.Value {
		for {
			switch x := v.(type) {
			case *ssa.FieldAddr:
				v = x.X
			case *ssa.IndexAddr:
				v = x.X
			case *ssa.Slice:
				v = x.X
			case *ssa.ChangeType:
				v = x.X
			case *ssa.MakeInterface:
				v = x.X
			default:
				return v
			}
		}
	}
	for _, r := range *call.Referrers() {
		if ex, ok := r.(*ssa.Extract); ok && ex.Index == 0 {
			tainted[ex] = true
		}
	}
	isT := func(v ssa.Value) bool { return tainted[v] || tainted[root(v)] }
	seen := map[ssa.CallInstruction]bool{}
	for changed := true; changed; {
		changed = false
		mark := func(v ssa.Value) {
			if !tainted[v] {
				tainted[v] = true
				changed = true
			}
		}
		an.Instrs(fn, func(in ssa.Instruction) {
			switch x := in.(type) {
			case *ssa.Store:
				if isT(x.Val) {
					mark(root(x.Addr))
				}
			case *ssa.UnOp:
				if isT(x.X) {
					mark(x)
				}
			case *ssa.Phi:
				for _, e := range x.Edges {
					if isT(e) {
						mark(x)
					}
				}
			case *ssa.Convert:
				if isT(x.X) {
					mark(x)
				}
			case *ssa.ChangeType:
				if isT(x.X) {
					mark(x)
				}
			case *ssa.MakeInterface:
				if isT(x.X) {
					mark(x)
				}
			case *ssa.Slice:
				if isT(x.X) {
					mark(x)
				}
			case *ssa.Extract:
				if isT(x.Tuple) && !isErrorType(x.Type()) {
					mark(x)
				}
			case *ssa.Call:
				if x == call {
					return
				}
				fed := false
				for _, a := range x.Common().Args {
					if isT(a) {
						fed = true
					}
				}
				if x.Common().IsInvoke() && isT(x.Common().Value) {
					fed = true
				}
				if !fed {
					return
				}
				if strings.Contains(an.CalleeName(x), "slog.Logger)") || strings.HasPrefix(an.CalleeName(x), "fmt.") {
					return
				}
				if !isErrorType(x.Type()) {
					mark(x)
				}
				if ev, has := errorResult(x); has && ev != nil && !seen[x] {
					if refs := ev.Referrers(); refs != nil && len(*refs) > 0 {
						seen[x] = true
						out = append(out, x)
					}
				}
			}
		})
	}
	return out
}

// c13StaleFlags: a component's start-up refresh accepts the copies on disk
// whatever their age (acceptStale == true), its periodic refresh does not
// (false).  With false at start-up a list whose server is down disappears,
// although a complete copy is on disk, and an unreachable index keeps the
// process from starting; with true in the periodic refresh nothing is ever
// downloaded again.  Every call of a method named refresh / Refresh that takes
// a constant bool, made from a method named RefreshInitial or Refresh, is examined.
func c13StaleFlags(c *an.Ctx, rule string) (examined int) {
	for _, fn := range c.AllFns {
		if fn.Blocks == nil || c.IsTestFile(fn.Pos()) || !c.Prog.InRepo(fn) || !strings.HasPrefix(an.FnKey(fn), "filter/") {
			continue
		}
		name := fn.Name()
		if name != "RefreshInitial" && name != "Refresh" {
			continue
		}
		for _, call := range an.Calls(fn) {
			callee := an.StaticCallee(call)
			if callee == nil || callee.Name() != "refresh" && callee.Name() != "Refresh" {
				continue
			}
			args := call.Common().Args
			var flag *ssa.Const
			for i, a := range args {
				if k, ok := a.(*ssa.Const); ok && isBasicKind(k.Type(), types.Bool) && i < len(callee.Params) && strings.Contains(strings.ToLower(callee.Params[i].Name()), "stale") {
					flag = k
				}
			}
			if flag == nil {
				continue
			}
			examined++
			c.Analysed(an.FnKey(fn))
			want := name == "RefreshInitial"
			got := constant.BoolVal(flag.Value)
			c.Check(got == want, rule, fmt.Sprintf("%s passes acceptStale=%v to %s", an.FnKey(fn), want, an.Short(an.FnKey(callee))), call.Pos(),
				"the start-up refresh accepts the copies on disk whatever their age, the periodic one does not",
				fmt.Sprintf("acceptStale is %v here: %s", got, map[bool]string{
					true:  "the periodic refresh never downloads anything again once a cache file exists",
					false: "at start-up a list whose server is down is dropped although a complete copy is on disk, and an unreachable index keeps the process from starting",
				}[got]))
		}
	}
	return examined
}

// c13CacheNames: the rule lists named by the index, the two indexes, the
// safe-search lists and the hash-prefix lists keep their copies in one
// directory, each under a name of its own; a rule-list key from the index is
// turned into a file name as it is.  The fixed names (every constant that
// reaches the name operand of a filepath.Join whose result becomes a CachePath)
// must therefore be refused as rule-list keys by the index validation: a key
// equal to one of them makes a rule list and another component overwrite each
// other's copy.  The names refused are the string constants the validation of
// the index key (the functions that hand the key to filter.NewID, and their
// callees in the package) compares it with.
func c13CacheNames(c *an.Ctx, rule string) {
	const key = "rule-list keys cannot name another component's cache file"
	fixed := map[string]string{}
	dynamic := 0
	for _, fn := range c.AllFns {
		if fn.Blocks == nil || c.IsTestFile(fn.Pos()) || !c.Prog.InRepo(fn) {
			continue
		}
		k := an.FnKey(fn)
		if !strings.HasPrefix(k, "cmd.") && !strings.HasPrefix(k, "filter/") {
			continue
		}
		an.Instrs(fn, func(in ssa.Instruction) {
			st, ok := in.(*ssa.Store)
			if !ok {
				return
			}
			if _, f, _, ok := an.FieldOf(st.Addr); !ok || f != "CachePath" {
				return
			}
			join, ok := st.Val.(*ssa.Call)
			if !ok || an.CalleeName(join) != "path/filepath.Join" {
				return
			}
			w := &an.Walker{P: c.Prog,
				Visit: func(v ssa.Value) bool {
					if k, ok := v.(*ssa.Const); ok && k.Value != nil && k.Value.Kind() == constant.String {
						if s := constant.StringVal(k.Value); s != "" {
							fixed[s] = c.Pos(st.Pos())
						}
						return true
					}
					if ld, ok := v.(*ssa.UnOp); ok && ld.Op == token.MUL {
						if typ, f, _, ok := an.FieldOf(ld.X); ok && strings.HasSuffix(typ, "filterstorage.indexData") && f == "id" {
							dynamic++
							return true
						}
					}
					return false
				}}
			// the name operands: everything but the directory
			if sl, ok := join.Call.Args[0].(*ssa.Slice); ok {
				if al, ok := sl.X.(*ssa.Alloc); ok && al.Referrers() != nil {
					for _, r := range *al.Referrers() {
						if ia, ok := r.(*ssa.IndexAddr); ok {
							if i, ok := an.ConstInt(ia.Index); ok && i > 0 {
								for _, s := range an.Stores(ia) {
									w.Walk(s.Val)
								}
							}
						}
					}
				}
			}
		})
	}
	if len(fixed) < 5 || dynamic == 0 {
		c.Und(rule, key, token.NoPos, "found %d fixed cache-file names and %d uses of an index key as a file name (expected the two indexes, two safe-search lists, three hash-prefix lists, and addRuleList)", len(fixed), dynamic)
		return
	}
	// what the validation of the key refuses
	refused := map[string]bool{}
	var validators []*ssa.Function
	for _, fn := range c.Prog.FnsMatching("filter/filterstorage.") {
		if fn.Blocks == nil || c.IsTestFile(fn.Pos()) {
			continue
		}
		for _, call := range an.Calls(fn) {
			if n := an.CalleeName(call); strings.HasSuffix(n, "filter/internal.NewID") || strings.HasSuffix(n, "filter.NewID") {
				validators = append(validators, fn)
			}
		}
	}
	seen := map[*ssa.Function]bool{}
	var collect func(fn *ssa.Function, d int)
	collect = func(fn *ssa.Function, d int) {
		if fn == nil || fn.Blocks == nil || seen[fn] || d > 2 {
			return
		}
		seen[fn] = true
		c.Analysed(an.FnKey(fn))
		an.Instrs(fn, func(in ssa.Instruction) {
			switch x := in.(type) {
			case *ssa.BinOp:
				if x.Op != token.EQL && x.Op != token.NEQ {
					return
				}
				for _, op := range []ssa.Value{x.X, x.Y} {
					if k, ok := an.Unwrap(op).(*ssa.Const); ok && k.Value != nil && k.Value.Kind() == constant.String {
						refused[constant.StringVal(k.Value)] = true
					}
				}
			case *ssa.Call:
				if callee := an.StaticCallee(x); callee != nil && strings.HasPrefix(an.FnKey(callee), "filter/filterstorage.") {
					collect(callee, d+1)
				}
			}
		})
	}
	for _, v := range validators {
		collect(v, 0)
	}
	var missing []string
	for name, where := range fixed {
		if !refused[name] {
			missing = append(missing, fmt.Sprintf("%q (cache file made at %s)", name, where))
		}
	}
	sort.Strings(missing)
	c.Check(len(missing) == 0 && len(validators) > 0, rule, key, token.NoPos,
		fmt.Sprintf("%d fixed cache-file names, each refused as a rule-list key by the index validation", len(fixed)),
		"the index validation accepts as rule-list keys the names "+strings.Join(missing, ", ")+": a rule list with such a key and the component that owns the name overwrite each other's copy on disk, and the next start loads the wrong content")
}

// c13IndexFieldsPlain: an index is decoded as a whole, entry by entry
// validation comes afterwards, and an invalid entry must not keep the valid
// ones from being applied.  That only works while the decoded entry types hold
// plain strings (and lists of strings): a field of a type with an unmarshaler of
// its own (a URL, an ID type) makes json.Decode fail for the whole index when one
// entry is malformed.  Every field of the JSON entry types of the rule-list and
// blocked-service indexes is a string or a slice of strings.
func c13IndexFieldsPlain(c *an.Ctx, rule string) {
	for _, tn := range [][2]string{{"filter/filterstorage", "indexRespFilter"}, {"filter/internal/serviceblock", "indexRespService"}} {
		key := tn[0] + "." + tn[1] + " is decoded into plain strings"
		pkg := c.Pkg(tn[0])
		if pkg == nil {
			c.Und(rule, key, token.NoPos, "package not loaded")
			continue
		}
		obj := pkg.Types.Scope().Lookup(tn[1])
		if obj == nil {
			c.Und(rule, key, token.NoPos, "type not found")
			continue
		}
		st, ok := obj.Type().Underlying().(*types.Struct)
		if !ok {
			c.Und(rule, key, obj.Pos(), "not a struct")
			continue
		}
		var bad []string
		for i := 0; i < st.NumFields(); i++ {
			f := st.Field(i)
			t := f.Type()
			if sl, isSlice := t.(*types.Slice); isSlice {
				t = sl.Elem()
			}
			// a string, or a named string type without a decoding method of its own
			b, isBasic := t.Underlying().(*types.Basic)
			custom := false
			for _, mt := range []types.Type{t, types.NewPointer(t)} {
				ms := types.NewMethodSet(mt)
				for j := 0; j < ms.Len(); j++ {
					if n := ms.At(j).Obj().Name(); n == "UnmarshalJSON" || n == "UnmarshalText" {
						custom = true
					}
				}
			}
			if !isBasic || b.Kind() != types.String || custom {
				bad = append(bad, f.Name()+" "+f.Type().String())
			}
		}
		c.Check(len(bad) == 0, rule, key, obj.Pos(), fmt.Sprintf("%d fields, each a string or a list of strings", st.NumFields()),
			"fields with a decoding of their own: "+strings.Join(bad, ", ")+": one malformed entry makes the decoding of the whole index fail, so the valid entries are not applied (and a restart on the cached copy fails)")
	}
}

// c13URLSwitches: cmd.(*environment).validateHTTPURLs builds a table of
// {url, name, isRequired}; only required entries are checked to be HTTP(S) URLs.
// The hash-prefix and index downloads rely on that check: for a file: URI a
// missing file is read as an empty text and empties the list.  Each entry's
// isRequired is read from the Enabled field that shares the URL field's name
// prefix, from a nil test of the same URL field, or is the constant false.
func c13URLSwitches(c *an.Ctx, rule string) (entries int) {
	k := "cmd.(*environment).validateHTTPURLs"
	fn := c.Prog.Fn(k)
	if fn == nil {
		c.Und(rule, k, token.NoPos, "anchor not found")
		return 99
	}
	c.Analysed(k)
	envField := func(v ssa.Value) string {
		for {
			switch x := v.(type) {
			case *ssa.ChangeType:
				v = x.X
				continue
			case *ssa.Convert:
				v = x.X
				continue
			case *ssa.UnOp:
				if x.Op == token.MUL {
					if t, f, _, ok := an.FieldOf(x.X); ok && strings.HasSuffix(t, "cmd.environment") {
						return f
					}
				}
			}
			return ""
		}
	}
	type entry struct {
		url, req string
		pos      token.Pos
	}
	byAlloc := map[ssa.Value]*entry{}
	var order []ssa.Value
	an.Instrs(fn, func(in ssa.Instruction) {
		st, ok := in.(*ssa.Store)
		if !ok {
			return
		}
		fa, ok := st.Addr.(*ssa.FieldAddr)
		if !ok {
			return
		}
		t, f, _, ok := an.FieldOf(fa)
		if !ok || !strings.HasSuffix(t, "cmd.urlEnvData") {
			return
		}
		e := byAlloc[fa.X]
		if e == nil {
			e = &entry{pos: st.Pos()}
			byAlloc[fa.X] = e
			order = append(order, fa.X)
		}
		switch f {
		case "url":
			e.url = envField(st.Val)
		case "isRequired":
			switch v := st.Val.(type) {
			case *ssa.Const:
				e.req = "const:" + v.Value.String()
			case *ssa.BinOp:
				if v.Op == token.NEQ && an.IsNilConst(v.Y) {
					e.req = "nonnil:" + envField(v.X)
				} else {
					e.req = "?"
				}
			default:
				e.req = "field:" + envField(st.Val)
			}
		}
	})
	for _, a := range order {
		e := byAlloc[a]
		if e.url == "" {
			continue
		}
		entries++
		prefix := strings.TrimSuffix(strings.TrimSuffix(e.url, "URL"), "Index")
		ok := false
		switch {
		case e.req == "const:false", e.req == "nonnil:"+e.url:
			ok = true
		case strings.HasPrefix(e.req, "field:"):
			sw := strings.TrimPrefix(e.req, "field:")
			ok = strings.HasSuffix(sw, "Enabled") && strings.TrimSuffix(sw, "Enabled") == prefix
		}
		c.Check(ok, rule, k+": "+e.url+" is required under its own switch", e.pos,
			"isRequired is "+e.req,
			"isRequired of the entry for "+e.url+" is "+e.req+", not the switch "+prefix+"Enabled of that list: with the list on and the other setting off the URL is not checked at all, and a file: URI (whose missing file reads as an empty list) is accepted")
	}
	return entries
}
